HOOK_COMMITS = ["9d86301"]
NOTES = ("Machine-checked proof in Coq 8.16 over a hand-written model, tied to /repo by a correspondence check on every run. "
         "See DESIGN.md. known_findings.json lists recorded defects; fixed entries suppress nothing.")
NOT_YET = {}
import props
CLAIMS = props.CLAIMS
