HOOK_COMMITS = ["9d86301"]
NOTES = ("Machine-checked proof in Coq 8.16 over a hand-written model, tied to /repo by a correspondence check on every run. "
         "See DESIGN.md. known_findings.json lists recorded defects; fixed entries suppress nothing.")
NOT_YET = {}
CLAIMS = {
 "C17": {
  "text": "Round trips, bijectivity and the documented register/coil layout are Coq theorems for ALL 16/32/64-bit values, both byte orders, both word orders and all bool vectors (no sampling). The model functions are compared with the real codecs on every run: exhaustively for 16 bit, per-byte-position + structured + random for 32/64 bit and bools.",
  "note": "Trusted: Coq kernel (vm_compute), extraction (ExtrOcamlBasic only), modeld driver, Go harness, VerifEnc* pass-through hooks; floats enter as bit patterns (math.Float*bits trusted, exercised).",
  "technique": "Coq proof (lia over div/mod digit lemmas, list induction) + exhaustive/structured differential correspondence",
 },
 "C06": {
  "text": "Coq theorems: table-driven checksum = bit-serial CRC-16/MODBUS for every byte string; chunk independence; GF(2) linearity; acceptance iff trailer = CRC; every single-bit error, burst <= 16 bits (any length) and double-bit error (frames <= 256 bytes) has non-zero syndrome, hence a corrupted valid frame is never accepted. The complete 2^24-entry step function of the real code is compared with model and reference on every run.",
  "note": "Finite facts are vm_compute sweeps over proved-complete enumerators (2^8, 2^16, 2^19, 64x255). Client-level clauses (never success / recovery) rest on the RTU client model (see level text when extended). Trusted: kernel VM, extraction, harness, VerifCRC* hooks.",
  "technique": "Coq proof (finite sweeps lifted by forallb_forall, linearity, induction) + exhaustive differential correspondence of the CRC step function",
 },
}
