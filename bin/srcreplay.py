"""In-Coq replay of the TRANSLATED SOURCE against the real code: for a sample
of the cases the harness ran on the implementation, the GoLite interpreter
(Model/GoLite.v) runs the function of Gen/SrcPure.v (translated from /repo on
this run) inside the kernel's VM on the same arguments and must return what the
implementation returned. A disagreement means the translator or the GoLite
semantics misrepresents the Go code (or the code changed in a way the
translation does not follow): the source-level theorems would then be about
the wrong object."""
import os, subprocess, random

VERIF = os.path.dirname(os.path.dirname(os.path.abspath(__file__)))
COQ = os.environ.get("VERIF_COQ") or os.path.join(VERIF, "coq")


def hexbytes(h):
    if h in ("-", ""):
        return []
    return ["%d" % int(h[i:i + 2], 16) for i in range(0, len(h), 2)]


def vbytes(h):
    return "vbytes [%s]" % "; ".join(hexbytes(h))


def vnums(csv):
    if csv in ("-", ""):
        return "vbytes []"
    return "vbytes [%s]" % "; ".join("%d" % int(x, 16) for x in csv.split(","))


def vbools(bits):
    if bits in ("-", ""):
        return "vbools []"
    return "vbools [%s]" % "; ".join("true" if c == "1" else "false" for c in bits)


def vn(tok, base=16):
    return "VN %d" % int(tok, base)


def term(scn, inp, impl):
    """Coq boolean term for one case, or None when the scenario is not replayed"""
    t = inp.split(" ") if inp else []
    two = {"enc16": "uint16ToBytes"}
    three = {"enc32": "uint32ToBytes", "enc32f": "float32ToBytes", "enc64": "uint64ToBytes", "enc64f": "float64ToBytes"}
    dec3 = {"dec32s": "bytesToUint32s", "dec32sf": "bytesToFloat32s", "dec64s": "bytesToUint64s", "dec64sf": "bytesToFloat64s"}
    if scn in two:
        return 'src_check "%s" [VN %s; %s] (Ok [%s])' % (two[scn], t[0], vn(t[1]), vbytes(impl))
    if scn in three:
        return 'src_check "%s" [VN %s; VN %s; %s] (Ok [%s])' % (three[scn], t[0], t[1], vn(t[2]), vbytes(impl))
    if scn == "dec16":
        exp = "Panic" if impl == "panic" else "Ok [%s]" % vn(impl)
        return 'src_check "bytesToUint16" [VN %s; %s] (%s)' % (t[0], vbytes(t[1]), exp)
    if scn == "dec16s":
        exp = "Panic" if impl == "panic" else "Ok [%s]" % vnums(impl)
        return 'src_check "bytesToUint16s" [VN %s; %s] (%s)' % (t[0], vbytes(t[1]), exp)
    if scn in dec3:
        exp = "Panic" if impl == "panic" else "Ok [%s]" % vnums(impl)
        return 'src_check "%s" [VN %s; VN %s; %s] (%s)' % (dec3[scn], t[0], t[1], vbytes(t[2]), exp)
    if scn == "enc16s":
        return 'src_check "uint16sToBytes" [VN %s; %s] (Ok [%s])' % (t[0], vnums(t[1]), vbytes(impl.split(" ")[0]))
    if scn == "encb":
        return 'src_check "encodeBools" [%s] (Ok [%s])' % (vbools(t[0]), vbytes(impl))
    if scn == "decb":
        exp = "Panic" if impl == "panic" else "Ok [%s]" % vbools(impl)
        return 'src_check "decodeBools" [VN %d; %s] (%s)' % (int(t[0]), vbytes(t[1]), exp)
    if scn == "crc":
        # VerifCRC: init; add(in); value() -> "<lo hi> <state>"
        v, st = impl.split(" ")
        return ('andb (src_check "crc.add" [VN 65535; %s] (Ok [VN %d])) (src_check "crc.value" [VN %d] (Ok [VN %d; %s]))'
                % (vbytes(t[0]), int(st, 16), int(st, 16), int(st, 16), vbytes(v)))
    if scn == "timing":
        # t1 of VerifSerialTimings is serialCharTime(rate)
        rate = int(t[0])
        if rate == 0:
            return None
        return 'src_check "serialCharTime" [VN %d] (Ok [VN %d])' % (rate, int(impl.split(" ")[0]))
    if scn == "explen":
        fc = int(t[0])
        outs = impl.split(",")
        parts = []
        for b2 in (0, 1, 2, 125, 250, 251, 252, 253, 254, 255):
            o = outs[b2]
            if o == "e":
                parts.append('src_check_last "expectedResponseLenth" [VN %d; VN %d] (VN (Proofs.SrcMiscP.code_of "ErrProtocolError"))' % (fc, b2))
            else:
                parts.append('src_check "expectedResponseLenth" [VN %d; VN %d] (Ok [VN %d; VN 0])' % (fc, b2, int(o)))
        return "forallb (fun b => b) [%s]" % "; ".join(parts)
    if scn in ("cutcc", "cc"):
        return xport_term(scn, t, impl)
    return None


def nlist(bs):
    return "[%s]" % "; ".join("%d" % b for b in bs)


XPORT_CLASS = {"timeout": 1, "io": 2, "protocol": 3, "badcrc": 4, "short": 5}


def xport_term(scn, t, impl):
    """cutcc: fr unit e w end k stream op... -> result writes consumed   (the call sees stream[:k])
       cc   : fr unit e w end chunks op...  -> result writes consumed   (the chunks are concatenated)"""
    fr, end = t[0], t[4]
    if scn == "cutcc":
        stream = bytes.fromhex(t[6])[:int(t[5])]
    else:
        stream = bytes.fromhex("".join(x for x in t[5].split(",") if x != "-")) if t[5] != "-" else b""
    res, writes, consumed = impl.split(" ")
    if writes == "-" or "," in writes or res == "panic":
        return None          # nothing sent (refused locally), or more than one write
    w = bytes.fromhex(writes)
    cls = 0
    if res.startswith("err:"):
        cls = XPORT_CLASS.get(res[4:], 0)
    e = {"c": "Wire.Closed", "r": "Wire.Reset", "s": "Wire.Stall"}[end]
    if fr == "m":
        if len(w) < 8:
            return None
        txn = w[0] * 256 + w[1]
        return "xport_tcp %s %s %d %d %d %s %s %d %d" % (e, nlist(stream), (txn - 1) % 65536, w[6], w[7], nlist(w[8:]),
                                                         nlist(w), int(consumed), cls)
    if fr == "r":
        if len(w) < 4:
            return None
        return "xport_rtu %s %s %d %d %s %s %d %d" % (e, nlist(stream), w[0], w[1], nlist(w[2:-2]), nlist(w), int(consumed), cls)
    return None


def replay_src(scenarios, per_scn=40):
    """extra hook: replay up to per_scn cases of each of the given scenarios"""
    def extra(tmp, tier, seed, goenv):
        cases_p = os.path.join(tmp, "cases.tsv")
        if not os.path.exists(cases_p):
            return {"evaluations": 0, "bad": [], "note": "source replay skipped: no case file"}
        by = {}
        with open(cases_p) as fh:
            for line in fh:
                parts = line.rstrip("\n").split("\t")
                if len(parts) == 3 and parts[0] in scenarios:
                    by.setdefault(parts[0], []).append(parts)
        rnd = random.Random(seed)
        k = per_scn * (5 if tier == "thorough" else 1)
        picked = []
        for scn in sorted(by):
            ls = by[scn]
            # long inputs make the unary-fuel interpreter slow: keep them moderate
            ls = [c for c in ls if len(c[1]) < 1400]
            rnd.shuffle(ls)
            picked += ls[:k]
        terms = []
        kept = []
        for (scn, inp, impl) in picked:
            try:
                tm = term(scn, inp, impl)
            except Exception:
                tm = None
            if tm:
                terms.append(tm)
                kept.append((scn, inp, impl))
        if not terms:
            return {"evaluations": 0, "bad": [], "note": "source replay: no case of %s in this run" % (sorted(scenarios),)}
        vf = os.path.join(tmp, "SrcReplay.v")
        with open(vf, "w") as fh:
            fh.write("From Coq Require Import List NArith String Bool.\nImport ListNotations.\n"
                     "From Modbus Require Import Model.GoLite Gen.SrcPure Replay.SrcReplayLib Replay.SrcReplayXport.\n"
                     "From Modbus Require Model.Wire.\n"
                     "From Modbus Require Proofs.SrcMiscP.\n"
                     "Open Scope string_scope.\nOpen Scope N_scope.\n"
                     "Definition cases : list bool := [\n  " + ";\n  ".join(terms) + "].\n"
                     "Definition M := Eval vm_compute in failing 0 cases.\nPrint M.\n")
        try:
            p = subprocess.run(["coqc", "-Q", os.path.join(COQ, "theories"), "Modbus", "-noglob", vf], cwd=tmp,
                               stdout=subprocess.PIPE, stderr=subprocess.STDOUT, text=True, timeout=900)
        except subprocess.TimeoutExpired:
            return {"evaluations": 0, "bad": [(0, "srcreplay", "coqc", "timeout", "terminates", "-")],
                    "note": "source replay timed out"}
        out = p.stdout
        bad = []
        if p.returncode != 0:
            bad.append((0, "srcreplay", "coqc SrcReplay.v", "coqc failed: " + out[-600:], "evaluates", "-"))
        else:
            flat = " ".join(out.split())
            if "M = []" not in flat:
                import re
                idx = [int(x) for x in re.findall(r"(\d+)%nat|(?<=[\[; ])(\d+)(?=[;\]])", flat) for x in x if x]
                for i in idx[:5]:
                    if i < len(kept):
                        scn, inp, impl = kept[i]
                        bad.append((i, "srcreplay:" + scn, inp, impl,
                                    "the translated source (GoLite interpreter) returns something else", "-"))
                if not bad:
                    bad.append((0, "srcreplay", "", out[-300:], "M = []", "-"))
        return {"evaluations": len(terms), "bad": bad,
                "note": "%d cases of %s replayed in Coq on the source translated from /repo (GoLite interpreter, vm_compute) "
                        "and compared with what the implementation returned: %s"
                        % (len(terms), ",".join(sorted(by)), "all agree" if not bad else "DISAGREEMENT")}
    return extra
