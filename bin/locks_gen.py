"""Pre-build generator shared by C08 and the lock-discipline clause of C10:
re-extracts the lock skeletons from the Go sources (harness/cmd/locksum)."""
import os, subprocess, shutil, tempfile


def regen_locks(verif_dir, repo_dir, goenv):
    """C08 / C10b pre-build generator: extract the lock skeletons of ModbusClient
    (client.go) and ModbusServer (server.go) with harness/cmd/locksum and rewrite
    coq/theories/Gen/{ClientLocks,ServerLocks}.v when their content changed.
    Returns None on success, an error string otherwise."""
    hd = os.path.join(verif_dir, "harness")
    gen = os.path.join(os.environ.get("VERIF_COQ") or os.path.join(verif_dir, "coq"), "theories", "Gen")
    os.makedirs(gen, exist_ok=True)
    tmp = tempfile.mkdtemp(prefix="locksum-")
    try:
        try:
            p = subprocess.run(["go", "run", "./cmd/locksum", "-repo", repo_dir, "-out", tmp], cwd=hd, env=goenv,
                               stdout=subprocess.PIPE, stderr=subprocess.STDOUT, text=True, timeout=600)
        except Exception as e:  # noqa
            return "locksum could not be run: %r" % (e,)
        if p.returncode != 0:
            return "locksum failed (rc=%d): %s" % (p.returncode, p.stdout[-2000:])
        for name in ("ClientLocks.v", "ServerLocks.v"):
            src = os.path.join(tmp, name)
            if not os.path.exists(src):
                return "locksum did not write %s: %s" % (name, p.stdout[-1000:])
            new = open(src).read()
            dst = os.path.join(gen, name)
            old = open(dst).read() if os.path.exists(dst) else None
            if old != new:
                with open(dst, "w") as fh:
                    fh.write(new)
        return None
    finally:
        shutil.rmtree(tmp, ignore_errors=True)
