"""In-Coq replay of a sample of the `cc` correspondence cases: the kernel's VM
evaluates the model on the same inputs and must agree with what the extracted
OCaml model answered (cross-check of extraction + OCaml glue, DESIGN 5.2).
The token -> Coq term translation below is written independently of the OCaml
one (ocaml/lib_wire.ml)."""
import os, re, subprocess, random

VERIF = os.path.dirname(os.path.dirname(os.path.abspath(__file__)))
COQ = os.environ.get("VERIF_COQ") or os.path.join(VERIF, "coq")


def n(tok):
    return "%d" % int(tok, 16)


def nlist(vals):
    return "[" + "; ".join(vals) + "]"


def hexbytes(h):
    if h in ("-", ""):
        return []
    return ["%d" % int(h[i:i + 2], 16) for i in range(0, len(h), 2)]


def expand(tok):
    if tok.startswith("rep:"):
        _, k, v = tok.split(":")
        return int(k), v
    return None


def bools(tok):
    r = expand(tok)
    if r:
        return ["true" if r[1] == "1" else "false"] * r[0]
    if tok in ("-", ""):
        return []
    return ["true" if c == "1" else "false" for c in tok]


def nums(tok):
    r = expand(tok)
    if r:
        return [n(r[1])] * r[0]
    if tok in ("-", ""):
        return []
    return [n(x) for x in tok.split(",")]


def bytes_tok(tok):
    r = expand(tok)
    if r:
        return [n(r[1])] * r[0]
    return hexbytes(tok)


def rt(tok):
    return {"0": "Holding", "1": "InputReg"}.get(tok, "BadRegType")


def op_term(t):
    k = t[0]
    if k == "ReadCoils":
        return "OpReadBools false %s %s" % (n(t[1]), n(t[2]))
    if k == "ReadCoil":
        return "OpReadBools false %s 1" % n(t[1])
    if k == "ReadDiscreteInputs":
        return "OpReadBools true %s %s" % (n(t[1]), n(t[2]))
    if k == "ReadDiscreteInput":
        return "OpReadBools true %s 1" % n(t[1])
    if k == "ReadRegisters":
        return "OpReadRegs 1 %s %s %s" % (n(t[1]), n(t[2]), rt(t[3]))
    if k == "ReadRegister":
        return "OpReadRegs 1 %s 1 %s" % (n(t[1]), rt(t[2]))
    if k in ("ReadUint32s", "ReadFloat32s"):
        return "OpReadRegs 2 %s %s %s" % (n(t[1]), n(t[2]), rt(t[3]))
    if k in ("ReadUint32", "ReadFloat32"):
        return "OpReadRegs 2 %s 1 %s" % (n(t[1]), rt(t[2]))
    if k in ("ReadUint64s", "ReadFloat64s"):
        return "OpReadRegs 4 %s %s %s" % (n(t[1]), n(t[2]), rt(t[3]))
    if k in ("ReadUint64", "ReadFloat64"):
        return "OpReadRegs 4 %s 1 %s" % (n(t[1]), rt(t[2]))
    if k == "ReadBytes":
        return "OpReadBytes false %s %s %s" % (n(t[1]), n(t[2]), rt(t[3]))
    if k == "ReadRawBytes":
        return "OpReadBytes true %s %s %s" % (n(t[1]), n(t[2]), rt(t[3]))
    if k == "WriteCoil":
        return "OpWriteCoil %s %s" % (n(t[1]), "true" if t[2] == "1" else "false")
    if k == "WriteCoils":
        return "OpWriteCoils %s %s" % (n(t[1]), nlist(bools(t[2])))
    if k == "WriteRegister":
        return "OpWriteReg %s %s" % (n(t[1]), n(t[2]))
    if k == "WriteRegisters":
        return "OpWriteRegs 1 %s %s" % (n(t[1]), nlist(nums(t[2])))
    if k in ("WriteUint32s", "WriteFloat32s"):
        return "OpWriteRegs 2 %s %s" % (n(t[1]), nlist(nums(t[2])))
    if k in ("WriteUint32", "WriteFloat32"):
        return "OpWriteRegs 2 %s [%s]" % (n(t[1]), n(t[2]))
    if k in ("WriteUint64s", "WriteFloat64s"):
        return "OpWriteRegs 4 %s %s" % (n(t[1]), nlist(nums(t[2])))
    if k in ("WriteUint64", "WriteFloat64"):
        return "OpWriteRegs 4 %s [%s]" % (n(t[1]), n(t[2]))
    if k == "WriteBytes":
        return "OpWriteBytes false %s %s" % (n(t[1]), nlist(bytes_tok(t[2])))
    if k == "WriteRawBytes":
        return "OpWriteBytes true %s %s" % (n(t[1]), nlist(bytes_tok(t[2])))
    raise ValueError(k)


ERR = {"timeout": "ETimeout", "params": "EParams", "protocol": "EProtocol", "badcrc": "EBadCRC",
       "short": "EShortFrame", "badunit": "EBadUnit", "unknownproto": "EUnknownProto", "io": "EIO"}


def result_term(s):
    if s == "panic":
        return "Panic"
    if s == "outoffuel":
        return "OutOfFuel"
    if s.startswith("err:exc:"):
        return "Err (EExc %s)" % s[8:]
    if s.startswith("err:excunk:"):
        return "Err (EExcUnknown %s)" % s[11:]
    if s.startswith("err:"):
        return "Err %s" % ERR[s[4:]]
    assert s.startswith("ok:")
    v = s[3:]
    if v == "u":
        return "Ok VUnit"
    kind, body = v.split(":", 1)
    if kind == "b":
        return "Ok (VBools %s)" % nlist(bools(body))
    if kind == "n":
        return "Ok (VNums %s)" % nlist(nums(body))
    if kind == "y":
        return "Ok (VBytes %s)" % nlist(hexbytes(body))
    raise ValueError(s)


def case_term(inp, model_out):
    t = inp.split(" ")
    fr = "FMbap" if t[0] == "m" else "FRtu"
    cfg = "(mkcfg %s %s %s)" % (n(t[1]), "BigE" if t[2] == "1" else "LittleE", "HighFirst" if t[3] == "1" else "LowFirst")
    e = {"s": "Stall", "c": "Closed", "r": "Reset"}[t[4]]
    stream = []
    if t[5] != "-":
        for ch in t[5].split(","):
            stream += hexbytes(ch)
    op = op_term(t[6:])
    res, writes, consumed = model_out.split(" ")
    ws = [] if writes == "-" else [nlist(hexbytes(w)) for w in writes.split(",")]
    return "cc_check %s %s (%s) %s %s (%s) %s %s" % (fr, cfg, op, e, nlist(stream), result_term(res), nlist(ws), consumed)


def replay_cc(tmp, tier, seed, goenv):
    """extra: evaluate a sample of this run's `cc` cases with vm_compute inside Coq"""
    cases_p, model_p = os.path.join(tmp, "cases.tsv"), os.path.join(tmp, "model.tsv")
    if not (os.path.exists(cases_p) and os.path.exists(model_p)):
        return {"evaluations": 0, "bad": [], "note": "in-Coq replay skipped: no case files"}
    want = 120 if tier == "quick" else 1500
    rows = []
    with open(cases_p) as fc, open(model_p) as fm:
        for lc, lm in zip(fc, fm):
            p = lc.rstrip("\n").split("\t")
            if len(p) == 3 and p[0] == "cc" and len(lc) < 3000:
                # keep the generated Coq terms small: no long repeated lists
                if any(int(m) > 300 for m in re.findall(r"rep:(\d+):", p[1])):
                    continue
                rows.append((p[1], lm.split("\t")[0]))
    rnd = random.Random(seed)
    if len(rows) > want:
        rows = rnd.sample(rows, want)
    terms = []
    kept = []
    for inp, mo in rows:
        try:
            terms.append(case_term(inp, mo))
            kept.append((inp, mo))
        except Exception:
            continue
    if not terms:
        return {"evaluations": 0, "bad": [], "note": "in-Coq replay: no cc cases in this run"}
    src = ("From Modbus Require Import Base.Bytes Model.Encoding Model.Wire Model.Client Replay.ReplayLib.\n"
           "Definition cases : list bool := [\n  " + ";\n  ".join(terms) + "].\n"
           "Definition bad := Eval vm_compute in failing 0 cases.\nPrint bad.\n")
    vf = os.path.join(tmp, "ReplayCases.v")
    with open(vf, "w") as fh:
        fh.write(src)
    p = subprocess.run(["coqc", "-Q", os.path.join(COQ, "theories"), "Modbus", "-noglob", vf], cwd=tmp,
                       stdout=subprocess.PIPE, stderr=subprocess.STDOUT, text=True, timeout=1500)
    out = p.stdout.replace("\n", " ")
    bad = []
    m = re.search(r"bad\s*=\s*\[(.*?)\]", out)
    if p.returncode != 0 or not m:
        bad.append((0, "coqreplay", "coqc ReplayCases.v", "failed: " + p.stdout[-400:], "evaluates", "-"))
    else:
        idxs = [int(x) for x in re.findall(r"\d+", m.group(1))]
        for i in idxs[:5]:
            inp, mo = kept[i]
            # the two evaluators of the model disagree: extraction / glue problem, not a property failure
            bad.append((i, "coqreplay-cc", inp, "modeld: " + mo, "vm_compute disagrees", "-"))
    return {"evaluations": len(terms), "bad": bad,
            "note": "%d cc cases re-evaluated inside Coq with vm_compute and compared with the extracted model's answers: %s"
                    % (len(terms), "all agree" if not bad else "%d disagree" % len(bad))}


# ------------------------------------------------------------------ server sessions

BEH = {"ok": "ShOk", "short": "ShShort", "long": "ShLong", "nil": "ShNil", "eproto": "ShProto", "eother": "ShOther"}


def beh_term(t):
    if t in BEH:
        return BEH[t]
    if t.startswith("e") and t[1:].isdigit():
        return "(ShErr %s)" % t[1:]
    return "ShOk"


KIND = {"c": "HCoils", "d": "HDiscrete", "h": "HHolding", "i": "HInput"}


def event_term(ev):
    if ev == "X":
        return "EvClosed"
    if ev.startswith("R:"):
        return "EvResp %s" % nlist(hexbytes(ev[2:]))
    assert ev.startswith("C:")
    _, kind, unit, addr, qty, wr, args = ev.split(":", 6)
    if kind in ("c", "d"):
        b, r = nlist(bools(args)), "[]"
    else:
        b, r = "[]", nlist(nums(args))
    return "EvCall (mkhreq %s %s %s %s %s %s %s)" % (KIND[kind], unit, addr, qty, "true" if wr == "1" else "false", b, r)


def srv_term(inp, model_out):
    send, chunks, script = inp.split(" ")
    e = {"s": "Stall", "c": "Closed", "r": "Reset"}[send]
    stream = []
    if chunks != "-":
        for ch in chunks.split(","):
            stream += hexbytes(ch)
    sc = [] if script == "-" else [beh_term(t) for t in script.split(",")]
    evs = [event_term(x) for x in model_out.split(";")] if model_out else []
    return "srv_check %s %s %s %s" % (nlist(sc), e, nlist(stream), nlist(evs))


def replay_srv(tmp, tier, seed, goenv):
    """extra: evaluate a sample of this run's `srv` cases with vm_compute inside Coq"""
    cases_p, model_p = os.path.join(tmp, "cases.tsv"), os.path.join(tmp, "model.tsv")
    if not (os.path.exists(cases_p) and os.path.exists(model_p)):
        return {"evaluations": 0, "bad": [], "note": "in-Coq replay skipped: no case files"}
    want = 120 if tier == "quick" else 1500
    rows = []
    with open(cases_p) as fc, open(model_p) as fm:
        for lc, lm in zip(fc, fm):
            p = lc.rstrip("\n").split("\t")
            if len(p) == 3 and p[0] == "srv" and len(lc) < 3000:
                rows.append((p[1], lm.split("\t")[0]))
    rnd = random.Random(seed)
    if len(rows) > want:
        rows = rnd.sample(rows, want)
    terms, kept = [], []
    for inp, mo in rows:
        try:
            terms.append(srv_term(inp, mo))
            kept.append((inp, mo))
        except Exception:
            continue
    if not terms:
        return {"evaluations": 0, "bad": [], "note": "in-Coq replay: no srv cases in this run"}
    src = ("From Modbus Require Import Base.Bytes Model.Encoding Model.Wire Model.Server Model.ScriptHandler Replay.ReplayLib.\n"
           "Definition cases : list bool := [\n  " + ";\n  ".join(terms) + "].\n"
           "Definition bad := Eval vm_compute in failing 0 cases.\nPrint bad.\n")
    vf = os.path.join(tmp, "ReplaySrv.v")
    with open(vf, "w") as fh:
        fh.write(src)
    p = subprocess.run(["coqc", "-Q", os.path.join(COQ, "theories"), "Modbus", "-noglob", vf], cwd=tmp,
                       stdout=subprocess.PIPE, stderr=subprocess.STDOUT, text=True, timeout=1500)
    out = p.stdout.replace("\n", " ")
    bad = []
    m = re.search(r"bad\s*=\s*\[(.*?)\]", out)
    if p.returncode != 0 or not m:
        bad.append((0, "coqreplay", "coqc ReplaySrv.v", "failed: " + p.stdout[-400:], "evaluates", "-"))
    else:
        for i in [int(x) for x in re.findall(r"\d+", m.group(1))][:5]:
            inp, mo = kept[i]
            bad.append((i, "coqreplay-srv", inp, "modeld: " + mo, "vm_compute disagrees", "-"))
    return {"evaluations": len(terms), "bad": bad,
            "note": "%d srv cases re-evaluated inside Coq with vm_compute and compared with the extracted model's answers: %s"
                    % (len(terms), "all agree" if not bad else "%d disagree" % len(bad))}
