"""Pre-build generator: re-translates the pure Go functions of the library into
GoLite abstract syntax trees (harness/cmd/gosrc -> coq/theories/Gen/SrcPure.v).
Shared by the properties whose Coq files state theorems about the translated
source (C06, C17, ...)."""
import os, subprocess, shutil, tempfile

# file:functions translated into the one program `src_pure`
SRC_SPEC = ("crc.go:*;encoding.go:*;modbus.go:mapExceptionCodeToError,mapErrorToExceptionCode;"
            "rtu_transport.go:expectedResponseLenth,serialCharTime,rtuTransport.assembleRTUFrame;"
            "tcp_transport.go:tcpTransport.assembleMBAPFrame;"
            "client.go:registerCount,ModbusClient.SetUnitId,ModbusClient.SetEncoding,ModbusClient.encoding,"
            "ModbusClient.executeRequest,ModbusClient.readBools,ModbusClient.readRegisters,ModbusClient.writeRegisters,"
            "ModbusClient.ReadCoils,ModbusClient.ReadCoil,ModbusClient.ReadDiscreteInputs,ModbusClient.ReadDiscreteInput,"
            "ModbusClient.ReadRegisters,ModbusClient.ReadRegister,"
            "ModbusClient.ReadUint32s,ModbusClient.ReadUint32,ModbusClient.ReadFloat32s,ModbusClient.ReadFloat32,"
            "ModbusClient.ReadUint64s,ModbusClient.ReadUint64,ModbusClient.ReadFloat64s,ModbusClient.ReadFloat64,"
            "ModbusClient.WriteCoil,ModbusClient.WriteCoils,ModbusClient.WriteRegister,ModbusClient.WriteRegisters,"
            "ModbusClient.WriteUint32s,ModbusClient.WriteUint32,ModbusClient.WriteFloat32s,ModbusClient.WriteFloat32,"
            "ModbusClient.WriteUint64s,ModbusClient.WriteUint64,ModbusClient.WriteFloat64s,ModbusClient.WriteFloat64;"
            "server.go:ModbusServer.handleTransport;"
            "tcp_transport.go:tcpTransport.readMBAPFrame,tcpTransport.readResponse,tcpTransport.ReadRequest,"
            "tcpTransport.WriteResponse,tcpTransport.ExecuteRequest,tcpTransport.Close;"
            "rtu_transport.go:rtuTransport.Close,rtuTransport.ExecuteRequest,rtuTransport.ReadRequest,"
            "rtuTransport.WriteResponse,rtuTransport.readRTUFrame,discard;"
            "udp.go:udpSockWrapper.Read,udpSockWrapper.Write,udpSockWrapper.Close,udpSockWrapper.SetDeadline;"
            "tls_utils.go:tlsSockWrapper.Read,tlsSockWrapper.Write,tlsSockWrapper.Close,tlsSockWrapper.SetDeadline;"
            "serial.go:serialPortWrapper.Read,serialPortWrapper.Write,serialPortWrapper.SetDeadline,serialPortWrapper.Close")
# the transport layer: sockets, serial links and the clock are external
SRC_TRANSPORT = ("tcpTransport.readMBAPFrame,tcpTransport.readResponse,tcpTransport.ReadRequest,"
                 "tcpTransport.WriteResponse,tcpTransport.ExecuteRequest,tcpTransport.Close,"
                 "rtuTransport.Close,rtuTransport.ExecuteRequest,rtuTransport.ReadRequest,"
                 "rtuTransport.WriteResponse,rtuTransport.readRTUFrame,discard,"
                 "udpSockWrapper.Read,udpSockWrapper.Write,udpSockWrapper.Close,udpSockWrapper.SetDeadline,"
                 "tlsSockWrapper.Read,tlsSockWrapper.Write,tlsSockWrapper.Close,tlsSockWrapper.SetDeadline,"
                 "serialPortWrapper.Read,serialPortWrapper.Write,serialPortWrapper.SetDeadline,serialPortWrapper.Close")
# functions whose external calls (transport, user handler, socket, clock) thread a state-of-the-world value
SRC_WORLD = "ModbusServer.handleTransport," + SRC_TRANSPORT
# functions translated in signed mode (int / time.Duration as two's-complement patterns, instants as numbers)
SRC_SIGNED = SRC_TRANSPORT


def regen_src(verif_dir, repo_dir, goenv):
    """Returns None on success, an error string otherwise."""
    hd = os.path.join(verif_dir, "harness")
    gen = os.path.join(os.environ.get("VERIF_COQ") or os.path.join(verif_dir, "coq"), "theories", "Gen")
    os.makedirs(gen, exist_ok=True)
    tmp = tempfile.mkdtemp(prefix="gosrc-")
    try:
        try:
            p = subprocess.run(["go", "run", "./cmd/gosrc", "-repo", repo_dir, "-out", tmp, "-name", "SrcPure",
                                "-spec", SRC_SPEC, "-world", SRC_WORLD, "-signed", SRC_SIGNED], cwd=hd, env=goenv,
                               stdout=subprocess.PIPE, stderr=subprocess.STDOUT, text=True, timeout=600)
        except Exception as e:  # noqa
            return "gosrc could not be run: %r" % (e,)
        if p.returncode != 0:
            return "gosrc failed (rc=%d): %s" % (p.returncode, p.stdout[-2000:])
        src = os.path.join(tmp, "SrcPure.v")
        if not os.path.exists(src):
            return "gosrc did not write SrcPure.v: %s" % p.stdout[-1000:]
        new = open(src).read()
        dst = os.path.join(gen, "SrcPure.v")
        old = open(dst).read() if os.path.exists(dst) else None
        if old != new:
            with open(dst, "w") as fh:
                fh.write(new)
        return None
    finally:
        shutil.rmtree(tmp, ignore_errors=True)
