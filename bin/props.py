"""Per-property configuration of bin/check."""
import os, subprocess, concurrent.futures

VERIF = os.path.dirname(os.path.dirname(os.path.abspath(__file__)))
BUILD = os.environ.get("VERIF_BUILD") or os.path.join(VERIF, "build")

TRUSTED_BASE = [
    "Coq 8.16.1 kernel incl. its bytecode VM (vm_compute / vm_cast_no_check); native_compute not used",
    "no axioms: Print Assumptions under every property theorem reports 'Closed under the global context'",
    "extraction: Require Extraction + ExtrOcamlBasic only (bool, option, list, prod, unit, sumbool mapped; nat, positive, N, Z kept as Coq inductives; no Extract Constant / Extract Inductive of our own)",
    "OCaml 4.13.1 compiler and the modeld driver (/verif/ocaml/*.ml: token parsing, int<->N conversion)",
    "Go harness /verif/harness (generators, projection of observables) and the pass-through hooks in /repo/verif_hooks.go",
    "the hand-written Gallina model is tied to the code only by the differential correspondence run",
]


PROPS = {}
CLAIMS = {}

def _load():
    import glob, importlib.util
    d = os.path.join(os.path.dirname(os.path.abspath(__file__)), "props.d")
    for f in sorted(glob.glob(os.path.join(d, "C*.py"))):
        spec = importlib.util.spec_from_file_location("props_" + os.path.basename(f)[:-3], f)
        m = importlib.util.module_from_spec(spec)
        spec.loader.exec_module(m)
        pid = os.path.basename(f)[:-3]
        PROPS[pid] = m.PROP
        if getattr(m, "CLAIM", None):
            CLAIMS[pid] = m.CLAIM

_load()
