"""Per-property configuration of bin/check."""
import os, subprocess, concurrent.futures

VERIF = os.path.dirname(os.path.dirname(os.path.abspath(__file__)))
BUILD = os.path.join(VERIF, "build")

TRUSTED_BASE = [
    "Coq 8.16.1 kernel incl. its bytecode VM (vm_compute / vm_cast_no_check); native_compute not used",
    "no axioms: Print Assumptions under every property theorem reports 'Closed under the global context'",
    "extraction: Require Extraction + ExtrOcamlBasic only (bool, option, list, prod, unit, sumbool mapped; nat, positive, N, Z kept as Coq inductives; no Extract Constant / Extract Inductive of our own)",
    "OCaml 4.13.1 compiler and the modeld driver (/verif/ocaml/*.ml: token parsing, int<->N conversion)",
    "Go harness /verif/harness (generators, projection of observables) and the pass-through hooks in /repo/verif_hooks.go",
    "the hand-written Gallina model is tied to the code only by the differential correspondence run",
]


def crc_step_exhaustive(tmp, tier, seed, goenv):
    """C06: compare the whole one-byte CRC transition function (2^16 x 2^8)"""
    table = os.path.join(tmp, "crcstep.bin")
    implrun = os.path.join(BUILD, "bin", "implrun")
    modeld = os.path.join(BUILD, "ocaml", "modeld")
    p = subprocess.run([implrun, "crc-step-table", table], env=goenv, stdout=subprocess.PIPE,
                       stderr=subprocess.STDOUT, text=True)
    if p.returncode != 0:
        return {"evaluations": 0, "bad": [(0, "crc_step_table", "", "implrun failed", p.stdout[-500:], "-")]}
    n = os.cpu_count() or 4
    size = 65536 // n

    def work(i):
        lo, hi = i * size, (65536 if i == n - 1 else (i + 1) * size)
        q = subprocess.run([modeld, "crc_step_table", table, str(lo), str(hi)], stdout=subprocess.PIPE, text=True)
        return q.stdout.strip()
    with concurrent.futures.ThreadPoolExecutor(n) as ex:
        outs = list(ex.map(work, range(n)))
    bad = []
    for o in outs:
        if " bad=0" not in o:
            # the step function differs from the model and from the bit-serial reference: P fails
            bad.append((0, "crc_step_table", o, "impl", "model", "0"))
    os.unlink(table)
    return {"evaluations": 65536 * 256, "bad": bad,
            "note": "crc one-byte transition: all 2^16 states x 2^8 bytes compared with model and bit-serial reference (exhaustive)"}


PROPS = {
    "C17": {
        "coq": ["C17"],
        "exhaustive": False,
        "rule": "16-bit codecs: all 2^16 values x 2 byte orders, both directions (exhaustive). 32/64-bit: "
                "per-byte-position exhaustion over 4 backgrounds, walking ones/zeros, NaN/inf/-0/subnormal patterns "
                "and seeded random values x 4 (byte order, word order) settings, integer and float entry points, "
                "plus ragged inputs that must panic. Bools: all vectors up to 12 bits, every length 0..2001 "
                "(all-true, all-false, one-hot, random), decode with quantities off the byte boundary and past the input.",
        "assumptions": ["math.Float32bits/Float64bits and their inverses are the identity on bit patterns (exercised with NaN payloads and -0)"],
    },
    "C06": {
        "coq": ["C06"],
        "extra": [crc_step_exhaustive],
        "exhaustive": True,
        "rule": "CRC: the complete one-byte transition function (2^24 pairs) is compared exhaustively; whole-string, "
                "chunked and acceptance-test entry points on structured and random strings of length 0..300.",
        "assumptions": [],
    },
}
