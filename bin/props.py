"""Per-property configuration of bin/check."""
import os, subprocess, concurrent.futures

VERIF = os.path.dirname(os.path.dirname(os.path.abspath(__file__)))
BUILD = os.environ.get("VERIF_BUILD") or os.path.join(VERIF, "build")

TRUSTED_BASE = [
    "Coq 8.16.1 kernel incl. its bytecode VM (vm_compute / vm_cast_no_check); native_compute not used",
    "no axioms: Print Assumptions under every property theorem reports 'Closed under the global context'",
    "extraction: Require Extraction + ExtrOcamlBasic only (bool, option, list, prod, unit, sumbool mapped; nat, positive, N, Z kept as Coq inductives; no Extract Constant / Extract Inductive of our own)",
    "OCaml 4.13.1 compiler and the modeld driver (/verif/ocaml/*.ml: token parsing, int<->N conversion)",
    "Go harness /verif/harness (generators, projection of observables) and the pass-through hooks in /repo/verif_hooks.go",
    "the hand-written Gallina model is tied to the code only by the differential correspondence run",
]


REPO = os.environ.get("VERIF_REPO", "/repo")


def build_implrun(out_path, goenv, race=False):
    """builds the harness against the library under check (honours VERIF_REPO like bin/check)"""
    import shutil
    hd = os.path.join(VERIF, "harness")
    cmd = ["go", "build", "-tags", "verif"]
    if race:
        cmd.append("-race")
    if os.path.realpath(REPO) != "/repo":
        bd = os.path.dirname(out_path)
        alt = os.path.join(bd, "go.alt.mod")
        with open(os.path.join(hd, "go.mod")) as fh:
            txt = fh.read().replace("=> /repo", "=> " + os.path.realpath(REPO))
        with open(alt, "w") as fh:
            fh.write(txt)
        shutil.copy(os.path.join(REPO, "go.sum"), os.path.join(bd, "go.alt.sum"))
        cmd.append("-modfile=" + alt)
    p = subprocess.run(cmd + ["-o", out_path, "./cmd/implrun"], cwd=hd, env=goenv,
                       stdout=subprocess.PIPE, stderr=subprocess.STDOUT, text=True)
    return p.returncode == 0, p.stdout


def race_detector_run(prop):
    """extra: re-run the property's harness scenarios under the Go race detector;
    a reported data race is a failing schedule (the property demands race freedom)"""
    def extra(tmp, tier, seed, goenv):
        exe = os.path.join(BUILD, "bin", "implrun-race")
        ok, out = build_implrun(exe, goenv, race=True)
        if not ok:
            return {"evaluations": 0, "bad": [], "note": "race detector unavailable: " + out[-200:].replace("\n", " ")}
        env = dict(goenv, GORACE="halt_on_error=0")
        cases = os.path.join(tmp, "race-cases.tsv")
        p = subprocess.run([exe, "-seed", str(seed + 1), "-tier", "quick", "-out", cases, prop], env=env,
                           stdout=subprocess.PIPE, stderr=subprocess.STDOUT, text=True, timeout=1500)
        n = sum(1 for _ in open(cases)) if os.path.exists(cases) else 0
        bad = []
        if "WARNING: DATA RACE" in p.stdout:
            i = p.stdout.index("WARNING: DATA RACE")
            report = p.stdout[i:i + 1800]
            bad.append((0, "race-detector", prop + " scenarios under -race", report, "no data race", "0"))
        return {"evaluations": n, "bad": bad,
                "note": "%d %s scenario runs repeated under the Go race detector (-race): %s" %
                        (n, prop, "DATA RACE reported" if bad else "no race reported")}
    return extra


PROPS = {}
CLAIMS = {}

def _load():
    import glob, importlib.util
    d = os.path.join(os.path.dirname(os.path.abspath(__file__)), "props.d")
    for f in sorted(glob.glob(os.path.join(d, "C*.py"))):
        spec = importlib.util.spec_from_file_location("props_" + os.path.basename(f)[:-3], f)
        m = importlib.util.module_from_spec(spec)
        spec.loader.exec_module(m)
        pid = os.path.basename(f)[:-3]
        PROPS[pid] = m.PROP
        if getattr(m, "CLAIM", None):
            CLAIMS[pid] = m.CLAIM

_load()
