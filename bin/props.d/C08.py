import os, sys, subprocess, re

sys.path.insert(0, os.path.dirname(os.path.dirname(os.path.abspath(__file__))))
from locks_gen import regen_locks  # pre-build generator shared with C10 (bin/locks_gen.py)

VERIF = os.path.dirname(os.path.dirname(os.path.dirname(os.path.abspath(__file__))))
BUILD = os.environ.get("VERIF_BUILD") or os.path.join(VERIF, "build")
REPO = os.environ.get("VERIF_REPO", "/repo")


def race_pairs(tmp, tier, seed, goenv):
    """C08: every unordered pair of public client methods (30 request methods,
    SetUnitId, SetEncoding, Close) run concurrently on one client under the Go
    race detector (harness/cmd/racepairs built with -race). A report names the
    pair: a failing schedule of the property (replay input = the pair)."""
    hd = os.path.join(VERIF, "harness")
    exe = os.path.join(BUILD, "bin", "racepairs")
    iters = 40 if tier == "quick" else 300
    env = dict(goenv, CGO_ENABLED="1")
    cmd = ["go", "build", "-race", "-tags", "verif"]
    if os.path.realpath(REPO) != "/repo":
        # a scratch worktree of the library is under check: alternative replace target
        os.makedirs(os.path.dirname(exe), exist_ok=True)
        alt = os.path.join(os.path.dirname(exe), "go.alt.mod")
        with open(os.path.join(hd, "go.mod")) as fh:
            txt = fh.read().replace("=> /repo", "=> " + os.path.realpath(REPO))
        with open(alt, "w") as fh:
            fh.write(txt)
        import shutil
        shutil.copy(os.path.join(REPO, "go.sum"), os.path.join(os.path.dirname(exe), "go.alt.sum"))
        cmd.append("-modfile=" + alt)
    try:
        p = subprocess.run(cmd + ["-o", exe, "./cmd/racepairs"], cwd=hd, env=env,
                           stdout=subprocess.PIPE, stderr=subprocess.STDOUT, text=True, timeout=900)
    except Exception as e:  # noqa
        return {"evaluations": 0, "bad": [], "note": "race detector unavailable (go build -race could not be run: %r); "
                "the pairs were only run without it" % (e,)}
    if p.returncode != 0:
        msg = p.stdout[-400:].replace("\n", " ")
        if re.search(r"-race requires cgo|cgo|gcc|C compiler|not supported", p.stdout):
            return {"evaluations": 0, "bad": [],
                    "note": "race detector unavailable in this environment (go build -race failed: %s); "
                            "the pairs were only run without it" % msg}
        # the program does not build against the current /repo: the correspondence is broken
        return {"evaluations": 0, "bad": [(0, "racepairs", "go build -race ./cmd/racepairs", "build failed: " + msg,
                                           "builds", "-")],
                "note": "racepairs does not build"}
    bad = []
    npairs = 0
    done = set()
    # after a report the run is resumed pair by pair so that every racy pair is listed (at most 5)
    env_run = dict(env, GORACE="halt_on_error=1")
    try:
        q = subprocess.run([exe, "-iters", str(iters), "-seed", str(seed)], env=env_run, stdout=subprocess.PIPE,
                           stderr=subprocess.PIPE, text=True, timeout=1500)
    except subprocess.TimeoutExpired:
        return {"evaluations": 0, "bad": [(0, "racepairs", "all pairs", "timeout", "terminates", "0")],
                "note": "racepairs timed out"}
    pairs = re.findall(r"^PAIR (\S+) (\S+)$", q.stdout, re.M)
    npairs = len(pairs)
    for m in re.finditer(r"^ANOMALY (\S+) (\S+) (.*)$", q.stdout, re.M):
        bad.append((len(bad), "racepair", "%s %s" % (m.group(1), m.group(2)), m.group(3), "ok", "0"))
    if "DATA RACE" in q.stderr or q.returncode == 66:
        a, b = pairs[-1] if pairs else ("?", "?")
        where = " / ".join(re.findall(r"modbus\.\(\*ModbusClient\)\.(\w+)\(\)", q.stderr)[:2])
        bad.append((len(bad), "racepair", "%s %s" % (a, b), "DATA RACE (%s)" % where, "no race", "0"))
    elif q.returncode not in (0, 3):
        bad.append((len(bad), "racepair", "all pairs", "rc=%d %s" % (q.returncode, q.stderr[-300:].replace("\n", " ")),
                    "ok", "0"))
    return {"evaluations": npairs * iters, "bad": bad[:5],
            "note": "race detector: %d unordered pairs of public client methods (30 request methods, SetUnitId, SetEncoding, "
                    "Close) x %d iterations on one shared client, go build -race, GORACE=halt_on_error=1: %s"
                    % (npairs, iters, "no report" if not bad else "%d report(s)" % len(bad))}


PROP = {
    "coq": ["C08", "C08w", "C08g"],
    "confirm_scenarios": ['concgarble'],
    "pre": [regen_locks],
    "extra": [race_pairs],
    "exhaustive": False,
    "rule": "One real client on a scripted connection shared by goroutines: every unordered pair of the 30 request methods + "
            "SetUnitId + SetEncoding from two goroutines, and seeded random sets from 8 goroutines (1..4 calls each, Close "
            "optionally last), 50 iterations per case with Gosched jitter; the fake device checks per Write call: one whole "
            "MBAP frame, no other request outstanding, request content names its address; every caller checks that its reply "
            "names its own request. Separately every pair (also with Close) runs under the race detector. The lock skeleton "
            "the theorems are about is re-extracted from client.go before the Coq build. Scenario concslow: the same shared "
            "client behind a SLOW device (every request answered correctly after 35..60 % of the request timeout, so that "
            "callers queue for the client longer than the timeout: each of the 30 request methods + SetUnitId + SetEncoding in "
            "turn is the call that has queued behind at least four exchanges, 6..8 goroutines, each going on with another "
            "request) and seeded random sets with latencies from 5 % to 150 % of the timeout (the caller gives up, the stale "
            "reply arrives during a later exchange), Close optionally last: a request is outstanding from its Write call "
            "until its reply has been taken off the socket or the i/o deadline armed for it has passed (one-sided: no verdict "
            "depends on the speed of the machine); no request may be written before that, never two goroutines in Read, "
            "every call returns its own reply or a time-out; the recorded wire events must pass the extracted check "
            "cw_atomic (Model/ConcWire.v), which accepts the wire of every interleaving of the lock skeleton (theorems C08w). "
            "Scenario concgarble: 2..6 goroutines (reads, writes, SetUnitId, SetEncoding) share one client over an RTU-framed "
            "link (scripted rtuovertcp connection, loopback rtuovertcp and rtuoverudp devices; 9600..115200 bps, timeout 3 s) "
            "whose device garbles some replies - one wrong bit in the body or the CRC, a function code no reply carries, each "
            "also with line noise behind the frame, a frame cut short, silence, exception replies - and answers the exchange "
            "after a garbled one one maximum frame time + 150..350 ms late (the next caller was queued for the client): each "
            "way of garbling in turn answered to the first call of goroutines that start together, and seeded random sets; a "
            "request is outstanding until its whole answer has been taken off the link or the deadline armed for it has "
            "passed, no request may be written before that, never two goroutines in Read, one whole frame per Write call; "
            "every caller must be handed what the answer to ITS request decides and every request must be the model's frame "
            "(cg_expected of the extracted Model/ConcGarble.v: one client_call per call on a quiet line; theorems C08g: that "
            "is what the exchanges return in every order), the wire events must pass cw_atomic.",
    "assumptions": [
        "the Go memory model (an Unlock happens before the next Lock returns) and sync.Mutex are trusted",
        "the extractor harness/cmd/locksum (go/parser + go/ast) is trusted to report every access to the shared fields "
        "and every use of the mutex it cannot interpret; it is cross-checked by the race detector runs",
        "schedules of the dynamic runs are sampled by the Go scheduler, not enumerated",
        "fields written only by NewClient (conf, logger, transportType) are treated as immutable; a write to them inside a "
        "method is reported by the extractor",
    ],
    "trusted": ["harness/cmd/locksum (lock-skeleton extractor, stdlib go/parser + go/ast)",
                "Go race detector (supporting evidence only)"],
}

CLAIM = {
    "text": "Coq theorems, generic over any number of threads and every interleaving (induction over executions): threads whose "
            "flat action sequences are sequentially well bracketed enjoy mutual exclusion in every reachable configuration; "
            "every access (shared field read/write, frame write, reply read, transport close) is made by the holder of the "
            "mutex; at most one request is outstanding and its sender holds the mutex; the event following a frame write is "
            "the reply read of the same thread (contiguity: one frame = one Write call, nothing in between); the k-th reply "
            "is consumed by the sender of the k-th request; any two accesses by different threads are separated by an Unlock "
            "of the first and a later Lock of the second (release/acquire edge), hence no data race on endianness, wordOrder, "
            "unitId, transport. A structured-to-flat theorem lifts the syntactic check to all paths (all branches, loop "
            "iterations, inlined calls, deferred unlocks), and the check is discharged by vm_compute on the lock skeleton "
            "re-extracted from client.go on every run (all 34 exported methods).",
    "note": "partial: the theorems are about the extracted lock skeleton (Lock/Unlock/field accesses/exchange per method), not "
            "about Go semantics: the Go memory model, sync.Mutex, the extractor and the single-Write-per-frame reading of "
            "tcp_transport.go/rtu_transport.go are trusted; the race detector runs of all method pairs and the scripted-"
            "connection runs (frame integrity, outstanding requests, own reply) are supporting evidence on sampled schedules. "
            "Open is covered by the skeleton but not run dynamically (it dials).",
    "technique": "Coq proof (invariants over all interleavings, structured-to-flat soundness of the lock-discipline check) + "
                 "source-extracted lock skeleton checked by vm_compute + race-detector and scripted-connection runs",
}
