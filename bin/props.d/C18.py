PROP = {
    "coq": ["C18"],
    "exhaustive": False,
    "rule": "Scenario alias: for both framings (MBAP, RTU over a scripted connection), all four encodings and the eight write calls taking "
            "a slice (WriteBytes, WriteRawBytes, WriteCoils, WriteRegisters, WriteUint32s, WriteUint64s, WriteFloat32s, WriteFloat64s): "
            "the complete grid len 0..9 x spare capacity 0..3 x offset 0..2 (sentinel-filled backing array with cells before the offset "
            "and beyond the capacity), long arguments around the protocol limits (up to 300 bytes / 2000 coils, random spare capacity) and "
            "random geometries with random content; the call is made twice with the same slice; observables: the WHOLE backing array "
            "afterwards, whether both transmitted frames are identical (MBAP transaction id set aside), the first frame, both results. "
            "Scenario stable: seeded histories of 3..10 calls on one client (slice-returning reads of every kind with valid, missing, "
            "corrupted or foreign-frame-first replies; writes whose argument IS an earlier result; other calls); every returned slice is "
            "kept and re-compared, spare capacity included, with its first snapshot after every later call; the model runs the same "
            "history on its heap and re-reads the earlier result slices.",
    "assumptions": [
        "Go language semantics of slices as modelled in Model/Heap.v: append stores in place iff len + n <= cap and otherwise allocates "
        "(the growth policy is a universally quantified argument of every theorem), make allocates a fresh array, a slice expression "
        "shares the array; arrays that are unreachable are never observed (garbage collection is transparent)",
        "the net.Conn given to the client honours the io.Reader/io.Writer contracts (Write does not modify or retain its argument, Read "
        "stores only into the buffer it is given); the scripted connection of the harness copies on Write and Feed",
        "single caller goroutine per client (the calls hold the client lock); the caller does not store into slices it was returned",
    ],
}

CLAIM = {
  "text": "Coq theorems over a heap/slice model of the client calls (arrays, Go slice headers, append in place iff it fits, every "
          "capacity growth policy), for EVERY call, argument geometry (offset, length, capacity, odd/even, with/without spare capacity), "
          "encoding, framing, peer behaviour and heap: every array that existed before a call is identical after it - whole arrays, so "
          "neither the contents nor the spare capacity of any slice the caller holds changes (also when the call fails or panics half-way); "
          "the bytes a call transmits are those of the value-level client model (C01) applied to the argument's content, hence the same "
          "call with the same slice sends the same bytes again, directly or after any history; whatever a call returns lives in an array "
          "allocated during that very call, and for every history of calls and caller allocations every earlier result (contents and "
          "spare capacity) reads the same after any number of later events. The pinned upstream writeBytes is kept in the model and "
          "refuted in Coq by two evaluated witnesses (finding F4: little-endian WriteBytes swaps the caller's bytes, odd length with spare "
          "capacity writes the pad byte into the caller's array). The model is compared with the real client on every run: whole backing "
          "array after two calls, frames, results; histories with earlier results re-read and re-used as arguments.",
  "note": "Model follows the tree with fix F4 (3f9fcea). partial: (1) receive buffers of frames the transport skips or rejects, the RTU "
          "resynchronisation buffer (discard) and the two-level allocation of the float decoders are left out of the model (garbage at "
          "once, never returned); encodeBools / uintNToBytes are modelled as 'allocate, then fill the new array' rather than store by "
          "store; (2) the theorem linking the heap model to the value-level model covers the transmitted frames; that the returned "
          "values equal the value-level results (C02) is checked by the harness on every run (model output = implementation output), "
          "not proved; (3) Go's runtime (allocator, append growth, GC) is language semantics assumed as modelled: only 'in place iff it "
          "fits' is used. Trusted: kernel, extraction, harness, scripted connection.",
  "technique": "Coq proof (frame rule over a state+panic monad: calls store only into arrays allocated by themselves; Hoare-style "
               "functional specification of the request builders linking to the C01 model; induction over histories; vm_compute "
               "witnesses for the pinned code) + differential correspondence on slice geometries and call histories",
}
