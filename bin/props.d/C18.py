import os, sys
sys.path.insert(0, os.path.dirname(os.path.dirname(os.path.abspath(__file__))))
from srcgen import regen_src  # pre-build generator: Go source -> Gen/SrcPure.v
PROP = {
    "pre": [regen_src],
    "coq": ["C18", "C18b", "C18c", "C12t"],
    "exhaustive": False,
    "rule": "Scenario alias: for both framings (MBAP, RTU over a scripted connection), all four encodings and the eight write calls taking "
            "a slice (WriteBytes, WriteRawBytes, WriteCoils, WriteRegisters, WriteUint32s, WriteUint64s, WriteFloat32s, WriteFloat64s): "
            "the complete grid len 0..9 x spare capacity 0..3 x offset 0..2 (sentinel-filled backing array with cells before the offset "
            "and beyond the capacity), long arguments around the protocol limits (up to 300 bytes / 2000 coils, random spare capacity) and "
            "random geometries with random content; the call is made twice with the same slice; observables: the WHOLE backing array "
            "afterwards, whether both transmitted frames are identical (MBAP transaction id set aside), the first frame, both results. "
            "Scenario stable: seeded histories of 3..10 calls on one client (slice-returning reads of every kind with valid, missing, "
            "corrupted or foreign-frame-first replies; writes whose argument IS an earlier result; other calls); every returned slice is "
            "kept and re-compared, spare capacity included, with its first snapshot after every later call; the model runs the same "
            "history on its heap and re-reads the earlier result slices."
            " The alias scenario also re-reads the caller's storage while the request is on the wire (inside the peer's Write hook): it must be unchanged during the call, not only after it."
            " Scenario stablelife (Model/HeapLife.v, C18c): the later calls on the same client that are NOT requests - Close() and Open(). A client "
            "really opened (NewClient + Open) on tcp, tcp+tls (run-time generated key pair), rtuovertcp, udp and rtuoverudp against a loopback "
            "device that answers every request with the reply of the call in progress (valid, a modbus exception, or - tcp schemes - closing the "
            "connection instead); the grid every transport x every slice-returning read x {Close; Close,Open; Open; Close,Close,Open; "
            "Close,Open,Close} directly after it, then a write whose argument IS the kept result and another read, and seeded histories of 3..10 "
            "steps with Close/Open anywhere; every returned slice is kept and re-compared, spare capacity included, after EVERY later step "
            "(request call, call on the closed handle, Close, Open); observables: per call the projected result and the request frame the "
            "device received, the verdict stable/changed; the model runs the same history with HlClose/HlOpen events on its heap. "
            "(rtu on a serial device is not run: no pty timing in this scenario.)",
    "assumptions": [
        "Go language semantics of slices as modelled in Model/Heap.v: append stores in place iff len + n <= cap and otherwise allocates "
        "(the growth policy is a universally quantified argument of every theorem), make allocates a fresh array, a slice expression "
        "shares the array; arrays that are unreachable are never observed (garbage collection is transparent)",
        "the net.Conn given to the client honours the io.Reader/io.Writer contracts (Write does not modify or retain its argument, Read "
        "stores only into the buffer it is given); the scripted connection of the harness copies on Write and Feed",
        "single caller goroutine per client (the calls hold the client lock); the caller's own code stores into arrays only between "
        "calls, not while a call on the same data is in progress (stores between calls, into any array, are covered: C18b part S)",
    ],
}

CLAIM = {
  "text": "Coq theorems over a heap/slice model of the client calls (arrays, Go slice headers, append in place iff it fits, every "
          "capacity growth policy), for EVERY call, argument geometry (offset, length, capacity, odd/even, with/without spare capacity), "
          "encoding, framing, peer behaviour and heap: every array that existed before a call is identical after it - whole arrays, so "
          "neither the contents nor the spare capacity of any slice the caller holds changes (also when the call fails or panics half-way); "
          "the bytes a call transmits are those of the value-level client model (C01) applied to the argument's content, hence the same "
          "call with the same slice sends the same bytes again, directly or after any history; whatever a call returns lives in an array "
          "allocated during that very call, and for every history of calls and caller allocations every earlier result (contents and "
          "spare capacity) reads the same after any number of later events. C18b: the VALUES are linked to the value-level model too - "
          "c18_result_values: for every read call, heap, reply stream, framing and encoding, the elements of the returned slice read through "
          "the heap after the call are exactly cr_res (client_call ...) (same Ok/Err; decoded lists; for ReadBytes/ReadRawBytes the bytes "
          "after the in-place swap in the receive buffer and the cut of an odd quantity); c18_call_refines_value_model: every call as a "
          "whole (result, frames, unread bytes, transaction counter) equals client_call on the argument's content; "
          "c18_result_values_stable: re-read after any later history the values are still those; hence "
          "c18_returned_slice_answers_request (C02 soundness read off the returned slice) and c18_no_out_of_range (no reply stream makes "
          "a call index or slice out of range). The frame and value theorems also hold for calls that leave behind arbitrary arrays for "
          "the receive buffers of skipped/rejected frames, the RTU discard buffer and the float decoders' temporaries (c18_leftover_*), "
          "and for histories in which the caller's own code stores into any array between calls: the arrays that existed end up exactly "
          "as the caller's stores alone leave them (c18_only_caller_stores_alter, c18_results_stable_but_for_caller_stores, "
          "c18_history_values). The pinned upstream writeBytes is kept in the model and "
          "refuted in Coq by two evaluated witnesses (finding F4: little-endian WriteBytes swaps the caller's bytes, odd length with spare "
          "capacity writes the pad byte into the caller's array). The model is compared with the real client on every run: whole backing "
          "array after two calls, frames, results; histories with earlier results re-read and re-used as arguments. At source level (Properties/C12t.v): tlsSockWrapper.Read as translated writes only buf[0:rlen] and keeps no reference; Close only closes the socket.",
  "note": "Model follows the tree with fix F4 (3f9fcea). partial: (1) the extracted model that is compared with the implementation "
          "(hp_call) leaves out the receive buffers of frames the transport skips or rejects, the RTU resynchronisation buffer (discard) "
          "and the two-level allocation of the float decoders; C18b covers them by proof as ARBITRARY left-over arrays (hj_call, "
          "Model/HeapJunk.v: any number, sizes, contents; present when the reception of the accepted frame starts / once the result is "
          "built) rather than store by store, which is exact for memory that is created by make and never handed out, but this variant "
          "is not itself run against the implementation (with no left-overs it IS hp_call: c18_leftover_none); encodeBools / uintNToBytes "
          "are modelled as 'allocate, then fill the new array' rather than store by store; (2) the link of the returned VALUES to the "
          "value-level results (C02) is now proved (C18b, part V) and no longer rests on the harness; the harness still compares model and "
          "implementation results on every run; caller stores between calls are proved (C18b part S) but not exercised by the harness "
          "(they are the caller's code, not the library's); (3) Go's runtime (allocator, append growth, GC) is language semantics "
          "assumed as modelled: only 'in place iff it fits' is used. Trusted: kernel, extraction, harness, scripted connection.",
  "technique": "Coq proof over Go source functions translated on every run (GoLite deep embedding; sockets, clock, handler as external functions over an abstract world) + Coq proof (frame rule over a state+panic monad: calls store only into arrays allocated by themselves; Hoare-style "
               "functional specification of the request builders and of the receive path (buffer, validation, decoders, in-place "
               "swap) linking to the C01/C02 model: the heap-level call refines client_call; induction over histories, with caller "
               "stores commuting with the restriction to old arrays; vm_compute witnesses for the pinned code) + differential correspondence on slice geometries and call histories",
}
