PROP = {
    "coq": ["C05"],
    "exhaustive": False,
    "rule": "Histories of 2..60 (thorough: 2..200) calls (ReadRegister / ReadUint32, random unit, byte and word order) on ONE real "
            "client attached to ONE scripted connection over MBAP framing; unread peer bytes stay queued for the next call and the "
            "transport's transaction counter runs on. Per request the scripted peer, in random combination: answers on time, late "
            "by 1..8 requests (delivered at the beginning of a later call), twice (same call or late duplicate), never, with an "
            "exception, with an early reply to a later request, with a foreign-protocol frame (carrying the outstanding or a random "
            "id), with a reply built for a random other request number (another transaction id); frames of a call in sent order or "
            "shuffled, delivered frame by frame, as one segment or cut at arbitrary byte positions; 1 in 12 histories has the peer "
            "close or reset the connection at some call. Every protocol-id-0 frame is built as the reply to request number i: id "
            "(i+1) mod 2^16 and a register value encoding i; foreign-protocol frames carry a value that breaks this relation. "
            "Thorough adds one history of 65936 requests across the 16-bit wrap with stale replies injected at distance 1, 65535 "
            "(both passed over) and 65536 (ids coincide: returned; predicted by the model). Observables per call: result class + "
            "returned value, the transmitted frame (hence its transaction id), bytes consumed. P: request number j carries id "
            "(j+1) mod 2^16, a returned value is tagged j mod 2^16 (no misattribution), projected outcome and transmitted frames "
            "equal the model's. Each history is run through the extracted Model/TxnHistory.v (scenario txh) and, in the random "
            "family, also through the hand-threaded client_call handler (scenario ch).",
    "assumptions": ["the scripted connection delivers the scripted bytes in order and reports a deadline error at once when they are "
                    "used up (virtual time): a call that finds no matching frame is observed to end with the timeout error, the "
                    "wall-clock duration of the wait is not measured here"],
}
CLAIM = {
  "text": "Coq theorems over the MBAP client model. One exchange, EVERY byte stream: a returned reply PDU is the content of a frame at a frame boundary whose header has protocol id 0 and the transaction id of the outstanding request (counter + 1 mod 2^16), every frame before it had a foreign protocol id or another id (c05_reply_matches); such frames - any number, any content - change nothing: outcome, unread bytes and counter equal those of the stream without them (c05_skipped_transparent); a stream of only such frames ends in the stream-end error, the timeout for a silent peer, never in a reply (c05_keeps_waiting, c05_call_times_out). Histories on one client/connection (counter and unread bytes carried over), EVERY history: the counter advances by one per transmitted request and the request at any position carries id counter + (requests before it) + 1 mod 2^16 (c05_counter, c05_request_id); ids of requests i and i+k differ for 0<k<65536, coincide at 65536, a fresh client starts at 1. Every finite history where the peer delivers whole frames, each built as the reply to any request i or with a foreign protocol id, in any order, multiplicity and at any later call: request j returns exactly what a lone on-time delivery of the FIRST pending reply with i = j (mod 2^16) would return, else the stream-end error after passing over everything (c05_history); a successful request consumed a frame with its own id (c05_no_misattribution); a late reply to request i is passed over by requests i+1..i+65535 and taken at i+65536 (the bound is exact). The real client is driven through such histories on every run and compared with the model call by call.",
  "note": "partial: 'keeps waiting until the timeout' is untimed here - exhaustion of the delivered bytes on a silent peer is the deadline error (the absolute i/o deadline and its duration belong to the timed model, C07); the harness connection reports the deadline at once. The history theorem is about whole frames (a frame cut in half by a timeout desynchronises the stream and is out of scope per DESIGN.md; the single-exchange theorems cover every byte stream, and cut deliveries are exercised by the harness). MBAP over TCP only: MBAP over UDP/TLS goes through byte-stream adapters (udp.go wraps datagrams into a byte stream) that are not modelled here - the adapter is C12's subject. The 65936-request wrap history runs in the thorough tier only. Trusted: kernel, extraction, harness, scripted connection, VerifNewClientOnConn.",
  "technique": "Coq proof (frame reader inversion, skip-loop fuel independence, induction over histories against a declarative matching rule) + differential correspondence on scripted multi-call histories with index-tagged replies",
}
