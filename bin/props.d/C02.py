PROP = {
    "coq": ["C02"],
    "exhaustive": False,
    "rule": "For generated valid requests of all 30 calls (MBAP and RTU framing): the valid reply, the valid reply plus trailing "
            "bytes, single-field corruptions (txn, protocol id, length, unit, function code, exception bit, byte count, data, echo "
            "fields, CRC, odd counts), truncations, foreign frames before/without the right one, random bytes; all 256 exception "
            "codes from the addressed unit, unit 255 and a third unit; all 256 function codes x 9 short bodies. Observables: "
            "result class + returned values (bit patterns), bytes consumed, bytes written.",
    "assumptions": ["the scripted connection delivers the scripted bytes in order and reports a deadline error once they are used up"],
}
CLAIM = None
