import os, sys
sys.path.insert(0, os.path.dirname(os.path.dirname(os.path.abspath(__file__))))
from srcgen import regen_src
from srcreplay import replay_src  # translated source run in Coq vs the real outputs  # pre-build generator: pure Go functions -> Gen/SrcPure.v
sys.path.insert(0, os.path.dirname(os.path.dirname(os.path.abspath(__file__))))
import coqreplay as _coqreplay

PROP = {
    "coq": ["C02", "Findings", "C02s", "C02t", "C05t", "C06t", "C01t", "C06u"],
    "pre": [regen_src],
    "extra": [_coqreplay.replay_cc, replay_src({'explen', 'cc'}, per_scn=80)],
    "exhaustive": False,
    "rule": "For generated valid requests of all 30 calls (MBAP and RTU framing): the valid reply, the valid reply plus trailing "
            "bytes, single-field corruptions (txn, protocol id, length, unit, function code, exception bit, byte count, data, echo "
            "fields, CRC, odd counts), truncations, foreign frames before/without the right one, random bytes; all 256 exception "
            "codes from the addressed unit, unit 255 and a third unit; all 256 function codes x 9 short bodies. Observables: "
            "result class + returned values (bit patterns), bytes consumed, bytes written.",
    "assumptions": ["the scripted connection delivers the scripted bytes in order and reports a deadline error once they are used up"],
}
CLAIM = {
  "text": "Source level (C02t): the request construction and reply validation methods of client.go are translated from the Go source on every run and proved, with the transport as an arbitrary oracle, to return what the model's client_request / unit_check / client_validate say (38 theorems; on the model's own MBAP and RTU transports this is client_call). Source level (C02s): the RTU length-inference table expectedResponseLenth (all 2^16 inputs) and mapExceptionCodeToError (all 256 codes) are translated from the Go source on every run (harness/cmd/gosrc -> Gen/SrcPure.v) and proved equal to the model by complete sweeps through the GoLite semantics. Coq theorems over the client model, for EVERY request and EVERY byte stream the peer may send (both framings): soundness (success only if the stream contains, at a frame boundary after skippable frames (MBAP) / at its start (RTU), a well-formed reply answering this very request - unit, function code, byte count, length, echoed fields - and the result is exactly the requested number of values decoded under the configured byte/word order), completeness (every valid reply is accepted whatever follows), exception replies from the addressed unit or unit 255 give the error of their code for all 256 codes, a normal reply from another unit is refused, and no stream causes a panic or a non-terminating receive loop. The model is compared with the real client on valid replies, field-level corruptions, all exception codes, all function codes, truncations, foreign frames and random bytes on every run.",
  "note": "Model follows the tree with fixes F1/F2 applied. Timeouts are untimed here (peer bytes exhausted = deadline error; the timed model is C07). Trusted: kernel, extraction, harness, scripted connection.",
  "technique": "Coq proof over Go source functions translated on every run (GoLite deep embedding) + Coq proof (frame reader characterisation both directions, skip-loop fuel, per-operation validation lemmas) + differential correspondence on scripted replies",
}
