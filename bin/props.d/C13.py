import os, sys
sys.path.insert(0, os.path.dirname(os.path.dirname(os.path.abspath(__file__))))
from srcgen import regen_src
from srcreplay import replay_src  # translated transport layer run in Coq on the streams the real client was served
PROP = {
    "pre": [regen_src],
    "extra": [replay_src({'cutcc'}, per_scn=120)],
    "coq": ["C13", "C13b", "C13c", "C03t", "C05t"],
    "exhaustive": False,
    "rule": "Every cut offset 0..len x {peer closes, peer resets, peer stalls until the deadline}: (a) real per-connection server "
            "path on a scripted connection fed with frame[:k], for one representative + seeded random valid request frames of each "
            "of the 8 supported function codes (17 handler behaviours), complete frames the server answers without a handler "
            "(unsupported codes, out of range, bad values) and the largest frames; (b) real client (MBAP and RTU framing) on a "
            "scripted connection fed with stream[:k], for seeded random valid calls with their valid reply, valid exception replies "
            "and replies behind foreign frames; (c) loopback TCP: a started server (MaxClients 1, 300 ms timeout) and raw clients "
            "that send frame[:k] then close / reset (SO_LINGER 0) / stay silent - handler invocation count, active-list length back "
            "to 0, server still started, a fresh connection served; a real client (tcp:// and rtuovertcp://, Open) against a fake "
            "device that sends reply[:k] then closes / resets / stalls - call result, call on the closed handle, then Close; Open and "
            "the same call answered in full, with the request bytes the device saw. Observables: handler calls, responses, close, "
            "result class and values, bytes written and consumed. "
            "(d) the io.Reader contract - the Read that hands out the last bytes before the cut may report the cut itself (n > 0 with "
            "io.EOF / a reset error) instead of a later Read: the scripted connection in that mode (checked Read by Read against the "
            "delivery model, tailrd) carries (a) as cutsrvt - single requests of the 8 function codes, complete frames that are not "
            "dispatched, the largest frames and 2-4 pipelined requests whose last Read alone carries the end, every cut offset "
            "including offset = length - and (b) as cutcct - one call per function code plus seeded random ones, exception replies, "
            "replies behind foreign frames - x {close, reset} x chunkings {one chunk, one per frame, header / body, last byte alone, "
            "byte-wise, random}, with the end-in-its-own-Read delivery of the same chunks as control; (e) cuttls, real sockets: a started "
            "tcp+tls server (MaxClients 1) and a TLS 1.2 / 1.3 peer that hands request[:k] and its close_notify alert to the socket in "
            "ONE write (crypto/tls then returns the last bytes together with io.EOF for TLS 1.2), and a real tcp+tls client against a "
            "device answering reply[:k] + close_notify in one write; same observables and expectations as (c) for a closing peer; "
            "(f) cutkth, the cut exchange is the k-th exchange of its connection: a real client (tcp://, rtuovertcp://, tcp+tls://, "
            "Open) against a loopback listener that keeps accepting, serves every connection like a device and logs the request "
            "frames of EVERY connection; 0, 1, 2 (thorough: up to 70) seeded random valid calls complete normally, then the reply "
            "of the next call (a write, a read, a seeded random one) is sent up to every offset 0..len and the peer closes / resets "
            "(one session per scheme: stays silent); then Close, the call on the closed handle, Open, the same or another call, "
            "Close. Observables: the result of every call, and per accepted connection the request frames received - expected from "
            "the extracted Model/CutSession.v (cut_session, Properties/C13c.v): the cut call is an error, ONE connection with one "
            "frame per call (the cut call's request exactly once over all connections), a second connection with the request of "
            "the call after Open, which completes.",
    "assumptions": ["loopback TCP delivers the bytes written before a close; after a reset the peer may see fewer bytes than were "
                    "written (the outcome is the same error); for the offset = len control case the peer goes away only after "
                    "the other side has taken the complete frame",
                    "cuttls: bytes handed to a loopback TCP socket with one write arrive in one piece (request record and close_notify "
                    "alert are buffered together at the receiver); if they did not, the case degrades to the delivery of (c), it never "
                    "fails for that reason"],
}
CLAIM = {
  "text": "Coq theorems over the server, client and slot models, for EVERY well-formed request frame (any function code, any content), EVERY valid operation with EVERY valid reply (normal or exception; MBAP also behind or inside frames that are skipped), EVERY byte offset inside the frame and EVERY stream end (peer stalls until the deadline, closes, resets): the server session on the cut request is exactly [closed] - no handler call, no response (a strict prefix of a well-formed frame never starts with a well-formed frame); on the complete request followed by the stream end it is exactly the events of processing the request once (for a dispatchable request: one call, one response attempt) and then the close; the client call on the cut reply returns an error of the stated class (timeout for a stall, i/o error or short frame for close/reset) and never a success; on any handle state, Close; Open yields a fresh transport (transaction id restarts, nothing buffered) whose next call on a valid reply succeeds and transmits exactly the specified request, and between Close and Open every call fails without writing; in every reachable state of the C09 transition system a session that ends (disconnect, protocol error, idle expiry) is removed and closed, the server stays started and the slot serves a later connection. The same cut theorems are proved for EVERY delivery of the stream - any chunking, the end of the stream reported by the Read that hands out the last bytes (io.Reader allows n > 0 together with the error; crypto/tls does it) or by a later Read: io.ReadFull over such a connection equals a full read on the concatenation, so where the end is reported cannot be observed (Properties/C13b.v). The cut exchange may be ANY exchange of its connection (Properties/C13c.v, Model/CutSession.v): for EVERY list of valid exchanges completed before on the connection (the state carried is the transaction counter), every cut offset of the next reply and every stream end, the cut call is an error, the listener at the client's address has received - over ALL connections - one connection with exactly one request frame per call, consecutive transaction ids, the cut call's request once, and after Close; Open a second connection with exactly the next request, which completes; the cut call fails with exactly one frame transmitted in any state of an open handle and (MBAP) after any history of calls, peer bytes and outcomes that left only whole skippable frames unread. The models are compared with the real server path and the real client at every cut offset on every run, and with a real server / real client over loopback TCP with closing, resetting and stalling peers, the client also with the cut on the 1st, 2nd, 3rd, ... exchange of a connection against a listener that accepts and serves further connections (cutkth). At source level (Properties/C03t.v, C05t.v): a read error ends the translated server loop without a handler call; the translated tcp transport returns an error, never a frame, on every cut stream.",
  "note": "partial: kernel TCP behaviour (FIN/RST delivery, data discarded by a reset), goroutine scheduling, the wall-clock idle timeout and the dial in Open are runtime facts exercised by the loopback scenario, not modelled (the model's stream end is untimed: bytes used up = deadline error / EOF / reset). RTU server side does not exist in the library (ReadRequest unimplemented); the server theorems are about the MBAP transport. Response write failures after the peer left are tolerated by the code (logged) and appear in the model as the attempted response event. Trusted: kernel, extraction, harness, scripted connection, VerifServeConn / VerifNewClientOnConn / VerifServerSnapshot hooks.",
  "technique": "Coq proof over Go source functions translated on every run (GoLite deep embedding; sockets, clock, handler as external functions over an abstract world) + Coq proof (short-read characterisation of both frame readers on strict prefixes, induction over skipped frames with fuel bound, reuse of C02/C03/C09 theorems) + differential correspondence at every cut offset (scripted connections and real loopback sockets)",
}
