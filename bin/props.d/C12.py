import os, sys
sys.path.insert(0, os.path.dirname(os.path.dirname(os.path.abspath(__file__))))
from srcgen import regen_src
from srcreplay import replay_src  # translated transport layer run in Coq on the streams the real client was served
PROP = {
    "pre": [regen_src],
    "extra": [replay_src({'cc'}, per_scn=120)],
    "coq": ["C12", "C05t", "C12t"],
    "exhaustive": False,
    "rule": "Scripted connection handing out at most one prescribed chunk per Read: C02-style client calls (MBAP and RTU: valid reply, reply + next "
            "frame, foreign frames first / only, field corruptions, truncations, exception replies, random bytes, bad CRC followed by a flush "
            "of up to 1024 bytes, largest frames) and C03-style server sessions (1-4 pipelined requests, bad headers, cut streams, garbage "
            "tails, largest request) each re-run under: one frame per read (reference), byte by byte, EVERY single split point (streams <= 300 "
            "bytes; header/frame-boundary points + sampled above), EVERY pair of split points (streams <= 24 bytes exhaustively, sampled "
            "above), fully coalesced, neighbouring frames coalesced pairwise, frame boundaries shifted by -3..8 bytes, random chunkings "
            "with empty chunks. Every run is compared with the model evaluated on the concatenation (cc/srv) or with the chunked model on "
            "the very chunk list (ccc/srvc, every 4th stream), and all runs of one stream are compared among themselves (segdiff). "
            "UDP on real loopback sockets (udp:// and rtuoverudp://): a fake device answers one call with a 2-3 frame stream cut into "
            "datagrams: one frame per datagram, coalesced, byte-wise, all / sampled partitions with sizes from {1,6,7,8,frame,frame+1,260}, "
            "empty datagrams, two frames in one datagram of 259/260/261/272 bytes, the 260-byte frame alone, split and with one extra byte; "
            "compared with the udpSockWrapper model on the datagram list and among themselves."
            " Scenario seglate: call 1 times out against a silent peer, then the late reply to it followed by the reply to call 2 is cut at every position into bytes present before call 2 and bytes arriving after its request; every cut must give the flat model's result for call 2.",
    "assumptions": [
        "the scripted connection delivers the scripted chunks in order, at most one chunk per Read, and reports the scripted end (deadline / EOF / reset) once they are used up",
        "loopback UDP delivers the datagrams of one sender in order and without loss (they are sent 1 ms apart); a Read on a UDP socket returns one datagram cut to the buffer",
    ],
}

CLAIM = {
    "text": "Coq theorems over a model of segmented delivery (a connection is ANY list of chunks, empty ones included; one Read returns at most "
            "one chunk or a part of it; io.ReadFull loops over Read): (T1) a full read over any chunking obtains exactly the bytes, and leaves "
            "exactly the rest, that a full read over the concatenated stream does, short reads included; (T2) the MBAP and RTU frame readers, "
            "the response skip loop, the RTU resynchronisation flush, a whole client call (result, frames written, transaction counter, unread "
            "bytes) and a whole server session (handler calls, responses, close) written over the chunk reader EQUAL their value over the "
            "concatenation, hence any two deliveries of the same stream - byte-wise, every split point, every pair of split points, frames "
            "coalesced - give the same outcome as one frame per read, for every request, byte stream, stream end and handler; (T3) the same "
            "for the UDP adapter (udpSockWrapper, 260-byte receive buffer + leftover count): for datagrams of at most 260 bytes a full read "
            "through the adapter equals a full read over the concatenation of the datagrams, all such partitions of a stream give the same "
            "client result, the leftover is always a suffix of the last datagram received (hence fits the buffer), and a longer datagram "
            "provably loses its tail (the bound is necessary; concrete 272-byte example); (T4) pipelined complete requests are each answered "
            "exactly once, in order, with their own transaction id under every chunking. The real client and server are re-run under all "
            "these segmentations on a scripted connection, and the real UDP adapter on loopback sockets, on every run. At source level (Properties/C05t.v, C12t.v): the translated transports read through io.ReadFull only; udpSockWrapper.Read as translated refines the wrapper model of these theorems.",
    "note": "partial: the models are untimed. That bytes arriving in several segments arrive before the deadline, the 500 us window of the RTU "
            "flush, the kernel's in-order loopback datagram delivery and its truncation of a datagram to the read buffer are runtime facts "
            "exercised by the harness, not modelled (the truncation is a modelling assumption of usw_read, confirmed by the 261/272-byte "
            "cases). A Read returning 0 bytes without error is covered by the model (empty chunks / empty datagrams); the scripted connection "
            "cannot produce it, real empty UDP datagrams are exercised. The server has no UDP transport in this library: the UDP part is "
            "about the client. Model follows the tree with fixes F1-F5 applied. Trusted: kernel, extraction, harness, scripted connection, "
            "VerifNewClientOnConn / VerifServeConn hooks.",
    "technique": "Coq proof over Go source functions translated on every run (GoLite deep embedding; sockets, clock, handler as external functions over an abstract world) + Coq proof (one simulation lemma for io.ReadFull over any in-order single-Read function, readers re-stated over an abstract "
                 "full reader and proved equal to the flat readers by the same case analysis; instantiated for chunk lists and for the UDP "
                 "adapter; invariant by induction over reads) + differential re-execution under exhaustive / sampled segmentations",
}
