import os, sys
sys.path.insert(0, os.path.dirname(os.path.dirname(os.path.abspath(__file__))))
from srcgen import regen_src
from srcreplay import replay_src  # translated source run in Coq vs the real outputs  # pre-build generator: pure Go functions -> Gen/SrcPure.v

PROP = {
    "confirm_scenarios": ['silence.*'],
    "coq": ["C19", "C19s", "C19b", "C19c", "C19t", "C19d"],
    "pre": [regen_src],
    "extra": [replay_src({'timing'})],
    "exhaustive": False,
    "rule": "timing: modbus.VerifSerialTimings(rate) (= newRTUTransport) against the extracted char_time/t35, one case per rate: "
            "every rate 1..30000 (the whole 3.5-character regime and the 19200 bps switch, incl. every rate 19100..19300), "
            "powers of two and of ten +-1, 33 standard baud rates 300..4000000 +-1, divisors of 11*10^9 +-1, 20000 uniform and "
            "20000 log-uniform seeded random rates up to 10^7 (about 70000 distinct rates); thorough tier adds EVERY rate 1..10^7 "
            "as 10^4 timingrange cases of 1000 consecutive rates (the 10^7 pairs compared as strings). P is the declarative rule "
            "timing_okb of Spec/TimingSpec.v (extracted) evaluated on the implementation's numbers. "
            "silence: a real RTU client (rtuovertcp, VerifNewClientOnConn) on a scripted connection with real deadlines runs 4-6 "
            "back-to-back ReadRegisters at 1200/9600/19200/115200 bps (thorough: 8 rates x 6 repetitions) against a fake device whose "
            "replies come late (client already blocked in Read), early (queued before the client reads) or mixed; the gap between "
            "the instant just before reply k is made available and the arrival of request k+1 must be >= t35(rate)."
            " Scenario silencewindow: after a complete reply the caller busy-waits 80..97 % of t3.5 (counted from the client's last read of reply bytes) and issues the next request; the request must still not reach the line before t3.5."
            " Scenario silenceframing: real serial clients (NewClient rtu://<pty slave> + the real Open()) for every line setting "
            "DataBits {7,8} x Parity {none,even,odd} x StopBits {unset,1,2} (9..12 bits per character) at 300 bps and one more of "
            "600..4800 bps (thorough: 150..38400 bps, every setting at every speed) run 3-4 back-to-back ReadRegisters against a fake "
            "device on the pty master that replies while the client is blocked in its read; the smallest gap between the instant just "
            "before reply k is written and the arrival of the first byte of request k+1 is printed and must satisfy silence_okb of "
            "Model/TimingLine.v (extracted): gap >= t35(speed), a function of the speed only (Properties/C19b.v). Line settings the "
            "serial layer refuses are counted (silenceframing:skipped-open) and not run."
            " Scenario silenceslow: GOOD replies (valid CRC, accepted by the client) that reach the client slowly - header first and "
            "the rest after a pause, byte by byte with gaps, in two or three segments at random cuts, the pauses adding up to "
            "0.5/1/2/5/20 x the line time of the bytes that follow the header - on three links: rtuovertcp on a scripted connection "
            "with real deadlines, rtuovertcp through the real Open() against a fake gateway on loopback TCP, rtu:// on a pty; "
            "9600/19200/115200 bps (thorough: 1200..1000000 bps, longer replies, 2 repetitions), 3-4 back-to-back ReadRegisters, the "
            "reply starting during the client's post-transmit delay or when it is blocked in its read. The gap between the instant "
            "just before the LAST segment of reply k is handed over and the arrival of the first byte of request k+1 must satisfy "
            "slow_silence_okb of Model/TimingPieces.v (extracted; the send-time machine run on the delivery plan of the case): "
            "gap >= t35(speed) (Properties/C19c.v)."
            " Scenario silenceidle: sessions that mix calls with idle times during which bytes reach the client - the late answer to a "
            "request that timed out, a reply or an exception frame of another unit nobody asked for - 30..300 % of t3.5 after the "
            "previous call returned, the caller coming back 5..50 %, 50..100 % or 120..400 % of t3.5 after the arrival; 2-3 such "
            "episodes per session, every one followed by 1-2 answered calls; rtuovertcp clients (VerifNewClientOnConn) on a buffered "
            "scripted connection and on a synchronous net.Pipe, 1200/2400/4800/9600 bps (thorough: 600..115200 bps, 6 sessions per "
            "rate and link). The client's side of the link is wrapped in a recorder: the time between the last Read that returned "
            "bytes (taken before the client gets them) and the entry of the next Write, smallest over the session, must satisfy "
            "idle_silence_okb of Model/TimingIdle.v (extracted): one request per call at least and gap >= t35(speed), whichever "
            "statement of the client took the bytes (Properties/C19d.v); what the calls return is not judged.",
    "assumptions": [
        "rates are 1..10^7 bps (rate 0 divides by zero in serialCharTime; uint rates above 2^63 do not fit time.Duration)",
        "the clock is monotone and time.Sleep(d) returns after at least d (Go runtime monotonic clock)",
        "the send-time state machine (Model/Timing.v: exchange/run) is tied to the code by reading rtu_transport.go:64-107 and by the "
        "observed-silence runs only; its clock, the kernel/tty buffering after Write returns and the real line are outside the model",
        "the end of a received frame is taken as any instant not later than the return of the read that consumed its last byte "
        "(the code stamps time.Now() after the read)",
    ],
}

CLAIM = {
    "text": "Source level (C19s): serialCharTime is translated from the Go source on every run (harness/cmd/gosrc -> Gen/SrcPure.v) and proved equal to the model's character time for every rate. For every baud rate 1..10^7 (the underlying lemmas hold for every rate >= 1) the computed character time is floor(11*10^9/rate) ns (eleven bit times to the "
            "nanosecond) and the inter-frame delay is floor(3.5 character times) below 19200 bps - never above and less than 4.5 ns "
            "below the exact 38.5*10^9/rate - and exactly 1750 us from 19200 bps upward; no int64 overflow occurs for rates up to 10^7; "
            "the rule determines the two numbers uniquely. These are Coq theorems about the model, and the model is compared with "
            "newRTUTransport on ~70000 rates per run (every rate 1..10^7 in the thorough tier). For every history of exchanges "
            "(replies, timeouts, failed writes), every initial state and every monotone clock with over-sleeping, the model of "
            "ExecuteRequest never starts a transmission earlier than t35 after the end of any earlier received frame, nor earlier "
            "than t35 after the estimated end (ts + n*t1) of an unanswered transmission (invariant proved by induction over the history). "
            "C19c: the same holds when every reply is read in pieces (header, then the rest; byte by byte; any pauses), for every "
            "rule that records as the end of a received frame an instant not earlier than the return of the read that consumed its "
            "last byte (the code's time.Now() is one; an end of frame estimated from the header at line rate is proved not to be). "
            "C19d: the same holds for sessions in which frames reach the link while the client is idle between two calls (late "
            "answers, frames nobody asked for) and are read later, in the read of the next exchange (the code) or at the beginning "
            "of the next call: no request starts earlier than t35 after ANY earlier read that took bytes, for every rule that "
            "records the instant after such a read; reading the buffer empty at the beginning of a call without recording it is "
            "proved not to keep the silence. At source level (Properties/C19t.v): rtuTransport.ExecuteRequest as translated on every run, with the clock as an external function, writes its frame exactly at max(now, lastActivity + t3.5) against a silent peer and never earlier than lastActivity + t3.5 whatever the link does.",
    "note": "Level proof for the computation clause. The observed-silence clause is PARTIAL: the state-machine theorem is about a "
            "hand-written model of rtu_transport.go:64-107 over an abstract clock; real clocks, scheduler latency, kernel/tty buffering "
            "(Write returns before the bytes are on the line; the code only estimates n*t1) and the physical line are outside the "
            "model. The implementation is tied to it by measuring the real client's silence at 4 (thorough: 8) rates on an in-memory "
            "connection; the measurement over-estimates the gap, so it can only reveal a client that skips the wait, not prove silence "
            "on a real RS-485 line. Trusted: Coq kernel, extraction (ExtrOcamlBasic), modeld glue (ocaml/scn_timing.ml), Go harness, "
            "VerifSerialTimings/VerifNewClientOnConn hooks.",
    "technique": "Coq proof over Go source functions translated on every run (GoLite deep embedding) + Coq proof (lia/nia over Euclidean division facts; list induction with ForallOrdPairs for the history invariant) + "
                 "differential correspondence on stratified/exhaustive rates + runtime measurement of inter-frame silence",
}
