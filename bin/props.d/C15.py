PROP = {
    "coq": ["C15", "C15b", "C15c", "C15d"],
    "exhaustive": False,
    "rule": "extractRole on synthetic x509.Certificate values (only Extensions populated) through VerifExtractRole: "
            "all 256 identifier octets x 13 length/content forms (+ as first/second of two role extensions); "
            "every 1-byte and every 2-byte string content (exhaustive, 65 792 values), structured 3-4 byte sequences around "
            "every UTF-8 boundary (C0/C1, E0 80.., ED A0.. surrogates, F0 8F.., F4 90.., F5..FF, all prefixes, in ASCII and "
            "multi-byte context) and random ones, each also against unicode/utf8.Valid directly; lengths 0,1,2,126..129,255..257,300 "
            "with the minimal header and every long form of 1..9 and 127 octets, indefinite, header cut at every position, content "
            "truncated, trailing bytes, all 256 second octets, lengths that do not fit (84 7f ff ff ff, 85.., 88.., ff); "
            "every sequence of 0..4 extensions over 10 kinds (good/bad role values, 6 near-miss OIDs, unrelated OIDs); "
            "random role strings up to 300 bytes with random mutations and neighbours; plain TCP sessions through the real server path."
            " Scenario tlschainrole (real TLS handshakes): clients present leaf + issuer where the issuer (intermediate or root) carries a well-formed role and the leaf carries none / a malformed one in eight ways; the role must be the leaf's."
            " Scenario tlsroleseq (real TLS handshakes, Model/RoleSeq.v tls_serve_sessions): ONE running tcp+tls server and an ordered "
            "sequence of 3..6 sessions (closed one after the other, or kept open) whose client certificates come from a family sharing "
            "the key pair / key pair and subject / subject and serial number / everything but the role extension / nothing, with the "
            "role extension varying from session to session (UTF8String r1, r2, absent, duplicated, other string types, malformed "
            "lengths, trailing bytes, invalid UTF-8, near-miss OIDs; 7 fixed orders + random ones per family, some sessions refused "
            "at TLS 1.1): every handler invocation must carry the role stated by the leaf of ITS session, whatever came before."
            " Scenario tlsroleresume (real TLS handshakes, Model/RoleResume.v tls_serve_cached, theorems c15_resume_* of C15c): as "
            "tlsroleseq, with harness clients that keep a tls.ClientSessionCache per client identity across their connections (TLS 1.2 "
            "tickets and TLS 1.3 PSKs; the same client 3-4 times in a row, two and three clients with their own caches taking turns, "
            "version changes, clients without a cache, random orders), so that later sessions are resumed when the server allows it: "
            "the role must be that of the leaf of the client of THAT session, resumed or not (DidResume and 'the client held a ticket' "
            "are recorded in the distribution only). tlsroleresumectl: the same harness client does resume against a crypto/tls server "
            "that accepts its own tickets, and that server sees the client's leaf in PeerCertificates[0] of resumed sessions."
            " Scenario tlsrolemix (real servers, real TLS handshakes, Model/RoleMix.v mix_serve_sessions, theorems c15_mix_* of C15d): "
            "ONE process running a tcp+tls server AND a plain tcp server side by side, and a history of 12..60 sessions on the two: "
            "TLS sessions whose certificates carry role r1 / r2 / no role in the ways above, and plain TCP sessions, one strictly "
            "after the other (the earlier session gone from its server's list before the next connects: TLS then plain alternating, "
            "runs of each, plain sessions before the first TLS one) and overlapping (groups of TLS sessions open together and closed "
            "together followed by groups of plain ones, a TLS session that stays while plain ones come and go and the reverse, a "
            "sliding window of both kinds, random lifetimes), with requests right after the connect and again right before the close: "
            "every handler invocation must reach the handler of the session's own server and carry the role of ITS session - the "
            "empty role for every plain TCP session, the role stated by the session's own leaf for a TLS session - whatever "
            "sessions came before, are open at the same time, or come later.",
    "assumptions": [
        "lengths are below 2^31 (Go's encoding/asn1 refuses larger ones; a TLS handshake message cannot carry one)",
        "extension values are octet strings (each element below 256)",
        "TLS sessions hand extractRole(PeerCertificates[0]) to the handlers unchanged (server.go startTLS/handleTCPClient, read; exercised by the C14 handshake matrix and, for sequences of sessions on one server, by scenario tlsroleseq; with clients offering to resume, by scenario tlsroleresume; next to plain TCP sessions of a second server of the same process, by scenario tlsrolemix)",
        "crypto/tls restores version and peer certificates of the original session on a resumed one (tls_resume_documented; looked at by tlsroleresumectl), and a session cache is used by one client identity only",
    ],
    "trusted": [
        "Go's encoding/asn1 (Unmarshal into a string, parseTagAndLength) and unicode/utf8.Valid are MODELLED for this call path (Model/Der.v, Model/Utf8.v) and tied to the real packages by the correspondence run only",
    ],
}

CLAIM = {
    "text": "For every list of certificate extensions (any number, any order, any octet strings as values) the role computed by "
            "extractRole is r <> \"\" exactly when one single extension carries the Modbus Role OID and its value is precisely the DER "
            "UTF8String encoding 0c | len | r of a well-formed UTF-8 string r (trailing bytes excluded); in every other case (absent, "
            "duplicated, any of the 255 other identifier octets, indefinite / non-minimal / leading-zero / over-long / truncated "
            "lengths, truncated contents, trailing bytes, invalid UTF-8) the role is empty; the extraction never indexes or slices "
            "out of range; utf8_valid is proved equivalent to 'is the encoding of a sequence of Unicode scalar values' (with unique "
            "decoding); plain TCP sessions have the empty role. All Coq theorems over the model, Qed, no axioms.",
    "note": "The theorems are about a Gallina model that mirrors extractRole and the parts of Go's encoding/asn1 and unicode/utf8 "
            "on this call path (these standard-library functions are modelled, not verified); the model is compared with the real "
            "code on every run (about 200 000 cases: exhaustive 1-2 byte contents, all identifier and length octets, structured "
            "UTF-8/DER boundary cases, extension orders, random), and the property predicate is evaluated from the specification "
            "(DER encoder + UTF-8 encoder), not from the decoder model. Bound: string lengths below 2^31 (imposed by encoding/asn1). "
            "Real TLS handshakes with certificates carrying a role are covered by the C14 matrix later; here the TLS side is "
            "extractRole on the leaf certificate's extensions plus the read of startTLS.",
    "technique": "Coq proof (list induction over the extension loop, case analysis of the DER length forms with lia over div/mod, "
                 "UTF-8 DFA vs. encoder equivalence) + exhaustive/structured/random differential correspondence with an independent spec predicate",
}
