import os, sys
sys.path.insert(0, os.path.dirname(os.path.dirname(os.path.abspath(__file__))))
from srcgen import regen_src  # pre-build generator: pure Go functions -> Gen/SrcPure.v
sys.path.insert(0, os.path.dirname(os.path.dirname(os.path.abspath(__file__))))
import coqreplay as _coqreplay

PROP = {
    "coq": ["C03", "C03s", "C03t"],
    "pre": [regen_src],
    "extra": [_coqreplay.replay_srv],
    "exhaustive": False,
    "rule": "Real per-connection server path (VerifServeConn) on a scripted connection with a scripted handler: 1-4 pipelined "
            "frames per session, valid and boundary-directed requests of the 8 supported function codes, corrupted MBAP headers "
            "(protocol id, length), bad coil values, byte-count/length defects, cut streams, garbage tails, 17 handler behaviours "
            "(right/short/long/nil result, every documented error, protocol error, other error); all 256 function codes x payload "
            "lengths (stratified in quick, complete 0..253 in thorough). Observables: handler invocations with all decoded fields, "
            "every response frame, close."
            " Scenario errmap: the complete table of handler errors (every exported error of the package, wrapped, foreign and look-alike errors) through mapErrorToExceptionCode against the model's herr_code.",
    "assumptions": [],
}
CLAIM = {
  "text": "Source level (C03s): mapErrorToExceptionCode is translated from the Go source on every run (harness/cmd/gosrc -> Gen/SrcPure.v) and proved to be the documented table on every error value (= herr_code of the server model). Coq theorems over the server model, for EVERY request PDU, byte stream and handler behaviour (the handler is an arbitrary function): per-frame characterisation against an independent decoder spec (exactly one call with the decoded fields + exactly the specified response / mapped exception / exception 4 on wrong-sized results; exception 2 past 0xFFFF and exception 1 for unsupported codes without a call; malformed requests never reach a handler), pipelined frames answered once each in order with their own transaction id, bad headers close the session, every handler call is in range and within limits, responses <= 260 bytes, decoder panics unreachable. The real per-connection server path is compared with the model on every run (calls, responses, close). At source level (Properties/C03t.v): ModbusServer.handleTransport as translated from server.go on every run, with the transport and the handler as external functions over an arbitrary world, is proved to be the loop of the model's server_process.",
  "note": "Model follows the tree with fix F5 applied. The model has no panic outcome for the server loop: a recovered panic in the harness is an observable the model never produces. Trusted: kernel, extraction, harness, scripted connection, VerifServeConn hook.",
  "technique": "Coq proof over Go source functions translated on every run (GoLite deep embedding) + Coq proof (case analysis per function code, induction over frames with fuel irrelevance) + differential correspondence on scripted sessions",
}
