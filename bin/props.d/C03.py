PROP = {
    "coq": ["C03"],
    "exhaustive": False,
    "rule": "Real per-connection server path (VerifServeConn) on a scripted connection with a scripted handler: 1-4 pipelined "
            "frames per session, valid and boundary-directed requests of the 8 supported function codes, corrupted MBAP headers "
            "(protocol id, length), bad coil values, byte-count/length defects, cut streams, garbage tails, 17 handler behaviours "
            "(right/short/long/nil result, every documented error, protocol error, other error); all 256 function codes x payload "
            "lengths (stratified in quick, complete 0..253 in thorough). Observables: handler invocations with all decoded fields, "
            "every response frame, close.",
    "assumptions": [],
}
CLAIM = None
