import props as _props
from locks_gen import regen_locks

PROP = {
    "confirm_scenarios": ['hol.*'],
    "extra": [_props.race_detector_run("C11")],
    "coq": ["C11", "C11b"],
    "pre": [regen_locks],
    "exhaustive": False,
    "rule": "Real server on loopback TCP (modbus.NewServer + Start, MaxClients 16, one goroutine and one transport per accepted connection) "
            "with a shared recording handler whose answers derive from the request address; 2-8 raw TCP clients using IDENTICAL "
            "transaction ids (one constant, or the frame number on every connection) and per-connection address ranges; a global script "
            "interleaves (connection, chunk) sends: whole frames, frames split in two with other connections' traffic in between, two "
            "frames in one segment, all 8 supported function codes, unsupported codes, out-of-range reads, frames on which the server must "
            "close the connection (quantity 0, illegal MBAP length, foreign protocol id), bytes after the close; responses read right "
            "after each completed frame (seq) or all at the end with every connection in flight (burst). Observables per connection: the "
            "response frames it received / close, and the handler invocations attributed to its ClientAddr (kind, unit, address, quantity, "
            "role), compared with grun of the model on the same interleaving. Head-of-line scenario: one connection stalled mid-frame, one "
            "connection's handler call blocked on a channel, a third connection issues 5 requests, each answered within 300 ms while the "
            "others are held for 1 s; then both held connections are released and served."
            " Scenario tlsroles (also run under the race detector): one real tcp+tls server, 2..8 TLS clients whose certificates share a serial number and partly an issuer (roles ops/admin/none/malformed, two refused), sequential, concurrent and in parallel; every handler invocation carries the role of its own connection's leaf."
            " Scenario holchurn: one connection's handler call stays blocked while, following a generated script, new clients connect, established clients leave (also mid-frame) or are closed by the server on a protocol error, and the remaining connections and the newcomers keep sending (whole frames, frames stalled mid-frame, identical transaction ids): every response must arrive within 1 s while the call is still blocked, then the blocked call is released and answered; per-connection observables compared with grun of the model on the same interleaving."
            " Scenario holwrite: a scripted connection whose response write blocks until the write deadline is served by the real server next to a live TCP client whose requests must all be answered within 300 ms."
            " The lock skeleton of server.go is re-extracted before the Coq build with the operations that can wait for a peer, the handler or another goroutine (Accept, ReadRequest, WriteResponse, Handshake, handler calls, sleeps, channel operations) as AWait actions: a wait under ms.lock fails the discipline check.",
    "assumptions": [
        "a handler invocation is one atomic step of the shared handler state (the library adds no lock around handler calls; handlers synchronise themselves)",
        "wall-clock 'does not delay' relies on one goroutine per connection and the Go scheduler: observed by the harness (300 ms bound, up to 3 attempts per case to rule out machine load), not modelled",
    ],
}

CLAIM = {
  "text": "Lock side of 'a stalled connection does not delay others' (C11b, over the lock skeleton regenerated from server.go on every run): in every interleaving of any number of Start/Stop/accept/session goroutines a goroutine that waits for a peer, for the handler or for another goroutine does not hold ms.lock, and the holder of ms.lock is never about to wait (c11b_wait_without_lock, c11b_holder_not_waiting). Coq theorems over a global server model (shared handler state + one private session state per connection; inputs are (connection, chunk | end) pairs in an ARBITRARY interleaving, any number of connections, equal transaction ids allowed), for EVERY handler: (T1 routing) every output of a step on connection c is addressed to c; every handler invocation observed for c carries c's address and role; every response written to c answers the next unanswered request frame of c and carries that frame's transaction id and unit id (answers_ok, via C03's pipelining theorem). (T2 non-interference) the projection of any global run on c equals C03's single-connection session (server_run) on c's own concatenated bytes with the shared handler replaced by the list of answers it gave to c (oracle form, any handler); for a handler whose answers are a function of the request it equals c's private session exactly, whatever the other connections sent and however the chunks interleave. (T3 no head-of-line blocking, logical half) a step on c leaves every other session unchanged; the step that delivers the last byte of a complete frame of c answers it with no hypothesis on the other sessions (stalled mid-frame or closed); c's observations depend on c's byte stream only, not on its chunking nor on the interleaving (two arbitrary runs compared). The real server is run with 2-8 concurrent raw TCP clients on scripted interleavings and compared with the model per connection (responses and handler attributions).",
  "note": "partial: 'does not delay' in wall-clock terms relies on one goroutine per connection and on the server lock not being held across reads/handler calls, which the harness observes (stalled connection + blocked handler call + healthy connection answered within 300 ms) but the model does not express: the model serialises handler invocations (one atomic step each) and has no notion of time. TLS roles per connection are covered by the C14/C15 work; here the role is an opaque per-connection value (plain TCP: empty). Trusted: kernel, extraction, harness, VerifListenAddr hook.",
  "technique": "Coq proof (simulation of the shared handler by an oracle / by a pure function through a one-call lemma on server_process, chunking lemma on the per-session request loop, reuse of C03's pipelining theorem) + differential correspondence against a real multi-connection server",
}
