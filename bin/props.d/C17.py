import os, sys
sys.path.insert(0, os.path.dirname(os.path.dirname(os.path.abspath(__file__))))
from srcgen import regen_src
from srcreplay import replay_src  # translated source run in Coq vs the real outputs  # pre-build generator: crc.go / encoding.go -> Gen/SrcPure.v

PROP = {
    "coq": ["C17", "C17s", "C17l"],
    "pre": [regen_src],
    "extra": [replay_src({'dec32s', 'enc32', 'dec16', 'enc64f', 'enc16', 'dec64s', 'dec64sf', 'enc32f', 'dec32sf', 'encb', 'dec16s', 'enc16s', 'decb', 'enc64'})],
    "exhaustive": False,
    "rule": "16-bit codecs: all 2^16 values x 2 byte orders, both directions (exhaustive); the list encoder uint16sToBytes on random lists, called twice on the same slice with sentinels in its spare capacity (output = layout, slice and spare capacity unchanged, second call equal). 32/64-bit: "
            "per-byte-position exhaustion over 4 backgrounds, walking ones/zeros, NaN/inf/-0/subnormal patterns "
            "and seeded random values x 4 (byte order, word order) settings, integer and float entry points, "
            "plus ragged inputs that must panic. Bools: all vectors up to 12 bits, every length 0..2001 "
            "(all-true, all-false, one-hot, random), decode with quantities off the byte boundary and past the input."
            " After rendering each decoded bool slice the executor overwrites and appends to it, so that storage shared between results shows in the next case."
            " Lists (encl, theorems C17l): the typed writers WriteRegisters/WriteUint32s/WriteFloat32s/WriteUint64s/WriteFloat64s (and the single-value 32/64-bit writers) on a client set to each of the 4 (byte order, word order) pairs, every list length one request can carry (1..123 / 1..61 / 1..30), random and pattern values: the register bytes of the request must be the documented layout of every value in order, and the typed read of exactly these registers must return the values written.",
    "assumptions": ["math.Float32bits/Float64bits and their inverses are the identity on bit patterns (exercised with NaN payloads and -0)"],
}

CLAIM = {'text': 'Source level (C17s): every function of encoding.go is TRANSLATED from the Go source on every run (harness/cmd/gosrc -> Gen/SrcPure.v, GoLite abstract syntax with an executable semantics in Coq) and proved equal to the model codec for every value, list, byte order and word order, including the run-time panic on ragged input (c17s_*: straight-line code by symbolic evaluation, the seven loops by loop invariants). Model level: round trips, bijectivity and the documented register/coil layout are Coq theorems for ALL 16/32/64-bit values, both byte orders, both word orders and all bool vectors (no sampling). The model functions are compared with the real codecs on every run: exhaustively for 16 bit, per-byte-position + structured + random for 32/64 bit and bools.', 'note': 'Trusted: Coq kernel (vm_compute), extraction (ExtrOcamlBasic only), modeld driver, Go harness, VerifEnc* pass-through hooks; floats enter as bit patterns (math.Float*bits trusted, exercised); for the source-level theorems the gosrc translator (syntactic, with a conservative no-aliasing discipline for slices) and the GoLite semantics (Model/GoLite.v: slices as values, capacity = length, int arithmetic checked).', 'technique': 'Coq proof over the Go source of encoding.go translated on every run (GoLite deep embedding, symbolic evaluation + loop invariants) + Coq proof (lia over div/mod digit lemmas, list induction) + exhaustive/structured differential correspondence'}
