PROP = {
    "coq": ["C17"],
    "exhaustive": False,
    "rule": "16-bit codecs: all 2^16 values x 2 byte orders, both directions (exhaustive). 32/64-bit: "
            "per-byte-position exhaustion over 4 backgrounds, walking ones/zeros, NaN/inf/-0/subnormal patterns "
            "and seeded random values x 4 (byte order, word order) settings, integer and float entry points, "
            "plus ragged inputs that must panic. Bools: all vectors up to 12 bits, every length 0..2001 "
            "(all-true, all-false, one-hot, random), decode with quantities off the byte boundary and past the input."
            " After rendering each decoded bool slice the executor overwrites and appends to it, so that storage shared between results shows in the next case.",
    "assumptions": ["math.Float32bits/Float64bits and their inverses are the identity on bit patterns (exercised with NaN payloads and -0)"],
}

CLAIM = {'text': 'Round trips, bijectivity and the documented register/coil layout are Coq theorems for ALL 16/32/64-bit values, both byte orders, both word orders and all bool vectors (no sampling). The model functions are compared with the real codecs on every run: exhaustively for 16 bit, per-byte-position + structured + random for 32/64 bit and bools.', 'note': 'Trusted: Coq kernel (vm_compute), extraction (ExtrOcamlBasic only), modeld driver, Go harness, VerifEnc* pass-through hooks; floats enter as bit patterns (math.Float*bits trusted, exercised).', 'technique': 'Coq proof (lia over div/mod digit lemmas, list induction) + exhaustive/structured differential correspondence'}
