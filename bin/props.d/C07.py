import os, sys
sys.path.insert(0, os.path.dirname(os.path.dirname(os.path.abspath(__file__))))
from srcgen import regen_src  # pre-build generator: Go source -> Gen/SrcPure.v
PROP = {
    "confirm_scenarios": ['timed', 'noread', 'steady'],
    "pre": [regen_src],
    "coq": ["C07", "C07b", "C07c", "C07x", "C05t", "C12t", "C07t"],
    "exhaustive": False,
    "rule": "timed (REAL time, timeout 150 ms; thorough: 100/150/250 ms): one public client call (8 small read/write operations, valid "
            "arguments) against a peer that plays a timed stream, on: tcp and rtuovertcp (19200, 115200 bps) attached to the scripted "
            "connection in real-deadline mode; tcp, rtuovertcp, udp, rtuoverudp through modbus.NewClient + Open against fake devices on "
            "loopback sockets (one datagram per chunk on UDP); rtu through Open on a pseudo-terminal (serialPortWrapper, 10 ms polls) when "
            "/dev/ptmx is usable. Peer behaviours, translated by the generator into (offset after the request, bytes) chunks: silent; stall "
            "after k bytes of a valid reply for k in 1,2,3,6,7,8,len-1 (thorough: every k), in one or two pieces; trickle one byte every "
            "timeout/4 (first at timeout/8, so that no byte is due at the deadline itself); floods of one frame per ms for 5 x timeout whose "
            "outcome does not depend on where the deadline cuts them: well-formed MBAP frames with foreign transaction ids => timeout, with "
            "foreign protocol ids => timeout, MBAP garbage whose first header has an illegal length (0, 1, > 254) => protocol error at once, "
            "RTU frames from another unit => bad unit id, RTU garbage with an unknown function code => protocol error then the flush; "
            "foreign frames then the reply at 0.5 x timeout; orderly close after 0,1,3,len-1 bytes (TCP only); the valid reply delayed by "
            "0.2/0.5/0.8 x timeout (never more, so scheduler noise cannot cause a false alarm), in two pieces (0.2/0.6), and too late (1.3). "
            "Observables: outcome of the call (values or error class) compared with the extracted timed model run on the same stream; "
            "duration verdict: intime iff the call returned within the model's configuration-only bound (MBAP: timeout; RTU: max(timeout+g, "
            "t35+n*t1+t35) + 256*t1 + 500us + g, g = 10 ms on the pty else 0; printed and compared with the extracted bound) + 150 ms "
            "scheduling slack, early if a timeout came before the timeout had elapsed, hang if a 6 x timeout watchdog fired. "
            "P = outcome, verdict and bound equal the model's. "
            "timed, exception replies (c07_timelyexc.go; timeout 600 ms, thorough 400/600/1000): the other kind of VALID reply - on every "
            "transport above, one call per function code the client emits (01 02 03 04 05 06 0F 10) and two typed wrappers are answered "
            "by a well-formed exception response (fc|0x80, one code byte; every documented code 1 2 3 4 5 6 8 10 11 on every run, now and "
            "then an undocumented one; from the addressed unit or the gateway unit 255) that is there at once, after 0.1/0.2/0.3 x timeout, "
            "or in two pieces cut anywhere (0.05/0.2 x timeout); expected from the same extracted tm_client_call (client_validate on the "
            "exception reply; Properties/C07x.v): the error of that code, returned by the arrival of the last byte + 150 ms slack, i.e. "
            "well before the timeout - never request-timed-out. "
            "noread (REAL time; a peer that stops READING): N calls of one operation in a row on one connection; the peer reads and "
            "answers the first 0..2 requests, then keeps the connection open but neither reads nor sends, and the link takes only `room` "
            "more bytes - a request that does not fit blocks in Write until the i/o deadline. Scripted connection (sconn.NoRead; tcp, "
            "rtuovertcp 19200/115200; timeout 120 ms, thorough 80/120/200): room = 0, less than one request, exactly one, one and a "
            "part, two and a part; a Write with no write deadline armed blocks until the connection is closed, like a socket. Real "
            "loopback TCP (harness-dialled socket with a 4 kB send buffer, fake device with a 2 kB receive buffer; tcp, rtuovertcp): "
            "buffers filled to the last byte by the harness before the first dead call (timeout 60 ms), and buffers filling up with 72 "
            "maximum-size WriteRegisters requests (timeout 25 ms). Observables per call: outcome, duration verdict (intime iff within "
            "the same bound + 400 ms slack; hang if a bound + 1 s watchdog fired), whether the Write found the link full (scripted "
            "only), bytes taken by the link; expected values from the extracted tm_session_w (Model/TimedWrite.v): request-timed-out "
            "for every dead call whatever the room (c07b_dead_peer_*), the w flag and byte count from the room accounting, and the "
            "measured duration at most the predicted return (loopback: the bound) + slack. "
            "steady (REAL time; a LONG-LIVED connection to a peer that is alive): N calls of one small operation in a row on ONE "
            "connection that is never re-opened, N = 65576..65975 on the MBAP transports (thorough: also twice round and short "
            "sessions), so that the per-connection state of the transport - the 16-bit transaction counter - takes every value and "
            "starts again; 150..250 calls on rtuovertcp (rt.lastActivity carried from call to call). Scripted connection (tcp, "
            "rtuovertcp 115200) and modbus.NewClient + Open against fake devices on loopback TCP / UDP (quick: one of the two) that read every request "
            "and answer it at once with the valid reply carrying the transaction id FOUND IN THE REQUEST (timeout 1 s); at a few "
            "request indices drawn anywhere and next to the wrap the peer stays silent, answers 0.3/0.5 x timeout late, or first sends "
            "a well-formed frame with a foreign id (the previous one, the next one, +0x8000, any). The session is abandoned after "
            "the (silences + 3)rd call without values. Observables: run-length encoded outcome/duration-verdict sequence (slack "
            "400 ms, hang if a bound + 2 s monitor had to close the connection), number of calls, first request id and how many "
            "ids go up by one mod 2^16, the calls slower than 200 ms with their duration; expected values from the extracted "
            "tm_steady_calls / tm_steady_ids (Model/TimedSteady.v) run through tm_session_w: every call but the silent ones "
            "returns the values of its reply (c07c_steady_session_mbap, any session length), each listed duration at most the "
            "predicted return + slack.",
    "assumptions": [
        "physical assumption: finitely many bytes arrive in finite time (the peer is a finite timed stream; only bytes arriving before "
        "the deadline plus the flush window matter)",
        "Go's net.Conn deadlines, time.Sleep and the pty/serial driver behave like read_full_t / tm_sleep up to scheduling slack "
        "(150 ms allowed); statements take no time; Write returns at once while the request fits into what the link still takes and "
        "otherwise blocks until the write deadline (Model/TimedWrite.v; net.Conn write deadlines validated by the noread scenario on "
        "loopback TCP); the serial wrapper has no write deadline (a serial line drains at its own rate) and is not run with a blocked Write",
        "the pre-send wait assumes rt.lastActivity is not in the future (la <= t0): it is then at most t35",
        "serial wrapper variant: every byte is delivered by its own Read (finest chunking); rates >= 9600 bps in the harness",
    ],
}

CLAIM = {
    "text": "Coq theorems over a timed model of one client call (absolute deadline armed once, io.ReadFull against it, the MBAP skip loop, "
            "the RTU sleeps, re-synchronisation delay and 500 us flush, the 10 ms polls of the serial wrapper), for EVERY timed peer stream "
            "(any bytes at any times, any length, with or without close - silence, stalls at every offset, trickles, endless foreign or "
            "garbage frames are instances): MBAP calls return by t0 + timeout; RTU calls return by max(t0+timeout+g, t0+t35+n*t1+t35) + "
            "256*t1 + 500us + g (g = 0 on sockets, 10 ms behind the serial wrapper) - bounds that depend on the configuration and the "
            "request length only; total silence yields request-timed-out exactly at the deadline (serial: within one poll after it) and a "
            "transport timeout is never reported before the deadline; the timed call returns exactly what the untimed client of C01/C02 "
            "returns on the bytes that arrived by the deadline, hence a valid reply (after skippable frames on MBAP, at the start of the "
            "stream on RTU) whose last byte arrives by the deadline is accepted with its values and never turned into a timeout; every "
            "iteration of the skip loop consumes at least 8 bytes, so the loop terminates (no fuel artefact, no panic). A peer that stops "
            "READING (C07b): the same bounds hold for every amount of room left in the link and every session of calls; a request that "
            "does not fit yields request-timed-out at the deadline; a dead peer yields request-timed-out on every call. A LONG-LIVED "
            "connection (C07c): in a session of ANY length, started with any value of the 16-bit transaction counter, against a peer "
            "that answers every request within the timeout with the id of the request (possibly after a frame with a foreign id), "
            "every call returns the values of its reply and consumes it to the last byte; a silence costs one request-timed-out and "
            "nothing else; the i-th request carries the id (start + 1 + i) mod 2^16. The real client is "
            "run in real time against scripted peers of every behaviour class on seven transports and compared with the model's outcome "
            "and bound on every run. At source level (Properties/C05t.v, C12t.v, C07t.v): the transports arm the deadline before any i/o; the TLS wrapper closes the socket after a write timeout; the serial wrapper returns the request-timed-out error after the deadline without reading and masks the driver's short timeout.",
    "note": "PARTIAL: that Go's net.Conn deadlines, time.Sleep, the kernel sockets and the pty/serial driver behave like the model's "
            "read_full_t / sleep (within 150 ms scheduling slack) is validated by the timed harness, not proved; statement execution time "
            "is instantaneous in the model, and so is a Write that fits into the link (one that does not blocks until the deadline, "
            "C07b); the serial wrapper arms no write deadline and is not run against a blocked Write. tcp+tls is not run (tlsSockWrapper.Read/SetDeadline are pass-throughs to the same "
            "net.Conn deadline mechanism); the physical serial line is replaced by a pseudo-terminal. Trusted: kernel, extraction, "
            "modeld glue (ocaml/scn_timed.ml, scn_noread.ml, scn_steady.ml), Go harness (c07*.go), VerifNewClientOnConn / VerifSerialTimings hooks.",
    "technique": "Coq proof over Go source functions translated on every run (GoLite deep embedding; sockets, clock, handler as external functions over an abstract world) + Coq proof (induction over the timed stream; simulation of the timed by the untimed model on the prefix arrived by the "
                 "deadline, reusing the C02 completeness theorems; byte measure for the skip loop) + real-time differential "
                 "correspondence with a watchdog",
}
