import os, sys
sys.path.insert(0, os.path.dirname(os.path.dirname(os.path.abspath(__file__))))
from srcgen import regen_src  # pre-build generator: pure Go functions -> Gen/SrcPure.v

PROP = {
    "confirm_scenarios": ['enforced'],
    "pre": [regen_src],
    "coq": ["C16", "C16b", "C02t"],
    "exhaustive": False,
    "rule": "NewClient: the six schemes x 11 targets x all 2^7 subsets of optional fields (speed, data bits, parity, stop bits, "
            "timeout, certificate, CA pool) zero/non-zero with boundary values (incl. negative and extreme durations, 2^64-1); "
            "~240 near-miss URLs (case changes, prefixes, suffixes, leading/trailing blanks and control bytes, ':/', ':///', "
            "missing scheme, empty, several '://', look-alike bytes, tcp+tls without credentials, rtu+tls) x empty/full/random subsets; "
            "seeded random printable, URL-alphabet and binary URLs. NewServer: the same URL families x all 2^4 subsets. "
            "SetEncoding: all selector pairs 0..3 x 0..3, large values (incl. values whose low byte is 1 or 2, 2^32+1, 2^63+2, 2^64-1) "
            "and random pairs, each followed by WriteUint32 whose transmitted bytes show the encoding in force. "
            "Wiring: for each of the six schemes the real Open() against a loopback TCP listener / TLS peer / UDP socket / pty; "
            "socket kind and framing (MBAP header vs CRC-16) of the first request as seen by the peer; for servers the real Start() "
            "probed over plain TCP and TLS. "
            "Enforced defaults: for each of the six schemes x Speed in {unset, 300, 1200, 2400, 4800, 9600, 19200, 115200} (RTU framing; "
            "unset and 1200 for MBAP in the quick tier) x Timeout {unset, one seeded explicit value of 120..200 ms; more in the thorough tier} "
            "NewClient + the real Open() against a silent loopback peer / pty, one seeded read, wall time until the call returns (measured "
            "twice, each on a newly opened client): request timed out, never before the documented timeout, the quicker of the two by the "
            "model-predicted return instant + 150 ms.",
    "assumptions": [
        "uint is 64 bit and time.Duration an int64 number of nanoseconds (model: N and Z)",
        "the serial wiring is observed through a Linux pty (skipped, and counted as skipped, when /dev/ptmx is unavailable)",
        "enforced timeouts are wall-clock measurements: scheduling delay of the quicker of two measurements below 150 ms (of either below 1 s)",
    ],
}

CLAIM = {
    "text": "Source level (C02t): the request construction and reply validation methods of client.go are translated from the Go source on every run and proved, with the transport as an arbitrary oracle, to return what the model's client_request / unit_check / client_validate say (38 theorems; on the model's own MBAP and RTU transports this is client_call). Coq theorems over ALL URL byte strings and all values of the optional fields: NewClient succeeds iff the text before the FIRST "
            "'://' is exactly one of tcp, tcp+tls, udp, rtu, rtuovertcp, rtuoverudp (and certificate + CA pool are present for tcp+tls), "
            "otherwise it returns the configuration error; on success the effective configuration is the documented table (1 s, 300 ms for rtu; "
            "19200 bps; 8 data bits; 2 stop bits without parity, 1 with; caller values kept; unit 1, big endian, high word first); the "
            "transport opened is the documented (socket, framing) pair for each scheme; NewServer succeeds iff scheme is tcp/tcp+tls, the host part "
            "is non-empty and credentials are present for tcp+tls, with defaults 10 clients / 120 s; SetEncoding refuses every selector outside {1,2} "
            "and leaves the state unchanged. The opened client ENFORCES the kept timeout (C16b: NewClient composed with Open() and the timed "
            "exchange model of C07): for every accepted configuration, speed and valid request a silent peer is reported as request-timed-out, never "
            "before the documented timeout and never after max(timeout, end of the request's own transmission) (+ one 10 ms poll on a serial port); "
            "exactly at the documented timeout for tcp/tcp+tls/udp, and for rtuovertcp/rtuoverudp whenever the request fits in it. split_url is proved to be exactly 'cut at the first occurrence'. The model is compared with the real "
            "constructors, SetEncoding, Open() and Start() on every run.",
    "note": "Trusted: Coq kernel, extraction (ExtrOcamlBasic only), modeld driver and its native URL reader used for P, Go harness incl. its loopback "
            "peers, VerifClientConfig/VerifServerConfig/VerifNewClientOnConn/VerifListenAddr pass-through hooks. The wiring of Open()/Start() is "
            "tied to the model by observation (6 client schemes, 2 server schemes), not by proof about the Go code; likewise that Open() hands the kept "
            "timeout and speed unchanged to the transport (Model/Opened.v) is tied to the code by the timed observation of silent peers.",
    "technique": "Coq proof (list induction for the first-occurrence split, case analysis over the scheme table) + differential correspondence "
                 "with structured, near-miss and random configurations; loopback observation of sockets and framing",
}
