import os, subprocess, concurrent.futures
BUILD = os.environ.get("VERIF_BUILD") or os.path.join(os.path.dirname(os.path.dirname(os.path.dirname(os.path.abspath(__file__)))), "build")

def crc_step_exhaustive(tmp, tier, seed, goenv):
    """C06: compare the whole one-byte CRC transition function (2^16 x 2^8)"""
    table = os.path.join(tmp, "crcstep.bin")
    implrun = os.path.join(BUILD, "bin", "implrun")
    modeld = os.path.join(BUILD, "ocaml", "modeld")
    p = subprocess.run([implrun, "crc-step-table", table], env=goenv, stdout=subprocess.PIPE,
                       stderr=subprocess.STDOUT, text=True)
    if p.returncode != 0:
        return {"evaluations": 0, "bad": [(0, "crc_step_table", "", "implrun failed", p.stdout[-500:], "-")]}
    n = os.cpu_count() or 4
    size = 65536 // n

    def work(i):
        lo, hi = i * size, (65536 if i == n - 1 else (i + 1) * size)
        q = subprocess.run([modeld, "crc_step_table", table, str(lo), str(hi)], stdout=subprocess.PIPE, text=True)
        return q.stdout.strip()
    with concurrent.futures.ThreadPoolExecutor(n) as ex:
        outs = list(ex.map(work, range(n)))
    bad = []
    for o in outs:
        if " bad=0" not in o:
            # the step function differs from the model and from the bit-serial reference: P fails
            bad.append((0, "crc_step_table", o, "impl", "model", "0"))
    os.unlink(table)
    return {"evaluations": 65536 * 256, "bad": bad,
            "note": "crc one-byte transition: all 2^16 states x 2^8 bytes compared with model and bit-serial reference (exhaustive)"}




PROP = {
    "coq": ["C06"],
    "extra": [crc_step_exhaustive],
    "exhaustive": True,
    "rule": "CRC: the complete one-byte transition function (2^24 pairs) is compared exhaustively; whole-string, "
            "chunked and acceptance-test entry points on structured and random strings of length 0..300.",
    "assumptions": [],
}

CLAIM = {'text': 'Coq theorems: table-driven checksum = bit-serial CRC-16/MODBUS for every byte string; chunk independence; GF(2) linearity; acceptance iff trailer = CRC; every single-bit error, burst <= 16 bits (any length) and double-bit error (frames <= 256 bytes) has non-zero syndrome, hence a corrupted valid frame is never accepted. The complete 2^24-entry step function of the real code is compared with model and reference on every run.', 'note': 'Finite facts are vm_compute sweeps over proved-complete enumerators (2^8, 2^16, 2^19, 64x255). Client-level clauses (never success / recovery) rest on the RTU client model (see level text when extended). Trusted: kernel VM, extraction, harness, VerifCRC* hooks.', 'technique': 'Coq proof (finite sweeps lifted by forallb_forall, linearity, induction) + exhaustive differential correspondence of the CRC step function'}
