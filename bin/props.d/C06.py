import os, sys, subprocess, concurrent.futures
sys.path.insert(0, os.path.dirname(os.path.dirname(os.path.abspath(__file__))))
from srcgen import regen_src
from srcreplay import replay_src  # translated source run in Coq vs the real outputs  # pre-build generator: crc.go / encoding.go -> Gen/SrcPure.v
BUILD = os.environ.get("VERIF_BUILD") or os.path.join(os.path.dirname(os.path.dirname(os.path.dirname(os.path.abspath(__file__)))), "build")

def crc_step_exhaustive(tmp, tier, seed, goenv):
    """C06: compare the whole one-byte CRC transition function (2^16 x 2^8)"""
    table = os.path.join(tmp, "crcstep.bin")
    implrun = os.path.join(BUILD, "bin", "implrun")
    modeld = os.path.join(BUILD, "ocaml", "modeld")
    p = subprocess.run([implrun, "crc-step-table", table], env=goenv, stdout=subprocess.PIPE,
                       stderr=subprocess.STDOUT, text=True)
    if p.returncode != 0:
        return {"evaluations": 0, "bad": [(0, "crc_step_table", "", "implrun failed", p.stdout[-500:], "-")]}
    n = os.cpu_count() or 4
    size = 65536 // n

    def work(i):
        lo, hi = i * size, (65536 if i == n - 1 else (i + 1) * size)
        q = subprocess.run([modeld, "crc_step_table", table, str(lo), str(hi)], stdout=subprocess.PIPE, text=True)
        return q.stdout.strip()
    with concurrent.futures.ThreadPoolExecutor(n) as ex:
        outs = list(ex.map(work, range(n)))
    bad = []
    for o in outs:
        if " bad=0" not in o:
            # the step function differs from the model and from the bit-serial reference: P fails
            bad.append((0, "crc_step_table", o, "impl", "model", "0"))
    os.unlink(table)
    return {"evaluations": 65536 * 256, "bad": bad,
            "note": "crc one-byte transition: all 2^16 states x 2^8 bytes compared with model and bit-serial reference (exhaustive)"}




PROP = {
    "coq": ["C06", "C06b", "C06c", "C06s", "C06t", "C06d", "C06e", "C06u"],
    "confirm_scenarios": ['rtuseqbad'],
    "pre": [regen_src],
    "extra": [crc_step_exhaustive, replay_src({'crc'})],
    "exhaustive": True,
    "rule": "CRC: the complete one-byte transition function (2^24 pairs) is compared exhaustively; whole-string, "
            "chunked and acceptance-test entry points on structured and random strings of length 0..300. Client level (scenario rtuflip): valid RTU replies of random valid requests under single-bit flips (all for frames <= 16 bytes, strided above), 24 random bit pairs, 16 random bursts <= 16 bits, 4 random CRC fields, plus the crafted F8 family; each followed by a clean exchange; P = first call not a success and second call a success."
            " Scenario rtufliptail (real deadlines): the reply with its byte count flipped 04->00 is rejected after 5 bytes, its tail arrives 10 ms after the request (inside the 256-character quiet period at 19200 bps); the next exchange must succeed. Scenario rtusess (real deadlines, 9600/19200 bps): three kinds of single-bit corruption that make the client reject the reply before all of its bytes are there (byte count -> 0, unknown function code, exception bit); the tail arrives 5 ms .. (quiet period - 50 ms) after the client took the head off the line, or only after call 1 returned (control); oracle: the extracted timed session model tm_rtu_session on the nominal schedule."
            " Scenario rtuseq (first clause over sequences): sessions of 2..8 calls on ONE client / one RTU transport (scripted connection; rtuovertcp and rtuoverudp opened on loopback) where a call is fresh, the previous one repeated, the same kind / address / size with other data (all items redrawn, or one bit of the first / last / a random item), the same call for another unit id, under another byte / word order, or at the next address; the peer answers a frame iff it ends with the bit-serial CRC-16 of its preceding bytes; oracle: rtuseq_run of the extracted Model/RtuSeq.v; P = every frame the device received ends with its own CRC-16 (ends_with_crcb of Spec/RtuSeqSpec.v) and every request the device was ready to answer is a success (theorems C06d)."
            " Scenario rtuseqbad (second and third clause over sessions and over every RTU-framed transport): sessions of 3..17 calls on ONE client (scripted stream; rtuovertcp and rtuoverudp opened on loopback, one datagram per reply) facing a device that answers every request with a valid reply carrying data of its own, behind a line that damages 1..3 (runs of) replies inside the session - a single bit, two bits, a burst <= 16 bits, another CRC field, or the end cut off -, each followed by at least two exchanges that arrive intact; calls are polls of the same coils / registers, fresh calls, or the previous call under another unit id / encoding; oracle: rtuseqbad_run of the extracted Model/RtuSeqBad.v; P (rtuseqbad_demands, theorems C06e) = no damaged reply is a success, every intact reply is a success with the values of that very reply, and every frame the device received ends with its own CRC-16. The F8 family (a leading part of the damaged reply is a CRC-valid frame) is not drawn here (scenario rtuflip has it).",
    "assumptions": [],
}

CLAIM = {
  "text": "Source level (C06s): crc.go is TRANSLATED from the Go source on every run (harness/cmd/gosrc -> Gen/SrcPure.v, abstract syntax in the GoLite fragment with an executable semantics in Coq) and proved equal to the model for every state and byte string: the 256-entry table, init, the add loop (= bit-serial reference from 0xFFFF), value (low byte first) and isEqual (c06s_*). Model level: table-driven checksum = bit-serial CRC-16/MODBUS for every byte string; chunk independence; GF(2) linearity; acceptance iff trailer = CRC; every single-bit error, burst <= 16 bits (any length) and double-bit error (frames <= 256 bytes) has non-zero syndrome; every frame sent ends with that CRC; for EVERY request, valid reply and such corruption (followed by anything) the client call is not a success, whatever length the corrupted bytes make the receiver infer (c06_never_success); a mismatching CRC field is a bad-CRC error; after a rejection that triggers the resync flush the next exchange succeeds (c06_recovery), also in time: on timed peer streams everything that arrives until the end of the flush window (256 character times of silence + 500 us after the rejection) is discarded, what arrives later is left alone, and a two-call session recovers (c06_timed_flush, c06_timed_flush_any_link, c06_timed_recovery over Model/TimedSession.v). The unconditional recovery clause is refuted in Coq for the code as it is (c06_recovery_refuted = known finding F8). The complete 2^24-entry step function of the real code and corrupted-reply/clean-exchange pairs on the real RTU client are compared with the model on every run. At source level (Properties/C06t.v): readRTUFrame / ExecuteRequest of rtu_transport.go as translated on every run are proved equal to the transport model, which on peer byte streams is read_rtu / rtu_read_response.",
  "note": "Finite facts are vm_compute sweeps over proved-complete enumerators (2^8, 2^16, 2^19, 64x255). F8 (next exchange fails after a corrupted reply whose prefix parses as a complete CRC-valid frame) is a recorded known finding, reported as KNOWN-FINDING, identified by the model-side tag for that input family. Trusted: kernel VM, extraction, harness, scripted connection, VerifCRC* hooks; for the source-level theorems the gosrc translator (syntactic) and the GoLite semantics of Model/GoLite.v (slices as values under the translator's aliasing discipline, capacity = length).",
  "technique": "Coq proof over the Go source of crc.go translated on every run (GoLite deep embedding, loop invariant) + Coq proof (finite sweeps lifted by forallb_forall, linearity, soundness of the RTU client) + exhaustive differential correspondence of the CRC step function + corrupted-reply correspondence",
}
