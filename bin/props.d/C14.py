PROP = {
    "coq": ["C14", "C14b"],
    "exhaustive": False,
    "rule": "The credential x version matrix is finite and enumerated completely in the quick tier, with certificates generated at run "
            "time (CA, foreign CA, intermediate, leaves; ECDSA P-256, in the thorough tier also RSA 2048 and second fresh key sets). "
            "tlssrv: a real NewServer(tcp+tls)+Start with a counting handler; harness TLS clients presenting each of 13 client "
            "credentials (valid chain, self-signed, foreign-CA-signed, expired, not yet valid, server-auth-only EKU, no EKU, pinned leaf, "
            "pinned foreign-signed leaf, pinned expired leaf, chain through a presented intermediate, intermediate not presented, no "
            "certificate) at exactly TLS 1.0 / 1.1 / 1.2 / 1.3 (MinVersion = MaxVersion on the harness side, certificate presented "
            "whatever CAs the server names), then one valid request (function codes 1-6) and a read of the response; plus plain-text "
            "peers (valid MBAP requests) and garbage (random bytes, forged TLS record headers, an HTTP request). Observables: handler "
            "invocations of the connection attempt, response seen. tlscli: a real NewClient(tcp+tls)+Open+ReadRegister against a harness "
            "TLS server presenting each of 13 server credentials (valid, self-signed, foreign, expired, not yet valid, client-auth-only "
            "EKU, wrong host name, no SAN, pinned leaf, pinned leaf for another host, via intermediate, intermediate missing, no "
            "certificate) at each of the four versions; observables: Open error or not, application bytes that reached the fake server. "
            "tlsctor: NewServer/NewClient for tcp+tls and tcp x all four subsets of {certificate, pool}. tlsctl: harness client against "
            "harness server at each version (control: this Go toolchain does negotiate TLS 1.0 and 1.1 when asked, so refusals are the "
            "library's). The oracle token `verifies` of every case is x509.Certificate.Verify (same pool, intermediates, usage, host "
            "name, time as crypto/tls uses) computed without any connection; expected = verifies and version >= TLS 1.2; the model "
            "(extracted tls_server_conn / tls_client_tx run with an oracle built from these tokens) must predict the implementation's "
            "output, and P = implementation served / sent exactly when expected. Every network operation runs under a 2 s deadline; a case whose peer "
            "is expected to be served gets one second attempt if the first missed (loaded machine), a case whose peer must be refused is "
            "never repeated. "
            "Sessions with MORE than one certificate or connection (harness/cmd/implrun/c14b.go, ocaml/scn_tls2.ml): "
            "tlsresume: one harness crypto/tls server with ONE long-lived tls.Config (it issues and accepts session tickets), presenting "
            "the valid / pinned / via-intermediate server credential at exactly TLS 1.2 or 1.3, and TWO real modbus clients in this "
            "process, one after the other, against the same address: A (TLSRootCAs = root set A) does Open + ReadRegister + Close, then "
            "B (root set B) does the same; root sets: the CA, a foreign CA, the pinned server leaf, another pinned leaf; all orders of "
            "trust (A trusting then B not, the mirror image, both, neither); observables per client: Open error or not, application bytes "
            "the server received on that client's connection; each client must be decided by x509.Verify against its OWN roots whatever "
            "the other client did before (b_open=err b_bytes=0 for an untrusting B after a served A); the cases run strictly one after "
            "the other (a session cache would be per process). tlsresumectl: two harness crypto/tls clients sharing a ClientSessionCache "
            "against the same ticket server: the second one resumes (control: the tlsresume server does hand out tickets it accepts). "
            "tlschainrole: the tlssrv run with clients presenting leaf + issuer: 13 credentials whose ISSUER (intermediate CA, or a "
            "trusted self-signed root sent along) carries a well-formed Modbus Role extension (UTF8String admin / root) while the leaf's "
            "own role is empty (no extension, PrintableString, trailing byte, zero-length string, invalid UTF-8, empty value, near-miss "
            "OID, duplicated extension = unparsable, refused) plus controls (leaf with its own role, issuer without role, issuer not "
            "presented, leaf + intermediate + root), at TLS 1.2 and 1.3 (all four versions in the thorough tier); the model is given the "
            "extension lists of ALL presented certificates and the handler must see the role the LEAF states. tlsroles: ONE real "
            "NewServer(tcp+tls) per case whose client CA pool holds four pinned self-signed leaves and the CA; 2-8 harness TLS clients "
            "whose certificates ALL carry serial number 1 (pinned leaves with role ops / admin / none / PrintableString, two CA-issued "
            "leaves with roles viewer / engineer, a stranger and a foreign-CA leaf that are refused), one after the other (seq), all "
            "sessions open at once with round-robin requests (conc), or one goroutine per connection (par), 1-3 valid requests each with "
            "the unit id naming the connection; observable per connection: the role of every handler invocation (attributed by unit id, "
            "cross-checked with ClientAddr) and the responses read; model = tls_start_tls per connection + grun of Model/Sessions.v. "
            "tlschainrole is also run by `check C15`, tlsroles by `check C11`. "
            "The LOCAL certificate varies too (harness/cmd/implrun/c14c_localcred.go, ocaml/scn_tlslocal.ml, Model/TlsLocal.v, "
            "Properties/C14b.v): tlssrvl / tlsclil are the tlssrv / tlscli runs with the modbus side holding an own certificate that is "
            "valid (control), about to expire (+2 h), expired 48 h ago, valid in 48 h, or expired 300 days ago, x peer credentials issued "
            "by a long-lived CA (or pinned self-signed leaves) that are valid, end 24 h before / after the local NotAfter, start 24 h "
            "before / after the local NotBefore (9 peers per local credential, no boundary closer than 1 h to the run), at TLS 1.2 and "
            "1.3 (all four versions in the thorough tier); the harness peer does not verify the modbus side (InsecureSkipVerify on the "
            "harness client, RequestClientCert on the harness server) so that the library's decision is what is observed; `verifies` is "
            "x509.Verify at the real current time as before and expected / P do not look at the local certificate; the model "
            "(tls_server_conn_l / tls_client_tx_l) is given the local validity period and an oracle family indexed by the instant at "
            "which the peer is validated, defined at the current time only.",
    "assumptions": [
        "ORACLE HYPOTHESES (explicit premises of the theorems, about Go's standard library, not about this repository): "
        "tls_srv_documented - a crypto/tls server-side Handshake() returns nil only with a TLS peer, at a version the peer offers that is "
        ">= Config.MinVersion, and, with ClientAuth = RequireAndVerifyClientCert, only if the peer presented a non-empty chain that "
        "x509-verifies against Config.ClientCAs for client authentication at the current time, PeerCertificates being that chain; "
        "tls_cli_documented - a crypto/tls client-side handshake completes only with a TLS peer at a version >= MinVersion and, unless "
        "InsecureSkipVerify, only if the server chain x509-verifies against RootCAs for server authentication for ServerName (the dialled "
        "host) at the current time. They are exercised by the complete matrix on every run (every refusal and every acceptance of the "
        "real handshake agrees with x509.Verify + the version rule).",
        "certificate verification itself (chain building or pinned leaf, validity period, extended key usage, host name) is the oracle "
        "predicate `verifies` = Go's crypto/x509; not modelled",
        "GODEBUG defaults of the harness binary (go.mod go 1.16, Go 1.23 toolchain) leave TLS 1.0/1.1 available on request; tlsctl checks it",
        "the 30 s (server) and 15 s (client) handshake deadlines, cipher suites and renegotiation are not modelled",
        "the model has NO state that outlives a connection attempt (no session cache, no certificate or role cache): every handshake is "
        "decided by the policy of the object it belongs to and by the chain presented on that connection, the role is extract_role of "
        "the first presented certificate; the implementation is held to that by tlsresume (a ticket-issuing server and two clients "
        "with different roots in one process), tlschainrole (role-bearing issuers presented along with the leaf) and tlsroles (different "
        "certificates with one serial number on one server); crypto/tls session resumption itself is Go's (tlsresumectl shows that the "
        "harness server resumes a client that asks for it)",
    ],
    "trusted": [
        "Go's crypto/tls and crypto/x509 (oracle hypotheses above)",
        "the harness' run-time PKI and its TLS peers (harness/cmd/implrun/c14.go) and the oracle instantiation in ocaml/scn_tls.ml",
    ],
}

CLAIM = {
    "text": "Coq theorems (Qed, closed under the global context) over a model of the repository's logic around crypto/tls, quantified over "
            "ALL handshake oracles, verification predicates, configurations, peers, handlers and byte streams: (T1) a handler invocation "
            "on a tcp+tls server implies that the server-side handshake under exactly {ClientAuth = RequireAndVerifyClientCert, MinVersion "
            "= TLS 1.2, ClientCAs = configured pool} returned a session, hence - by the stated crypto/tls hypothesis - the peer speaks TLS, "
            "negotiated TLS 1.2 or 1.3 and presented a chain that verifies against the configured client CAs for client-auth usage now; "
            "plain-text peers, peers without certificate, with a non-verifying chain or offering only TLS 1.0/1.1 never reach a handler, "
            "and a failed handshake yields nothing but the close; (T2) a tcp+tls client writes nothing on the connection unless the "
            "client-side handshake under {RootCAs = configured roots, MinVersion = TLS 1.2, InsecureSkipVerify = false, ServerName = host "
            "part of the dialled address} returned a session, hence the server chain verifies for the dialled host at TLS >= 1.2; (T3) "
            "NewServer/NewClient refuse a tcp+tls configuration iff the certificate or the pool is missing; (T4) a peer the handshake "
            "accepts is served: its first valid request is dispatched exactly once, with the role of its leaf certificate, and answered; "
            "the client's request goes out; (T5) the policy constants are pinned by reflexivity. The whole credential x version matrix "
            "(13 client and 13 server credentials x TLS 1.0-1.3, plain-text and garbage peers, constructor subsets) is run against the "
            "real server and client on every check, with x509.Verify as independent oracle; two clients with different roots against "
            "one ticket-issuing server, chains whose issuer carries a role, and several certificates with the same serial number on one "
            "server are run as well (the theorems being per object and per connection, nothing may carry over).",
    "note": "partial: the theorems are CONDITIONAL on the two stated oracle hypotheses about crypto/tls and crypto/x509 (what a nil "
            "Handshake() error means under a given tls.Config); these are Go's, not this repository's, they are in the trusted base and "
            "are exercised - not proved - by the matrix. Certificate verification is not modelled at all (oracle predicate). Handshake "
            "deadlines, cipher suites and the nil-transport behaviour of calls made after a failed Open (the call panics, nothing is "
            "sent) are exercised by the harness only. Trusted: Coq kernel, extraction, modeld and its oracle instantiation, the Go harness "
            "with its run-time PKI and TLS peers, VerifListenAddr / VerifServerSnapshot hooks.",
    "technique": "Coq proof (case analysis over the constructor and handshake outcomes, reuse of the C03 session and C16 constructor "
                 "lemmas; oracle hypotheses as explicit premises) + complete enumeration of the credential/version matrix against the "
                 "real implementation with crypto/x509 as independent oracle",
}
