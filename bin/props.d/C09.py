import props as _props

PROP = {
    "confirm_scenarios": ['idle', 'blockedwrite', 'slotsaddr'],
    "coq": ["C09", "C09b", "C09c"],
    "extra": [_props.race_detector_run("C09")],
    "exhaustive": False,
    "rule": "Real server on loopback TCP (MaxClients 1..4) driven through deterministic traces: connect, connect-with-the-accept-goroutine-"
            "held-between-Accept-and-the-admission-critical-section (verifYield), release, request probe, client disconnect, protocol "
            "error, disconnect-with-the-session-held-before-its-removal-critical-section, release; fixed race traces (arrival at the "
            "limit, every removal order, reclaim) + seeded random traces; after every step the active-list length and started flag "
            "(VerifServerSnapshot) and the probe outcome (response / closed) are compared with the labelled transition system. Idle "
            "scenario: k idle connections must be closed no earlier than the timeout after their last activity (and within +600 ms), "
            "slots free again, new connection served."
            " Fixed traces also restart the server while the teardown of an old session is still pending (X1 P S C2 M ...): the limit must hold for the connections admitted after the restart."
            " Scenario idle also with connections that never complete a first request (silent; stalled inside the MBAP header; stalled inside the body): the deadline armed at admission must end the session and free the slot."
            " Scenario tlsslots: the same accounting on a tcp+tls server (MaxClients 1..3, run-time certificates): traces mixing legitimate TLS clients (TLS 1.2/1.3; served, then disconnect / protocol error / idle expiry) with peers that take a slot but never become a session (immediate close, clear-text request, garbage, close in the middle of the handshake, no / untrusted / expired / wrong-usage certificate, TLS < 1.2), the failure happening at any later point of the trace; after every step the active-list length, ok/refused, resp/closed and the handler-call count are compared with the Slots model (arrival / departure step lists of Model/SlotsVisit.v); every trace ends with a legitimate client that must be served with exactly one handler call."
            " Scenario slotsaddr: slots belong to connections, not to source addresses: clients dial from FIXED local ip:port (net.Dialer.LocalAddr, aborts with SO_LINGER 0) and come back from an address while the server's session for the previous connection from that address is still alive (held inside a blocking handler, or held before its removal critical section, or the new connection held between Accept and admission); the old session is released later, the server is filled to MaxClients, one connection beyond the limit; after every step the active-list length, resp/closed/held and the handler-call count are compared with the Slots model, in which the address is a label the transition system never looks at (Model/SlotsAddr.v, Properties/C09c.v); every trace ends with a request on every open connection.",
    "assumptions": ["goroutine scheduling and socket close semantics are exercised, not modelled; idle-expiry timing relies on Go's net deadlines"],
}

CLAIM = {
  "text": "Coq theorems over a labelled transition system of the accept goroutine, session goroutines and Start/Stop (every step sequence = every interleaving, every MaxClients): invariant (list length <= MaxClients, no duplicates, list = exactly the serving/ended connections, refused/removed connections are closed), at most MaxClients served at every instant, a connection arriving at the limit is closed and none of its requests is ever dispatched, swap-with-last removal deletes exactly the ended connection for every position, the slot is reclaimed and a later connection is served; idle expiry (timed model of the per-request deadline re-arming): closure no earlier than the timeout after the last request read began, and enabled exactly then. The real server is steered through model traces (including the racy orders, forced deterministically through the verif yield points) and its active-list length / probe outcomes are compared after every step.",
  "note": "partial: goroutine scheduling, socket close semantics and wall-clock idle expiry are runtime facts exercised by the harness (one-sided timing bounds), not modelled. Trusted: kernel, extraction, harness, yield hooks and VerifServerSnapshot.",
  "technique": "Coq proof (invariant by induction over all step sequences, Permutation lemma for swap-with-last) + steered real-server trace correspondence",
}
