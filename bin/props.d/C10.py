import props as _props
from locks_gen import regen_locks

PROP = {
    "coq": ["C10", "C10b", "C10c", "C10d"],
    "pre": [regen_locks],
    "extra": [_props.race_detector_run("C10")],
    "exhaustive": False,
    "rule": "Real server on loopback TCP: fixed and seeded random traces mixing Start, Stop, connect, held accept goroutine across "
            "Stop (and Stop;Start), requests, disconnects, held removals; after every step the started flag, active-list length and "
            "probe outcomes (a request after Stop must find the connection closed; a connection accepted during Stop must be refused; "
            "Start after Stop serves on the same address) are compared with the transition system."
            " Scenario lifeblock: the same kind of traces on a server bound to a fixed address which the harness occupies with a foreign listener while the server is stopped (K) and releases (U): Start while the address is occupied must return an error and leave the server stopped (started flag, active list, live accept goroutines), Stop afterwards must not panic nor fail, a stopped server must refuse a dial, and Start after the release must serve again on that address (model: Model/Lifeblock.v, theorems C10c)."
            " Scenario tlsstop: lifecycle traces on a real tcp+tls server (fixed loopback address, certificates of the C14 harness) with client connections in every phase of becoming a session when Stop runs - TCP connected and silent, real ClientHello sent and stalled, handshake complete and idle, handshake complete with the first bytes of a request sent, accepted with the accept goroutine held before the admission step: after Stop returned every one of them must see EOF/reset within a grace period (3 s, one-sided), the snapshot (started flag, active-list length, live accept goroutines and live session goroutines handleTCPClient/startTLS from runtime.Stack) must show nothing left, a handshake continued or a request sent afterwards must fail without a handler call (handler counter compared at every request and at the end), and Start afterwards must serve a new TLS client on the same address (model: Model/TlsLife.v, theorems C10d)."
            " The lock-skeleton extractor tracks local aliases of shared slice/map fields (a copy of the slice header used after Unlock is an access to the field outside the lock).",
    "assumptions": ["goroutine liveness after Stop and data-race freedom are runtime facts: see level note"],
}

CLAIM = {
  "text": "Coq theorems over the lifecycle transition system (all interleavings of Start/Stop with arrivals, requests, disconnects): Stop closes the listener and every connection of the active list; in every reachable stopped state no request of any connection can reach a handler, including a connection accepted before and enrolled after Stop (refused: the started flag is tested inside the critical section); Start;Start = Start, Stop;Stop = Stop, Stop;Start serves again; lock discipline of the generated server skeleton (c10b_*: mutual exclusion, no data race on the shared fields); after Stop every server goroutine has an exit path of at most two steps and terminal connections have no step left. The real server is steered through such traces (accept goroutine held across Stop) and compared step by step.",
  "note": "partial: the data-race clause is decided on the lock skeleton regenerated from server.go on every run (C10b: every access of Start/Stop/acceptTCPClients/handleTCPClient to started, tcpListener, tcpClients is under the mutex) plus a race-detector run of the scenarios; the extractor and the Go memory model are trusted; goroutine liveness is modelled as exit paths, handlers that never return are outside the model. Trusted: kernel, extraction, harness, yield hooks.",
  "technique": "Coq proof (invariants over all step sequences, idempotence lemmas) + steered real-server trace correspondence",
}
