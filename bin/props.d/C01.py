PROP = {
    "coq": ["C01"],
    "exhaustive": False,
    "rule": "Public client calls on a scripted connection (tcp and rtuovertcp framing), peer silent: all 30 read/write calls x "
            "boundary-directed addresses/quantities/slice lengths (0, 1, limit-1, limit, limit+1, 65535, lengths >= 65536, "
            "multi-register counts whose register total overflows 16 bits) x unit ids x byte/word orders; observables: error class "
            "and every Write call's bytes. Plus a sweep over the quantities of the typed multi-register reads.",
    "assumptions": ["udp/tls/serial transports share the same request construction; their wiring is covered by C16"],
}
CLAIM = None
