import os, sys
sys.path.insert(0, os.path.dirname(os.path.dirname(os.path.abspath(__file__))))
from srcgen import regen_src  # pre-build generator: pure Go functions -> Gen/SrcPure.v
sys.path.insert(0, os.path.dirname(os.path.dirname(os.path.abspath(__file__))))
import coqreplay as _coqreplay

PROP = {
    "coq": ["C01", "C01r", "Findings", "C01s", "C02t", "C01t", "C06u"],
    "pre": [regen_src],
    "extra": [_coqreplay.replay_cc],
    "exhaustive": False,
    "rule": "Public client calls on a scripted connection (tcp and rtuovertcp framing), peer silent: all 30 read/write calls x "
            "boundary-directed addresses/quantities/slice lengths (0, 1, limit-1, limit, limit+1, 65535, lengths >= 65536, "
            "multi-register counts whose register total overflows 16 bits) x unit ids x byte/word orders; observables: error class "
            "and every Write call's bytes. Plus a sweep over the quantities of the typed multi-register reads, and scenario txreal: NewClient + real Open() for tcp, udp, tcp+tls (real handshake), rtuovertcp, rtuoverudp and rtu (pty), random calls, the bytes the silent loopback peer received compared with the model frame. Scenario txhang: real Open() for tcp, rtuovertcp and tcp+tls against a listener that keeps accepting and logs every byte of EVERY connection; the peer reads the whole request and closes / resets / sends a strict prefix of the valid reply and closes or resets, or hangs up before / inside the request; observable: the bytes received per accepted connection until the call has returned, a grace period has passed and the client is closed, and the result class, compared with Model/PeerView.v (one connection, one frame, an error).",
    "assumptions": ["the bulk of the cases run on the scripted connection (tcp and rtuovertcp framing); all six transports are exercised through the real Open() on loopback sockets / a pty with a smaller number of calls (scenario txreal)"],
}
CLAIM = {
  "text": "Source level (C02t): the request construction and reply validation methods of client.go are translated from the Go source on every run and proved, with the transport as an arbitrary oracle, to return what the model's client_request / unit_check / client_validate say (38 theorems; on the model's own MBAP and RTU transports this is client_call). Source level (C01s): the frame assembly functions assembleRTUFrame / assembleMBAPFrame and registerCount are translated from the Go source on every run (harness/cmd/gosrc -> Gen/SrcPure.v) and proved equal to the model's frames for every transaction id, unit id, function code and payload. Coq theorems over the client model: for EVERY public read/write call, address, quantity, slice length (incl. >= 65536 and register totals overflowing 16 bits), value, unit id, byte/word order and both framings, the request PDU equals the Modbus encoding exactly when the arguments are within protocol limits (c01_request_exact) and then exactly one frame (MBAP header / RTU CRC = bit-serial reference) is written, otherwise nothing is written and the unexpected-parameters error is returned (c01_transmit). The model is compared with the real client's Write calls on every run.",
  "note": "Model follows the tree with fix commits F2/F3 applied (the pinned tree violated the property: see known_findings.json). Trusted: kernel, extraction, harness, scripted connection; tcp+tls/udp/serial share the request path (socket wiring: C16).",
  "technique": "Coq proof over Go source functions translated on every run (GoLite deep embedding) + Coq proof (model = unbounded-arithmetic spec, case analysis + lia) + differential correspondence on write logs",
}
