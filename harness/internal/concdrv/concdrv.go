// Package concdrv drives ONE ModbusClient from several goroutines over a
// scripted in-memory connection (property C08). The fake device behind the
// connection checks, per Write call, that exactly one whole well-formed MBAP
// frame arrives, that no other request is outstanding, that the request
// content names its address (so a frame assembled from mixed state is seen),
// and answers with data derived from the requested address (so a reply
// delivered to the wrong caller is seen). Built with -tags verif.
package concdrv

import (
	"fmt"
	"io"
	"log"
	"math"
	"runtime"
	"sync"
	"sync/atomic"
	"time"

	"github.com/simonvetter/modbus"
	"verifharness/internal/sconn"
)

var quiet = log.New(io.Discard, "", 0)

// ReadWriteCalls are the 30 public request methods; SettingCalls the two setters.
var ReadWriteCalls = []string{
	"ReadCoils", "ReadCoil", "ReadDiscreteInputs", "ReadDiscreteInput",
	"ReadRegisters", "ReadRegister", "ReadUint32s", "ReadUint32", "ReadFloat32s", "ReadFloat32",
	"ReadUint64s", "ReadUint64", "ReadFloat64s", "ReadFloat64", "ReadBytes", "ReadRawBytes",
	"WriteCoil", "WriteCoils", "WriteRegister", "WriteRegisters", "WriteUint32s", "WriteUint32",
	"WriteFloat32s", "WriteFloat32", "WriteUint64s", "WriteUint64", "WriteFloat64s", "WriteFloat64",
	"WriteBytes", "WriteRawBytes",
}
var SettingCalls = []string{"SetUnitId", "SetEncoding"}

// Calls = every call a goroutine may make (Close only as the very last call of a case)
func Calls() []string {
	return append(append([]string{}, ReadWriteCalls...), SettingCalls...)
}

// ---------------------------------------------------------------- device

func tagReg(x int) uint16 { return (uint16(x) ^ 0x5a5a) & 0x7f7f }

type device struct {
	busy    int32
	mu      sync.Mutex
	anomaly string
}

func (d *device) flag(s string) {
	d.mu.Lock()
	if d.anomaly == "" {
		d.anomaly = s
	}
	d.mu.Unlock()
}

func (d *device) get() string { d.mu.Lock(); defer d.mu.Unlock(); return d.anomaly }

func u16(b []byte) int { return int(b[0])<<8 | int(b[1]) }

func (d *device) onWrite(c *sconn.Conn, b []byte) {
	// two Write calls at the same time, or a frame arriving while the previous
	// reply has not been read yet: more than one request outstanding
	if !atomic.CompareAndSwapInt32(&d.busy, 0, 1) {
		d.flag("two-outstanding")
		return
	}
	defer atomic.StoreInt32(&d.busy, 0)
	if c.Pending() > 0 {
		d.flag("two-outstanding")
	}
	// exactly one whole MBAP frame per Write call
	if len(b) < 8 || b[2] != 0 || b[3] != 0 || u16(b[4:6]) != len(b)-6 {
		d.flag("interleaved-write")
		return
	}
	fc := b[7]
	p := b[8:]
	hdr := func(n int) []byte { return []byte{b[0], b[1], 0, 0, byte(n >> 8), byte(n), b[6], fc} }
	bad := func() { d.flag(fmt.Sprintf("garbled-request:%x", b)) }
	switch fc {
	case 1, 2:
		if len(p) != 4 {
			bad()
			return
		}
		addr, q := u16(p[0:2]), u16(p[2:4])
		nb := (q + 7) / 8
		data := make([]byte, nb)
		for i := 0; i < q; i++ {
			if (addr>>(uint(i)%16))&1 == 1 {
				data[i/8] |= 1 << (uint(i) % 8)
			}
		}
		c.Feed(append(append(hdr(3+nb), byte(nb)), data...))
	case 3, 4:
		if len(p) != 4 {
			bad()
			return
		}
		addr, q := u16(p[0:2]), u16(p[2:4])
		data := make([]byte, 0, 2*q)
		for i := 0; i < q; i++ {
			v := uint16(addr + i)
			data = append(data, byte(v>>8), byte(v))
		}
		c.Feed(append(append(hdr(3+2*q), byte(2*q)), data...))
	case 5:
		if len(p) != 4 {
			bad()
			return
		}
		addr, v := u16(p[0:2]), u16(p[2:4])
		if (addr&1 == 1) != (v == 0xff00) || (v != 0 && v != 0xff00) {
			bad()
			return
		}
		c.Feed(append(hdr(6), p...))
	case 6:
		if len(p) != 4 {
			bad()
			return
		}
		addr, v := u16(p[0:2]), u16(p[2:4])
		if uint16(v) != tagReg(addr) {
			bad()
			return
		}
		c.Feed(append(hdr(6), p...))
	case 15:
		if len(p) < 5 {
			bad()
			return
		}
		addr, q, bc := u16(p[0:2]), u16(p[2:4]), int(p[4])
		if bc != (q+7)/8 || len(p) != 5+bc {
			bad()
			return
		}
		for i := 0; i < q; i++ {
			got := (p[5+i/8]>>(uint(i)%8))&1 == 1
			if got != ((addr>>(uint(i)%16))&1 == 1) {
				bad()
				return
			}
		}
		c.Feed(append(hdr(6), p[0:4]...))
	case 16:
		if len(p) < 5 {
			bad()
			return
		}
		addr, q, bc := u16(p[0:2]), u16(p[2:4]), int(p[4])
		if bc != 2*q || len(p) != 5+bc {
			bad()
			return
		}
		for i := 0; i < q; i++ {
			if uint16(u16(p[5+2*i:7+2*i])) != tagReg(addr+i) {
				bad()
				return
			}
		}
		c.Feed(append(hdr(6), p[0:4]...))
	default:
		bad()
	}
}

// ---------------------------------------------------------------- calls

func rd(a, i int) uint64 { return uint64(uint16(a + i)) }
func wr(a, i int) uint64 { return uint64(tagReg(a + i)) }

func r32(f func(int, int) uint64, a, i int) uint32 { return uint32(f(a, 2*i)<<16 | f(a, 2*i+1)) }
func r64(f func(int, int) uint64, a, i int) uint64 {
	return f(a, 4*i)<<48 | f(a, 4*i+1)<<32 | f(a, 4*i+2)<<16 | f(a, 4*i+3)
}

func bitsOf(a, q int) []bool {
	l := make([]bool, q)
	for i := range l {
		l[i] = (a>>(uint(i)%16))&1 == 1
	}
	return l
}

func mis(call string, a int, got interface{}) string {
	return fmt.Sprintf("misdelivered:%s@%x:got=%v", call, a, got)
}

// doCall performs one public call for address a; "" = fine, else the anomaly
func doCall(mc *modbus.ModbusClient, call string, a int, unit uint8) (res string, err error) {
	A := uint16(a)
	H := modbus.HOLDING_REGISTER
	eqBools := func(v []bool, q int) bool {
		w := bitsOf(a, q)
		if len(v) != len(w) {
			return false
		}
		for i := range v {
			if v[i] != w[i] {
				return false
			}
		}
		return true
	}
	switch call {
	case "SetUnitId":
		err = mc.SetUnitId(unit)
	case "SetEncoding":
		err = mc.SetEncoding(modbus.BIG_ENDIAN, modbus.HIGH_WORD_FIRST)
	case "Close":
		mc.Close()
	case "ReadCoils":
		var v []bool
		if v, err = mc.ReadCoils(A, 16); err == nil && !eqBools(v, 16) {
			res = mis(call, a, v)
		}
	case "ReadCoil":
		var v bool
		if v, err = mc.ReadCoil(A); err == nil && v != (a&1 == 1) {
			res = mis(call, a, v)
		}
	case "ReadDiscreteInputs":
		var v []bool
		if v, err = mc.ReadDiscreteInputs(A, 13); err == nil && !eqBools(v, 13) {
			res = mis(call, a, v)
		}
	case "ReadDiscreteInput":
		var v bool
		if v, err = mc.ReadDiscreteInput(A); err == nil && v != (a&1 == 1) {
			res = mis(call, a, v)
		}
	case "ReadRegisters":
		var v []uint16
		if v, err = mc.ReadRegisters(A, 3, H); err == nil &&
			(len(v) != 3 || uint64(v[0]) != rd(a, 0) || uint64(v[1]) != rd(a, 1) || uint64(v[2]) != rd(a, 2)) {
			res = mis(call, a, v)
		}
	case "ReadRegister":
		var v uint16
		if v, err = mc.ReadRegister(A, modbus.INPUT_REGISTER); err == nil && uint64(v) != rd(a, 0) {
			res = mis(call, a, v)
		}
	case "ReadUint32s":
		var v []uint32
		if v, err = mc.ReadUint32s(A, 2, H); err == nil && (len(v) != 2 || v[0] != r32(rd, a, 0) || v[1] != r32(rd, a, 1)) {
			res = mis(call, a, v)
		}
	case "ReadUint32":
		var v uint32
		if v, err = mc.ReadUint32(A, H); err == nil && v != r32(rd, a, 0) {
			res = mis(call, a, v)
		}
	case "ReadFloat32s":
		var v []float32
		if v, err = mc.ReadFloat32s(A, 2, H); err == nil &&
			(len(v) != 2 || math.Float32bits(v[0]) != r32(rd, a, 0) || math.Float32bits(v[1]) != r32(rd, a, 1)) {
			res = mis(call, a, v)
		}
	case "ReadFloat32":
		var v float32
		if v, err = mc.ReadFloat32(A, H); err == nil && math.Float32bits(v) != r32(rd, a, 0) {
			res = mis(call, a, v)
		}
	case "ReadUint64s":
		var v []uint64
		if v, err = mc.ReadUint64s(A, 2, H); err == nil && (len(v) != 2 || v[0] != r64(rd, a, 0) || v[1] != r64(rd, a, 1)) {
			res = mis(call, a, v)
		}
	case "ReadUint64":
		var v uint64
		if v, err = mc.ReadUint64(A, H); err == nil && v != r64(rd, a, 0) {
			res = mis(call, a, v)
		}
	case "ReadFloat64s":
		var v []float64
		if v, err = mc.ReadFloat64s(A, 2, H); err == nil &&
			(len(v) != 2 || math.Float64bits(v[0]) != r64(rd, a, 0) || math.Float64bits(v[1]) != r64(rd, a, 1)) {
			res = mis(call, a, v)
		}
	case "ReadFloat64":
		var v float64
		if v, err = mc.ReadFloat64(A, H); err == nil && math.Float64bits(v) != r64(rd, a, 0) {
			res = mis(call, a, v)
		}
	case "ReadBytes", "ReadRawBytes":
		var v []byte
		if call == "ReadBytes" {
			v, err = mc.ReadBytes(A, 5, H)
		} else {
			v, err = mc.ReadRawBytes(A, 5, H)
		}
		if err == nil {
			w := []byte{byte(rd(a, 0) >> 8), byte(rd(a, 0)), byte(rd(a, 1) >> 8), byte(rd(a, 1)), byte(rd(a, 2) >> 8)}
			if string(v) != string(w) {
				res = mis(call, a, v)
			}
		}
	case "WriteCoil":
		err = mc.WriteCoil(A, a&1 == 1)
	case "WriteCoils":
		err = mc.WriteCoils(A, bitsOf(a, 11))
	case "WriteRegister":
		err = mc.WriteRegister(A, uint16(wr(a, 0)))
	case "WriteRegisters":
		err = mc.WriteRegisters(A, []uint16{uint16(wr(a, 0)), uint16(wr(a, 1)), uint16(wr(a, 2))})
	case "WriteUint32s":
		err = mc.WriteUint32s(A, []uint32{r32(wr, a, 0), r32(wr, a, 1)})
	case "WriteUint32":
		err = mc.WriteUint32(A, r32(wr, a, 0))
	case "WriteFloat32s":
		err = mc.WriteFloat32s(A, []float32{math.Float32frombits(r32(wr, a, 0)), math.Float32frombits(r32(wr, a, 1))})
	case "WriteFloat32":
		err = mc.WriteFloat32(A, math.Float32frombits(r32(wr, a, 0)))
	case "WriteUint64s":
		err = mc.WriteUint64s(A, []uint64{r64(wr, a, 0), r64(wr, a, 1)})
	case "WriteUint64":
		err = mc.WriteUint64(A, r64(wr, a, 0))
	case "WriteFloat64s":
		err = mc.WriteFloat64s(A, []float64{math.Float64frombits(r64(wr, a, 0)), math.Float64frombits(r64(wr, a, 1))})
	case "WriteFloat64":
		err = mc.WriteFloat64(A, math.Float64frombits(r64(wr, a, 0)))
	case "WriteBytes", "WriteRawBytes":
		w := []byte{byte(wr(a, 0) >> 8), byte(wr(a, 0)), byte(wr(a, 1) >> 8), byte(wr(a, 1))}
		if call == "WriteBytes" {
			err = mc.WriteBytes(A, w)
		} else {
			err = mc.WriteRawBytes(A, w)
		}
	default:
		res = "harness-error:unknown-call:" + call
	}
	return
}

func mix(x uint64) uint64 {
	x += 0x9e3779b97f4a7c15
	x = (x ^ (x >> 30)) * 0xbf58476d1ce4e5b9
	x = (x ^ (x >> 27)) * 0x94d049bb133111eb
	return x ^ (x >> 31)
}

// runOnce: one fresh client shared by len(threads) goroutines
func runOnce(threads [][]string, seed uint64) string {
	dev := &device{}
	c := sconn.New(true)
	c.OnWrite = dev.onWrite
	mc, err := modbus.VerifNewClientOnConn(&modbus.ClientConfiguration{URL: "tcp://conc", Timeout: time.Second, Logger: quiet}, c)
	if err != nil {
		return "harness-error:" + err.Error()
	}
	var closed int32
	results := make([]string, len(threads))
	start := make(chan struct{})
	var wg sync.WaitGroup
	for t := range threads {
		wg.Add(1)
		go func(t int) {
			defer wg.Done()
			defer func() {
				if recover() != nil {
					results[t] = "panic"
				}
			}()
			<-start
			for k, call := range threads[t] {
				h := mix(seed ^ uint64(t)<<32 ^ uint64(k))
				for j := uint64(0); j < h%4; j++ {
					runtime.Gosched()
				}
				a := 1 + (t*997+k*31+int(h>>8%64))%0x6f00
				if call == "Close" {
					atomic.StoreInt32(&closed, 1)
				}
				res, err := doCall(mc, call, a, uint8(1+h>>16%200))
				if res != "" {
					results[t] = res
					return
				}
				if err != nil && atomic.LoadInt32(&closed) == 0 {
					results[t] = fmt.Sprintf("error:%s@%x:%v", call, a, err)
					return
				}
			}
		}(t)
	}
	close(start)
	done := make(chan struct{})
	go func() { wg.Wait(); close(done) }()
	select {
	case <-done:
	case <-time.After(20 * time.Second):
		return "hang"
	}
	if a := dev.get(); a != "" {
		return a
	}
	for _, r := range results {
		if r != "" {
			return r
		}
	}
	return "ok"
}

// Run repeats the case iters times (fresh client every time, different
// jitter); the first anomaly ends it
func Run(threads [][]string, iters int, seed uint64) string {
	for it := 0; it < iters; it++ {
		if r := runOnce(threads, mix(seed+uint64(it))); r != "ok" {
			return r
		}
	}
	return "ok"
}
