package concdrv

// Scenario "concslow" (property C08): goroutines share ONE client while the
// device behind the connection is SLOW - it answers every request correctly,
// but only after a delay that is a sizeable fraction of the request timeout
// (so that callers queue for the client about as long as, or longer than,
// the timeout), or even after the timeout (the caller has given up; the stale
// reply arrives during a later exchange). Whatever the latencies, exchanges
// must stay atomic: one whole frame per Write call, no request written while
// the exchange of the previous one is neither over nor abandoned, never two
// goroutines reading the socket, and every call returns the reply to its own
// request or a time-out.
//
// The verdicts are one-sided and do not depend on the load of the machine: a
// request counts as outstanding from its Write call until its reply has been
// taken off the socket or the i/o deadline the client armed for that exchange
// has passed - before that instant no correct caller can have given up on it.
// Timing only decides how long callers queue, never what is accepted.
//
// Besides the verdict the wire events are reported (q<id> request of call id
// written, e<id> its reply taken, x<id> its deadline passed without a reply):
// the model side runs the extracted check cw_atomic (Model/ConcWire.v) on them.

import (
	"fmt"
	"runtime"
	"strings"
	"sync"
	"sync/atomic"
	"time"

	"github.com/simonvetter/modbus"
	"verifharness/internal/sconn"
)

const slowBase = 0x100 // call (t,k) uses addresses slowBase + (16t+k)*16 + 0..7

type slowReq struct {
	id       int
	deadline time.Time // i/o deadline in force when the request was written
	fed      bool      // the reply has been put on the link
	end      int       // link offset (bytes fed so far) of the end of the reply
}

type slowConn struct {
	*sconn.Conn
	dev     *device
	timeout time.Duration
	delays  []int // reply latency of the n-th request in % of the timeout (cyclic)

	mu       sync.Mutex
	deadline time.Time
	cur      *slowReq
	nreq     int
	fedBytes int
	trace    []string
	readers  int32
	stop     chan struct{}
	feeders  sync.WaitGroup
}

func (s *slowConn) SetDeadline(t time.Time) error {
	s.mu.Lock()
	s.deadline = t
	s.mu.Unlock()
	return s.Conn.SetDeadline(t)
}

func (s *slowConn) SetReadDeadline(t time.Time) error {
	s.mu.Lock()
	s.deadline = t
	s.mu.Unlock()
	return s.Conn.SetReadDeadline(t)
}

// the exchange of the current request is over once its reply has been consumed
// (call with s.mu held)
func (s *slowConn) settle() {
	if r := s.cur; r != nil && r.fed && s.Conn.ConsumedNow() >= r.end {
		s.trace = append(s.trace, fmt.Sprintf("e%d", r.id))
		s.cur = nil
	}
}

func (s *slowConn) Read(b []byte) (int, error) {
	// only the goroutine whose exchange is in progress reads the socket
	if atomic.AddInt32(&s.readers, 1) > 1 {
		s.dev.flag("concurrent-read")
	}
	n, err := s.Conn.Read(b)
	s.mu.Lock()
	s.settle()
	s.mu.Unlock()
	atomic.AddInt32(&s.readers, -1)
	return n, err
}

// called by sconn.Conn.Write (without its lock) for every Write call
func (s *slowConn) onWrite(_ *sconn.Conn, b []byte) {
	now := time.Now()
	// frame checks and the reply of the stock device, on a scratch link
	scratch := sconn.New(true)
	s.dev.onWrite(scratch, b)
	var reply []byte
	buf := make([]byte, 512)
	for {
		n, err := scratch.Read(buf)
		reply = append(reply, buf[:n]...)
		if err != nil || n == 0 {
			break
		}
	}
	id := 9999
	if len(b) >= 10 {
		if a := u16(b[8:10]); a >= slowBase {
			id = (a - slowBase) / 16
		}
	}
	s.mu.Lock()
	s.settle()
	if r := s.cur; r != nil {
		if !r.deadline.IsZero() && !now.Before(r.deadline) {
			// its caller has timed out (or is about to): abandoned
			s.trace = append(s.trace, fmt.Sprintf("x%d", r.id))
		} else {
			s.dev.flag("two-outstanding")
		}
	}
	r := &slowReq{id: id, deadline: s.deadline}
	s.cur = r
	s.trace = append(s.trace, fmt.Sprintf("q%d", id))
	n := s.nreq
	s.nreq++
	s.mu.Unlock()
	if len(reply) == 0 {
		return
	}
	d := s.timeout * time.Duration(s.delays[n%len(s.delays)]) / 100
	s.feeders.Add(1)
	go func() {
		defer s.feeders.Done()
		select {
		case <-time.After(d):
		case <-s.stop:
			return
		}
		s.mu.Lock()
		s.fedBytes += len(reply)
		r.end = s.fedBytes
		r.fed = true
		s.Conn.Feed(reply)
		s.mu.Unlock()
	}()
}

// RunSlow: one fresh client shared by len(threads) goroutines; goroutine t
// starts t*stagger after the others were released. Returns "<verdict> <wire
// events>", verdict = "ok" or the first anomaly.
func RunSlow(threads [][]string, timeout, stagger time.Duration, delays []int, seed uint64) string {
	if len(delays) == 0 || timeout <= 0 {
		return "harness-error:bad-input -"
	}
	dev := &device{}
	sc := &slowConn{Conn: sconn.New(false), dev: dev, timeout: timeout, delays: delays, stop: make(chan struct{})}
	sc.Conn.OnWrite = sc.onWrite
	mc, err := modbus.VerifNewClientOnConn(&modbus.ClientConfiguration{URL: "tcp://concslow", Timeout: timeout, Logger: quiet}, sc)
	if err != nil {
		return "harness-error:" + strings.ReplaceAll(err.Error(), " ", "_") + " -"
	}
	var closed int32
	ncalls := 0
	results := make([]string, len(threads))
	start := make(chan struct{})
	var wg sync.WaitGroup
	for t := range threads {
		ncalls += len(threads[t])
		wg.Add(1)
		go func(t int) {
			defer wg.Done()
			defer func() {
				if recover() != nil {
					results[t] = "panic"
				}
			}()
			<-start
			time.Sleep(time.Duration(t) * stagger)
			for k, call := range threads[t] {
				h := mix(seed ^ uint64(t)<<32 ^ uint64(k))
				for j := uint64(0); j < h%4; j++ {
					runtime.Gosched()
				}
				a := slowBase + (16*t+k)*16 + int(h>>8%8)
				if call == "Close" {
					atomic.StoreInt32(&closed, 1)
				}
				res, err := doCall(mc, call, a, uint8(1+h>>16%200))
				if res != "" {
					results[t] = res
					return
				}
				// the device is correct: a call returns its own reply or a time-out
				// (anything once Close has been called)
				if err != nil && err != modbus.ErrRequestTimedOut && atomic.LoadInt32(&closed) == 0 {
					results[t] = strings.ReplaceAll(fmt.Sprintf("error:%s@%x:%v", call, a, err), " ", "_")
					return
				}
			}
		}(t)
	}
	close(start)
	done := make(chan struct{})
	go func() { wg.Wait(); close(done) }()
	verdict := ""
	select {
	case <-done:
	case <-time.After(30*time.Second + 4*time.Duration(ncalls+len(threads))*timeout):
		// watchdog only: every call is bounded by (queue length) x timeout
		verdict = "hang"
	}
	close(sc.stop)
	sc.Conn.Close() // not through the client: its lock is part of what is under test
	if verdict == "" {
		sc.feeders.Wait()
	}
	if verdict == "" {
		verdict = dev.get()
	}
	if verdict == "" {
		for _, r := range results {
			if r != "" {
				verdict = r
				break
			}
		}
	}
	if verdict == "" {
		verdict = "ok"
	}
	sc.mu.Lock()
	tr := strings.Join(sc.trace, ",")
	sc.mu.Unlock()
	if tr == "" {
		tr = "-"
	}
	return strings.ReplaceAll(verdict, " ", "_") + " " + tr
}
