// Package sconn is a scripted, buffered in-memory net.Conn: the harness
// prescribes exactly which chunks each Read may return, every Write call is
// logged separately and never blocks, deadlines are honoured (really, or
// "virtually": an empty queue immediately reports a deadline error).
package sconn

import (
	"io"
	"net"
	"os"
	"sync"
	"time"
)

type addr string

func (a addr) Network() string { return "sconn" }
func (a addr) String() string  { return string(a) }

type Conn struct {
	mu       sync.Mutex
	cond     *sync.Cond
	queue    [][]byte // chunks not yet (fully) read
	peerEOF  bool     // the peer closed: EOF once the queue is empty
	peerRST  bool     // the peer reset: error once the queue is empty
	closed   bool     // Close() was called locally
	virtual  bool     // empty queue => immediate deadline error (no waiting)
	deadline time.Time
	Writes   [][]byte
	Consumed int // bytes handed to Read callers
	ReadCalls int
	LastRead time.Time // when a Read call last took bytes off the queue
	OnWrite  func(c *Conn, b []byte) // called (without the lock) after each Write
	OnClose  func()
	FailWrites   int  // the next FailWrites Write calls log their bytes and then fail with a deadline error
	BlockWrites  bool // every Write blocks until the write deadline (a peer that does not read, buffers full)
	wdeadline    time.Time
	OnWait   func(c *Conn, readCall int) // called once per Read that finds the queue empty (real mode), before it waits
	Remote   string
	gen      int
}

func New(virtual bool) *Conn {
	c := &Conn{virtual: virtual, Remote: "192.0.2.1:502"}
	c.cond = sync.NewCond(&c.mu)
	return c
}

// Feed appends chunks to the receive queue (empty chunks are dropped).
func (c *Conn) Feed(chunks ...[]byte) {
	c.mu.Lock()
	for _, ch := range chunks {
		if len(ch) > 0 {
			c.queue = append(c.queue, append([]byte(nil), ch...))
		}
	}
	c.mu.Unlock()
	c.cond.Broadcast()
}

// PeerClose makes reads return EOF once the queue is drained.
func (c *Conn) PeerClose() { c.mu.Lock(); c.peerEOF = true; c.mu.Unlock(); c.cond.Broadcast() }

// PeerReset makes reads fail with a connection-reset style error once drained.
func (c *Conn) PeerReset() { c.mu.Lock(); c.peerRST = true; c.mu.Unlock(); c.cond.Broadcast() }

// ConsumedNow: bytes handed to Read callers so far (safe while the conn is in use)
func (c *Conn) ConsumedNow() int { c.mu.Lock(); defer c.mu.Unlock(); return c.Consumed }

func (c *Conn) Pending() int {
	c.mu.Lock()
	defer c.mu.Unlock()
	n := 0
	for _, ch := range c.queue {
		n += len(ch)
	}
	return n
}

func (c *Conn) IsClosed() bool { c.mu.Lock(); defer c.mu.Unlock(); return c.closed }

func (c *Conn) WriteLog() [][]byte {
	c.mu.Lock()
	defer c.mu.Unlock()
	return append([][]byte(nil), c.Writes...)
}

type resetErr struct{}

func (resetErr) Error() string   { return "sconn: connection reset by peer" }
func (resetErr) Timeout() bool   { return false }
func (resetErr) Temporary() bool { return false }

func (c *Conn) Read(b []byte) (int, error) {
	c.mu.Lock()
	defer c.mu.Unlock()
	c.ReadCalls++
	notified := false
	for {
		if c.closed {
			return 0, net.ErrClosed
		}
		if len(b) == 0 {
			return 0, nil
		}
		if len(c.queue) > 0 {
			n := copy(b, c.queue[0])
			if n == len(c.queue[0]) {
				c.queue = c.queue[1:]
			} else {
				c.queue[0] = c.queue[0][n:]
			}
			c.Consumed += n
			c.LastRead = time.Now()
			return n, nil
		}
		if c.peerRST {
			return 0, resetErr{}
		}
		if c.peerEOF {
			return 0, io.EOF
		}
		if c.virtual {
			return 0, os.ErrDeadlineExceeded
		}
		if !c.deadline.IsZero() && !time.Now().Before(c.deadline) {
			return 0, os.ErrDeadlineExceeded
		}
		if c.OnWait != nil && !notified {
			notified = true
			f, n := c.OnWait, c.ReadCalls
			c.mu.Unlock()
			f(c, n)
			c.mu.Lock()
			continue
		}
		// wait for data, close or the deadline
		if !c.deadline.IsZero() {
			d := time.Until(c.deadline)
			gen := c.gen
			t := time.AfterFunc(d, func() {
				c.mu.Lock()
				if c.gen == gen {
					c.cond.Broadcast()
				}
				c.mu.Unlock()
			})
			c.cond.Wait()
			t.Stop()
		} else {
			c.cond.Wait()
		}
	}
}

func (c *Conn) Write(b []byte) (int, error) {
	c.mu.Lock()
	if c.closed {
		c.mu.Unlock()
		return 0, net.ErrClosed
	}
	c.Writes = append(c.Writes, append([]byte(nil), b...))
	if c.FailWrites > 0 {
		c.FailWrites--
		c.mu.Unlock()
		return len(b) / 2, os.ErrDeadlineExceeded
	}
	if c.BlockWrites {
		// wait for the write deadline (or Close); no deadline: wait until closed
		for !c.closed {
			if !c.wdeadline.IsZero() && !time.Now().Before(c.wdeadline) {
				c.mu.Unlock()
				return 0, os.ErrDeadlineExceeded
			}
			if !c.wdeadline.IsZero() {
				d := time.Until(c.wdeadline)
				t := time.AfterFunc(d, func() { c.cond.Broadcast() })
				c.cond.Wait()
				t.Stop()
			} else {
				c.cond.Wait()
			}
		}
		c.mu.Unlock()
		return 0, net.ErrClosed
	}
	f := c.OnWrite
	c.mu.Unlock()
	if f != nil {
		f(c, b)
	}
	return len(b), nil
}

func (c *Conn) Close() error {
	c.mu.Lock()
	already := c.closed
	c.closed = true
	f := c.OnClose
	c.mu.Unlock()
	c.cond.Broadcast()
	if already {
		return net.ErrClosed
	}
	if f != nil {
		f()
	}
	return nil
}

// Reopen makes a locally closed conn usable again (models a fresh connection
// for Close/Open sequences on the same harness object).
func (c *Conn) LocalAddr() net.Addr  { return addr("192.0.2.2:1") }
func (c *Conn) RemoteAddr() net.Addr { return addr(c.Remote) }

func (c *Conn) SetDeadline(t time.Time) error {
	c.mu.Lock()
	c.deadline = t
	c.wdeadline = t
	c.gen++
	c.mu.Unlock()
	c.cond.Broadcast()
	return nil
}
func (c *Conn) SetReadDeadline(t time.Time) error {
	c.mu.Lock()
	c.deadline = t
	c.gen++
	c.mu.Unlock()
	c.cond.Broadcast()
	return nil
}
func (c *Conn) SetWriteDeadline(t time.Time) error {
	c.mu.Lock()
	c.wdeadline = t
	c.mu.Unlock()
	c.cond.Broadcast()
	return nil
}
