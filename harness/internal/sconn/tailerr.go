package sconn

// Delivery mode "end with the last bytes" (io.Reader: "When Read encounters an
// error or end-of-file condition after successfully reading n > 0 bytes, it
// returns the number of bytes read. It may return the (non-nil) error from the
// same call or return the error (and n == 0) from a subsequent call.").
//
// A plain Conn reports the scripted end of the stream (PeerClose: io.EOF,
// PeerReset: a reset error) in a Read of its own, after the queue has been
// drained - what kernel TCP sockets and net.Pipe do. TailErr wraps a Conn and
// reports it in the very Read call that hands out the last queued bytes
// (n > 0, err != nil) - what crypto/tls does when a close_notify alert is
// buffered right behind the data, and what any io.Reader is allowed to do.
// Every later Read returns (0, err) as before. A Read that leaves bytes in the
// queue, and every Read while the peer has not closed or reset, is unchanged.

import (
	"io"
	"sync"
)

type TailErr struct {
	*Conn
	tmu       sync.Mutex
	tailReads int // Reads that returned n > 0 together with the end condition
}

// WithTailErr returns the connection c in the "end with the last bytes" mode.
// Feed / PeerClose / PeerReset / WriteLog ... of c keep working (embedded).
func WithTailErr(c *Conn) *TailErr { return &TailErr{Conn: c} }

// endIfDrained: the scripted end condition if nothing is left to read, else nil
func (c *Conn) endIfDrained() error {
	c.mu.Lock()
	defer c.mu.Unlock()
	if len(c.queue) > 0 || c.closed {
		return nil
	}
	if c.peerRST {
		return resetErr{}
	}
	if c.peerEOF {
		return io.EOF
	}
	return nil
}

func (t *TailErr) Read(b []byte) (int, error) {
	n, err := t.Conn.Read(b)
	if err != nil || n == 0 {
		return n, err
	}
	if e := t.Conn.endIfDrained(); e != nil {
		t.tmu.Lock()
		t.tailReads++
		t.tmu.Unlock()
		return n, e
	}
	return n, nil
}

// TailReads: how many Reads so far returned bytes together with the end condition
func (t *TailErr) TailReads() int {
	t.tmu.Lock()
	defer t.tmu.Unlock()
	return t.tailReads
}
