package sconn

import (
	"net"
	"os"
	"time"
)

// NoRead is a scripted connection whose peer may stop READING: the write
// side then behaves like a real socket between two full buffers. As long as
// the peer reads (room < 0) every Write is taken at once (Conn.Write). Once
// it has stopped, the link takes `room` more bytes; a Write that does not fit
// takes what fits and then BLOCKS - until the write deadline (deadline
// error, like net.Conn) or until the connection is closed locally. With NO
// write deadline armed it blocks until the connection is closed, exactly like
// a socket. The read side, the deadlines and Close are those of the embedded
// Conn (SetDeadline arms both deadlines, SetReadDeadline only the read one).
type NoRead struct {
	*Conn
	room     int   // bytes the link still takes; < 0: the peer reads, no limit
	Accepted int   // bytes taken since the peer stopped reading
	Blocked  int   // Write calls that found the link full
	Attempts []int // length of every Write call, in order
}

// NewNoRead wraps c; the peer reads until StopReading is called.
func NewNoRead(c *Conn) *NoRead { return &NoRead{Conn: c, room: -1} }

// StopReading: from now on the link takes room more bytes and not one more.
func (n *NoRead) StopReading(room int) {
	if room < 0 {
		room = 0
	}
	n.mu.Lock()
	n.room = room
	n.mu.Unlock()
}

// BlockedNow / AcceptedNow are safe while the connection is in use.
func (n *NoRead) BlockedNow() int  { n.mu.Lock(); defer n.mu.Unlock(); return n.Blocked }
func (n *NoRead) AcceptedNow() int { n.mu.Lock(); defer n.mu.Unlock(); return n.Accepted }
func (n *NoRead) FirstAttempt() int {
	n.mu.Lock()
	defer n.mu.Unlock()
	if len(n.Attempts) == 0 {
		return 0
	}
	return n.Attempts[0]
}

func (n *NoRead) Write(b []byte) (int, error) {
	c := n.Conn
	c.mu.Lock()
	n.Attempts = append(n.Attempts, len(b))
	if c.closed {
		c.mu.Unlock()
		return 0, net.ErrClosed
	}
	if n.room < 0 || len(b) <= n.room {
		if n.room >= 0 {
			n.room -= len(b)
			n.Accepted += len(b)
		}
		c.mu.Unlock()
		return c.Write(b) // logged, OnWrite called, never blocks
	}
	// the link is full after the first k bytes
	k := n.room
	n.room = 0
	n.Accepted += k
	n.Blocked++
	if k > 0 {
		c.Writes = append(c.Writes, append([]byte(nil), b[:k]...))
	}
	for !c.closed {
		if !c.wdeadline.IsZero() {
			d := time.Until(c.wdeadline)
			if d <= 0 {
				c.mu.Unlock()
				return k, os.ErrDeadlineExceeded
			}
			// the timer takes the lock: it cannot fire between here and Wait
			t := time.AfterFunc(d, func() { c.mu.Lock(); c.cond.Broadcast(); c.mu.Unlock() })
			c.cond.Wait()
			t.Stop()
		} else {
			c.cond.Wait() // no write deadline: only Close (or a deadline set later) wakes us
		}
	}
	c.mu.Unlock()
	return k, net.ErrClosed
}
