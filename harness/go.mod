module verifharness

go 1.16

require github.com/simonvetter/modbus v0.0.0

replace github.com/simonvetter/modbus => /repo
