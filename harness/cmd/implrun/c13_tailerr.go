package main

// C13 under the delivery the io.Reader contract allows besides the one of
// c13.go: the Read that hands out the LAST bytes before the cut also reports
// the cut (n > 0 together with io.EOF / a reset error), instead of reporting
// it in a Read of its own. crypto/tls does this for TLS 1.2 when the
// close_notify alert is buffered right behind the application data.
//   tailrd   : the scripted connection itself in that mode, Read by Read,
//              against the delivery model (Model/TailErr.v tail_read)
//   cutsrvt  : real per-connection server path on such a connection fed with
//              (frame1 ++ ... ++ frameN)[:k] under several chunkings
//   cutcct   : real client on such a connection fed with stream[:k]
//   cuttls   : real sockets - a started tcp+tls server and a TLS 1.2 / 1.3 peer
//              that sends request[:k] and close_notify in ONE TCP segment; a real
//              tcp+tls client against a device that answers reply[:k] + close_notify
//              in one segment
// This file sorts after c13.go: the registrations are appended, the random
// streams of the existing generators keep their indices.

import (
	"bytes"
	"crypto/tls"
	"fmt"
	"io"
	"net"
	"os"
	"sort"
	"strings"
	"sync"
	"time"

	"github.com/simonvetter/modbus"
	"verifharness/internal/sconn"
)

func init() {
	register("C13", scnTailConn, scnCutServerTail, scnCutClientTail, scnCutTLS)
	executors["tailrd"] = runTailRd
	executors["cutsrvt"] = runCutSrvTail
	executors["cutcct"] = runCutCliTail
	executors["cuttls"] = runCutTLS
}

// ---------------------------------------------------------------- scripted connection

// tailConn: a virtual scripted connection fed with the chunks and the end;
// tail = "1": the end is reported by the Read that takes the last bytes
func tailConn(end, tail string, chunks [][]byte) (*sconn.Conn, net.Conn) {
	c := sconn.New(true)
	c.Feed(chunks...)
	if end == "c" {
		c.PeerClose()
	} else if end == "r" {
		c.PeerReset()
	}
	if tail == "1" {
		return c, sconn.WithTailErr(c)
	}
	return c, c
}

func chunksStr(cs [][]byte) string {
	if len(cs) == 0 {
		return "-"
	}
	p := make([]string, len(cs))
	for i := range cs {
		p[i] = hx(cs[i])
	}
	return strings.Join(p, ",")
}

func rdErrTok(err error) string {
	switch {
	case err == nil:
		return "n"
	case err == io.EOF:
		return "eof"
	case os.IsTimeout(err):
		return "dl"
	case strings.Contains(err.Error(), "reset"):
		return "rst"
	}
	return "other"
}

// tailrd: end tail chunks sizes -> one "<bytes>:<error class>" per Read(buf[:size])
func runTailRd(in []string) string {
	_, nc := tailConn(in[0], in[1], chunksTok(in[2]))
	var outs []string
	for _, t := range strings.Split(in[3], ",") {
		buf := make([]byte, atoi(t))
		n, err := nc.Read(buf)
		outs = append(outs, hx(buf[:n])+":"+rdErrTok(err))
	}
	return strings.Join(outs, ",")
}

// cutsrvt: end tail k frames chunks script -> events of the session
func runCutSrvTail(in []string) (out string) {
	stream := bytes.Join(chunksTok(in[3]), nil)
	k := atoi(in[2])
	chunks := chunksTok(in[4])
	if k > len(stream) || !bytes.Equal(bytes.Join(chunks, nil), stream[:k]) {
		return "harness-error:chunks"
	}
	var events []string
	h := &scriptHandler{events: &events}
	if in[5] != "-" && in[5] != "" {
		h.script = strings.Split(in[5], ",")
	}
	srv, err := modbus.NewServer(&modbus.ServerConfiguration{URL: "tcp://127.0.0.1:0", Timeout: time.Second, Logger: quiet}, h)
	if err != nil {
		return "harness-error:" + err.Error()
	}
	c, nc := tailConn(in[0], in[1], chunks)
	c.OnWrite = func(_ *sconn.Conn, b []byte) {
		h.mu.Lock()
		events = append(events, "R:"+hx(b))
		h.mu.Unlock()
	}
	func() {
		defer func() {
			if r := recover(); r != nil {
				events = append(events, "PANIC")
			}
		}()
		srv.VerifServeConn(nc)
	}()
	if c.IsClosed() {
		events = append(events, "X")
	}
	return strings.Join(events, ";")
}

// cutcct: fr unit e w end tail k stream chunks op... -> result writes consumed
func runCutCliTail(in []string) (out string) {
	defer func() {
		if r := recover(); r != nil {
			out = "panic"
		}
	}()
	s := unhex(in[7])
	k := atoi(in[6])
	chunks := chunksTok(in[8])
	if k > len(s) || !bytes.Equal(bytes.Join(chunks, nil), s[:k]) {
		return "harness-error:chunks"
	}
	c, nc := tailConn(in[4], in[5], chunks)
	url := "tcp://sconn"
	if in[0] == "r" {
		url = "rtuovertcp://sconn"
	}
	mc, err := modbus.VerifNewClientOnConn(&modbus.ClientConfiguration{
		URL: url, Timeout: time.Second, Speed: 10000000, Logger: quiet}, nc)
	if err != nil {
		return "harness-error:newclient"
	}
	mc.SetUnitId(uint8(unhx(in[1])))
	mc.SetEncoding(modbus.Endianness(atoi(in[2])), modbus.WordOrder(atoi(in[3])))
	total := c.Pending()
	res := callOp(mc, in[9:])
	return res + " " + writesStr(c.WriteLog()) + " " + itoa(total-c.Pending())
}

// ---------------------------------------------------------------- chunkings

type tailSeg struct {
	label  string
	chunks [][]byte
}

func splitAt(s []byte, pts []int) [][]byte {
	sort.Ints(pts)
	var cs [][]byte
	prev := 0
	for _, p := range pts {
		if p <= prev || p >= len(s) {
			continue
		}
		cs = append(cs, s[prev:p])
		prev = p
	}
	if prev < len(s) {
		cs = append(cs, s[prev:])
	}
	return cs
}

// tailSegs: the ways the cut stream s is handed to the reader. starts are the
// offsets at which frames begin, hdr the header length of the framing. The
// first entry is the whole stream in one chunk.
func tailSegs(r *Rng, s []byte, starts []int, hdr int, all bool) []tailSeg {
	if len(s) == 0 {
		return []tailSeg{{"empty", nil}}
	}
	var segs []tailSeg
	seen := map[string]bool{}
	add := func(label string, cs [][]byte) {
		key := chunksStr(cs)
		if !seen[key] {
			seen[key] = true
			segs = append(segs, tailSeg{label, cs})
		}
	}
	add("one", [][]byte{s})
	// one chunk per frame: only the last (possibly cut) frame carries the end
	add("per-frame", splitAt(s, append([]int(nil), starts...)))
	// header and body of every frame on their own
	var hb []int
	for _, st := range starts {
		hb = append(hb, st, st+hdr)
	}
	add("hdr-body", splitAt(s, hb))
	// the last byte alone
	add("last-byte", splitAt(s, []int{len(s) - 1}))
	if all {
		if len(s) <= 48 {
			var pts []int
			for i := 1; i < len(s); i++ {
				pts = append(pts, i)
			}
			add("bytewise", splitAt(s, pts))
		}
		var pts []int
		for i := 0; i < 1+r.Intn(3); i++ {
			pts = append(pts, 1+r.Intn(len(s)))
		}
		add("random", splitAt(s, pts))
	}
	return segs
}

// cutOffsets: every offset 0..n, or (long streams in the quick tier) the ones
// around the frame boundaries and headers, the last 12, and a random sample
func cutOffsets(r *Rng, n int, starts []int, hdr int, all bool) []int {
	var ks []int
	if all || n <= 80 {
		for k := 0; k <= n; k++ {
			ks = append(ks, k)
		}
		return ks
	}
	pick := map[int]bool{}
	for _, st := range starts {
		for d := -2; d <= hdr+2; d++ {
			pick[st+d] = true
		}
	}
	for d := 0; d <= 12; d++ {
		pick[n-d] = true
	}
	for i := 0; i < 16; i++ {
		pick[r.Intn(n+1)] = true
	}
	for k := range pick {
		if k >= 0 && k <= n {
			ks = append(ks, k)
		}
	}
	sort.Ints(ks)
	return ks
}

// ---------------------------------------------------------------- generators

// the scripted connection in the new mode against the delivery model
func scnTailConn(o *Out, r *Rng, thorough bool) {
	n := 60
	if thorough {
		n = 600
	}
	var ins []string
	for i := 0; i < n; i++ {
		var cs [][]byte
		for j := r.Intn(5); j > 0; j-- {
			cs = append(cs, r.Bytes(1+r.Intn(12)))
		}
		end := cutEnds[r.Intn(3)]
		tail := "1"
		if end == "s" || r.Intn(4) == 0 {
			tail = "0" // a stalled peer has no end to report with the data
		}
		var sizes []string
		for j := 0; j < 6+r.Intn(8); j++ {
			sizes = append(sizes, itoa(r.Pick(1, 2, 3, 7, 1+r.Intn(14), 64)))
		}
		ins = append(ins, end+" "+tail+" "+chunksStr(cs)+" "+strings.Join(sizes, ","))
		o.Stat("tailrd:" + end + tail)
	}
	o.RunMany("tailrd", ins)
}

var supportedFcs = []byte{1, 2, 3, 4, 5, 6, 15, 16}

// (a') server: every cut offset of single requests of every supported function
// code, of complete frames that are not dispatched, and of 2-4 pipelined
// requests (only the last Read carries the end), x {close, reset} x chunkings
func scnCutServerTail(o *Out, r *Rng, thorough bool) {
	per := 3
	if thorough {
		per = 25
	}
	var ins []string
	add := func(frames [][]byte, beh string, label string) {
		stream := bytes.Join(frames, nil)
		var starts []int
		off := 0
		for _, f := range frames {
			starts = append(starts, off)
			off += len(f)
		}
		ftok := chunksStr(frames)
		for _, k := range cutOffsets(r, len(stream), starts, 7, thorough) {
			segs := tailSegs(r, stream[:k], starts, 7, thorough || len(stream) <= 80)
			for _, sg := range segs {
				for _, end := range []string{"c", "r"} {
					ins = append(ins, end+" 1 "+itoa(k)+" "+ftok+" "+chunksStr(sg.chunks)+" "+beh)
				}
				o.Stat("cutsrvt-seg:" + sg.label)
			}
			// control: the same bytes, the end in a Read of its own
			for _, end := range cutEnds {
				ins = append(ins, end+" 0 "+itoa(k)+" "+ftok+" "+chunksStr(segs[len(segs)-1].chunks)+" "+beh)
			}
			if k == len(stream) {
				o.Stat("cutsrvt-at-end:" + label)
			}
		}
		o.Stat("cutsrvt-stream:" + label)
	}
	for _, fc := range supportedFcs {
		for i := 0; i <= per; i++ {
			payload := validRequest(r, fc, i == 0)
			unit := byte(r.Pick(0, 1, 17, 247, 255, r.Intn(256)))
			beh := behaviours[r.Intn(len(behaviours))]
			if i == 0 {
				beh = "ok"
			}
			add([][]byte{mbapFrame(uint16(r.U64()), 0, -1, unit, fc, payload)}, beh, "fc"+itoa(int(fc)))
		}
	}
	// complete but not dispatched
	for _, fc := range []byte{0, 8, 0x17, 0x2b, 0x83} {
		add([][]byte{mbapFrame(uint16(r.U64()), 0, -1, 1, fc, r.Bytes(r.Intn(8)))}, "ok", "unsupported")
	}
	add([][]byte{mbapFrame(7, 0, -1, 1, 3, []byte{0xff, 0xff, 0, 2})}, "ok", "out-of-range")
	add([][]byte{mbapFrame(8, 0, -1, 1, 5, []byte{0, 1, 0x12, 0})}, "ok", "bad-coil")
	// the largest frames
	add([][]byte{mbapFrame(10, 0, -1, 1, 16, validRequestQty(r, 16, 123))}, "ok", "max-fc16")
	add([][]byte{mbapFrame(11, 0, -1, 1, 15, validRequestQty(r, 15, 1968))}, "ok", "max-fc15")
	// pipelined requests; every function code is the last frame of some stream
	streams := 8
	if thorough {
		streams = 64
	}
	for i := 0; i < streams; i++ {
		n := 2 + r.Intn(3)
		var frames [][]byte
		var behs []string
		for j := 0; j < n; j++ {
			fc := supportedFcs[r.Intn(len(supportedFcs))]
			if j == n-1 {
				fc = supportedFcs[i%len(supportedFcs)]
			}
			frames = append(frames, mbapFrame(uint16(r.U64()), 0, -1, byte(r.Pick(0, 1, 17, 255, r.Intn(256))), fc,
				validRequest(r, fc, r.Intn(4) != 0)))
			behs = append(behs, behaviours[r.Intn(len(behaviours))])
		}
		add(frames, strings.Join(behs, ","), "pipelined"+itoa(n))
	}
	o.RunMany("cutsrvt", ins)
}

func cutClientTailCase(fr string, unit, e, w int, end, tail string, k int, stream []byte, chunks [][]byte, op []string) string {
	return strings.Join(append([]string{fr, hxi(unit), itoa(e), itoa(w), end, tail, itoa(k), hx(stream), chunksStr(chunks)}, op...), " ")
}

// one call per function code (1, 2, 3, 4, 5, 6, 15, 16), then seeded random ones
var tailClientOps = [][]string{
	{"ReadCoils", "10", "9"}, {"ReadDiscreteInputs", "fff0", "10"}, {"ReadRegisters", "10", "2", "0"},
	{"ReadRegisters", "0", "3", "1"}, {"WriteCoil", "7", "1"}, {"WriteRegister", "100", "abcd"},
	{"WriteCoils", "0", "10110"}, {"WriteRegisters", "5", "1,2,3"},
}

// (b') client: every cut offset of valid replies (normal and exception; MBAP
// also behind frames that are skipped) x {close, reset} x chunkings
func scnCutClientTail(o *Out, r *Rng, thorough bool) {
	per := 8
	if thorough {
		per = 100
	}
	var ins []string
	for _, fr := range []string{"m", "r"} {
		hdr := 7
		if fr == "r" {
			hdr = 3
		}
		n := 0
		for n < len(tailClientOps)+per {
			unit, e, w := randCfg(r)
			var op []string
			if n < len(tailClientOps) {
				op = tailClientOps[n]
			} else {
				op = randOp(r, opValid)
			}
			fc, payload, ok := buildReply(r, op, e)
			if !ok {
				if n < len(tailClientOps) {
					panic("tailClientOps: no reply for " + op[0])
				}
				continue
			}
			n++
			p := reply{txn: 1, proto: 0, length: -1, unit: byte(unit), fc: fc, payload: payload}
			label := "valid"
			if n > len(tailClientOps) && n%5 == 0 {
				p.fc, p.payload = fc|0x80, []byte{byte(r.Pick(1, 2, 3, 4, 5, 6, 8, 10, 11, r.Intn(256)))}
				label = "exception"
			}
			stream := p.bytes(fr, r)
			starts := []int{0}
			if fr == "m" && n%4 == 0 {
				var pre []byte
				starts = nil
				for j := 0; j < 1+r.Intn(2); j++ {
					f := p
					if r.Bool() {
						f.txn = uint16(2 + r.Intn(65000))
					} else {
						f.proto = uint16(1 + r.Intn(65000))
					}
					f.payload = r.Bytes(r.Intn(12))
					starts = append(starts, len(pre))
					pre = append(pre, f.bytes(fr, r)...)
				}
				starts = append(starts, len(pre))
				stream = append(pre, stream...)
				label += "+foreign-first"
			}
			o.Stat("cutcct:" + fr + ":" + label)
			o.Stat("cutcct-fc:" + itoa(int(fc)))
			for _, k := range cutOffsets(r, len(stream), starts, hdr, thorough) {
				segs := tailSegs(r, stream[:k], starts, hdr, thorough || len(stream) <= 80)
				for _, sg := range segs {
					for _, end := range []string{"c", "r"} {
						ins = append(ins, cutClientTailCase(fr, unit, e, w, end, "1", k, stream, sg.chunks, op))
					}
					o.Stat("cutcct-seg:" + sg.label)
				}
				for _, end := range cutEnds {
					ins = append(ins, cutClientTailCase(fr, unit, e, w, end, "0", k, stream, segs[len(segs)-1].chunks, op))
				}
			}
		}
	}
	o.RunMany("cutcct", ins)
}

// ---------------------------------------------------------------- real sockets (TLS)

const cutTLSTimeout = 5 * time.Second

// corkConn holds back the writes made while corked and pushes them out with a
// single Write on the socket (one TCP segment on loopback) when closed.
type corkConn struct {
	net.Conn
	mu       sync.Mutex
	corked   bool
	pending  []byte
	flushed  int
	flushErr error
}

func (cc *corkConn) cork() { cc.mu.Lock(); cc.corked = true; cc.mu.Unlock() }

func (cc *corkConn) Write(b []byte) (int, error) {
	cc.mu.Lock()
	defer cc.mu.Unlock()
	if cc.corked {
		cc.pending = append(cc.pending, b...)
		return len(b), nil
	}
	return cc.Conn.Write(b)
}

func (cc *corkConn) Close() error {
	cc.mu.Lock()
	defer cc.mu.Unlock()
	if len(cc.pending) > 0 {
		// tls.Conn.Close leaves an expired write deadline on the socket
		cc.Conn.SetWriteDeadline(time.Now().Add(cutTLSTimeout))
		cc.flushed, cc.flushErr = cc.Conn.Write(cc.pending)
		if cc.flushErr == nil && cc.flushed != len(cc.pending) {
			cc.flushErr = io.ErrShortWrite
		}
		cc.pending = nil
	}
	return cc.Conn.Close()
}

func scnCutTLS(o *Out, r *Rng, thorough bool) {
	var ins []string
	vers := []string{"12", "13"}
	for i, fc := range []byte{3, 16, 15, 1, 2, 4, 5, 6} {
		f := mbapFrame(uint16(r.U64()), 0, -1, byte(r.Pick(1, 9, 255)), fc, validRequest(r, fc, true))
		for k := 0; k <= len(f); k++ {
			if !thorough && i >= 3 && k < len(f)-1 {
				continue // quick: every offset of three frames, the last two offsets of the others
			}
			for _, v := range vers {
				ins = append(ins, "srv "+v+" "+itoa(k)+" "+hx(f))
			}
		}
		o.Stat("cuttls:srv-frame:fc" + itoa(int(fc)))
	}
	ops := [][]string{{"ReadRegisters", "10", "2", "0"}, {"WriteCoil", "7", "1"}, {"ReadCoils", "fff0", "9"}}
	if thorough {
		ops = append(ops, tailClientOps...)
	}
	for _, op := range ops {
		fc, payload, ok := buildReply(r, op, 1)
		if !ok {
			continue
		}
		unit := r.Pick(1, 17, 247)
		for k := 0; k <= len(payload)+8; k++ {
			for _, v := range vers {
				ins = append(ins, strings.Join(append([]string{"cli", v, itoa(k), hxi(unit), "1", "1",
					hxi(int(fc)), hx(payload)}, op...), " "))
			}
		}
		o.Stat("cuttls:cli-op")
	}
	o.RunMany("cuttls", ins)
}

func runCutTLS(in []string) (out string) {
	done := make(chan string, 1)
	go func() {
		defer func() {
			if r := recover(); r != nil {
				done <- fmt.Sprintf("panic:%v", r)
			}
		}()
		if in[0] == "srv" {
			done <- cutTLSServer(c14Version(in[1]), atoi(in[2]), unhex(in[3]))
		} else {
			done <- cutTLSClient(c14Version(in[1]), atoi(in[2]), int(unhx(in[3])), atoi(in[4]), atoi(in[5]),
				byte(unhx(in[6])), unhex(in[7]), in[8:])
		}
	}()
	select {
	case s := <-done:
		return s
	case <-time.After(40 * time.Second):
		return "harness-error:hung"
	}
}

// srv ver k frame -> calls=<handler invocations> count=<active list> up=<started> fresh=<probe on a new connection>
// The peer completes the handshake, then hands frame[:k] and its close_notify
// alert to the socket with ONE write and closes.
func cutTLSServer(ver uint16, k int, frame []byte) string {
	if k > len(frame) {
		return "harness-error:offset"
	}
	pki := c14GetPKI("ec")
	cred := pki.clients["valid"]
	h := &countHandler{}
	srv, err := modbus.NewServer(&modbus.ServerConfiguration{URL: "tcp+tls://127.0.0.1:0", MaxClients: 1,
		TLSServerCert: pki.srvValid, TLSClientCAs: cred.pool, Timeout: cutTLSTimeout, Logger: quiet}, h)
	if err != nil {
		return "harness-error:" + err.Error()
	}
	if err := srv.Start(); err != nil {
		return "harness-error:start:" + err.Error()
	}
	defer srv.Stop()
	a := srv.VerifListenAddr()
	if a == nil {
		return "harness-error:no-addr"
	}
	dial := func() (*corkConn, *tls.Conn, error) {
		raw, err := net.DialTimeout("tcp", a.String(), cutTLSTimeout)
		if err != nil {
			return nil, nil, err
		}
		cc := &corkConn{Conn: raw}
		tc := tls.Client(cc, &tls.Config{RootCAs: pki.caPool, ServerName: "127.0.0.1", MinVersion: ver, MaxVersion: ver,
			Certificates: []tls.Certificate{*cred.cert}})
		tc.SetDeadline(time.Now().Add(cutTLSTimeout))
		if err := tc.Handshake(); err != nil {
			raw.Close()
			return nil, nil, err
		}
		return cc, tc, nil
	}
	cc, tc, err := dial()
	if err != nil {
		return "harness-error:handshake"
	}
	waitCount(srv, 1, 2*time.Second)
	if ver == tls.VersionTLS13 {
		// take the post-handshake messages of the server off the socket: closing a
		// socket with unread data would reset the connection instead of closing it
		tc.SetReadDeadline(time.Now().Add(150 * time.Millisecond))
		tc.Read(make([]byte, 16))
	}
	cc.cork()
	tc.SetWriteDeadline(time.Now().Add(cutTLSTimeout))
	if k > 0 {
		if _, err := tc.Write(frame[:k]); err != nil {
			return "harness-error:write"
		}
	}
	tc.Close()
	if cc.flushErr != nil || cc.flushed == 0 {
		return "harness-error:flush"
	}
	waitCount(srv, 0, cutTLSTimeout+3*time.Second)
	st, n, _ := srv.VerifServerSnapshot()
	h.mu.Lock()
	nc := h.calls
	h.mu.Unlock()
	up := "0"
	if st {
		up = "1"
	}
	fresh := "closed"
	if cc2, tc2, err := dial(); err == nil {
		fresh = probe(tc2)
		tc2.Close()
		cc2.Close()
	}
	return fmt.Sprintf("calls=%d count=%d up=%s fresh=%s", nc, n, up, fresh)
}

// cli ver k unit e w fc payload op... ->
//
//	<first call> closed=<call between Close and Open> fresh=<call after Open> w2=<request of the fresh call>
//
// The device reads the request, then hands reply[:k] and its close_notify alert
// to the socket with ONE write and closes; the second connection is answered in full.
func cutTLSClient(ver uint16, k int, unit, e, w int, fc byte, payload []byte, op []string) string {
	pki := c14GetPKI("ec")
	cred := pki.servers["valid"]
	ln, err := net.Listen("tcp", "127.0.0.1:0")
	if err != nil {
		return "harness-error:listen"
	}
	defer ln.Close()
	var mu sync.Mutex
	var req2 []byte
	devErr := ""
	fail := func(s string) { mu.Lock(); devErr = s; mu.Unlock() }
	var conns []net.Conn
	var wg sync.WaitGroup
	accept := func() (*corkConn, *tls.Conn, bool) {
		ln.(*net.TCPListener).SetDeadline(time.Now().Add(2 * cutTLSTimeout))
		c, err := ln.Accept()
		if err != nil {
			return nil, nil, false
		}
		mu.Lock()
		conns = append(conns, c)
		mu.Unlock()
		cc := &corkConn{Conn: c}
		ts := tls.Server(cc, &tls.Config{MinVersion: ver, MaxVersion: ver, ClientAuth: tls.RequestClientCert,
			Certificates: []tls.Certificate{*cred.cert}})
		ts.SetDeadline(time.Now().Add(cutTLSTimeout))
		if err := ts.Handshake(); err != nil {
			return nil, nil, false
		}
		return cc, ts, true
	}
	wg.Add(1)
	go func() {
		defer wg.Done()
		defer func() {
			if r := recover(); r != nil {
				fail("device-panic")
			}
		}()
		cc1, ts1, ok := accept()
		if !ok {
			fail("accept1")
			return
		}
		req1, err := readDeviceRequest(ts1, "m")
		if err != nil {
			fail("read1")
			return
		}
		rep := deviceReply("m", req1, byte(unit), fc, payload)
		if k > len(rep) {
			fail("offset")
			return
		}
		cc1.cork()
		ts1.SetWriteDeadline(time.Now().Add(cutTLSTimeout))
		if k > 0 {
			if _, err := ts1.Write(rep[:k]); err != nil {
				fail("write1")
				return
			}
		}
		ts1.Close()
		if cc1.flushErr != nil || cc1.flushed == 0 {
			fail("flush")
			return
		}
		_, ts2, ok := accept()
		if !ok {
			fail("accept2")
			return
		}
		r2, err := readDeviceRequest(ts2, "m")
		if err != nil {
			fail("read2")
			return
		}
		mu.Lock()
		req2 = r2
		mu.Unlock()
		ts2.SetWriteDeadline(time.Now().Add(cutTLSTimeout))
		if _, err := ts2.Write(deviceReply("m", r2, byte(unit), fc, payload)); err != nil {
			fail("write2")
		}
	}()

	mc, err := modbus.NewClient(&modbus.ClientConfiguration{
		URL:           "tcp+tls://" + ln.Addr().String(),
		TLSClientCert: pki.cliValid,
		TLSRootCAs:    cred.pool,
		Timeout:       cutTLSTimeout,
		Logger:        quiet,
	})
	if err != nil {
		return "harness-error:newclient"
	}
	mc.SetUnitId(uint8(unit))
	mc.SetEncoding(modbus.Endianness(e), modbus.WordOrder(w))
	if err := mc.Open(); err != nil {
		return "harness-error:open1"
	}
	r1 := callOp(mc, op)
	mc.Close()
	r2 := callOp(mc, op)
	r3 := "harness-error:open2"
	if err := mc.Open(); err == nil {
		r3 = callOp(mc, op)
		mc.Close()
	}
	wg.Wait()
	mu.Lock()
	defer mu.Unlock()
	for _, c := range conns {
		c.Close()
	}
	if devErr != "" {
		return "harness-error:device:" + devErr + " " + r1 + " " + r3
	}
	return projectRes(r1) + " closed=" + projectRes(r2) + " fresh=" + r3 + " w2=" + hx(req2)
}
