package main

import (
	"strconv"
	"strings"

	"verifharness/internal/concdrv"
)

// C08: one client shared between goroutines. Scenario "conc":
//   input : <iterations> <seed(hex)> <thread> <thread> ...   thread = call,call,...
//   output: "ok" or the first anomaly (interleaved-write, two-outstanding,
//           garbled-request:.., misdelivered:.., error:.., panic, hang)
// The fake device and the per-call checks live in internal/concdrv (shared
// with cmd/racepairs, which runs the pairs under the race detector).

func init() {
	register("C08", scnConcPairs, scnConcSets)
	executors["conc"] = runConc
}

func runConc(in []string) (out string) {
	defer func() {
		if recover() != nil {
			out = "panic"
		}
	}()
	if len(in) < 3 {
		return "harness-error:bad-input"
	}
	iters := atoi(in[0])
	seed, _ := strconv.ParseUint(in[1], 16, 64)
	var threads [][]string
	for _, t := range in[2:] {
		threads = append(threads, strings.Split(t, ","))
	}
	return concdrv.Run(threads, iters, seed)
}

// every unordered pair of the 30 request methods + SetUnitId + SetEncoding, from two goroutines
func scnConcPairs(o *Out, r *Rng, thorough bool) {
	iters := 50
	if thorough {
		iters = 200
	}
	calls := concdrv.Calls()
	var ins []string
	for i := range calls {
		for j := i; j < len(calls); j++ {
			ins = append(ins, itoa(iters)+" "+hxu(r.U64()>>16)+" "+calls[i]+" "+calls[j])
			o.Stat("call:" + calls[i])
			o.Stat("call:" + calls[j])
		}
	}
	o.RunMany("conc", ins)
}

// larger random sets: 8 goroutines (and some 2-goroutine cases with longer
// lists), 1..4 calls each, optionally Close as the very last call of one of them
func scnConcSets(o *Out, r *Rng, thorough bool) {
	n, iters := 60, 50
	if thorough {
		n, iters = 400, 200
	}
	calls := concdrv.Calls()
	var ins []string
	for c := 0; c < n; c++ {
		g := 8
		maxLen := 4
		if c%5 == 4 {
			g, maxLen = 2, 12
		}
		closer := -1
		if r.Intn(4) == 0 {
			closer = r.Intn(g)
		}
		var ths []string
		for t := 0; t < g; t++ {
			var l []string
			for k := 1 + r.Intn(maxLen); k > 0; k-- {
				name := calls[r.Intn(len(calls))]
				l = append(l, name)
				o.Stat("call:" + name)
			}
			if t == closer {
				l = append(l, "Close")
				o.Stat("call:Close")
			}
			ths = append(ths, strings.Join(l, ","))
		}
		o.Stat("goroutines:" + itoa(g))
		ins = append(ins, itoa(iters)+" "+hxu(r.U64()>>16)+" "+strings.Join(ths, " "))
	}
	o.RunMany("conc", ins)
}
