package main

// C09 - "a slot is released whenever a served client ... is dropped for a
// protocol error ... so that a later connection is served again": the drop is
// the server's doing, so the slot must come back whatever the dropped peer
// does with ITS end of the connection afterwards.
//
// scenario "slotsdrop": maxc transport timeout_ms op...
//   a real modbus.NewServer on loopback (transport tcp | tls12 | tls13,
//   MaxClients = maxc, Timeout = timeout_ms, at least 20 s: no idle expiry can
//   happen during a trace) with a counting handler. The trace is executed one
//   operation at a time; after every operation the length of the active list
//   (VerifServerSnapshot) is reported, so the output is one token per
//   operation, followed by "calls=<handler invocations of the whole trace>".
//
//   C<i>            a client connects (tls: and runs the handshake with a
//                   credential the server accepts)     -> "<n>:ok" | "<n>:refused"
//   R<i>            client i sends one request; on a connection the server has
//                   dropped or refused this is the peer that keeps sending
//                   -> "resp+<handler calls during the op>" | "closed+<k>"
//   D<i>            client i closes its socket                          -> "<n>"
//   V<i>:<hex>:<how>  served client i writes the bytes <hex> - complete MBAP
//                   frames, one of which the server must refuse: a well-framed
//                   request with a bad quantity / value / byte count / payload
//                   length, or a bad MBAP header; requests may be pipelined
//                   before and behind it - and reads until the server closes
//                   the connection. Then it does <how> with its own end:
//       k           keeps the socket open and stays silent (until a later D or
//                   the end of the trace)
//       s           keeps the socket open and keeps sending requests
//       h           shuts down its sending side only
//       c           closes
//       a           aborts (SO_LINGER 0)
//       n           never reads at all - it does not even notice the drop -
//                   and keeps the socket open
//                   The slot must be free again within sdWatchdog (5 s, the idle
//                   timeout being 20 s or more); nothing is waited for but
//                   the server.
//                   -> "<n>:closed+<calls>" | "<n>:open+<calls>" (the server
//                   left the connection open) | "<n>:unseen+<calls>" (how = n)
//
// The expected tokens are computed by the extracted model
// (ocaml/scn_slotsdrop.ml): Model/Server.v decides frame by frame what is
// answered (handler calls) and what is refused, Model/SlotsDrop.v turns that
// into Slots steps (Req ...; End (i, ProtocolError); Remove i).
// Every trace ends with MaxClients new connections, each of which must be
// served, and one more, which must be refused.

import (
	"bytes"
	"crypto/tls"
	"fmt"
	"net"
	"runtime/debug"
	"strings"
	"time"

	"github.com/simonvetter/modbus"
)

func init() {
	register("C09", scnSlotsDrop)
	executors["slotsdrop"] = runSlotsDrop
}

const sdWatchdog = 5 * time.Second

// a request with a transaction id of its own, and the head of its response
var sdLateReq = []byte{0x77, 0x77, 0, 0, 0, 6, 1, 3, 0, 0, 0, 1}
var sdLateResp = []byte{0x77, 0x77, 0, 0, 0, 5, 1, 3, 2}

type sdPeer struct {
	raw    net.Conn // the TCP socket
	c      net.Conn // what requests go through: raw, or the TLS tunnel
	served bool     // on the active list, as far as the harness knows
	gone   bool     // the server dropped or refused it
	closed bool     // the peer closed its own socket
}

func (p *sdPeer) halfClose() {
	if tc, ok := p.c.(*tls.Conn); ok {
		tc.CloseWrite()
	}
	if t, ok := p.raw.(*net.TCPConn); ok {
		t.CloseWrite()
	}
}

func (p *sdPeer) abort() {
	if t, ok := p.raw.(*net.TCPConn); ok {
		t.SetLinger(0)
	}
	p.raw.Close()
	p.closed = true
}

func (p *sdPeer) close() {
	if p.c != p.raw {
		p.c.SetWriteDeadline(time.Now().Add(time.Second))
		p.c.Close() // close_notify
	}
	p.raw.Close()
	p.closed = true
}

func runSlotsDrop(in []string) (out string) {
	steerMu.Lock()
	defer steerMu.Unlock()
	defer func() {
		if r := recover(); r != nil {
			out = fmt.Sprintf("panic:%v", r)
		}
	}()
	// a connection the server forgets to close must not be closed behind its
	// back by the finalizer of a collected net.Conn
	defer debug.SetGCPercent(debug.SetGCPercent(-1))
	enrolled := make(chan struct{}, 256)
	modbus.VerifSetYield(func(point string) {
		if point == "accept:enrolled" {
			select {
			case enrolled <- struct{}{}:
			default:
			}
		}
	})
	defer modbus.VerifSetYield(nil)

	if len(in) < 3 {
		return "harness-error:bad-input"
	}
	maxc := atoi(in[0])
	transport := in[1]
	timeout := time.Duration(atoi(in[2])) * time.Millisecond
	if timeout < 4*sdWatchdog {
		return "harness-error:timeout-too-short"
	}
	h := &countHandler{}
	conf := &modbus.ServerConfiguration{URL: "tcp://127.0.0.1:0", MaxClients: uint(maxc), Timeout: timeout, Logger: quiet}
	var pki *c14PKI
	if transport != "tcp" {
		pki = c14GetPKI("ec")
		conf.URL = "tcp+tls://127.0.0.1:0"
		conf.TLSServerCert = pki.srvValid
		conf.TLSClientCAs = pki.caPool
	}
	srv, err := modbus.NewServer(conf, h)
	if err != nil {
		return "harness-error:newserver:" + err.Error()
	}
	if err = srv.Start(); err != nil {
		return "harness-error:start:" + err.Error()
	}
	defer srv.Stop()
	a := srv.VerifListenAddr()
	if a == nil {
		return "harness-error:no-listener"
	}
	addr := a.String()

	peers := map[int]*sdPeer{}
	defer func() {
		for _, p := range peers {
			p.raw.Close()
		}
	}()
	count := func() int { _, n, _ := srv.VerifServerSnapshot(); return n }
	calls := func() int { h.mu.Lock(); defer h.mu.Unlock(); return h.calls }
	// once a watchdog has expired the case has failed: do not pay for the others
	wd := sdWatchdog
	waitFor := func(want int) {
		end := time.Now().Add(wd)
		for time.Now().Before(end) {
			if count() == want {
				return
			}
			time.Sleep(time.Millisecond)
		}
		wd = 100 * time.Millisecond
	}

	var outs []string
	for _, op := range in[3:] {
		f := strings.Split(op, ":")
		if len(f[0]) < 2 {
			return "harness-error:bad-op:" + op
		}
		kind := f[0][0]
		i := atoi(f[0][1:])
		p := peers[i]
		before, calls0 := count(), calls()
		switch kind {
		case 'C':
			c, err := net.DialTimeout("tcp", addr, sdWatchdog)
			if err != nil {
				return "harness-error:dial:" + err.Error()
			}
			if !waitSig(enrolled, wd) {
				wd = 100 * time.Millisecond
			}
			p = &sdPeer{raw: c, c: c, served: count() > before}
			peers[i] = p
			ok := p.served
			if pki != nil {
				tc := tls.Client(c, tsClientConf(pki, pki.cliValid, strings.TrimPrefix(transport, "tls")))
				// a refusal shows as a closed socket, not as a timeout: the deadline is
				// only there to turn a hang into a failing case
				c.SetDeadline(time.Now().Add(10 * time.Second))
				herr := tc.Handshake()
				c.SetDeadline(time.Time{})
				p.c = tc
				ok = herr == nil
			}
			res := "refused"
			if ok {
				res = "ok"
			} else {
				p.gone = true
			}
			outs = append(outs, itoa(count())+":"+res)
		case 'R':
			res := "closed"
			switch {
			case p == nil || p.closed:
			case p.gone:
				// the peer of a connection the server has given up keeps sending
				p.c.SetWriteDeadline(time.Now().Add(sdWatchdog))
				p.c.Write(sdLateReq)
				data, dangling := tsReadUntilClosed(p.c, wd)
				if bytes.Contains(data, sdLateResp) {
					res = "resp"
				} else if dangling {
					res = "dangling"
					wd = 100 * time.Millisecond
				}
			default:
				res = tsProbe(p.c)
				p.c.SetDeadline(time.Time{})
				if res != "resp" {
					p.gone = true
				}
			}
			outs = append(outs, res+"+"+itoa(calls()-calls0))
		case 'D':
			if p != nil && !p.closed {
				p.close()
				if p.served && !p.gone {
					waitFor(before - 1)
				}
				p.served, p.gone = false, true
			}
			outs = append(outs, itoa(count()))
		case 'V':
			if p == nil || p.closed || len(f) != 3 {
				return "harness-error:bad-op:" + op
			}
			how := f[2]
			p.c.SetWriteDeadline(time.Now().Add(sdWatchdog))
			p.c.Write(unhex(f[1]))
			seen := "unseen"
			if how != "n" {
				// everything the server sends, up to its closing the connection
				_, open := tsReadUntilClosed(p.c, wd)
				seen = "closed"
				if open {
					seen = "open"
					wd = 100 * time.Millisecond
				}
			}
			switch how {
			case "k", "n":
			case "s":
				for k := 0; k < 3; k++ {
					p.c.SetWriteDeadline(time.Now().Add(time.Second))
					p.c.Write(sdLateReq)
				}
			case "h":
				p.halfClose()
			case "c":
				p.close()
			case "a":
				p.abort()
			default:
				return "harness-error:bad-op:" + op
			}
			// the release of the slot is the server's business alone: nothing
			// else is waited for
			if p.served && !p.gone && seen != "open" {
				waitFor(before - 1)
			}
			p.served, p.gone = false, true
			outs = append(outs, itoa(count())+":"+seen+"+"+itoa(calls()-calls0))
		default:
			return "harness-error:bad-op:" + op
		}
	}
	outs = append(outs, "calls="+itoa(calls()))
	return strings.Join(outs, " ")
}

// ---------------------------------------------------------------- generator

func sdWord(v int) []byte { return []byte{byte(v >> 8), byte(v)} }

func sdFrame(r *Rng, fc byte, payload []byte) []byte {
	return mbapFrame(uint16(r.Intn(65536)), 0, -1, byte(r.Intn(256)), fc, payload)
}

// a request the server answers (with a response or an exception)
func sdAnswered(o *Out, r *Rng) []byte {
	switch r.Intn(9) {
	case 0:
		return sdFrame(r, byte(1+r.Intn(2)), append(sdWord(r.Intn(0x8000)), sdWord(1+r.Intn(2000))...))
	case 1:
		return sdFrame(r, byte(3+r.Intn(2)), append(sdWord(r.Intn(0x8000)), sdWord(1+r.Intn(125))...))
	case 2:
		return sdFrame(r, 5, append(sdWord(pickAddr(r)), sdWord(r.Pick(0, 0xff00))...))
	case 3:
		return sdFrame(r, 6, append(sdWord(pickAddr(r)), sdWord(r.Intn(65536))...))
	case 4:
		q := 1 + r.Intn(40)
		n := (q + 7) / 8
		pl := append(append(sdWord(r.Intn(0x8000)), sdWord(q)...), byte(n))
		return sdFrame(r, 15, append(pl, r.Bytes(n)...))
	case 5:
		q := 1 + r.Intn(20)
		pl := append(append(sdWord(r.Intn(0x8000)), sdWord(q)...), byte(2*q))
		return sdFrame(r, 16, append(pl, r.Bytes(2*q)...))
	case 6:
		// a function code the server does not know: illegal function
		return sdFrame(r, byte(r.Pick(7, 8, 0x11, 0x17, 0x2b, 0x41, 0x80, 0xff)), r.Bytes(r.Intn(6)))
	case 7:
		// beyond the end of the address space: illegal data address
		return sdFrame(r, byte(1+r.Intn(4)), append(sdWord(0xfff0+r.Intn(16)), sdWord(17+r.Intn(100))...))
	}
	return append([]byte{}, probeReq...)
}

// a frame the server must refuse (the model is the judge of that)
func sdRefused(o *Out, r *Rng) []byte {
	class := []string{"qty0", "qtybig", "value", "bytecount", "paylen", "datalen", "header", "proto"}[r.Intn(8)]
	o.Stat("slotsdrop:refused:" + class)
	addr := sdWord(pickAddr(r) & 0x7fff)
	switch class {
	case "qty0":
		switch fc := r.Pick(1, 2, 3, 4, 15, 16); fc {
		case 15, 16:
			return sdFrame(r, byte(fc), append(append(addr, 0, 0, byte(r.Pick(0, 1, 2))), r.Bytes(r.Intn(4))...))
		default:
			return sdFrame(r, byte(fc), append(addr, 0, 0))
		}
	case "qtybig":
		switch fc := r.Pick(1, 2, 3, 4, 15, 16); fc {
		case 1, 2:
			return sdFrame(r, byte(fc), append(addr, sdWord(r.Pick(2001, 2002, 0x8000, 0xffff, 2001+r.Intn(60000)))...))
		case 3, 4:
			return sdFrame(r, byte(fc), append(addr, sdWord(r.Pick(126, 127, 256, 0xffff, 126+r.Intn(60000)))...))
		case 15:
			q := r.Pick(1969, 1970, 2000, 0xffff)
			n := (q + 7) / 8
			if n > 247 {
				n = 247
			}
			return sdFrame(r, 15, append(append(append(addr, sdWord(q)...), byte((q+7)/8)), r.Bytes(n)...))
		default:
			q := r.Pick(124, 125, 0x100, 0xffff)
			return sdFrame(r, 16, append(append(append(addr, sdWord(q)...), byte(2*q)), r.Bytes(2+2*r.Intn(100))...))
		}
	case "value":
		return sdFrame(r, 5, append(addr, sdWord(r.Pick(0x1234, 0xff01, 0x00ff, 0x0001, 0xffff, 0xfe00, 1+r.Intn(0xfeff)))...))
	case "bytecount":
		if r.Bool() {
			q := 1 + r.Intn(100)
			n := (q + 7) / 8
			bad := n + r.Pick(-1, 1, 2, 100)
			if bad < 0 {
				bad = 3
			}
			return sdFrame(r, 15, append(append(append(addr, sdWord(q)...), byte(bad)), r.Bytes(r.Pick(n, bad))...))
		}
		q := 1 + r.Intn(60)
		bad := 2*q + r.Pick(-2, -1, 1, 2, 50)
		return sdFrame(r, 16, append(append(append(addr, sdWord(q)...), byte(bad)), r.Bytes(r.Pick(2*q, bad))...))
	case "paylen":
		switch fc := r.Pick(1, 2, 3, 4, 5, 6, 15, 16); fc {
		case 15, 16:
			return sdFrame(r, byte(fc), r.Bytes(r.Intn(6)))
		default:
			return sdFrame(r, byte(fc), r.Bytes(r.Pick(0, 1, 2, 3, 5, 6, 8, 100)))
		}
	case "datalen":
		// quantity and byte count agree, the data does not follow suit
		if r.Bool() {
			q := 9 + r.Intn(100)
			n := (q + 7) / 8
			return sdFrame(r, 15, append(append(append(addr, sdWord(q)...), byte(n)), r.Bytes(n+r.Pick(-1, 1, 7))...))
		}
		q := 2 + r.Intn(60)
		return sdFrame(r, 16, append(append(append(addr, sdWord(q)...), byte(2*q)), r.Bytes(2*q+r.Pick(-2, -1, 1, 2))...))
	case "header":
		// the length field of the MBAP header is out of range
		l := r.Pick(0, 1, 255, 256, 300, 0x8000, 0xffff)
		return append(mbapFrame(uint16(r.Intn(65536)), 0, l, 1, 3, nil), r.Bytes(r.Intn(8))...)
	}
	// a complete frame of another protocol
	f := append([]byte{}, probeReq...)
	f[2], f[3] = byte(r.Intn(256)), byte(1+r.Intn(255))
	return f
}

// the bytes of a V operation: requests the server answers, the frame it
// refuses, and possibly more behind it
func sdStream(o *Out, r *Rng) string {
	var s []byte
	nb := r.Pick(0, 0, 1, 1, 2, 3)
	for k := 0; k < nb; k++ {
		s = append(s, sdAnswered(o, r)...)
	}
	s = append(s, sdRefused(o, r)...)
	switch r.Intn(4) {
	case 0:
		o.Stat("slotsdrop:behind:requests")
		for k := 1 + r.Intn(3); k > 0; k-- {
			s = append(s, sdAnswered(o, r)...)
		}
	case 1:
		o.Stat("slotsdrop:behind:bytes")
		s = append(s, r.Bytes(1+r.Intn(30))...)
	default:
		o.Stat("slotsdrop:behind:nothing")
	}
	o.Stat("slotsdrop:ahead:" + itoa(nb))
	return hx(s)
}

func sdHow(o *Out, r *Rng) string {
	how := []string{"k", "k", "s", "n", "h", "c", "a"}[r.Intn(7)]
	o.Stat("slotsdrop:how:" + how)
	return how
}

// a random trace. The generator keeps track of who holds a slot only to give
// the operations a target; the expected outcome is the model's.
func sdTrace(o *Out, r *Rng, maxc, n int) []string {
	var ops []string
	next := 1
	var live []int   // hold a slot
	var linger []int // dropped or refused, socket still open
	pick := func(l *[]int) int {
		k := r.Intn(len(*l))
		i := (*l)[k]
		*l = append((*l)[:k], (*l)[k+1:]...)
		return i
	}
	connect := func() {
		ops = append(ops, "C"+itoa(next))
		if len(live) < maxc {
			live = append(live, next)
		} else {
			linger = append(linger, next)
		}
		next++
	}
	drop := func() {
		i := pick(&live)
		how := sdHow(o, r)
		ops = append(ops, "V"+itoa(i)+":"+sdStream(o, r)+":"+how)
		if how != "c" && how != "a" {
			linger = append(linger, i)
		}
	}
	for len(ops) < n {
		x := r.Intn(100)
		switch {
		case x < 30:
			connect()
		case x < 60 && len(live) > 0:
			drop()
		case x < 70 && len(live) > 0:
			ops = append(ops, "R"+itoa(live[r.Intn(len(live))]))
		case x < 80 && len(linger) > 0:
			ops = append(ops, "R"+itoa(linger[r.Intn(len(linger))]))
		case x < 88 && len(live) > 0:
			ops = append(ops, "D"+itoa(pick(&live)))
		case x < 93 && len(linger) > 0:
			ops = append(ops, "D"+itoa(pick(&linger)))
		}
	}
	// everybody who still holds a slot leaves, most of them dropped
	for len(live) > 0 {
		if r.Intn(4) == 0 {
			ops = append(ops, "D"+itoa(pick(&live)))
		} else {
			drop()
		}
	}
	// the server is filled again: every slot must be there
	for k := 0; k < maxc; k++ {
		connect()
	}
	for _, i := range live {
		ops = append(ops, "R"+itoa(i))
	}
	connect()
	ops = append(ops, "R"+itoa(next-1))
	if len(linger) > 1 {
		ops = append(ops, "R"+itoa(linger[r.Intn(len(linger)-1)]))
	}
	return ops
}

func scnSlotsDrop(o *Out, r *Rng, thorough bool) {
	rc0 := "000100000006010100000000"        // read 0 coils
	rh126 := "00020000000601030000007e"      // read 126 holding registers
	wc1234 := "000300000006010500071234"     // write single coil, value 0x1234
	wmbc := "00040000000901100000000103beef" // write 1 register, byte count 3
	wcbc := "000500000008010f0000000901ff"   // write 9 coils, byte count 1
	short := "0006000000050104000000"        // read input registers, 3-byte payload
	hdr := "00070000000001"                  // MBAP length 0
	ok := hx(probeReq)
	fixed := []string{
		// MaxClients 1: the only slot, dropped for each kind of error, for each thing the peer may do next
		"1 tcp 30000 C1 R1 V1:" + rc0 + ":k C2 R2 R1 C3 R3",
		"1 tcp 30000 C1 V1:" + wc1234 + ":n C2 R2 D2 C3 R3 D1",
		"1 tcp 120000 C1 R1 V1:" + ok + rh126 + ok + ":s C2 R2 R1 R2",
		"1 tcp 30000 C1 V1:" + wmbc + ":h C2 R2",
		"1 tcp 30000 C1 V1:" + wcbc + ":c C2 R2",
		"1 tcp 30000 C1 V1:" + short + ok + ":a C2 R2",
		"1 tcp 30000 C1 V1:" + hdr + ":k C2 R2 R1",
		// several dropped peers that stay around while the server is filled again
		"2 tcp 30000 C1 C2 C3 R3 V1:" + rc0 + ":k V2:" + ok + wc1234 + ":n C4 C5 C6 R4 R5 R6 R1",
		"3 tcp 60000 C1 C2 C3 V2:" + rh126 + ":s R1 R3 C4 R4 V1:" + wmbc + ok + ":k V3:" + rc0 + ":n C5 C6 C7 R4 R5 R6 R7 R2",
		// the same through TLS
		"1 tls13 30000 C1 R1 V1:" + rc0 + ":k C2 R2 R1",
		"1 tls12 30000 C1 V1:" + ok + wc1234 + ":n C2 R2 C3 R3",
		"2 tls13 30000 C1 C2 V2:" + wmbc + ":s V1:" + rh126 + ":h C3 C4 C5 R3 R4 R5",
	}
	for _, f := range fixed {
		o.Run("slotsdrop", f)
	}
	n := 16
	if thorough {
		n = 400
	}
	for i := 0; i < n; i++ {
		maxc := 1 + r.Intn(3)
		transport := []string{"tcp", "tcp", "tcp", "tls12", "tls13"}[r.Intn(5)]
		tmo := r.Pick(20000, 30000, 60000, 120000)
		ops := sdTrace(o, r, maxc, 3+r.Intn(10))
		o.Run("slotsdrop", itoa(maxc)+" "+transport+" "+itoa(tmo)+" "+strings.Join(ops, " "))
		o.Stat("slotsdrop:maxc:" + itoa(maxc))
		o.Stat("slotsdrop:transport:" + transport)
	}
}
