package main

// C19 - "an RTU client never starts transmitting a request earlier than that
// inter-frame delay after the end of the previous frame it received": the end
// of the frame, however SLOWLY the frame came in. The other silence scenarios
// hand every good reply to the client in one piece; here well-formed replies
// (valid CRC, accepted by the client) are delivered the way a real line, a
// slow device or a segmenting rtuovertcp gateway delivers them: header first
// and the rest after a pause, byte by byte with gaps, in two or three
// segments, the pauses ranging from half to twenty times the line time of the
// bytes still to come.
//
//   silenceslow  link speed n plan
//        -> "ok n=<n> mingap=<ns>" | "err:..." | "hang" | "skipped:..."
//
//   link   sconn  rtuovertcp client (VerifNewClientOnConn) on a scripted
//                 connection with real deadlines
//          tcp    rtuovertcp client (NewClient + the real Open) against a fake
//                 gateway on a loopback TCP socket
//          pty    rtu:// client (NewClient + the real Open) on a pseudo
//                 terminal, fake device on the master side
//   plan   len:pause_us,len:pause_us,...  every reply is handed over in these
//          segments; segment i is written pause_i microseconds after segment
//          i-1 (the first one: after the first byte of the request arrived).
//          The lengths add up to the length of the reply, 5 + 2*quantity.
//
// n back-to-back ReadRegisters. Soundness of the measurement (one-sided, as in
// execSilence / execSilenceFraming): last[k] is read BEFORE the last segment of
// reply k is handed over, so it is not later than the instant the client can
// have seen the end of that frame; arrive[k+1] is read after the first byte of
// request k+1 reached the device, so it is not earlier than the instant the
// client started to transmit. arrive[k+1] - last[k] over-estimates the silence
// the client kept: a client that waits the inter-frame delay after the read
// that consumed the last byte of the frame cannot fail, whatever the scheduler
// does. The smallest of the n-1 gaps is printed; the model side
// (ocaml/scn_timingslow.ml) compares it with the silence the extracted
// send-time machine keeps on the same plan (Model/TimingPieces.v). The
// library's own t1/t3.5 are not consulted here.

import (
	"net"
	"os"
	"strconv"
	"strings"
	"sync"
	"time"

	"github.com/simonvetter/modbus"
	"verifharness/internal/sconn"
)

func init() {
	register("C19", scnSilenceSlow)
	executors["silenceslow"] = execSilenceSlow
}

type c19sSeg struct {
	n     int
	pause time.Duration
}

func c19sParsePlan(s string) (segs []c19sSeg, total int, span time.Duration, ok bool) {
	for _, t := range strings.Split(s, ",") {
		f := strings.Split(t, ":")
		if len(f) != 2 {
			return nil, 0, 0, false
		}
		n, e1 := strconv.Atoi(f[0])
		p, e2 := strconv.Atoi(f[1])
		if e1 != nil || e2 != nil || n < 1 || p < 0 {
			return nil, 0, 0, false
		}
		segs = append(segs, c19sSeg{n, time.Duration(p) * time.Microsecond})
		total += n
		span += time.Duration(p) * time.Microsecond
	}
	return segs, total, span, len(segs) > 0
}

// the device side of a link: requests come in, segments go out
type c19sLine interface {
	// next 8-byte request and an instant not earlier than the arrival of its first byte
	next(stop <-chan struct{}) (first time.Time, req []byte, ok bool)
	deliver(seg []byte) error
}

// scripted connection: the instant is read inside the client's Write call
type c19sScripted struct {
	c  *sconn.Conn
	ch chan c19sReq
}

type c19sReq struct {
	at time.Time
	b  []byte
}

func (l *c19sScripted) next(stop <-chan struct{}) (time.Time, []byte, bool) {
	select {
	case r := <-l.ch:
		return r.at, r.b, true
	case <-stop:
		return time.Time{}, nil, false
	}
}

func (l *c19sScripted) deliver(seg []byte) error { l.c.Feed(seg); return nil }

// byte stream with read deadlines (TCP socket of the fake gateway, pty master)
type c19sStream struct {
	rd interface {
		Read([]byte) (int, error)
		SetReadDeadline(time.Time) error
	}
	wr interface{ Write([]byte) (int, error) }
}

func (l *c19sStream) next(stop <-chan struct{}) (time.Time, []byte, bool) {
	buf := make([]byte, 64)
	got := 0
	var first time.Time
	for got < 8 {
		l.rd.SetReadDeadline(time.Now().Add(100 * time.Millisecond))
		m, err := l.rd.Read(buf[got:])
		now := time.Now()
		if m > 0 && got == 0 {
			first = now
		}
		got += m
		select {
		case <-stop:
			return time.Time{}, nil, false
		default:
		}
		if err != nil && !os.IsTimeout(err) && m == 0 {
			// pty: EIO while the slave side is not open (any more); socket: closed
			time.Sleep(2 * time.Millisecond)
		}
	}
	return first, buf[:got], got == 8
}

func (l *c19sStream) deliver(seg []byte) error { _, err := l.wr.Write(seg); return err }

func execSilenceSlow(in []string) string {
	if len(in) != 4 {
		return "harness-error:bad-input"
	}
	link, speed, n := in[0], atoi(in[1]), atoi(in[2])
	segs, total, span, ok := c19sParsePlan(in[3])
	if !ok || speed <= 0 || n < 2 || n > 16 || total < 7 || total > 255 || total%2 == 0 {
		return "harness-error:bad-input"
	}
	quantity := (total - 5) / 2
	busy := c19Busy(speed)
	timeout := 2*span + 2*busy + 3*time.Second

	conf := &modbus.ClientConfiguration{Speed: uint(speed), Timeout: timeout, Logger: quiet}
	var mc *modbus.ModbusClient
	var line c19sLine
	var err error
	cleanup := func() {}
	defer func() { cleanup() }()
	switch link {
	case "sconn":
		c := sconn.New(false)
		sl := &c19sScripted{c: c, ch: make(chan c19sReq, 64)}
		c.OnWrite = func(c *sconn.Conn, b []byte) {
			sl.ch <- c19sReq{time.Now(), append([]byte(nil), b...)}
		}
		conf.URL = "rtuovertcp://x"
		if mc, err = modbus.VerifNewClientOnConn(conf, c); err != nil {
			return "err:client:" + errClass(err)
		}
		line = sl
	case "tcp":
		ln, e := net.Listen("tcp", "127.0.0.1:0")
		if e != nil {
			return "skipped:listen"
		}
		defer ln.Close()
		conf.URL = "rtuovertcp://" + ln.Addr().String()
		if mc, err = modbus.NewClient(conf); err != nil {
			return "err:client:" + errClass(err)
		}
		acc := make(chan net.Conn, 1)
		go func() {
			c, e := ln.Accept()
			if e != nil {
				close(acc)
				return
			}
			acc <- c
		}()
		if err = mc.Open(); err != nil {
			return "err:open:" + strings.ReplaceAll(err.Error(), " ", "_")
		}
		var gw net.Conn
		select {
		case gw = <-acc:
		case <-time.After(10 * time.Second):
		}
		if gw == nil {
			go mc.Close()
			return "err:accept"
		}
		if tc, ok := gw.(*net.TCPConn); ok {
			tc.SetNoDelay(true) // every segment leaves on its own
		}
		cleanup = func() { go mc.Close(); gw.Close() }
		line = &c19sStream{rd: gw, wr: gw}
	case "pty":
		master, slave, e := c07OpenPty()
		if e != nil {
			return "skipped:pty"
		}
		defer master.Close()
		conf.URL = "rtu://" + slave
		if mc, err = modbus.NewClient(conf); err != nil {
			return "err:client:" + errClass(err)
		}
		if err = mc.Open(); err != nil {
			return "skipped:open:" + strings.ReplaceAll(err.Error(), " ", "_")
		}
		// (closed in the background: Close() waits for a call in progress, which a hung client never ends)
		cleanup = func() { go mc.Close() }
		line = &c19sStream{rd: master, wr: master}
	default:
		return "harness-error:bad-link"
	}
	mc.SetUnitId(1)

	var mu sync.Mutex
	arrive := make([]time.Time, 0, n)
	last := make([]time.Time, 0, n)
	stop := make(chan struct{})
	var halt sync.Once
	var dev sync.WaitGroup
	dev.Add(1)
	go func() {
		defer dev.Done()
		for k := 0; k < n; k++ {
			first, req, ok := line.next(stop)
			if !ok {
				return
			}
			mu.Lock()
			arrive = append(arrive, first)
			mu.Unlock()
			// read-registers request: unit fc addr(2) quantity(2) crc(2)
			q := int(req[4])<<8 | int(req[5])
			if len(req) != 8 || q != quantity {
				return
			}
			data := make([]byte, 2*q)
			for i := range data {
				data[i] = byte(k*41 + i*13 + 0x5a)
			}
			reply := rtuFrame(req[0], req[1], append([]byte{byte(2 * q)}, data...))
			due := first
			off := 0
			for i, sg := range segs {
				due = due.Add(sg.pause)
				select {
				case <-stop:
					return
				case <-time.After(time.Until(due)):
				}
				// the next pause is counted from this hand-over: never shorter than planned
				due = time.Now()
				if i == len(segs)-1 {
					mu.Lock()
					last = append(last, due)
					mu.Unlock()
				}
				if err := line.deliver(reply[off : off+sg.n]); err != nil {
					return
				}
				off += sg.n
			}
		}
	}()
	defer dev.Wait()
	defer halt.Do(func() { close(stop) })

	done := make(chan string, 1)
	go func() {
		for k := 0; k < n; k++ {
			vs, err := mc.ReadRegisters(uint16(0x200+k), uint16(quantity), modbus.HOLDING_REGISTER)
			if err != nil {
				done <- "err:" + itoa(k) + ":" + errClass(err)
				return
			}
			if len(vs) != quantity {
				done <- "err:" + itoa(k) + ":len"
				return
			}
			for i, v := range vs {
				if v != uint16(byte(k*41+2*i*13+0x5a))<<8|uint16(byte(k*41+(2*i+1)*13+0x5a)) {
					done <- "err:" + itoa(k) + ":value"
					return
				}
			}
		}
		done <- "ok"
	}()
	// watchdog: only turns a hang into a failing case
	wd := time.NewTimer(time.Duration(n)*(4*busy+2*span+4*time.Second) + 10*time.Second)
	defer wd.Stop()
	select {
	case out := <-done:
		if out != "ok" {
			return out
		}
	case <-wd.C:
		return "hang"
	}
	halt.Do(func() { close(stop) })
	dev.Wait()

	mu.Lock()
	defer mu.Unlock()
	if len(arrive) != n || len(last) != n {
		return "err:script:" + itoa(len(arrive)) + ":" + itoa(len(last))
	}
	var minGap time.Duration
	for k := 0; k+1 < n; k++ {
		gap := arrive[k+1].Sub(last[k])
		if k == 0 || gap < minGap {
			minGap = gap
		}
	}
	return "ok n=" + itoa(n) + " mingap=" + strconv.FormatInt(int64(minGap), 10)
}

// ------------------------------------------------------------------ generator

// pause after the header (or spread over the frame), in tenths of the line
// time of the bytes still to come after the 3-byte header
var c19sTenths = []int{5, 10, 20, 50, 200}

var c19sShapes = []string{"header-then-body", "byte-by-byte", "two-segments", "three-segments"}

// c19sPlan: a delivery plan for a reply of `total` bytes whose pauses add up
// to tenths/10 x (total-3) character times (figures of the serial-line guide:
// eleven bits per character; nothing is concluded from them)
func c19sPlan(r *Rng, speed, total int, shape string, tenths int, startUs int) string {
	t1us := 11e6 / float64(speed)
	pauseUs := int(float64(tenths) / 10 * float64(total-3) * t1us)
	if pauseUs < 1 {
		pauseUs = 1
	}
	var parts []string
	add := func(n, p int) { parts = append(parts, itoa(n)+":"+itoa(p)) }
	switch shape {
	case "header-then-body":
		add(3, startUs)
		add(total-3, pauseUs)
	case "byte-by-byte":
		// inter-character gaps of tenths/10 character times
		gap := pauseUs / (total - 3)
		if gap < 1 {
			gap = 1
		}
		add(1, startUs)
		for i := 1; i < total; i++ {
			add(1, gap)
		}
	case "two-segments":
		cut := 1 + r.Intn(total-1)
		add(cut, startUs)
		add(total-cut, pauseUs)
	default:
		c1 := 1 + r.Intn(total-2)
		c2 := c1 + 1 + r.Intn(total-c1-1)
		p1 := r.Intn(pauseUs + 1)
		add(c1, startUs)
		add(c2-c1, p1)
		add(total-c2, pauseUs-p1)
	}
	return strings.Join(parts, ",")
}

func scnSilenceSlow(o *Out, r *Rng, thorough bool) {
	links := []string{"sconn", "tcp"}
	if c16PtyAvailable() {
		links = append(links, "pty")
	} else {
		o.Stat("silenceslow:pty-unavailable")
	}
	speeds := []int{9600, 19200, 115200}
	quantities := []int{1, 2, 3, 5}
	reps := 1
	if thorough {
		speeds = []int{1200, 2400, 4800, 9600, 19199, 19200, 38400, 115200, 1000000}
		quantities = []int{1, 2, 3, 5, 8, 20}
		reps = 2
	}
	type meta struct{ link, shape string; speed, tenths int; late bool }
	var ins []string
	var metas []meta
	for _, link := range links {
		for _, speed := range speeds {
			busyUs := int(c19Busy(speed) / time.Microsecond)
			for _, shape := range c19sShapes {
				for _, tenths := range c19sTenths {
					for rep := 0; rep < reps; rep++ {
						q := quantities[r.Intn(len(quantities))]
						if shape == "byte-by-byte" && speed < 4800 && tenths >= 200 && q > 3 {
							q = 1 + r.Intn(3) // keeps a case below a few seconds
						}
						total := 5 + 2*q
						// the reply starts while the client still keeps its post-transmit delay
						// (early) or when it is already blocked in its read (late)
						late := r.Bool()
						startUs := 50 + r.Intn(450)
						if late {
							startUs = busyUs + 300 + r.Intn(2700)
						}
						n := 3
						if tenths < 200 && r.Bool() {
							n = 4
						}
						ins = append(ins, strings.Join([]string{link, itoa(speed), itoa(n),
							c19sPlan(r, speed, total, shape, tenths, startUs)}, " "))
						metas = append(metas, meta{link, shape, speed, tenths, late})
					}
				}
			}
		}
	}
	// the cases sleep most of the time: all of them run at once (thorough: in batches)
	outs := make([]string, len(ins))
	var wg sync.WaitGroup
	sem := make(chan struct{}, 256)
	for i := range ins {
		wg.Add(1)
		sem <- struct{}{}
		go func(i int) {
			defer wg.Done()
			outs[i] = execCase("silenceslow", ins[i])
			<-sem
		}(i)
	}
	wg.Wait()
	for i, in := range ins {
		m := metas[i]
		if strings.HasPrefix(outs[i], "skipped:") {
			// no pty / no loopback socket here: nothing was observed
			o.Stat("silenceslow:" + strings.Join(strings.SplitN(outs[i], ":", 3)[:2], "-") + ":" + m.link)
			continue
		}
		o.Case("silenceslow", in, outs[i])
		o.Stat("silenceslow:link=" + m.link)
		o.Stat("silenceslow:speed=" + itoa(m.speed))
		o.Stat("silenceslow:shape=" + m.shape)
		o.Stat("silenceslow:pause=" + strconv.FormatFloat(float64(m.tenths)/10, 'g', -1, 64) + "x-line-time-of-the-rest")
		if m.late {
			o.Stat("silenceslow:reply-starts=client-blocked-in-read")
		} else {
			o.Stat("silenceslow:reply-starts=during-post-transmit-delay")
		}
		if !strings.HasPrefix(outs[i], "ok ") {
			o.Stat("silenceslow:not-ok")
		}
	}
}
