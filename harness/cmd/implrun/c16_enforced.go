package main

// C16 - the documented defaults are the ENFORCED ones. VerifClientConfig shows
// what NewClient keeps; this scenario observes what the opened client does:
// for every scheme x link speed x timeout (unset / explicit) the real
// NewClient + Open() against a peer that stays silent, one read, and the time
// until the call returns (expected: request timed out after the documented
// timeout - the caller's value, else 1 s, 300 ms for rtu - whatever the
// speed). No hooks: only the public API and loopback peers / a pty.

import (
	"crypto/tls"
	"io"
	"net"
	"strconv"
	"strings"
	"sync"
	"syscall"
	"time"

	"github.com/simonvetter/modbus"
)

// a hang is turned into a failing case after this long
const c16EnfWatchdog = 30 * time.Second

// no second measurement after a call that took this long
const c16EnfLong = 4 * time.Second

// c16SilentPeer offers the socket type the scheme needs and never answers.
// Returns the target for the URL and a cleanup function.
func c16SilentPeer(scheme string) (target string, cleanup func(), err error) {
	var mu sync.Mutex
	var closers []func()
	add := func(f func()) {
		mu.Lock()
		closers = append(closers, f)
		mu.Unlock()
	}
	cleanup = func() {
		mu.Lock()
		l := closers
		closers = nil
		mu.Unlock()
		for i := len(l) - 1; i >= 0; i-- {
			l[i]()
		}
	}
	switch {
	case scheme == "rtu":
		master, slave, e := c16OpenPty()
		if e != nil {
			return "", cleanup, e
		}
		// the master side stays open and silent; what the client writes is
		// taken off the line so that nothing piles up
		stop := make(chan struct{})
		fd := int(master.Fd()) // (Fd() switches the descriptor to blocking mode: call it once)
		syscall.SetNonblock(fd, true)
		var wg sync.WaitGroup
		wg.Add(1)
		go func() {
			defer wg.Done()
			buf := make([]byte, 512)
			for {
				select {
				case <-stop:
					return
				default:
				}
				if n, _ := syscall.Read(fd, buf); n <= 0 {
					time.Sleep(5 * time.Millisecond)
				}
			}
		}()
		add(func() { close(stop); wg.Wait(); master.Close() })
		return slave, cleanup, nil

	case strings.Contains(scheme, "udp"):
		pc, e := net.ListenPacket("udp", "127.0.0.1:0")
		if e != nil {
			return "", cleanup, e
		}
		add(func() { pc.Close() })
		go func() {
			buf := make([]byte, 2048)
			for {
				if _, _, e := pc.ReadFrom(buf); e != nil {
					return
				}
			}
		}()
		return pc.LocalAddr().String(), cleanup, nil

	default: // tcp, tcp+tls, rtuovertcp
		ln, e := net.Listen("tcp", "127.0.0.1:0")
		if e != nil {
			return "", cleanup, e
		}
		add(func() { ln.Close() })
		withTLS := strings.Contains(scheme, "tls")
		go func() {
			for {
				c, e := ln.Accept()
				if e != nil {
					return
				}
				add(func() { c.Close() })
				go func(c net.Conn) {
					if withTLS {
						cert, _ := c16Creds()
						ts := tls.Server(c, &tls.Config{Certificates: []tls.Certificate{*cert},
							ClientAuth: tls.RequireAnyClientCert, MinVersion: tls.VersionTLS12})
						c.SetDeadline(time.Now().Add(10 * time.Second))
						if ts.Handshake() != nil {
							return
						}
						c.SetDeadline(time.Time{})
						c = ts
					}
					io.Copy(io.Discard, c) // read and say nothing
				}(c)
			}
		}()
		return ln.Addr().String(), cleanup, nil
	}
}

// enforced: scheme speed timeout op... -> "<result> dur=<ns>[,<ns>]"
func c16Enforced(in []string) (out string) {
	defer func() {
		if r := recover(); r != nil {
			out = "panic"
		}
	}()
	scheme := string(unhex(in[0]))
	op := in[3:]
	cert, pool := c16Creds()
	conf := &modbus.ClientConfiguration{
		Speed:         uint(unhx(in[1])),
		Timeout:       time.Duration(unshx(in[2])),
		Logger:        quiet,
		TLSClientCert: cert,
		TLSRootCAs:    pool,
	}
	target, cleanup, err := c16SilentPeer(scheme)
	defer cleanup()
	if err != nil {
		return "harness-error:peer:" + strings.ReplaceAll(err.Error(), " ", "_")
	}
	conf.URL = scheme + "://" + target

	type attempt struct {
		res string
		dur time.Duration
	}
	var res []string
	var durs []string
	// two measurements, each on a freshly built and opened client (the first
	// request of a new transport: no inter-frame delay is pending)
	for i := 0; i < 2; i++ {
		mc, err := modbus.NewClient(conf)
		if err != nil {
			return "err:" + errClass(err)
		}
		if err = mc.Open(); err != nil {
			return "open-error:" + strings.ReplaceAll(err.Error(), " ", "_")
		}
		done := make(chan attempt, 1)
		go func() {
			t0 := time.Now()
			r := callOp(mc, op)
			done <- attempt{r, time.Since(t0)}
		}()
		var a attempt
		wd := time.NewTimer(c16EnfWatchdog)
		select {
		case a = <-done:
			wd.Stop()
		case <-wd.C:
			cleanup()
			go mc.Close() // (blocks for as long as the hung call holds the client)
			return "hang"
		}
		mc.Close()
		if len(res) == 0 || res[len(res)-1] != a.res {
			res = append(res, a.res)
		}
		durs = append(durs, strconv.FormatInt(int64(a.dur), 10))
		if a.dur > c16EnfLong {
			break
		}
	}
	return strings.Join(res, "/") + " dur=" + strings.Join(durs, ",")
}

// a read whose request is 8 bytes long on an RTU link
func c16EnfOp(r *Rng) []string {
	a := hxi(r.Intn(0xf000))
	switch r.Intn(6) {
	case 0:
		return []string{"ReadCoils", a, hxi(1 + r.Intn(2000))}
	case 1:
		return []string{"ReadDiscreteInputs", a, hxi(1 + r.Intn(2000))}
	case 2:
		return []string{"ReadRegister", a, itoa(r.Intn(2))}
	case 3:
		return []string{"ReadUint32", a, itoa(r.Intn(2))}
	case 4:
		return []string{"ReadUint64", a, itoa(r.Intn(2))}
	}
	return []string{"ReadRegisters", a, hxi(1 + r.Intn(125)), itoa(r.Intn(2))}
}

// 0 = Speed left unset
var c16EnfSpeeds = []uint64{0, 300, 1200, 2400, 4800, 9600, 19200, 115200}

func scnC16Enforced(o *Out, r *Rng, thorough bool) {
	pty := c16PtyAvailable()
	if !pty {
		o.Stat("enforced:rtu:skipped-no-pty")
	}
	// Timeout left unset, and explicit small values
	timeouts := []time.Duration{0, time.Duration(120+r.Intn(80)) * time.Millisecond}
	if thorough {
		timeouts = append(timeouts, time.Duration(20+r.Intn(60))*time.Millisecond,
			time.Duration(350+r.Intn(300))*time.Millisecond, time.Duration(1200+r.Intn(600))*time.Millisecond)
	}
	var ins []string
	for _, tmo := range timeouts { // (the longest waits, Timeout unset, come first)
		for _, s := range c16Schemes {
			if s == "rtu" && !pty {
				continue
			}
			speeds := c16EnfSpeeds
			if !strings.HasPrefix(s, "rtu") && !thorough {
				// MBAP framing: the speed field is not used at all
				speeds = []uint64{0, 1200}
			}
			for _, sp := range speeds {
				ins = append(ins, hx([]byte(s))+" "+hxu(sp)+" "+shx(int64(tmo))+" "+strings.Join(c16EnfOp(r), " "))
			}
		}
	}
	for i, out := range o.RunMany("enforced", ins) {
		f := strings.Fields(ins[i])
		kind := "explicit"
		if f[2] == "0" {
			kind = "unset"
		}
		o.Stat("enforced:" + string(unhex(f[0])) + ":timeout-" + kind + ":" + strings.Fields(out)[0])
		o.Stat("enforced:speed=" + strconv.FormatUint(unhx(f[1]), 10))
	}
}

func init() {
	register("C16", scnC16Enforced)
	executors["enforced"] = c16Enforced
}
