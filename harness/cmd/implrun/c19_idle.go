package main

// C19 - "an RTU client never starts transmitting a request earlier than that
// inter-frame delay after the end of the previous frame it received": EVERY
// frame it received, also one that reached it while it was idle between two
// calls. The other silence scenarios are back-to-back exchanges in which the
// only bytes the client ever gets are the answer to the request it has just
// sent. Here a session on one link mixes calls with idle times during which
// the line is active in the client's direction: the late answer to a request
// that timed out, a frame of another unit nobody asked for, an exception frame
// of another unit. Those bytes wait on the link until the client reads it
// again - whenever that is: at the beginning of the next call, or in the read
// of the next exchange - and from the return of that read the inter-frame
// delay applies like after any other frame.
//
//   silenceidle  link speed script
//        -> "ok n=<requests> judged=<j> mingap=<ns>|none" | "hang"
//
//   link    sconn  rtuovertcp client (VerifNewClientOnConn) on a scripted,
//                  buffered connection with real deadlines
//           pipe   the same client on a net.Pipe: unbuffered and synchronous,
//                  what the device writes stays with the device until the
//                  client reads
//   script  comma separated steps
//           q      a call (ReadRegisters, 1 register) the device answers at once
//           t      a call the device does not answer: it ends in a timeout
//           i<us>  the caller is idle for <us> microseconds
//           L      the device sends the answer it owes to the last unanswered
//                  request (none owed: like U)
//           U      a well-formed reply frame of unit 9
//           E      a well-formed exception frame of unit 9
//
// Measurement. The client's side of the link is wrapped in a recorder: every
// Read that returns bytes notes the time BEFORE it hands them to the client,
// every Write notes the time when the client ENTERS it. A client cannot know
// of received bytes before the read that took them returned, and it has
// decided to transmit before it calls Write, so (write entered) - (last read
// that returned bytes) over-estimates the silence the client kept after the
// last bytes it received: a client that waits the inter-frame delay after
// every read that took bytes cannot fail, whatever the scheduler does; no
// tolerance is needed. The smallest such time over the requests that had a
// read before them is printed. What the calls return is not looked at (which
// frame a call takes for its answer is not the property's business); the
// library's own t1/t3.5 are not consulted. The model side
// (ocaml/scn_timingidle.ml) evaluates idle_silence_okb of Model/TimingIdle.v.

import (
	"fmt"
	"net"
	"strings"
	"sync"
	"time"

	"github.com/simonvetter/modbus"
	"verifharness/internal/sconn"
)

func init() {
	register("C19", scnSilenceIdle)
	executors["silenceidle"] = execSilenceIdle
}

// the client's side of the link, with the two instants of the measurement
type c19iRecorder struct {
	net.Conn
	mu     sync.Mutex
	lastRx time.Time // a Read last returned bytes (taken before the client gets them)
	writes int
	judged int
	minGap time.Duration
}

func (l *c19iRecorder) Read(b []byte) (int, error) {
	n, err := l.Conn.Read(b)
	if n > 0 {
		t := time.Now()
		l.mu.Lock()
		l.lastRx = t
		l.mu.Unlock()
	}
	return n, err
}

func (l *c19iRecorder) Write(b []byte) (int, error) {
	now := time.Now()
	l.mu.Lock()
	l.writes++
	if !l.lastRx.IsZero() {
		gap := now.Sub(l.lastRx)
		if l.judged == 0 || gap < l.minGap {
			l.minGap = gap
		}
		l.judged++
	}
	l.mu.Unlock()
	return l.Conn.Write(b)
}

// independent of the library: the inter-frame delay of the serial-line guide,
// used only to size the idle times of the scripts
func c19iT35(rate int) time.Duration {
	if rate >= 19200 {
		return 1750 * time.Microsecond
	}
	return (11 * time.Second / time.Duration(rate)) * 35 / 10
}

type c19iStep struct {
	kind byte // q t i L U E
	us   int
}

func c19iParse(s string) (steps []c19iStep, calls []byte, idle time.Duration, ok bool) {
	for _, t := range strings.Split(s, ",") {
		switch {
		case t == "q" || t == "t":
			steps = append(steps, c19iStep{kind: t[0]})
			calls = append(calls, t[0])
		case t == "L" || t == "U" || t == "E":
			steps = append(steps, c19iStep{kind: t[0]})
		case len(t) > 1 && t[0] == 'i':
			us := atoi(t[1:])
			if us < 0 || itoa(us) != t[1:] {
				return nil, nil, 0, false
			}
			steps = append(steps, c19iStep{kind: 'i', us: us})
			idle += time.Duration(us) * time.Microsecond
		default:
			return nil, nil, 0, false
		}
	}
	return steps, calls, idle, len(calls) > 0 && len(calls) <= 32
}

func execSilenceIdle(in []string) string {
	if len(in) != 3 {
		return "harness-error:bad-input"
	}
	link, speed := in[0], atoi(in[1])
	steps, calls, idle, ok := c19iParse(in[2])
	if !ok || speed <= 0 {
		return "harness-error:bad-input"
	}
	busy := c19Busy(speed)
	timeout := busy + 40*time.Millisecond

	// the device's side: requests come in on reqs, frames go out through deliver
	reqs := make(chan []byte, 64)
	stop := make(chan struct{})
	var halt sync.Once
	var deliver func(frame []byte)
	var conn net.Conn
	switch link {
	case "sconn":
		c := sconn.New(false)
		c.OnWrite = func(c *sconn.Conn, b []byte) {
			select {
			case reqs <- append([]byte(nil), b...):
			default:
			}
		}
		deliver = func(frame []byte) { c.Feed(frame) }
		conn = c
	case "pipe":
		dev, cli := net.Pipe()
		defer dev.Close()
		txq := make(chan []byte, 64)
		go func() { // a Write returns when the client has read the frame
			for {
				select {
				case f := <-txq:
					if _, err := dev.Write(f); err != nil {
						return
					}
				case <-stop:
					return
				}
			}
		}()
		go func() {
			buf := make([]byte, 0, 64)
			chunk := make([]byte, 64)
			for {
				m, err := dev.Read(chunk)
				buf = append(buf, chunk[:m]...)
				for len(buf) >= 8 {
					select {
					case reqs <- append([]byte(nil), buf[:8]...):
					default:
					}
					buf = buf[8:]
				}
				if err != nil {
					return
				}
			}
		}()
		deliver = func(frame []byte) {
			select {
			case txq <- frame:
			default:
			}
		}
		conn = cli
	default:
		return "harness-error:bad-link"
	}
	defer halt.Do(func() { close(stop) })
	rec := &c19iRecorder{Conn: conn}
	defer rec.Close()

	// the device: answers the calls the script marks q, keeps the answer to the others
	var mu sync.Mutex
	var owed []byte
	answer := func(req []byte, k int) []byte {
		return rtuFrame(req[0], req[1], []byte{2, 0xa0 + byte(k&15), byte(k * 37)})
	}
	go func() {
		k := 0
		for {
			select {
			case req := <-reqs:
				if len(req) != 8 || k >= len(calls) {
					k++
					continue
				}
				if calls[k] == 'q' {
					deliver(answer(req, k))
				} else {
					mu.Lock()
					owed = answer(req, k)
					mu.Unlock()
				}
				k++
			case <-stop:
				return
			}
		}
	}()

	mc, err := modbus.VerifNewClientOnConn(&modbus.ClientConfiguration{
		URL: "rtuovertcp://x", Timeout: timeout, Speed: uint(speed), Logger: quiet}, rec)
	if err != nil {
		return "err:client:" + errClass(err)
	}
	mc.SetUnitId(1)

	done := make(chan struct{})
	go func() {
		defer close(done)
		k := 0
		for _, st := range steps {
			switch st.kind {
			case 'q', 't':
				mc.ReadRegisters(uint16(0x300+k), 1, modbus.HOLDING_REGISTER)
				k++
			case 'i':
				time.Sleep(time.Duration(st.us) * time.Microsecond)
			case 'L', 'U', 'E':
				var frame []byte
				if st.kind == 'L' {
					mu.Lock()
					frame, owed = owed, nil
					mu.Unlock()
				}
				if st.kind == 'E' {
					frame = rtuFrame(9, 0x83, []byte{0x02})
				}
				if frame == nil {
					frame = rtuFrame(9, 0x03, []byte{2, 0xcc, byte(k)})
				}
				deliver(frame)
			}
		}
	}()
	// watchdog: only turns a hang into a failing case (a call may legitimately
	// take its timeout plus a re-synchronisation pause of 256 character times)
	t1 := 11 * time.Second / time.Duration(speed)
	wd := time.NewTimer(idle + time.Duration(len(calls))*(timeout+busy+300*t1+time.Second) + 10*time.Second)
	defer wd.Stop()
	select {
	case <-done:
	case <-wd.C:
		return "hang"
	}

	rec.mu.Lock()
	defer rec.mu.Unlock()
	gap := "none"
	if rec.judged > 0 {
		gap = fmt.Sprintf("%d", int64(rec.minGap))
	}
	return fmt.Sprintf("ok n=%d judged=%d mingap=%s", rec.writes, rec.judged, gap)
}

// ------------------------------------------------------------------ generator

func scnSilenceIdle(o *Out, r *Rng, thorough bool) {
	rates := []int{1200, 2400, 4800, 9600}
	reps := 2
	if thorough {
		rates = []int{600, 1200, 2400, 4800, 9600, 14400, 19200, 38400, 115200}
		reps = 6
	}
	var ins []string
	for _, rate := range rates {
		t35us := int(c19iT35(rate) / time.Microsecond)
		// i<us> with us = lo..hi percent of the inter-frame delay
		pause := func(lo, hi int) string {
			return "i" + itoa(t35us*(lo+r.Intn(hi-lo+1))/100)
		}
		for _, link := range []string{"sconn", "pipe"} {
			for rep := 0; rep < reps; rep++ {
				var st []string
				if r.Bool() {
					st = append(st, "q")
				}
				blocks := 2 + r.Intn(2)
				for b := 0; b < blocks; b++ {
					// what arrives, and after which kind of call
					switch r.Intn(4) {
					case 0:
						st = append(st, "t", pause(30, 300), "L")
						o.Stat("silenceidle:late-answer-after-timeout")
					case 1:
						st = append(st, "q", pause(30, 300), "U")
						o.Stat("silenceidle:unsolicited-after-exchange")
					case 2:
						st = append(st, "q", pause(30, 300), "E")
						o.Stat("silenceidle:exception-after-exchange")
					default:
						st = append(st, "t", pause(30, 300), "U")
						o.Stat("silenceidle:unsolicited-after-timeout")
					}
					// how long after the arrival the caller comes back
					switch r.Intn(3) {
					case 0:
						st = append(st, pause(5, 50))
						o.Stat("silenceidle:back-within-half-t35")
					case 1:
						st = append(st, pause(50, 100))
						o.Stat("silenceidle:back-within-t35")
					default:
						st = append(st, pause(120, 400))
						o.Stat("silenceidle:back-after-t35")
					}
					for f := 1 + r.Intn(2); f > 0; f-- {
						st = append(st, "q")
					}
				}
				st = append(st, "q")
				ins = append(ins, link+" "+itoa(rate)+" "+strings.Join(st, ","))
				o.Stat("silenceidle:link-" + link)
			}
		}
	}
	for _, out := range o.RunMany("silenceidle", ins) {
		switch {
		case !strings.HasPrefix(out, "ok "):
			o.Stat("silenceidle:not-ok")
		case strings.HasSuffix(out, "mingap=none"):
			o.Stat("silenceidle:nothing-judged")
		default:
			o.Stat("silenceidle:judged")
		}
	}
}
