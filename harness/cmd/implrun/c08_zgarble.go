package main

import (
	"fmt"
	"net"
	"os"
	"runtime"
	"strconv"
	"strings"
	"sync"
	"sync/atomic"
	"time"

	"verifharness/internal/sconn"

	"github.com/simonvetter/modbus"
)

// C08, scenario "concgarble": goroutines share ONE client over an RTU-framed
// link (the property is about every transport, and about whatever the peer
// does) while the device sometimes GARBLES a reply - wrong CRC, a function
// code no reply carries, line noise behind the frame, a frame cut short, no
// answer at all - and answers the exchange that follows such a reply LATE
// (one maximum frame time and more: the next caller was queued for the client
// and starts while the line may still be settling). Whatever the order in
// which the goroutines get the client:
//   - one request is outstanding at a time: a request counts as outstanding
//     from its Write call until everything the device answers it with has been
//     taken off the link, or until the i/o deadline armed for it has passed;
//   - every request is one whole frame in one Write call, never two goroutines
//     in Read on the link;
//   - every caller is handed what the answer to ITS request decides (its own
//     reply, or the error of its own garbled reply): a garbled reply has no
//     effect on the exchange after it.
//
// input : <link> <unit> <e> <w> <speed> <timeout_ms> <late_ms> <stagger_ms> <seed(hex)>
//         { ; <thread> call <fault> <delay_ms> <answer|-> <op...> | ; <thread> setunit | ; <thread> setenc }*
//   link   s    scripted in-memory connection (transport of scheme rtuovertcp)
//          tcp  NewClient + Open() of rtuovertcp://127.0.0.1:port (loopback device)
//          udp  NewClient + Open() of rtuoverudp://127.0.0.1:port (loopback device)
//   The device recognises the call behind a request by its address
//   (cgBase + 256*id, id = 16*thread + index of the step in its thread) and
//   puts <answer> on the line <delay_ms> after the request - <late_ms> later
//   when the previous exchange on the line was not answered with a good reply
//   (<fault> other than ok / exc). setunit / setenc set the configured value
//   again (they take the client like every public call).
// output: "<verdict> <wire events> <per step, joined by ;>"
//   verdict: ok or the first anomaly the device saw (two-outstanding,
//   concurrent-read, interleaved-write:<hex>, unknown-request:<hex>,
//   repeated-request:<id>, hang, panic); wire events q<id> (request written),
//   e<id> (its answer taken off the link / sent), x<id> (its deadline passed);
//   per step "<result>@<frames the device received for the call>" | ok:u
// No verdict needs the machine to be fast: the device answers at most about a
// second after a request and the callers wait <timeout_ms> (3 s) for it.

const cgBase = 0x0800

func init() {
	register("C08", scnConcGarble)
	executors["concgarble"] = runConcGarble
}

type cgStep struct {
	thread, id int
	kind       string // call | setunit | setenc
	fault      string
	delay      time.Duration
	answer     []byte
	op         []string
	res        string
	frames     [][]byte
}

type cgReq struct {
	id       int
	deadline time.Time // no correct caller gives up on the request before
	fed      bool      // the answer has been put on the link
	end      int       // link offset (bytes put on it so far) of the end of the answer
}

type cgDevice struct {
	mu       sync.Mutex
	steps    map[int]*cgStep
	timeout  time.Duration
	late     time.Duration
	anomaly  string
	trace    []string
	cur      *cgReq
	prevBad  bool
	armed    time.Time    // scripted link: the i/o deadline in force
	send     func([]byte) // puts bytes on the line towards the client
	consumed func() int   // scripted link: bytes taken off it so far (nil: loopback)
	fedBytes int
	stop     chan struct{}
	feeders  sync.WaitGroup
}

func (d *cgDevice) flag(s string) {
	if d.anomaly == "" {
		d.anomaly = s
	}
}

// the exchange of the current request is over once its answer has been taken
// off the link (loopback links: once it has been sent). Call with d.mu held.
func (d *cgDevice) settle() {
	if r := d.cur; r != nil && r.fed && (d.consumed == nil || d.consumed() >= r.end) {
		d.trace = append(d.trace, fmt.Sprintf("e%d", r.id))
		d.cur = nil
	}
}

// one whole request frame has arrived (scripted link: the bytes of one Write call)
func (d *cgDevice) request(b []byte) {
	now := time.Now()
	d.mu.Lock()
	defer d.mu.Unlock()
	d.settle()
	if r := d.cur; r != nil {
		if !now.Before(r.deadline) {
			// its caller has timed out: abandoned
			d.trace = append(d.trace, fmt.Sprintf("x%d", r.id))
		} else {
			d.flag("two-outstanding")
		}
		d.cur = nil
	}
	if len(b) < 8 || rtuRequestLen(b) != len(b) || !rtuTrailerOK(b) {
		d.flag("interleaved-write:" + hx(b))
		return
	}
	addr := int(b[2])<<8 | int(b[3])
	st := d.steps[(addr-cgBase)>>8]
	if addr < cgBase || st == nil || st.kind != "call" {
		d.flag("unknown-request:" + hx(b))
		return
	}
	st.frames = append(st.frames, append([]byte(nil), b...))
	if len(st.frames) > 1 {
		d.flag("repeated-request:" + itoa(st.id))
	}
	r := &cgReq{id: st.id}
	if d.consumed != nil && !d.armed.IsZero() {
		r.deadline = d.armed
	} else {
		// loopback: the caller armed its deadline before the frame left; a second
		// of slack for the way here
		r.deadline = now.Add(d.timeout - time.Second)
	}
	d.cur = r
	d.trace = append(d.trace, fmt.Sprintf("q%d", st.id))
	delay := st.delay
	if d.prevBad {
		delay += d.late
	}
	d.prevBad = st.fault != "ok" && st.fault != "exc"
	answer := st.answer
	if len(answer) == 0 {
		return
	}
	d.feeders.Add(1)
	go func() {
		defer d.feeders.Done()
		select {
		case <-time.After(delay):
		case <-d.stop:
			return
		}
		d.mu.Lock()
		d.fedBytes += len(answer)
		r.end = d.fedBytes
		r.fed = true
		d.send(answer)
		if d.consumed == nil {
			d.settle()
		}
		d.mu.Unlock()
	}()
}

// the scripted link: notes the deadline in force and who reads
type cgConn struct {
	*sconn.Conn
	dev     *cgDevice
	readers int32
}

func (s *cgConn) SetDeadline(t time.Time) error {
	s.dev.mu.Lock()
	s.dev.armed = t
	s.dev.mu.Unlock()
	return s.Conn.SetDeadline(t)
}

func (s *cgConn) SetReadDeadline(t time.Time) error {
	s.dev.mu.Lock()
	s.dev.armed = t
	s.dev.mu.Unlock()
	return s.Conn.SetReadDeadline(t)
}

func (s *cgConn) Read(b []byte) (int, error) {
	// only the goroutine whose exchange is in progress reads the link
	if atomic.AddInt32(&s.readers, 1) > 1 {
		s.dev.mu.Lock()
		s.dev.flag("concurrent-read")
		s.dev.mu.Unlock()
	}
	n, err := s.Conn.Read(b)
	s.dev.mu.Lock()
	s.dev.settle()
	s.dev.mu.Unlock()
	atomic.AddInt32(&s.readers, -1)
	return n, err
}

func cgMix(x uint64) uint64 {
	x += 0x9e3779b97f4a7c15
	x = (x ^ (x >> 30)) * 0xbf58476d1ce4e5b9
	x = (x ^ (x >> 27)) * 0x94d049bb133111eb
	return x ^ (x >> 31)
}

func runConcGarble(in []string) (out string) {
	defer func() {
		if recover() != nil {
			out = "panic - -"
		}
	}()
	if len(in) < 9 {
		return "harness-error:bad-input - -"
	}
	link := in[0]
	unit := uint8(unhx(in[1]))
	e, w := atoi(in[2]), atoi(in[3])
	speed := uint(atoi(in[4]))
	timeout := time.Duration(atoi(in[5])) * time.Millisecond
	late := time.Duration(atoi(in[6])) * time.Millisecond
	stagger := time.Duration(atoi(in[7])) * time.Millisecond
	seed, _ := strconv.ParseUint(in[8], 16, 64)
	if timeout < 2*time.Second || speed == 0 {
		return "harness-error:bad-input - -"
	}

	// the steps, in the order of the input; per thread in the order of its steps
	var steps []*cgStep
	var threads [][]*cgStep
	var cur []string
	bad := false
	flush := func() {
		if len(cur) == 0 {
			return
		}
		defer func() { cur = nil }()
		if len(cur) < 2 {
			bad = true
			return
		}
		t := atoi(cur[0])
		if t < 0 || t > 7 {
			bad = true
			return
		}
		for len(threads) <= t {
			threads = append(threads, nil)
		}
		st := &cgStep{thread: t, id: 16*t + len(threads[t]), kind: cur[1]}
		switch cur[1] {
		case "call":
			if len(cur) < 7 || len(threads[t]) > 15 {
				bad = true
				return
			}
			st.fault = cur[2]
			st.delay = time.Duration(atoi(cur[3])) * time.Millisecond
			st.answer = unhex(cur[4])
			st.op = cur[5:]
		case "setunit", "setenc":
		default:
			bad = true
			return
		}
		threads[t] = append(threads[t], st)
		steps = append(steps, st)
	}
	for _, t := range in[9:] {
		if t == ";" {
			flush()
		} else {
			cur = append(cur, t)
		}
	}
	flush()
	if bad || len(steps) == 0 {
		return "harness-error:bad-input - -"
	}

	dev := &cgDevice{steps: map[int]*cgStep{}, timeout: timeout, late: late, stop: make(chan struct{})}
	for _, st := range steps {
		dev.steps[st.id] = st
	}
	stopped := func() bool {
		select {
		case <-dev.stop:
			return true
		default:
			return false
		}
	}
	var mc *modbus.ModbusClient
	var closeLink func()
	switch link {
	case "s":
		sc := &cgConn{Conn: sconn.New(false), dev: dev}
		dev.send = func(b []byte) { sc.Conn.Feed(b) }
		dev.consumed = sc.Conn.ConsumedNow
		sc.Conn.OnWrite = func(_ *sconn.Conn, b []byte) { dev.request(b) }
		var err error
		mc, err = modbus.VerifNewClientOnConn(&modbus.ClientConfiguration{
			URL: "rtuovertcp://concgarble", Timeout: timeout, Speed: speed, Logger: quiet}, sc)
		if err != nil {
			return "harness-error:newclient - -"
		}
		// not through the client: its lock is part of what is under test
		closeLink = func() { sc.Conn.Close() }
	case "tcp":
		l, err := net.Listen("tcp", "127.0.0.1:0")
		if err != nil {
			return "harness-error:listen - -"
		}
		defer l.Close()
		accepted := make(chan net.Conn, 1)
		go func() {
			c, err := l.Accept()
			if err != nil {
				close(accepted)
				return
			}
			accepted <- c
		}()
		mc, err = modbus.NewClient(&modbus.ClientConfiguration{
			URL: "rtuovertcp://" + l.Addr().String(), Timeout: timeout, Speed: speed, Logger: quiet})
		if err != nil {
			return "harness-error:newclient - -"
		}
		if err = mc.Open(); err != nil {
			return "harness-error:open - -"
		}
		c, ok := <-accepted
		if !ok {
			return "harness-error:accept - -"
		}
		dev.send = func(b []byte) { c.Write(b) }
		readerDone := make(chan struct{})
		go func() {
			defer close(readerDone)
			var acc []byte
			buf := make([]byte, 4096)
			for !stopped() {
				c.SetReadDeadline(time.Now().Add(20 * time.Millisecond))
				n, err := c.Read(buf)
				acc = append(acc, buf[:n]...)
				for {
					k := rtuRequestLen(acc)
					if k == 0 || k > len(acc) {
						break
					}
					dev.request(acc[:k])
					acc = acc[k:]
				}
				if err != nil && !os.IsTimeout(err) {
					return
				}
			}
		}()
		closeLink = func() { <-readerDone; c.Close(); mc.Close() }
	case "udp":
		pc, err := net.ListenPacket("udp", "127.0.0.1:0")
		if err != nil {
			return "harness-error:listen - -"
		}
		var peerMu sync.Mutex
		var peer net.Addr
		dev.send = func(b []byte) {
			peerMu.Lock()
			p := peer
			peerMu.Unlock()
			if p != nil {
				pc.WriteTo(b, p)
			}
		}
		readerDone := make(chan struct{})
		go func() {
			defer close(readerDone)
			buf := make([]byte, 4096)
			for !stopped() {
				pc.SetReadDeadline(time.Now().Add(20 * time.Millisecond))
				n, from, err := pc.ReadFrom(buf)
				if n > 0 {
					// one datagram carries one frame
					peerMu.Lock()
					peer = from
					peerMu.Unlock()
					dev.request(buf[:n])
				}
				if err != nil && !os.IsTimeout(err) {
					return
				}
			}
		}()
		mc, err = modbus.NewClient(&modbus.ClientConfiguration{
			URL: "rtuoverudp://" + pc.LocalAddr().String(), Timeout: timeout, Speed: speed, Logger: quiet})
		if err != nil {
			pc.Close()
			return "harness-error:newclient - -"
		}
		if err = mc.Open(); err != nil {
			pc.Close()
			return "harness-error:open - -"
		}
		closeLink = func() { <-readerDone; pc.Close(); mc.Close() }
	default:
		return "harness-error:bad-link - -"
	}
	mc.SetUnitId(unit)
	if err := mc.SetEncoding(modbus.Endianness(e), modbus.WordOrder(w)); err != nil {
		close(dev.stop)
		closeLink()
		return "harness-error:setenc - -"
	}

	start := make(chan struct{})
	var wg sync.WaitGroup
	for t := range threads {
		wg.Add(1)
		go func(t int) {
			defer wg.Done()
			<-start
			time.Sleep(time.Duration(t) * stagger)
			for k, st := range threads[t] {
				h := cgMix(seed ^ uint64(t)<<32 ^ uint64(k))
				for j := uint64(0); j < h%4; j++ {
					runtime.Gosched()
				}
				switch st.kind {
				case "call":
					st.res = callOp(mc, st.op)
				case "setunit":
					st.res = resStr("u", mc.SetUnitId(unit))
				case "setenc":
					st.res = resStr("u", mc.SetEncoding(modbus.Endianness(e), modbus.WordOrder(w)))
				}
			}
		}(t)
	}
	close(start)
	done := make(chan struct{})
	go func() { wg.Wait(); close(done) }()
	hung := false
	select {
	case <-done:
	case <-time.After(30*time.Second + time.Duration(len(steps))*(timeout+2*time.Second)):
		// watchdog only: the calls are served one after the other, each within the timeout
		hung = true
	}
	close(dev.stop)
	if hung {
		return "hang - -"
	}
	closeLink()
	dev.feeders.Wait()

	dev.mu.Lock()
	defer dev.mu.Unlock()
	verdict := dev.anomaly
	if verdict == "" {
		verdict = "ok"
	}
	tr := strings.Join(dev.trace, ",")
	if tr == "" {
		tr = "-"
	}
	outs := make([]string, len(steps))
	for i, st := range steps {
		if st.kind == "call" {
			outs[i] = st.res + "@" + writesStr(st.frames)
		} else {
			outs[i] = st.res
		}
	}
	return verdict + " " + tr + " " + strings.Join(outs, ";")
}

// ---------------------------------------------------------------- generator

// function codes no reply carries (rtu_transport.go knows 1-6, 15, 16, 22 and
// their exception forms)
var cgOddFc = []byte{0x00, 0x07, 0x08, 0x0b, 0x11, 0x14, 0x17, 0x18, 0x2b, 0x41, 0x64, 0x87, 0x88, 0xab}

var cgExcCodes = []byte{1, 2, 3, 4, 5, 6, 8, 10, 11}

// what the device answers the call with: the good reply, or a garbled one
func cgAnswer(r *Rng, fault string, unit byte, fc byte, payload []byte, room int) []byte {
	good := rtuFrame(unit, fc, payload)
	noise := func() []byte {
		n := 1 + r.Intn(40)
		if n > room-len(good) {
			n = room - len(good)
		}
		if n <= 0 {
			return nil
		}
		return r.Bytes(n)
	}
	switch fault {
	case "ok":
		return good
	case "exc":
		return rtuFrame(unit, fc|0x80, []byte{cgExcCodes[r.Intn(len(cgExcCodes))]})
	case "crc", "crcnoise":
		// one bit of the body or of the CRC is wrong
		i := 3 + r.Intn(len(good)-3)
		good[i] ^= 1 << uint(r.Intn(8))
		if fault == "crcnoise" {
			good = append(good, noise()...)
		}
		return good
	case "fc", "fcnoise":
		// the rest of the frame stays on the line behind the three bytes read
		good[1] = cgOddFc[r.Intn(len(cgOddFc))]
		if fault == "fcnoise" {
			good = append(good, noise()...)
		}
		return good
	case "short":
		return good[:1+r.Intn(2)]
	case "cut":
		return good[:3+r.Intn(len(good)-3)]
	}
	return nil // silent
}

func scnConcGarble(o *Out, r *Rng, thorough bool) {
	var ins []string
	// faults that end an exchange at once / only when the deadline passes
	quick := []string{"crc", "crcnoise", "fc", "fcnoise"}
	stall := []string{"short", "cut", "silent"}
	// one case: g goroutines, the steps of each, which steps are faulty
	build := func(link string, g int, maxSteps int, first string, nBad int, stallOne bool) {
		unit, e, w := randCfg(r)
		speed := r.Pick(9600, 19200, 19200, 38400, 115200)
		// the exchange after a garbled one is answered one maximum frame time
		// (256 character times) and 150..350 ms more after its request
		late := 256*11*1000/speed + 150 + r.Intn(201)
		timeout := 3000
		stagger := r.Pick(0, 0, 1, 3)
		toks := []string{link, hxi(unit), itoa(e), itoa(w), itoa(speed), itoa(timeout), itoa(late), itoa(stagger), hxu(r.U64() >> 16)}
		// the steps
		type slot struct{ t, k int }
		var slots []slot
		lens := make([]int, g)
		for t := 0; t < g; t++ {
			lens[t] = 1 + r.Intn(maxSteps)
			for k := 0; k < lens[t]; k++ {
				slots = append(slots, slot{t, k})
			}
		}
		faults := map[slot]string{}
		if first != "" {
			faults[slot{0, 0}] = first
		}
		for len(faults) < nBad && len(faults) < len(slots) {
			s := slots[r.Intn(len(slots))]
			if _, ok := faults[s]; !ok {
				faults[s] = quick[r.Intn(len(quick))]
			}
		}
		if stallOne {
			s := slots[r.Intn(len(slots))]
			faults[s] = stall[r.Intn(len(stall))]
		}
		room := 1000
		if link == "udp" {
			room = 260 // one datagram, the wrapper's buffer
		}
		for t := 0; t < g; t++ {
			for k := 0; k < lens[t]; k++ {
				id := 16*t + k
				fault, isBad := faults[slot{t, k}]
				if !isBad && r.Intn(8) == 0 {
					toks = append(toks, ";", itoa(t), []string{"setunit", "setenc"}[r.Intn(2)])
					o.Stat("garble-step:setting")
					continue
				}
				if !isBad {
					fault = "ok"
					if r.Intn(10) == 0 {
						fault = "exc"
					}
				}
				var op []string
				var fc byte
				var payload []byte
				for {
					switch r.Intn(4) {
					case 0, 1:
						// a read: the data of its reply is its own
						for op = randOp(r, opValid); !strings.HasPrefix(op[0], "Read"); {
							op = randOp(r, opValid)
						}
					case 2:
						op = randOp(r, opValid)
					default:
						op = rtuSeqSmallWrite(r, r.Pick(1, 2, 4, 16))
					}
					op[1] = hxi(cgBase + 256*id + r.Intn(256))
					var ok bool
					if fc, payload, ok = buildReply(r, op, e); ok {
						break
					}
				}
				delay := r.Pick(0, 0, 2, 10, 40)
				if r.Intn(12) == 0 {
					delay = 200 + r.Intn(300) // a slow device, garbled line or not
				}
				ans := cgAnswer(r, fault, byte(unit), fc, payload, room)
				toks = append(toks, ";", itoa(t), "call", fault, itoa(delay), hx(ans))
				toks = append(toks, op...)
				o.Stat("garble-fault:" + fault)
				o.Stat("garble-call:" + op[0])
			}
		}
		o.Stat("garble-link:" + link)
		o.Stat("garble-goroutines:" + itoa(g))
		o.Stat("garble-speed:" + itoa(speed))
		ins = append(ins, strings.Join(toks, " "))
	}
	// (a) every way of garbling a reply in turn, answered to the first call of
	// goroutines that start together (the others are queued for the client
	// when the garbled exchange ends), on every link
	rounds := 1
	if thorough {
		rounds = 4
	}
	for round := 0; round < rounds; round++ {
		for _, f := range quick {
			build("s", 3+r.Intn(3), 2, f, 1+r.Intn(2), false)
		}
		build("tcp", 3+r.Intn(3), 2, quick[r.Intn(len(quick))], 2, false)
		build("udp", 3+r.Intn(3), 2, quick[r.Intn(len(quick))], 2, false)
	}
	if thorough {
		for _, f := range stall {
			build("s", 3+r.Intn(3), 2, f, 2, false)
			build([]string{"tcp", "udp"}[r.Intn(2)], 3, 2, f, 2, false)
		}
	}
	// (b) seeded random sets: 2..6 goroutines, 1..3 steps each, up to four
	// garbled replies anywhere; now and then one answer that only ends when the
	// deadline passes (a frame cut short, silence)
	n, nStall := 18, 3
	if thorough {
		n, nStall = 150, 30
	}
	for c := 0; c < n; c++ {
		link := "s"
		switch c % 6 {
		case 4:
			link = "tcp"
		case 5:
			link = "udp"
		}
		maxSteps := 3
		if thorough {
			maxSteps = 4
		}
		stallOne := c < nStall
		nBad := r.Intn(5)
		if stallOne && nBad > 2 {
			nBad = 2
		}
		build(link, 2+r.Intn(5), maxSteps, "", nBad, stallOne)
	}
	o.RunMany("concgarble", ins)
}
