package main

import (
	"net"
	"os"
	"strings"
	"sync"
	"time"

	"verifharness/internal/sconn"

	"github.com/simonvetter/modbus"
)

// C06, first clause, over SEQUENCES: "every RTU frame sent ends with the
// CRC-16/MODBUS of all preceding bytes, whatever their content" - every frame
// of a session on one client / one RTU transport, whatever was sent before it.
//
// rtuseq: link unit e w { ; call <reply> op... | ; setunit u | ; setenc e w }*
//   link  s    scripted in-memory connection (transport of scheme rtuovertcp)
//         tcp  NewClient + Open() of rtuovertcp://127.0.0.1:port (loopback device)
//         udp  NewClient + Open() of rtuoverudp://127.0.0.1:port (loopback device)
//   The peer is a well-behaved device: it looks at every frame it receives and
//   answers (with <reply>, a valid reply to the call) if and only if the frame
//   ends with the CRC-16 of its preceding bytes (independent bit-serial
//   implementation, gen.go crcRef); it stays silent otherwise.
// -> per step, joined by ";":  "<result> <frames the device received during the call>" | ok | ok:u

func init() {
	register("C06", scnRtuSeq)
	executors["rtuseq"] = execRtuSeq
}

func rtuTrailerOK(f []byte) bool {
	if len(f) < 4 {
		return false
	}
	lo, hi := crcRef(f[:len(f)-2])
	return f[len(f)-2] == lo && f[len(f)-1] == hi
}

// length of the request frame that starts buf according to its function code
// (0: more bytes are needed; unknown function code: everything received)
func rtuRequestLen(buf []byte) int {
	if len(buf) < 2 {
		return 0
	}
	switch buf[1] {
	case 1, 2, 3, 4, 5, 6:
		return 8
	case 15, 16:
		if len(buf) < 7 {
			return 0
		}
		return 9 + int(buf[6])
	}
	return len(buf)
}

// the device side of a session
type rtuSeqDevice struct {
	mu     sync.Mutex
	frames [][]byte // frames received so far
	reply  []byte   // the answer to the call in progress
}

func (d *rtuSeqDevice) setReply(b []byte) { d.mu.Lock(); d.reply = b; d.mu.Unlock() }

// one complete frame arrived: log it; the answer, or nil when the device drops the frame
func (d *rtuSeqDevice) receive(f []byte) []byte {
	d.mu.Lock()
	defer d.mu.Unlock()
	d.frames = append(d.frames, append([]byte(nil), f...))
	if rtuTrailerOK(f) && len(d.reply) > 0 {
		return d.reply
	}
	return nil
}

func (d *rtuSeqDevice) count() int { d.mu.Lock(); defer d.mu.Unlock(); return len(d.frames) }

func (d *rtuSeqDevice) since(n int) [][]byte {
	d.mu.Lock()
	defer d.mu.Unlock()
	return append([][]byte(nil), d.frames[n:]...)
}

func execRtuSeq(in []string) (out string) {
	defer func() {
		if r := recover(); r != nil {
			out = "panic"
		}
	}()
	link := in[0]
	dev := &rtuSeqDevice{}
	var mc *modbus.ModbusClient
	stop := make(chan struct{})
	defer close(stop)
	stopped := func() bool {
		select {
		case <-stop:
			return true
		default:
			return false
		}
	}
	switch link {
	case "s":
		c := sconn.New(true)
		c.OnWrite = func(c *sconn.Conn, b []byte) {
			if ans := dev.receive(b); ans != nil {
				c.Feed(ans)
			}
		}
		var err error
		mc, err = modbus.VerifNewClientOnConn(&modbus.ClientConfiguration{
			URL: "rtuovertcp://sconn", Timeout: time.Second, Speed: 10000000, Logger: quiet}, c)
		if err != nil {
			return "harness-error"
		}
	case "tcp":
		l, err := net.Listen("tcp", "127.0.0.1:0")
		if err != nil {
			return "harness-error:" + err.Error()
		}
		defer l.Close()
		go func() {
			c, err := l.Accept()
			if err != nil {
				return
			}
			defer c.Close()
			var acc []byte
			buf := make([]byte, 4096)
			for !stopped() {
				c.SetReadDeadline(time.Now().Add(20 * time.Millisecond))
				n, err := c.Read(buf)
				acc = append(acc, buf[:n]...)
				for {
					k := rtuRequestLen(acc)
					if k == 0 || k > len(acc) {
						break
					}
					if ans := dev.receive(acc[:k]); ans != nil {
						c.Write(ans)
					}
					acc = acc[k:]
				}
				if err != nil && !os.IsTimeout(err) {
					return
				}
			}
		}()
		mc, err = modbus.NewClient(&modbus.ClientConfiguration{
			URL: "rtuovertcp://" + l.Addr().String(), Timeout: 4 * time.Second, Speed: 115200, Logger: quiet})
		if err != nil {
			return "harness-error:newclient"
		}
		if err = mc.Open(); err != nil {
			return "harness-error:open"
		}
		defer mc.Close()
	case "udp":
		pc, err := net.ListenPacket("udp", "127.0.0.1:0")
		if err != nil {
			return "harness-error:" + err.Error()
		}
		defer pc.Close()
		go func() {
			buf := make([]byte, 4096)
			for !stopped() {
				pc.SetReadDeadline(time.Now().Add(20 * time.Millisecond))
				n, from, err := pc.ReadFrom(buf)
				if n > 0 {
					// one datagram carries one frame
					if ans := dev.receive(buf[:n]); ans != nil {
						pc.WriteTo(ans, from)
					}
				}
				if err != nil && !os.IsTimeout(err) {
					return
				}
			}
		}()
		mc, err = modbus.NewClient(&modbus.ClientConfiguration{
			URL: "rtuoverudp://" + pc.LocalAddr().String(), Timeout: 4 * time.Second, Speed: 115200, Logger: quiet})
		if err != nil {
			return "harness-error:newclient"
		}
		if err = mc.Open(); err != nil {
			return "harness-error:open"
		}
		defer mc.Close()
	default:
		return "harness-error:bad-link"
	}
	mc.SetUnitId(uint8(unhx(in[1])))
	if err := mc.SetEncoding(modbus.Endianness(atoi(in[2])), modbus.WordOrder(atoi(in[3]))); err != nil {
		return "harness-error:setenc"
	}

	var outs []string
	var step []string
	flush := func() {
		if len(step) == 0 {
			return
		}
		switch step[0] {
		case "call":
			dev.setReply(unhex(step[1]))
			before := dev.count()
			res := callOp(mc, step[2:])
			if link != "s" && res != "err:params" && res != "panic" {
				// a request that was written has reached the loopback device when the
				// reply came back; after a timeout give it time to show up (the
				// device logs frames whether or not it answers them)
				for i := 0; i < 600 && dev.count() == before; i++ {
					time.Sleep(5 * time.Millisecond)
				}
			}
			dev.setReply(nil)
			outs = append(outs, res+" "+writesStr(dev.since(before)))
		case "setunit":
			mc.SetUnitId(uint8(unhx(step[1])))
			outs = append(outs, "ok")
		case "setenc":
			outs = append(outs, resStr("u", mc.SetEncoding(modbus.Endianness(unhx(step[1])), modbus.WordOrder(unhx(step[2])))))
		default:
			outs = append(outs, "harness-error:bad-step")
		}
		step = nil
	}
	for _, t := range in[4:] {
		if t == ";" {
			flush()
		} else {
			step = append(step, t)
		}
	}
	flush()
	return strings.Join(outs, ";")
}

// ---------------------------------------------------------------- generator

// the number of list elements of a multiple-write call (0: not one)
func rtuSeqListLen(op []string) int {
	switch op[0] {
	case "WriteCoils":
		return len(boolsTok(op[2]))
	case "WriteRegisters", "WriteUint32s", "WriteFloat32s", "WriteUint64s", "WriteFloat64s":
		return len(numsTok(op[2]))
	case "WriteBytes", "WriteRawBytes":
		return len(bytesTok(op[2]))
	}
	return 0
}

// a call of the same kind on the same address with the same number of items
// (hence a request of the same length with the same leading fields) and other data
func rtuSeqSameShape(r *Rng, op []string, how int) []string {
	n := append([]string(nil), op...)
	k := rtuSeqListLen(op)
	switch op[0] {
	case "WriteCoils", "WriteRegisters", "WriteUint32s", "WriteFloat32s", "WriteUint64s", "WriteFloat64s", "WriteBytes", "WriteRawBytes":
		if k == 0 || k > 3000 {
			return n // an empty or oversized list (refused locally): repeated as it is
		}
	}
	one := func(width uint) string {
		// how = 0: everything redrawn; 1: one bit of the first item; 2: of the last; 3: of a random item
		var vs []uint64
		if op[0] == "WriteBytes" || op[0] == "WriteRawBytes" {
			for _, b := range bytesTok(op[2]) {
				vs = append(vs, uint64(b))
			}
		} else if op[0] == "WriteCoils" {
			for _, b := range boolsTok(op[2]) {
				v := uint64(0)
				if b {
					v = 1
				}
				vs = append(vs, v)
			}
		} else {
			vs = numsTok(op[2])
		}
		i := 0
		switch how {
		case 2:
			i = len(vs) - 1
		case 3:
			i = r.Intn(len(vs))
		}
		vs[i] ^= 1 << uint(r.Intn(int(width)))
		switch op[0] {
		case "WriteBytes", "WriteRawBytes":
			b := make([]byte, len(vs))
			for j := range vs {
				b[j] = byte(vs[j])
			}
			return hx(b)
		case "WriteCoils":
			var sb strings.Builder
			for _, v := range vs {
				sb.WriteByte(byte('0' + v))
			}
			return sb.String()
		}
		return csvu(vs)
	}
	switch op[0] {
	case "WriteCoils":
		if how == 0 {
			n[2] = randBits(r, k)
		} else {
			n[2] = one(1)
		}
	case "WriteRegisters":
		if how == 0 {
			n[2] = randNums(r, k, 16)
		} else {
			n[2] = one(16)
		}
	case "WriteUint32s", "WriteFloat32s":
		if how == 0 {
			n[2] = randNums(r, k, 32)
		} else {
			n[2] = one(32)
		}
	case "WriteUint64s", "WriteFloat64s":
		if how == 0 {
			n[2] = randNums(r, k, 64)
		} else {
			n[2] = one(64)
		}
	case "WriteBytes", "WriteRawBytes":
		if how == 0 {
			n[2] = hx(r.Bytes(k))
		} else {
			n[2] = one(8)
		}
	case "WriteUint32", "WriteFloat32":
		if how == 0 {
			n[2] = hxu(r.U64() & 0xffffffff)
		} else {
			n[2] = hxu(unhx(op[2]) ^ 1<<uint(r.Intn(32)))
		}
	case "WriteUint64", "WriteFloat64":
		if how == 0 {
			n[2] = hxu(r.U64())
		} else {
			n[2] = hxu(unhx(op[2]) ^ 1<<uint(r.Intn(64)))
		}
	case "WriteRegister":
		n[2] = hxu(unhx(op[2]) ^ 1<<uint(r.Intn(16)))
	case "WriteCoil":
		n[2] = itoa(1 - atoi(op[2]))
	}
	return n
}

// a write call with at most maxItems items (short frames dominate in the field:
// setpoints, a few coils); the address leaves room for the items
func rtuSeqSmallWrite(r *Rng, maxItems int) []string {
	k := 1 + r.Intn(maxItems)
	addr := func(regs int) string {
		a := pickAddr(r)
		if a+regs-1 > 0xffff {
			a = 0x10000 - regs
		}
		return hxi(a)
	}
	switch r.Intn(8) {
	case 0:
		return []string{"WriteCoils", addr(k), randBits(r, k)}
	case 1:
		return []string{"WriteRegisters", addr(k), randNums(r, k, 16)}
	case 2:
		return []string{[]string{"WriteUint32", "WriteFloat32"}[r.Intn(2)], addr(2), hxu(r.U64() & 0xffffffff)}
	case 3:
		return []string{[]string{"WriteUint64", "WriteFloat64"}[r.Intn(2)], addr(4), hxu(r.U64())}
	case 4:
		return []string{[]string{"WriteUint32s", "WriteFloat32s"}[r.Intn(2)], addr(2 * k), randNums(r, k, 32)}
	case 5:
		return []string{[]string{"WriteBytes", "WriteRawBytes"}[r.Intn(2)], addr((k + 1) / 2), hx(r.Bytes(k))}
	case 6:
		return []string{"WriteRegister", hxi(pickAddr(r)), hxi(r.Intn(65536))}
	}
	return []string{"WriteCoil", hxi(pickAddr(r)), itoa(r.Intn(2))}
}

// sessions of several calls on one RTU client: every call is either a fresh
// random call or derived from the previous one (repeated as it is; the same
// kind, address and size with other data; the same call for another unit or
// under another byte / word order)
func scnRtuSeq(o *Out, r *Rng, thorough bool) {
	nS, nReal := 400, 6
	if thorough {
		nS, nReal = 6000, 60
	}
	var ins []string
	session := func(link string) {
		unit, e, w := randCfg(r)
		toks := []string{link, hxi(unit), itoa(e), itoa(w)}
		steps := 2 + r.Intn(7)
		var prev []string
		for s := 0; s < steps; s++ {
			var op []string
			kind := r.Intn(10)
			if prev == nil {
				kind = 0
			}
			switch {
			case kind <= 1:
				switch r.Intn(3) {
				case 0:
					cls := opValid
					if link == "s" && r.Intn(6) == 0 {
						cls = opAny // incl. calls refused locally: nothing is sent
					}
					op = randOp(r, cls)
				default:
					op = rtuSeqSmallWrite(r, r.Pick(1, 2, 4, 16, 123))
				}
				o.Stat("rtuseq:step-fresh")
			case kind == 2:
				op = prev
				o.Stat("rtuseq:step-repeat")
			case kind <= 6:
				op = rtuSeqSameShape(r, prev, r.Intn(4))
				o.Stat("rtuseq:step-same-shape-other-data")
			case kind == 7:
				unit = r.Pick(unit^1, unit^0x80, r.Intn(256))
				toks = append(toks, ";", "setunit", hxi(unit))
				op = prev
				o.Stat("rtuseq:step-other-unit")
			case kind == 8:
				if r.Bool() {
					e = 3 - e
				} else {
					w = 3 - w
				}
				toks = append(toks, ";", "setenc", itoa(e), itoa(w))
				op = prev
				o.Stat("rtuseq:step-other-encoding")
			default:
				// the same data somewhere else
				op = append([]string(nil), prev...)
				a := int(unhx(prev[1]))
				if a > 0 {
					a--
				} else {
					a++
				}
				op[1] = hxi(a)
				o.Stat("rtuseq:step-other-address")
			}
			reply := "-"
			if fc, payload, ok := buildReply(r, op, e); ok {
				reply = hx(rtuFrame(byte(unit), fc, payload))
			} else if link != "s" {
				// real links: only calls that put a frame on the wire
				op = rtuSeqSmallWrite(r, 4)
				fc, payload, _ := buildReply(r, op, e)
				reply = hx(rtuFrame(byte(unit), fc, payload))
			}
			toks = append(toks, ";", "call", reply)
			toks = append(toks, op...)
			prev = op
		}
		ins = append(ins, strings.Join(toks, " "))
		o.Stat("rtuseq:link-" + link)
	}
	for i := 0; i < nS; i++ {
		session("s")
	}
	for i := 0; i < nReal; i++ {
		session("tcp")
		session("udp")
	}
	o.RunMany("rtuseq", ins)
}
