// implrun drives the real simonvetter/modbus implementation (built with
// -tags verif) on generated cases and writes, per case, the input and the
// projected observables as one TSV line:  scenario <TAB> input tokens <TAB> output
package main

import (
	"bufio"
	"flag"
	"fmt"
	"os"
	"sort"
	"strconv"
	"strings"
	"sync"
	"sync/atomic"
	"time"
)

// Out collects case lines and distribution statistics.
type Out struct {
	w     *bufio.Writer
	n     int
	stats map[string]int
}

func (o *Out) Case(scn string, in string, out string) {
	fmt.Fprintf(o.w, "%s\t%s\t%s\n", scn, in, out)
	o.n++
	o.stats["scn:"+scn]++
}

func (o *Out) Stat(key string) { o.stats[key]++ }

// Run executes one case of scenario scn on the implementation and records it.
func (o *Out) Run(scn string, in string) string {
	out := execCase(scn, in)
	o.Case(scn, in, out)
	return out
}

// RunMany executes the cases in parallel (order of the output is the order of ins).
func (o *Out) RunMany(scn string, ins []string) []string {
	outs := make([]string, len(ins))
	var wg sync.WaitGroup
	sem := make(chan struct{}, 48)
	for i := range ins {
		wg.Add(1)
		sem <- struct{}{}
		go func(i int) {
			defer wg.Done()
			outs[i] = execCase(scn, ins[i])
			<-sem
		}(i)
	}
	wg.Wait()
	for i := range ins {
		o.Case(scn, ins[i], outs[i])
	}
	return outs
}

// executors: scenario name -> run the implementation on the input tokens
var executors = map[string]func(in []string) string{}

func execCase(scn string, in string) string {
	f, ok := executors[scn]
	if !ok {
		return "harness-error:no-executor"
	}
	var toks []string
	if in != "" {
		toks = strings.Split(in, " ")
	}
	// a case that never returns (e.g. the code under test deadlocked and even the
	// executor's clean-up blocks) becomes a failing case instead of a hung check
	// (after the first such case the budget per case shrinks, and after five the
	// remaining cases of the run are not started: each is reported as hung)
	trips := atomic.LoadInt32(&watchdogTrips)
	if trips >= 5 {
		return "hang:case-watchdog"
	}
	budget := caseTimeout()
	if trips > 0 && budget > 30*time.Second {
		budget = 30 * time.Second
	}
	done := make(chan string, 1)
	go func() { done <- f(toks) }()
	select {
	case r := <-done:
		return r
	case <-time.After(budget):
		atomic.AddInt32(&watchdogTrips, 1)
		return "hang:case-watchdog"
	}
}

var watchdogTrips int32

func caseTimeout() time.Duration {
	if v := os.Getenv("VERIF_CASE_TIMEOUT_S"); v != "" {
		if n, err := strconv.Atoi(v); err == nil && n > 0 {
			return time.Duration(n) * time.Second
		}
	}
	return 300 * time.Second
}

type scenario func(o *Out, r *Rng, thorough bool)

var scenarios = map[string][]scenario{}

func register(prop string, s ...scenario) { scenarios[prop] = append(scenarios[prop], s...) }

func main() {
	var seed uint64
	var tier string
	var outPath string
	var statPath string

	flag.Uint64Var(&seed, "seed", 1, "PRNG seed")
	flag.StringVar(&tier, "tier", "quick", "quick|thorough")
	flag.StringVar(&outPath, "out", "", "cases file")
	flag.StringVar(&statPath, "stats", "", "stats file")
	var replay string
	flag.StringVar(&replay, "replay", "", "run a single case: 'scn<TAB>input tokens'")
	flag.Parse()

	if replay != "" {
		parts := strings.SplitN(replay, "\t", 2)
		if len(parts) != 2 {
			fmt.Fprintln(os.Stderr, "bad -replay")
			os.Exit(2)
		}
		fmt.Printf("%s\t%s\t%s\n", parts[0], parts[1], execCase(parts[0], parts[1]))
		return
	}

	if flag.NArg() == 2 && flag.Arg(0) == "crc-step-table" {
		if err := CrcStepTable(flag.Arg(1)); err != nil {
			fmt.Fprintln(os.Stderr, err)
			os.Exit(2)
		}
		return
	}

	if flag.NArg() != 1 {
		fmt.Fprintln(os.Stderr, "usage: implrun [flags] <property>")
		os.Exit(2)
	}
	prop := flag.Arg(0)
	scs, ok := scenarios[prop]
	if !ok {
		fmt.Fprintf(os.Stderr, "unknown property %s\n", prop)
		os.Exit(2)
	}

	f, err := os.Create(outPath)
	if err != nil {
		fmt.Fprintln(os.Stderr, err)
		os.Exit(2)
	}
	o := &Out{w: bufio.NewWriterSize(f, 1<<20), stats: map[string]int{}}
	for i, s := range scs {
		// every scenario gets its own stream derived from the one seed
		s(o, NewRng(seed, uint64(i)), tier == "thorough")
	}
	o.w.Flush()
	f.Close()

	if statPath != "" {
		var keys []string
		for k := range o.stats {
			keys = append(keys, k)
		}
		sort.Strings(keys)
		var sb strings.Builder
		for _, k := range keys {
			fmt.Fprintf(&sb, "%s\t%d\n", k, o.stats[k])
		}
		os.WriteFile(statPath, []byte(sb.String()), 0644)
	}
	fmt.Fprintf(os.Stderr, "implrun %s: %d cases\n", prop, o.n)
}
