package main

// C13, client side: the cut exchange is the k-th exchange of its connection.
//
// cutkth: scheme end k unit e w { ; fc payload op... }+
//         -> "<r1>;...;<rj> closed=<call between Close and Open> fresh=<call after Open> conns=<c1>,<c2>..."
//
// The groups are the calls of one client, in order: the last group is the call
// made after Close()+Open(), the one before it is the call whose reply is cut,
// the others (0, 1, 2, ...) are exchanges that complete normally before it on
// the SAME connection. The client is built by NewClient + the real Open()
// (tcp, rtuovertcp, tcp+tls) against a loopback listener that keeps ACCEPTING
// for the whole case, serves every connection like a device (every request
// frame is answered with the valid reply of the call in progress, echoing its
// transaction id) and logs every request frame it receives on EVERY connection.
// On the connection made by Open() the reply to the cut call is sent up to
// byte offset k (0..len), then the peer
//   c  closes        r  resets (SO_LINGER 0)        s  stays silent
// (k = len is the control: the peer goes away after the client has taken the
// whole reply). Then: Close(), the call again on the closed handle, Open(),
// the last call, Close().
//
// Observables: the result of every call (the cut one projected to its class),
// and per accepted connection - in order of acceptance - the request frames
// received ("+" between frames, "~" before trailing bytes that are not a whole
// frame, "-" for none). The log is read after a marker connection has told the
// accept loop that every connection dialled before it was accepted and every
// connection handler has run to the end of its stream: no timing assumption
// decides the outcome, the watchdogs only turn a hang into a failing case.

import (
	"crypto/tls"
	"net"
	"strings"
	"sync"
	"time"

	"github.com/simonvetter/modbus"
)

func init() {
	executors["cutkth"] = c13CutKth
	register("C13", scnCutKth)
}

type kthCall struct {
	fc      byte
	payload []byte
	op      []string
}

type kthPeer struct {
	ln      net.Listener
	tlsConf *tls.Config
	framing string // "m" MBAP, "r" RTU
	unit    byte
	end     string
	k       int
	calls   []kthCall
	cutIdx  int

	mu       sync.Mutex
	cur      int         // the call in progress
	conns    []*hangConn // in order of acceptance
	sentinel string      // remote address of the harness's marker connection
	wg       sync.WaitGroup
	done     chan struct{} // closed when the marker connection has been accepted
	cutDone  chan struct{} // closed when the cut call has returned
}

func (p *kthPeer) serve() {
	for {
		c, err := p.ln.Accept()
		if err != nil {
			return
		}
		p.mu.Lock()
		if p.sentinel != "" && c.RemoteAddr().String() == p.sentinel {
			p.mu.Unlock()
			c.Close()
			close(p.done)
			return
		}
		hc := &hangConn{}
		first := len(p.conns) == 0
		p.conns = append(p.conns, hc)
		p.wg.Add(1)
		p.mu.Unlock()
		go p.handle(c, hc, first)
	}
}

// the valid reply to the request just read, for the call in progress
func (p *kthPeer) answer(req []byte, i int) []byte {
	c := p.calls[i]
	if p.framing == "m" {
		return mbapFrame(uint16(req[0])<<8|uint16(req[1]), 0, -1, p.unit, c.fc, c.payload)
	}
	return rtuFrame(p.unit, c.fc, c.payload)
}

func (p *kthPeer) handle(c net.Conn, hc *hangConn, first bool) {
	defer p.wg.Done()
	defer c.Close()
	c.SetDeadline(time.Now().Add(12 * time.Second))
	var rw net.Conn = c
	if p.tlsConf != nil {
		ts := tls.Server(c, p.tlsConf)
		if err := ts.Handshake(); err != nil {
			p.mu.Lock()
			hc.note = "hsfail"
			p.mu.Unlock()
			return
		}
		rw = ts
	}
	one := make([]byte, 1)
	// logs whatever else arrives, to the end of the stream
	drain := func() {
		for {
			m, err := rw.Read(one)
			if m > 0 {
				p.mu.Lock()
				hc.got = append(hc.got, one[0])
				p.mu.Unlock()
			}
			if err != nil {
				return
			}
		}
	}
	cutServed := false
	for {
		var frame []byte
		for {
			total, known := hangFrameLen(p.framing, frame)
			if known && len(frame) == total {
				break
			}
			m, err := rw.Read(one)
			if m > 0 {
				frame = append(frame, one[0])
				p.mu.Lock()
				hc.got = append(hc.got, one[0])
				p.mu.Unlock()
			}
			if err != nil {
				return // the client is gone (or the watchdog deadline)
			}
		}
		p.mu.Lock()
		i := p.cur
		p.mu.Unlock()
		rep := p.answer(frame, i)
		if !(first && i == p.cutIdx && !cutServed) {
			if _, err := rw.Write(rep); err != nil {
				return
			}
			continue
		}
		// the reply that is cut
		cutServed = true
		k := p.k
		if k > len(rep) {
			k = len(rep)
		}
		if k > 0 {
			if _, err := rw.Write(rep[:k]); err != nil {
				return
			}
		}
		if k == len(rep) {
			// not a cut: the peer goes away after the client has taken the whole reply
			select {
			case <-p.cutDone:
			case <-time.After(8 * time.Second):
			}
		}
		switch p.end {
		case "c":
			rw.Close() // tls: close_notify, then FIN
			return
		case "r":
			abortConn(c)
			return
		default:
			// stall: silent until the client gives the connection up
			drain()
			return
		}
	}
}

// finish: every connection dialled so far has been accepted and handled to the
// end of its stream; returns a note when a watchdog fired
func (p *kthPeer) finish() string {
	note := ""
	p.mu.Lock()
	d, err := net.DialTimeout("tcp", p.ln.Addr().String(), 5*time.Second)
	if err == nil {
		p.sentinel = d.LocalAddr().String()
	}
	p.mu.Unlock()
	if err != nil {
		note = "marker-failed"
	} else {
		select {
		case <-p.done:
		case <-time.After(10 * time.Second):
			note = "accept-stuck"
		}
		d.Close()
	}
	p.ln.Close()
	handled := make(chan struct{})
	go func() { p.wg.Wait(); close(handled) }()
	select {
	case <-handled:
	case <-time.After(15 * time.Second):
		note = "handler-stuck"
	}
	return note
}

// framesStr splits the bytes received on one connection into request frames
func framesStr(framing string, b []byte) string {
	if len(b) == 0 {
		return "-"
	}
	var fs []string
	for len(b) > 0 {
		total, known := hangFrameLen(framing, b)
		if !known || total > len(b) {
			fs = append(fs, "~"+hx(b))
			break
		}
		fs = append(fs, hx(b[:total]))
		b = b[total:]
	}
	return strings.Join(fs, "+")
}

func kthGroups(toks []string) [][]string {
	var gs [][]string
	var cur []string
	for _, t := range toks {
		if t == ";" {
			if len(cur) > 0 {
				gs = append(gs, cur)
			}
			cur = nil
		} else {
			cur = append(cur, t)
		}
	}
	if len(cur) > 0 {
		gs = append(gs, cur)
	}
	return gs
}

func c13CutKth(in []string) (out string) {
	defer func() {
		if r := recover(); r != nil {
			out = "panic"
		}
	}()
	scheme, end, k := in[0], in[1], atoi(in[2])
	unit, e, w := int(unhx(in[3])), atoi(in[4]), atoi(in[5])
	gs := kthGroups(in[6:])
	if len(gs) < 2 {
		return "harness-error:groups"
	}
	var calls []kthCall
	for _, g := range gs {
		if len(g) < 3 {
			return "harness-error:group"
		}
		calls = append(calls, kthCall{fc: byte(unhx(g[0])), payload: unhex(g[1]), op: g[2:]})
	}
	cutIdx := len(calls) - 2
	framing := "m"
	if scheme == "rtuovertcp" {
		framing = "r"
	}
	cert, pool := c16Creds()
	ln, err := net.Listen("tcp", "127.0.0.1:0")
	if err != nil {
		return "harness-error:" + err.Error()
	}
	p := &kthPeer{ln: ln, framing: framing, unit: byte(unit), end: end, k: k, calls: calls, cutIdx: cutIdx,
		done: make(chan struct{}), cutDone: make(chan struct{})}
	if scheme == "tcp+tls" {
		p.tlsConf = &tls.Config{Certificates: []tls.Certificate{*cert}, ClientAuth: tls.RequireAnyClientCert,
			MinVersion: tls.VersionTLS12}
	}
	go p.serve()
	finished := false
	defer func() {
		if !finished {
			p.finish()
		}
	}()
	// the timeout only ends the call whose peer stays silent; every other exchange
	// is answered (or cut) at once, the slack is for a loaded machine
	timeout := 5 * time.Second
	if end == "s" {
		timeout = time.Second
	}
	mc, err := modbus.NewClient(&modbus.ClientConfiguration{URL: scheme + "://" + ln.Addr().String(),
		Timeout: timeout, Logger: quiet, TLSClientCert: cert, TLSRootCAs: pool, Speed: 10000000})
	if err != nil {
		return "harness-error:newclient"
	}
	mc.SetUnitId(uint8(unit))
	mc.SetEncoding(modbus.Endianness(e), modbus.WordOrder(w))
	if err = mc.Open(); err != nil {
		return "harness-error:open1"
	}
	setCur := func(i int) { p.mu.Lock(); p.cur = i; p.mu.Unlock() }
	var rs []string
	for i := 0; i <= cutIdx; i++ {
		setCur(i)
		r := callOp(mc, calls[i].op)
		if i == cutIdx {
			r = projectRes(r)
		}
		rs = append(rs, r)
	}
	close(p.cutDone)
	mc.Close()
	fresh := calls[cutIdx+1]
	rClosed := projectRes(callOp(mc, fresh.op))
	setCur(cutIdx + 1)
	rFresh := "open-error"
	if err := mc.Open(); err == nil {
		rFresh = callOp(mc, fresh.op)
		mc.Close()
	}
	finished = true
	note := p.finish()
	p.mu.Lock()
	defer p.mu.Unlock()
	var cs []string
	for _, hc := range p.conns {
		if hc.note != "" {
			cs = append(cs, hc.note)
		} else {
			cs = append(cs, framesStr(framing, hc.got))
		}
	}
	if len(cs) == 0 {
		cs = []string{"none"}
	}
	out = strings.Join(rs, ";") + " closed=" + rClosed + " fresh=" + rFresh + " conns=" + strings.Join(cs, ",")
	if note != "" {
		out += " note=" + note
	}
	return out
}

// kthShortOp draws a valid call whose reply frame is short (every cut offset
// of it is visited)
func kthShortOp(r *Rng, e int) (op []string, fc byte, payload []byte) {
	for {
		op = randOp(r, opValid)
		var ok bool
		if fc, payload, ok = buildReply(r, op, e); ok && len(payload) <= 24 {
			return
		}
	}
}

func scnCutKth(o *Out, r *Rng, thorough bool) {
	var ins []string
	group := func(op []string, fc byte, payload []byte) string {
		return " ; " + hxi(int(fc)) + " " + hx(payload) + " " + strings.Join(op, " ")
	}
	// one session shape: `before` complete exchanges, then the cut one, every
	// offset of its reply x ends
	add := func(scheme string, before int, cutOp []string, ends []string) {
		unit, e, w := randCfg(r)
		var pre string
		for i := 0; i < before; i++ {
			for {
				op := randOp(r, opValid)
				if fc, payload, ok := buildReply(r, op, e); ok {
					pre += group(op, fc, payload)
					o.Stat("cutkth-earlier-op:" + op[0])
					break
				}
			}
		}
		var fc byte
		var payload []byte
		if cutOp == nil {
			cutOp, fc, payload = kthShortOp(r, e)
		} else {
			var ok bool
			if fc, payload, ok = buildReply(r, cutOp, e); !ok {
				return
			}
		}
		cut := group(cutOp, fc, payload)
		// after Close()+Open(): the same call again, or another one
		fresh := cut
		if r.Bool() {
			fop, ffc, fpl := kthShortOp(r, e)
			fresh = group(fop, ffc, fpl)
			o.Stat("cutkth-fresh:other")
		} else {
			o.Stat("cutkth-fresh:same")
		}
		l := len(payload) + 8
		if scheme == "rtuovertcp" {
			l = len(payload) + 4
		}
		for k := 0; k <= l; k++ {
			for _, end := range ends {
				ins = append(ins, scheme+" "+end+" "+itoa(k)+" "+hxi(unit)+" "+itoa(e)+" "+itoa(w)+pre+cut+fresh)
				o.Stat("cutkth:" + scheme + ":" + end)
			}
		}
		o.Stat("cutkth-kth:" + itoa(before+1))
		o.Stat("cutkth-cut-op:" + cutOp[0])
	}
	cr := []string{"c", "r"}
	wr := func() []string { return []string{"WriteRegister", hxi(pickAddr(r)), hxi(r.Intn(65536))} }
	fixed := [][]string{{"ReadRegisters", "10", "2", "0"}, {"WriteCoil", "7", "1"}}
	for _, scheme := range []string{"tcp", "rtuovertcp"} {
		for before := 0; before <= 2; before++ {
			add(scheme, before, wr(), cr)
			add(scheme, before, fixed[r.Intn(len(fixed))], cr)
			add(scheme, before, nil, cr)
		}
		// a peer that stays silent in the middle of the reply
		add(scheme, 1, wr(), []string{"s"})
	}
	for before := 0; before <= 2; before++ {
		add("tcp+tls", before, wr(), cr)
	}
	if thorough {
		for _, scheme := range []string{"tcp", "rtuovertcp", "tcp+tls"} {
			for i := 0; i < 12; i++ {
				add(scheme, r.Intn(6), nil, cr)
			}
			for _, op := range [][]string{{"ReadCoils", "fff0", "9"}, {"WriteRegisters", "5", "1,2,3"},
				{"ReadUint32", "8", "1"}, {"WriteCoils", "0", "10110"}, {"ReadRegisters", "0", "7d", "1"}} {
				add(scheme, 1+r.Intn(3), op, cr)
			}
			add(scheme, 2, nil, []string{"s"})
			add(scheme, 40+r.Intn(30), wr(), cr)
		}
	}
	outs := o.RunMany("cutkth", ins)
	for _, out := range outs {
		f := strings.Split(out, " ")
		rs := strings.Split(f[0], ";")
		last := rs[len(rs)-1]
		if strings.HasPrefix(last, "ok:") {
			last = "ok"
		}
		o.Stat("cutkth-cut-res:" + last)
	}
}
