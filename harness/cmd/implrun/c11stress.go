package main

import (
	"verifharness/internal/sconn"
	"strings"
	"fmt"
	"io"
	"net"
	"runtime"
	"sync"
	"time"

	"github.com/simonvetter/modbus"
)

// isostress: nconn connections hammer a real server concurrently, every one
// from its own goroutine, with IDENTICAL transaction ids and unit ids that
// differ per connection; every response must carry the connection's own
// transaction id and unit id and the data derived from the address that
// connection asked for.   in: nconn nreq gomaxprocs   out: ok | <first anomaly>
func init() {
	executors["isostress"] = runIsoStress
	register("C11", scnIsoStress)
}

type stressHandler struct{}

func (stressHandler) HandleCoils(r *modbus.CoilsRequest) ([]bool, error) {
	return make([]bool, r.Quantity), nil
}
func (stressHandler) HandleDiscreteInputs(r *modbus.DiscreteInputsRequest) ([]bool, error) {
	return make([]bool, r.Quantity), nil
}
func (stressHandler) HandleHoldingRegisters(r *modbus.HoldingRegistersRequest) ([]uint16, error) {
	res := make([]uint16, r.Quantity)
	for i := range res {
		res[i] = r.Addr + uint16(i)*7 + uint16(r.UnitId)
	}
	return res, nil
}
func (stressHandler) HandleInputRegisters(r *modbus.InputRegistersRequest) ([]uint16, error) {
	return make([]uint16, r.Quantity), nil
}

func runIsoStress(in []string) (out string) {
	defer func() {
		if r := recover(); r != nil {
			out = "panic"
		}
	}()
	nconn, nreq, procs := atoi(in[0]), atoi(in[1]), atoi(in[2])
	if procs > 0 {
		defer runtime.GOMAXPROCS(runtime.GOMAXPROCS(procs))
	}
	srv, err := modbus.NewServer(&modbus.ServerConfiguration{URL: "tcp://127.0.0.1:0", MaxClients: uint(nconn),
		Timeout: 10 * time.Second, Logger: quiet}, stressHandler{})
	if err != nil {
		return "harness-error:" + err.Error()
	}
	if err := srv.Start(); err != nil {
		return "harness-error:" + err.Error()
	}
	defer srv.Stop()
	addr := srv.VerifListenAddr().String()
	var wg sync.WaitGroup
	var mu sync.Mutex
	first := ""
	report := func(s string) {
		mu.Lock()
		if first == "" {
			first = s
		}
		mu.Unlock()
	}
	for ci := 0; ci < nconn; ci++ {
		wg.Add(1)
		go func(ci int) {
			defer wg.Done()
			c, err := net.DialTimeout("tcp", addr, 2*time.Second)
			if err != nil {
				report("dial")
				return
			}
			defer c.Close()
			unit := byte(1 + ci)
			for k := 0; k < nreq; k++ {
				txn := uint16(k) // the same ids on every connection
				a := uint16(ci*1000 + k%900)
				q := uint16(1 + (k+ci)%20)
				req := []byte{byte(txn >> 8), byte(txn), 0, 0, 0, 6, unit, 3, byte(a >> 8), byte(a), byte(q >> 8), byte(q)}
				c.SetDeadline(time.Now().Add(3 * time.Second))
				if _, err := c.Write(req); err != nil {
					report(fmt.Sprintf("write:c%d", ci))
					return
				}
				res := make([]byte, 9+2*int(q))
				if _, err := io.ReadFull(c, res); err != nil {
					report(fmt.Sprintf("noresp:c%d:k%d", ci, k))
					return
				}
				if res[0] != req[0] || res[1] != req[1] || res[6] != unit || res[7] != 3 || int(res[8]) != 2*int(q) {
					report(fmt.Sprintf("misrouted-header:c%d:k%d:%x", ci, k, res[:9]))
					return
				}
				for i := 0; i < int(q); i++ {
					want := a + uint16(i)*7 + uint16(unit)
					if got := uint16(res[9+2*i])<<8 | uint16(res[10+2*i]); got != want {
						report(fmt.Sprintf("misrouted-data:c%d:k%d:reg%d:%04x!=%04x", ci, k, i, got, want))
						return
					}
				}
			}
		}(ci)
	}
	wg.Wait()
	if first != "" {
		return first
	}
	return "ok"
}

func scnIsoStress(o *Out, r *Rng, thorough bool) {
	n := 300
	if thorough {
		n = 3000
	}
	o.Run("isostress", "8 "+itoa(n)+" 0")
	o.Run("isostress", "6 "+itoa(n)+" 1") // a single P: goroutines interleave at every blocking point
	o.Run("isostress", "16 "+itoa(n/2)+" 2")
	o.Run("hollimit", "1")
	o.Run("hollimit", "3")
	o.Run("holwrite", "1500 3")
	o.Run("holwrite", "2500 2")
}

// holwrite: one connection's peer has stopped reading (its response write blocks
// until the write deadline, scripted connection served by the real server);
// meanwhile the requests of another client must be answered at once.
//   in: timeout_ms nreq  out: ok | slow:<ms> | ...
func init() { executors["holwrite"] = runHolWrite }

func runHolWrite(in []string) (out string) {
	defer func() {
		if r := recover(); r != nil {
			out = "panic"
		}
	}()
	// a scheduling hiccup is not a finding: a real head-of-line block lasts as
	// long as the write deadline and fails every attempt
	for attempt := 0; ; attempt++ {
		out = holWriteOnce(in)
		if attempt >= 2 || !strings.HasPrefix(out, "slow:") {
			return out
		}
	}
}

func holWriteOnce(in []string) string {
	tmo := time.Duration(atoi(in[0])) * time.Millisecond
	nreq := atoi(in[1])
	srv, err := modbus.NewServer(&modbus.ServerConfiguration{URL: "tcp://127.0.0.1:0", MaxClients: 4,
		Timeout: tmo, Logger: quiet}, stressHandler{})
	if err != nil {
		return "harness-error:" + err.Error()
	}
	if err := srv.Start(); err != nil {
		return "harness-error:" + err.Error()
	}
	addr := srv.VerifListenAddr().String()
	w := sconn.New(false)
	w.BlockWrites = true
	w.Feed(probeReq)
	done := make(chan struct{})
	go func() {
		defer close(done)
		defer func() { recover() }()
		srv.VerifServeConn(w)
	}()
	defer func() {
		w.Close()
		stopped := make(chan struct{})
		go func() { srv.Stop(); close(stopped) }()
		select {
		case <-stopped:
		case <-time.After(tmo + 2*time.Second):
		}
	}()
	// the server has taken the request off the scripted connection: it is now writing
	for i := 0; i < 2000 && w.ConsumedNow() < len(probeReq); i++ {
		time.Sleep(time.Millisecond)
	}
	time.Sleep(30 * time.Millisecond)
	c, err := net.DialTimeout("tcp", addr, time.Second)
	if err != nil {
		return "dial"
	}
	defer c.Close()
	worst := time.Duration(0)
	for i := 0; i < nreq; i++ {
		t0 := time.Now()
		c.SetDeadline(time.Now().Add(tmo + 2*time.Second))
		if _, err := c.Write(probeReq); err != nil {
			return "write:" + itoa(i)
		}
		buf := make([]byte, 11)
		if _, err := io.ReadFull(c, buf); err != nil {
			return "noresp:" + itoa(i)
		}
		if d := time.Since(t0); d > worst {
			worst = d
		}
	}
	if worst > 300*time.Millisecond {
		return "slow:" + itoa(int(worst.Milliseconds()))
	}
	return "ok"
}

// hollimit: the server is at its connection limit; an extra peer connects and
// stays silent (it is refused); the served client leaves; a new client must be
// served at once - the silent refused peer delays nobody.  in: maxc  out: ok | ...
func init() { executors["hollimit"] = runHolLimit }

func runHolLimit(in []string) (out string) {
	defer func() {
		if r := recover(); r != nil {
			out = "panic"
		}
	}()
	maxc := atoi(in[0])
	srv, err := modbus.NewServer(&modbus.ServerConfiguration{URL: "tcp://127.0.0.1:0", MaxClients: uint(maxc),
		Timeout: 20 * time.Second, Logger: quiet}, stressHandler{})
	if err != nil {
		return "harness-error:" + err.Error()
	}
	if err := srv.Start(); err != nil {
		return "harness-error:" + err.Error()
	}
	defer srv.Stop()
	addr := srv.VerifListenAddr().String()
	var served []net.Conn
	for i := 0; i < maxc; i++ {
		c, err := net.DialTimeout("tcp", addr, time.Second)
		if err != nil {
			return "dial"
		}
		defer c.Close()
		if probe(c) != "resp" {
			return "not-served:" + itoa(i)
		}
		served = append(served, c)
	}
	silent, err := net.DialTimeout("tcp", addr, time.Second)
	if err != nil {
		return "dial-silent"
	}
	defer silent.Close()
	time.Sleep(50 * time.Millisecond)
	served[0].Close()
	waitCount(srv, maxc-1, 2*time.Second)
	t0 := time.Now()
	c, err := net.DialTimeout("tcp", addr, time.Second)
	if err != nil {
		return "dial-new"
	}
	defer c.Close()
	if r := probe(c); r != "resp" {
		return "new-client-" + r
	}
	if d := time.Since(t0); d > 500*time.Millisecond {
		return fmt.Sprintf("slow:%dms", d.Milliseconds())
	}
	return "ok"
}
