package main

// C15 (continued) - the handlers of a TLS session see the role of the client
// leaf certificate of THAT session, whatever the server has seen before.
//
// scenario "tlsroleseq": keyset family mode(seq|keep) sess...
//   sess = <member>;<role exts>;<ver>;<verifies>;<leaf exts>;<request>.<request>...
//   ONE real modbus server (tcp+tls) for the whole case and an ordered sequence
//   of 3..6 TLS sessions. The client certificates of a case are issued by one
//   CA (the server's TLSClientCAs) and belong to a FAMILY that shares
//   identifying material:
//     k    the key pair                       (subjects, serial numbers, validity differ)
//     ks   the key pair and the subject       (serial numbers, validity differ)
//     sn   the subject and the serial number  (every member has its own key pair)
//     all  everything but the role extension  (key pair, subject, serial number, validity, issuer)
//     x    nothing (control)
//   <member> selects the subject / key pair where the family does not share
//   it; <role exts> are the extensions added to the certificate, in the token
//   format of scenario "role" (r:<hex value> = a Modbus Role extension, n*: a
//   near-miss OID, "-": none): well-formed UTF8String r1 / r2, absent,
//   duplicated, other string types, malformed lengths, trailing bytes, ...
//   The certificate is a function of (keyset, family, member, role exts): a
//   case is replayable from its tokens (the keys are fresh in every process).
//   <leaf exts> = the extension list of the presented leaf as crypto/x509
//   parses it, <verifies> = x509.Certificate.Verify of the leaf against the
//   server's pool; both computed when the case is generated, independently of
//   any connection, and read by the model side only.
//   seq: a session is closed (and gone from the server's list) before the
//   next one connects; keep: the earlier sessions stay open. In both modes a
//   session sends its requests and reads the responses right after its
//   handshake. The requests of session i carry unit id i+1; an invocation is
//   attributed to session i by its unit id and must carry that connection's
//   ClientAddr.
//   output: per session "<role>+<role>.../<responses>" (one role per handler
//   invocation, hex, "-" = empty role, "none" = no invocation), joined by ","
//
// This file sorts after c90tls.go on purpose: the registration is appended, the
// random streams of the existing C15 generators keep their indices.

import (
	"crypto"
	"crypto/rand"
	"crypto/rsa"
	"crypto/tls"
	"crypto/x509"
	"crypto/x509/pkix"
	"fmt"
	"io"
	"math/big"
	"net"
	"strings"
	"sync"
	"time"

	"github.com/simonvetter/modbus"
)

// generous: only ever waited for in full by a session the server has to refuse
// without closing the socket (none of the cases here) or on a stuck machine
const c15SeqTimeout = 6 * time.Second

// ------------------------------------------------------------ certificates

type c15SeqFamily struct {
	key, subject, serial, validity bool // what the members of the family share
}

var c15SeqFamilies = map[string]c15SeqFamily{
	"k":   {key: true},
	"ks":  {key: true, subject: true},
	"sn":  {subject: true, serial: true},
	"all": {key: true, subject: true, serial: true, validity: true},
	"x":   {},
}

var c15SeqFamOrder = []string{"k", "ks", "sn", "all", "x"}

type c15SeqCert struct {
	cert     *tls.Certificate
	verifies bool   // x509 Verify against the pool of the server (client authentication, now)
	exts     string // the extension list of the leaf, token format of scenario "role"
}

type c15SeqPKI struct {
	mu      sync.Mutex
	rsaKeys bool
	ca      *c14Signer
	pool    *x509.CertPool
	t0      time.Time
	ctr     int64
	keys    map[string]crypto.Signer
	certs   map[string]*c15SeqCert
}

var (
	c15SeqMu  sync.Mutex
	c15SeqSet = map[string]*c15SeqPKI{}
)

func c15SeqGetPKI(keyset string) *c15SeqPKI {
	c15SeqMu.Lock()
	defer c15SeqMu.Unlock()
	if p, ok := c15SeqSet[keyset]; ok {
		return p
	}
	rsaKeys := strings.HasPrefix(keyset, "rsa")
	const day = 24 * time.Hour
	ca, _ := (&c14PKI{}).issue(rsaKeys, c14Spec{cn: "verif C15 client CA", isCA: true, notBefore: -day, notAfter: 30 * day}, nil)
	p := &c15SeqPKI{rsaKeys: rsaKeys, ca: ca, pool: c14Pool(ca), t0: time.Now().Truncate(time.Second),
		keys: map[string]crypto.Signer{}, certs: map[string]*c15SeqCert{}}
	c15SeqSet[keyset] = p
	return p
}

// the certificate of (family, member, role exts); created once per process
func (p *c15SeqPKI) leaf(family string, member int, roleExts string) *c15SeqCert {
	fam, ok := c15SeqFamilies[family]
	if !ok {
		panic("bad family " + family)
	}
	keyIdx, subjIdx := member, member
	if fam.key {
		keyIdx = 0
	}
	if fam.subject {
		subjIdx = 0
	}
	p.mu.Lock()
	defer p.mu.Unlock()
	id := fmt.Sprintf("%s|%d|%d|%s", family, keyIdx, subjIdx, roleExts)
	if c, ok := p.certs[id]; ok {
		return c
	}
	kid := fmt.Sprintf("%s|%d", family, keyIdx)
	key := p.keys[kid]
	if key == nil {
		key = c14NewKey(p.rsaKeys)
		p.keys[kid] = key
	}
	p.ctr++
	tmpl := &x509.Certificate{
		SerialNumber:          big.NewInt(5000 + p.ctr),
		Subject:               pkix.Name{CommonName: fmt.Sprintf("plc client %s %d", family, subjIdx), Organization: []string{"verif-c15"}},
		NotBefore:             p.t0.Add(-time.Hour - time.Duration(p.ctr)*time.Minute),
		NotAfter:              p.t0.Add(24*time.Hour + time.Duration(p.ctr)*time.Minute),
		KeyUsage:              x509.KeyUsageDigitalSignature,
		ExtKeyUsage:           []x509.ExtKeyUsage{x509.ExtKeyUsageClientAuth},
		BasicConstraintsValid: true,
		ExtraExtensions:       parseExts(roleExts),
	}
	if fam.serial {
		tmpl.SerialNumber = big.NewInt(7)
	}
	if fam.validity {
		tmpl.NotBefore, tmpl.NotAfter = p.t0.Add(-time.Hour), p.t0.Add(24*time.Hour)
	}
	if _, ok := key.(*rsa.PrivateKey); ok {
		tmpl.KeyUsage |= x509.KeyUsageKeyEncipherment
	}
	der, err := x509.CreateCertificate(rand.Reader, tmpl, p.ca.cert, key.Public(), p.ca.key)
	if err != nil {
		panic(err)
	}
	c := &c15SeqCert{cert: &tls.Certificate{Certificate: [][]byte{der}, PrivateKey: key}}
	if parsed, err := x509.ParseCertificate(der); err != nil {
		// crypto/x509 refuses the certificate (a duplicated extension): only the raw
		// bytes can be presented, and nobody gets to see its extensions
		c.exts = roleExts
	} else {
		c.cert.Leaf = parsed
		c.exts = c14ExtsOfCert(parsed)
		_, verr := parsed.Verify(x509.VerifyOptions{Roots: p.pool, CurrentTime: time.Now(),
			KeyUsages: []x509.ExtKeyUsage{x509.ExtKeyUsageClientAuth}})
		c.verifies = verr == nil
	}
	p.certs[id] = c
	return c
}

// ------------------------------------------------------------ executor

type c15SeqConn struct {
	cert   *tls.Certificate
	ver    uint16
	expect bool
	reqs   [][]byte
	raw    net.Conn
	tc     *tls.Conn
	local  string
	resps  int
}

func c15SeqReadResponse(c net.Conn, req []byte) bool {
	hdr := make([]byte, 7)
	c.SetReadDeadline(time.Now().Add(c15SeqTimeout))
	if _, err := io.ReadFull(c, hdr); err != nil {
		return false
	}
	n := int(hdr[4])<<8 | int(hdr[5])
	if n < 2 || n > 254 {
		return false
	}
	body := make([]byte, n-1)
	if _, err := io.ReadFull(c, body); err != nil {
		return false
	}
	return len(req) >= 8 && hdr[0] == req[0] && hdr[1] == req[1] && hdr[6] == req[6] && body[0] == req[7]
}

func c15RunRoleSeq(in []string) string {
	out, complete := c15RunRoleSeqOnce(in)
	if !complete {
		// a session that had to be served missed a deadline (loaded machine): once more, on a fresh server
		out, _ = c15RunRoleSeqOnce(in)
	}
	return out
}

func c15RunRoleSeqOnce(in []string) (out string, complete bool) {
	defer func() {
		if r := recover(); r != nil {
			out, complete = fmt.Sprintf("panic:%v", r), true
		}
	}()
	if len(in) < 4 {
		return "harness-error:bad-input", true
	}
	keyset, family, mode := in[0], in[1], in[2]
	if _, ok := c15SeqFamilies[family]; !ok {
		return "harness-error:bad-family", true
	}
	if mode != "seq" && mode != "keep" {
		return "harness-error:bad-mode", true
	}
	srvPKI := c14GetPKI(keyset) // the server's own certificate and the CA the clients trust
	pki := c15SeqGetPKI(keyset)
	var conns []*c15SeqConn
	for _, tok := range in[3:] {
		f := strings.Split(tok, ";")
		if len(f) != 6 {
			return "harness-error:bad-session-token", true
		}
		member := 0
		if _, err := fmt.Sscanf(f[0], "%d", &member); err != nil || member < 0 || member > 9 {
			return "harness-error:bad-member", true
		}
		lc := pki.leaf(family, member, f[1])
		c := &c15SeqConn{cert: lc.cert, ver: c14Version(f[2]), expect: lc.verifies && (f[2] == "12" || f[2] == "13")}
		for _, r := range strings.Split(f[5], ".") {
			c.reqs = append(c.reqs, unhex(r))
		}
		conns = append(conns, c)
	}
	if len(conns) > 200 {
		return "harness-error:too-many-sessions", true
	}

	h := &c14RoleHandler{}
	srv, err := modbus.NewServer(&modbus.ServerConfiguration{
		URL:           "tcp+tls://127.0.0.1:0",
		TLSServerCert: srvPKI.srvValid,
		TLSClientCAs:  pki.pool,
		MaxClients:    uint(len(conns) + 2),
		Timeout:       60 * time.Second,
		Logger:        quiet,
	}, h)
	if err != nil {
		return "harness-error:newserver:" + err.Error(), true
	}
	if err = srv.Start(); err != nil {
		return "harness-error:start:" + err.Error(), true
	}
	defer srv.Stop()
	addr := srv.VerifListenAddr()
	if addr == nil {
		return "harness-error:no-listener", true
	}

	for _, c := range conns {
		raw, err := net.DialTimeout("tcp", addr.String(), c15SeqTimeout)
		if err != nil {
			continue
		}
		c.raw = raw
		c.local = raw.LocalAddr().String()
		cert := c.cert
		conf := &tls.Config{RootCAs: srvPKI.caPool, ServerName: "127.0.0.1", MinVersion: c.ver, MaxVersion: c.ver,
			// present the certificate whatever CAs the server names as acceptable
			GetClientCertificate: func(*tls.CertificateRequestInfo) (*tls.Certificate, error) { return cert, nil }}
		tc := tls.Client(raw, conf)
		raw.SetDeadline(time.Now().Add(c15SeqTimeout))
		if tc.Handshake() == nil {
			c.tc = tc
		}
		for _, q := range c.reqs {
			var w net.Conn = raw // the tunnel is not there: the request goes in the clear
			if c.tc != nil {
				w = c.tc
			}
			w.SetDeadline(time.Now().Add(c15SeqTimeout))
			if _, err := w.Write(q); err == nil && c15SeqReadResponse(w, q) {
				c.resps++
			}
		}
		if mode == "seq" {
			raw.Close()
			waitCount(srv, 0, c15SeqTimeout)
		}
	}
	for _, c := range conns {
		if c.raw != nil {
			c.raw.Close()
		}
	}
	waitCount(srv, 0, c15SeqTimeout)

	h.mu.Lock()
	defer h.mu.Unlock()
	per := make([][]string, len(conns))
	stray := 0
	for _, rec := range h.recs {
		i := int(rec.unit) - 1
		if i < 0 || i >= len(conns) {
			stray++
			continue
		}
		r := hx([]byte(rec.role))
		if rec.addr != conns[i].local {
			r = "?" + r // the invocation does not carry the address of the connection the request came from
		}
		per[i] = append(per[i], r)
	}
	complete = true
	var parts []string
	for i, c := range conns {
		roles := "none"
		if len(per[i]) > 0 {
			roles = strings.Join(per[i], "+")
		}
		parts = append(parts, fmt.Sprintf("%s/%d", roles, c.resps))
		if c.expect && (c.resps != len(c.reqs) || len(per[i]) != len(c.reqs)) {
			complete = false
		}
	}
	out = strings.Join(parts, ",")
	if stray > 0 {
		out += fmt.Sprintf(",stray=%d", stray)
	}
	return out, complete
}

// ------------------------------------------------------------ generator

// the role extension variants of one case, by class
type c15SeqVariants struct {
	r   *Rng
	r1  []byte
	r2  []byte
	cls []string
}

var c15SeqClasses = []string{"r1", "r2", "none", "dup", "strtype", "badlen", "trailing", "other"}

func newC15SeqVariants(r *Rng) *c15SeqVariants {
	v := &c15SeqVariants{r: r, cls: c15SeqClasses}
	n := 1 + r.Intn(16)
	if r.Intn(6) == 0 {
		n = r.Pick(127, 128, 129, 200) // long-form DER length
	}
	v.r1 = randUTF8(r, n)
	for {
		switch r.Intn(4) {
		case 0: // one more character
			v.r2 = append(append([]byte{}, v.r1...), byte(0x61+r.Intn(26)))
		case 1: // one character less, when there is one
			v.r2 = randUTF8(r, 1+r.Intn(16))
			if k := len(v.r1) - 1; k > 0 && v.r1[k] < 0x80 {
				v.r2 = append([]byte{}, v.r1[:k]...)
			}
		default:
			v.r2 = randUTF8(r, 1+r.Intn(16))
		}
		if string(v.r2) != string(v.r1) {
			return v
		}
	}
}

// the extensions of a certificate of the given class (token format of scenario "role")
func (v *c15SeqVariants) exts(class string) string {
	r := v.r
	role := func(val []byte) string { return extTok("r", val) }
	pick := v.r1
	if r.Bool() {
		pick = v.r2
	}
	switch class {
	case "r1":
		return role(derUTF8(v.r1))
	case "r2":
		return role(derUTF8(v.r2))
	case "none":
		return "-"
	case "dup":
		a, b := v.r1, v.r1
		switch r.Intn(3) {
		case 1:
			b = v.r2
		case 2:
			a = v.r2
		}
		return extsTok([]string{role(derUTF8(a)), role(derUTF8(b))})
	case "strtype": // the same string under another string type: Printable, IA5, T61, Visible, BMP, octet string, constructed UTF8
		tag := byte(r.Pick(0x13, 0x13, 0x16, 0x14, 0x1a, 0x1e, 0x04, 0x2c))
		return role(cat([]byte{tag}, derLen(len(pick)), pick))
	case "badlen":
		n := len(pick)
		switch r.Intn(6) {
		case 0: // one octet more than there is
			return role(cat([]byte{0x0c}, derLen(n+1), pick))
		case 1: // indefinite length
			return role(cat([]byte{0x0c, 0x80}, pick, []byte{0, 0}))
		case 2: // long form with a leading zero
			return role(cat([]byte{0x0c}, longLen(n, 2), pick))
		case 3: // non-minimal long form (or a long form that is one octet short)
			if n < 128 {
				return role(cat([]byte{0x0c, 0x81, byte(n)}, pick))
			}
			return role(cat([]byte{0x0c, 0x82, byte(n)}, pick))
		case 4: // the length octets are cut
			return role([]byte{0x0c, 0x82, 0x01})
		}
		// the content is cut
		return role(cat([]byte{0x0c}, derLen(n), pick[:n-1]))
	case "trailing":
		switch r.Intn(3) {
		case 0:
			return role(cat(derUTF8(pick), []byte{0}))
		case 1:
			return role(cat(derUTF8(pick), r.Bytes(1+r.Intn(4))))
		}
		return role(cat(derUTF8(pick), derUTF8(v.r2)))
	}
	// other ways of stating no role
	switch r.Intn(5) {
	case 0: // invalid UTF-8
		return role(cat([]byte{0x0c}, derLen(len(pick)+2), pick, []byte{0xc0, 0x80}))
	case 1: // empty value
		return role(nil)
	case 2: // the empty string
		return role([]byte{0x0c, 0})
	case 3: // a near-miss OID carries the string
		return extTok(nearKinds[r.Intn(len(nearKinds))], derUTF8(pick))
	}
	// a near-miss OID next to the role extension
	return extsTok([]string{extTok(nearKinds[r.Intn(len(nearKinds))], derUTF8(v.r2)), role(derUTF8(v.r1))})
}

func scnC15RoleSeq(o *Out, r *Rng, thorough bool) {
	keysets := []string{"ec"}
	nRandom := 8
	if thorough {
		keysets = []string{"ec", "rsa"}
		nRandom = 60
	}
	structured := [][]string{
		{"r1", "none", "r2", "strtype"},
		{"none", "r1", "trailing", "r2", "r1"},
		{"r1", "r1", "r2", "dup", "r1"},
		{"badlen", "r1", "badlen", "none"},
		{"strtype", "r2", "none", "r1", "trailing", "r2"},
		{"dup", "r1", "other", "r2"},
		{"other", "r2", "r1"},
	}
	var ins []string
	var descr [][]string
	for _, ks := range keysets {
		pki := c15SeqGetPKI(ks)
		for _, fam := range c15SeqFamOrder {
			var seqs [][]string
			seqs = append(seqs, structured...)
			for i := 0; i < nRandom; i++ {
				s := make([]string, 3+r.Intn(4))
				for j := range s {
					s[j] = c15SeqClasses[r.Intn(len(c15SeqClasses))]
				}
				seqs = append(seqs, s)
			}
			for _, classes := range seqs {
				v := newC15SeqVariants(r)
				mode := "seq"
				if r.Intn(3) == 0 {
					mode = "keep"
				}
				toks := []string{ks, fam, mode}
				for i, cl := range classes {
					member := i % 3
					if r.Intn(3) == 0 {
						member = r.Intn(3)
					}
					exts := v.exts(cl)
					ver := itoa(r.Pick(12, 13))
					if r.Intn(16) == 0 {
						ver = "11" // an old version: this session is refused, the later ones are not affected
					}
					lc := pki.leaf(fam, member, exts)
					var reqs []string
					for k := 1 + r.Intn(3); k > 0; k-- {
						q := c14Request(r)
						q[6] = byte(i + 1) // the unit id names the session
						reqs = append(reqs, hx(q))
					}
					toks = append(toks, strings.Join([]string{itoa(member), exts, ver, b01(lc.verifies), lc.exts, strings.Join(reqs, ".")}, ";"))
				}
				ins = append(ins, strings.Join(toks, " "))
				descr = append(descr, append([]string{fam, mode}, classes...))
			}
		}
	}
	for i, out := range o.RunMany("tlsroleseq", ins) {
		d := descr[i]
		o.Stat("tlsroleseq:family=" + d[0] + ":" + d[1] + ":sessions=" + itoa(len(d)-2))
		for j := 3; j < len(d); j++ {
			o.Stat("tlsroleseq:step:" + d[j-1] + ">" + d[j])
		}
		for _, s := range strings.Split(out, ",") {
			switch {
			case strings.HasPrefix(s, "none/"):
				o.Stat("tlsroleseq:session:refused")
			case strings.HasPrefix(s, "-/") || strings.HasPrefix(s, "-+"):
				o.Stat("tlsroleseq:session:empty-role")
			default:
				o.Stat("tlsroleseq:session:role")
			}
		}
	}
}

func init() {
	register("C15", scnC15RoleSeq)
	executors["tlsroleseq"] = c15RunRoleSeq
}
