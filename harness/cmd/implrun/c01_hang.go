package main

import (
	"crypto/tls"
	"net"
	"strings"
	"sync"
	"time"

	"github.com/simonvetter/modbus"
)

// C01, "exactly one request frame (or none)" seen from the network when the
// peer hangs up.
//
// txhang: scheme unit e w mode k reply op...
//         -> "<socket kind> <bytes received on connection 1>[,<connection 2>...] <result class>"
//
// The client is built by NewClient + the real Open() (tcp, rtuovertcp, tcp+tls)
// against a loopback listener that keeps ACCEPTING for the whole case and logs
// every byte it receives on EVERY connection it accepts. The peer holding the
// connection made by Open() hangs up:
//   c  reads the whole request, closes                     r  ... resets (SO_LINGER 0)
//   p  reads the whole request, sends the first k bytes of the valid reply, closes
//   q  ... sends the first k bytes of the valid reply, resets
//   e  reads only the first min(k, request length - 1) bytes of the request (k = 0:
//      hangs up before the request), closes                f  ... resets
// Any further connection the listener gets is served like a device would: the
// request is logged and answered with the valid reply.
//
// The verdict is taken after the call has returned, a grace period has passed
// and the client has been closed: a marker connection made by the harness
// tells the accept loop that every connection dialled before it has been
// accepted (the accept queue is FIFO), and every connection handler has run to
// the end of its stream. No timing assumption decides the outcome; the
// watchdogs only turn a hang into a failing case.

func init() {
	executors["txhang"] = c01TxHang
	register("C01", scnTxHang)
}

type hangConn struct {
	got  []byte
	note string
}

type hangPeer struct {
	ln      net.Listener
	tlsConf *tls.Config
	framing string // "m" MBAP, "r" RTU
	mode    string
	k       int
	reply   []byte

	mu       sync.Mutex
	conns    []*hangConn // in order of acceptance
	sentinel string      // remote address of the harness's marker connection
	wg       sync.WaitGroup
	done     chan struct{} // closed when the marker connection has been accepted
	opened   chan struct{} // closed when the client's Open() has returned
}

// hangFrameLen: total length of the request frame starting at b[0], once the
// bytes that announce it have arrived (MBAP length field; RTU function code
// and byte count)
func hangFrameLen(framing string, b []byte) (total int, known bool) {
	if framing == "m" {
		if len(b) < 6 {
			return 0, false
		}
		return 6 + (int(b[4])<<8 | int(b[5])), true
	}
	if len(b) < 2 {
		return 0, false
	}
	switch b[1] {
	case 1, 2, 3, 4, 5, 6:
		return 8, true
	case 15, 16:
		if len(b) < 7 {
			return 0, false
		}
		return 7 + int(b[6]) + 2, true
	}
	return 0, false
}

func (p *hangPeer) serve() {
	for {
		c, err := p.ln.Accept()
		if err != nil {
			return
		}
		p.mu.Lock()
		if p.sentinel != "" && c.RemoteAddr().String() == p.sentinel {
			p.mu.Unlock()
			c.Close()
			close(p.done)
			return
		}
		hc := &hangConn{}
		first := len(p.conns) == 0
		p.conns = append(p.conns, hc)
		p.wg.Add(1)
		p.mu.Unlock()
		go p.handle(c, hc, first)
	}
}

func (p *hangPeer) handle(c net.Conn, hc *hangConn, first bool) {
	defer p.wg.Done()
	defer c.Close()
	c.SetDeadline(time.Now().Add(8 * time.Second))
	var rw net.Conn = c
	if p.tlsConf != nil {
		ts := tls.Server(c, p.tlsConf)
		if err := ts.Handshake(); err != nil {
			p.mu.Lock()
			hc.note = "hsfail"
			p.mu.Unlock()
			return
		}
		rw = ts
	}
	mode := p.mode
	if !first {
		mode = "a"
	}
	early := mode == "e" || mode == "f"
	if early {
		// "before the request" is after Open() has returned: a connection that is
		// dropped while it is being opened makes Open() fail, and there is no call
		select {
		case <-p.opened:
		case <-time.After(8 * time.Second):
		}
	}
	one := make([]byte, 1)
	n := 0 // bytes of the current frame
	var frame []byte
	for {
		total, known := hangFrameLen(p.framing, frame)
		if early {
			if n == p.k || (known && n == total-1) {
				break
			}
		} else if known && n == total {
			break
		}
		m, err := rw.Read(one)
		if m > 0 {
			frame = append(frame, one[0])
			n++
			p.mu.Lock()
			hc.got = append(hc.got, one[0])
			p.mu.Unlock()
		}
		if err != nil {
			return // the client is gone (or the watchdog deadline)
		}
	}
	reset := func() {
		if tc, ok := c.(*net.TCPConn); ok {
			tc.SetLinger(0)
		}
		c.Close()
	}
	prefix := func() {
		k := p.k
		if k > len(p.reply) {
			k = len(p.reply)
		}
		rw.Write(p.answer(frame)[:k])
	}
	switch mode {
	case "c", "e":
		rw.Close() // tls: close_notify, then FIN (RST when request bytes are left unread)
	case "r", "f":
		reset()
	case "p":
		prefix()
		rw.Close()
	case "q":
		prefix()
		reset()
	case "a":
		rw.Write(p.answer(frame))
		// whatever else is sent on this connection is logged
		buf := make([]byte, 512)
		for {
			m, err := rw.Read(buf)
			if m > 0 {
				p.mu.Lock()
				hc.got = append(hc.got, buf[:m]...)
				p.mu.Unlock()
			}
			if err != nil {
				return
			}
		}
	}
}

// the valid reply to the request just read (MBAP: its transaction id)
func (p *hangPeer) answer(req []byte) []byte {
	a := append([]byte(nil), p.reply...)
	if p.framing == "m" && len(a) >= 2 && len(req) >= 2 {
		a[0], a[1] = req[0], req[1]
	}
	return a
}

// finish: every connection dialled so far has been accepted and handled to the
// end of its stream; returns a note when a watchdog fired
func (p *hangPeer) finish() string {
	note := ""
	p.mu.Lock()
	d, err := net.DialTimeout("tcp", p.ln.Addr().String(), 5*time.Second)
	if err == nil {
		p.sentinel = d.LocalAddr().String()
	}
	p.mu.Unlock()
	if err != nil {
		note = "marker-failed"
	} else {
		select {
		case <-p.done:
		case <-time.After(10 * time.Second):
			note = "accept-stuck"
		}
		d.Close()
	}
	p.ln.Close()
	handled := make(chan struct{})
	go func() { p.wg.Wait(); close(handled) }()
	select {
	case <-handled:
	case <-time.After(10 * time.Second):
		note = "handler-stuck"
	}
	return note
}

func c01TxHang(in []string) (out string) {
	defer func() {
		if r := recover(); r != nil {
			out = "panic"
		}
	}()
	scheme := in[0]
	kind, framing := "tcp", "m"
	switch scheme {
	case "rtuovertcp":
		framing = "r"
	case "tcp+tls":
		kind = "tls"
	}
	cert, pool := c16Creds()
	ln, err := net.Listen("tcp", "127.0.0.1:0")
	if err != nil {
		return "harness-error:" + err.Error()
	}
	p := &hangPeer{ln: ln, framing: framing, mode: in[4], k: atoi(in[5]), reply: unhex(in[6]),
		done: make(chan struct{}), opened: make(chan struct{})}
	if kind == "tls" {
		p.tlsConf = &tls.Config{Certificates: []tls.Certificate{*cert}, ClientAuth: tls.RequireAnyClientCert,
			MinVersion: tls.VersionTLS12}
	}
	go p.serve()
	finished := false
	defer func() {
		if !finished {
			p.finish()
		}
	}()
	mc, err := modbus.NewClient(&modbus.ClientConfiguration{URL: scheme + "://" + ln.Addr().String(),
		Timeout: 2 * time.Second, Logger: quiet, TLSClientCert: cert, TLSRootCAs: pool, Speed: 115200})
	if err != nil {
		return "err:" + errClass(err)
	}
	if err = mc.Open(); err != nil {
		return "open-error"
	}
	close(p.opened)
	mc.SetUnitId(uint8(unhx(in[1])))
	mc.SetEncoding(modbus.Endianness(atoi(in[2])), modbus.WordOrder(atoi(in[3])))
	r := callOp(mc, in[7:])
	// C01 is about what is transmitted; the result is projected to
	// success / rejected locally / some other error
	switch {
	case r == "err:params":
		r = "params"
	case strings.HasPrefix(r, "ok:"):
		r = "ok"
	case strings.HasPrefix(r, "err:"):
		r = "err"
	}
	// grace period: nothing may be transmitted after the call has returned either
	time.Sleep(60 * time.Millisecond)
	mc.Close()
	finished = true
	note := p.finish()
	p.mu.Lock()
	defer p.mu.Unlock()
	var cs []string
	for _, hc := range p.conns {
		if hc.note != "" {
			cs = append(cs, hc.note)
		} else {
			cs = append(cs, hx(hc.got))
		}
	}
	if len(cs) == 0 {
		cs = []string{"none"}
	}
	if note != "" {
		r += ":" + note
	}
	return kind + " " + strings.Join(cs, ",") + " " + r
}

func scnTxHang(o *Out, r *Rng, thorough bool) {
	n := 12
	if thorough {
		n = 120
	}
	var ins []string
	for _, scheme := range []string{"tcp", "rtuovertcp", "tcp+tls"} {
		fr := "m"
		if scheme == "rtuovertcp" {
			fr = "r"
		}
		for _, mode := range []string{"c", "r", "p", "q", "e", "f"} {
			for i := 0; i < n; i++ {
				unit, e, w := randCfg(r)
				cls := opValid
				if i%6 == 5 {
					cls = opAny // also calls that are rejected locally: not a byte on any connection
				}
				op := randOp(r, cls)
				rep := "-"
				k := 0
				if fc, payload, ok := buildReply(r, op, e); ok {
					f := reply{txn: 1, proto: 0, length: -1, unit: byte(unit), fc: fc, payload: payload}.bytes(fr, r)
					rep = hx(f)
					if mode == "p" || mode == "q" {
						k = 1 + r.Intn(len(f)-1) // a strict, non-empty prefix of the reply
					}
					o.Stat("txhang:valid")
				} else {
					o.Stat("txhang:rejected")
				}
				if mode == "e" || mode == "f" {
					// before the request (0), inside its first bytes, anywhere inside it
					k = r.Pick(0, 1+r.Intn(7), r.Intn(270))
				}
				ins = append(ins, strings.Join(append([]string{scheme, hxi(unit), itoa(e), itoa(w), mode, itoa(k), rep}, op...), " "))
				o.Stat("txhang:" + scheme + ":" + mode)
			}
		}
	}
	outs := o.RunMany("txhang", ins)
	for _, out := range outs {
		f := strings.Split(out, " ")
		o.Stat("txhang-res:" + f[len(f)-1])
	}
}
