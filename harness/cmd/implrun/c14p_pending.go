package main

// C14 (continued) - histories of handshakes on ONE running tcp+tls server in
// which some peers are still IN their handshake while later peers connect.
//
// "Correctly authenticated peers are served": the property says so about a
// peer, and nothing it says lets the other peers of the server matter. tlshist
// (c14h_history.go) takes the peers of a server strictly one after the other,
// each doing at once all it has to do. Here a peer may open its TCP connection
// and then stall: say nothing at all, send the first k bytes of its
// ClientHello, or send its ClientHello and stop before its second flight. It
// stays like that while ALL the later steps of the history run, and only then
// completes its handshake and sends its request (a slow peer: it is decided by
// its certificate like any other) or goes away. The later steps are the steps
// of tlshist: valid clients (bare, with their chain, carrying foreign CA
// certificates), holders of foreign leaves, expired / self-signed /
// certificate-less peers, old protocol versions. The number of handshakes
// pending at any time stays below MaxClients (1 .. MaxClients-1 of them, with
// MaxClients = 10, the default, or exactly one more than the pending peers).
//
// scenario "tlspend": keyset pool maxc step...
//   pool, keyset as in tlshist; maxc = ServerConfiguration.MaxClients (0: default)
//   step = <pace>;<chain>;<ver>;<verifies>;<request>
//     pace  = w           everything at once (a step of tlshist)
//             <stall>-c   stalls in the handshake while the later steps run, completes afterwards
//             <stall>-x   stalls likewise, then closes the connection
//     stall = s           nothing sent
//             h<k>        the first k bytes of the ClientHello
//             f           the whole ClientHello; stops before writing its second flight
//     the other fields as in tlshist (verifies = x509.Verify with the configured
//     pool and the certificates of THIS step, computed without any connection)
//   output: per step "<handler invocations>/<response seen 0|1>", joined by ","
// expected per step: 1/1 iff the peer completes its handshake (w, -c), verifies
// and ver >= TLS 1.2; else 0/0 - whatever is pending.
//
// Timing: one-sided and generous. Every network operation of a step runs under
// the deadline of tlshist (4 s for connect / handshake / write, 2 s for the
// response; a healthy server takes milliseconds); a miss turns into a step
// that was not served. As in tlshist a history in which a step that had to be
// served was not, and no step that had to be refused was served, is run once
// more on a fresh server (loaded machine).

import (
	"crypto/tls"
	"fmt"
	"net"
	"strings"
	"sync"
	"time"

	"github.com/simonvetter/modbus"
)

// c14pGate is the socket of a peer that stalls in its handshake: the TLS client
// of the step writes through it; the gate lets through what the stall says and
// then blocks the writer until release() (from then on it is the plain socket).
type c14pGate struct {
	net.Conn
	mode    byte // 's', 'h', 'f'
	k       int
	mu      sync.Mutex
	writes  int
	once    sync.Once
	stalled chan struct{} // closed when the peer has got to the point where it stalls
	open    chan struct{} // closed by release
}

func (g *c14pGate) Write(p []byte) (int, error) {
	select {
	case <-g.open:
		return g.Conn.Write(p)
	default:
	}
	g.mu.Lock()
	g.writes++
	pass := 0
	if g.writes == 1 {
		switch g.mode {
		case 'h':
			pass = g.k
			if pass >= len(p) {
				pass = len(p) - 1 // never the whole ClientHello
			}
		case 'f':
			pass = len(p)
		}
	}
	g.mu.Unlock()
	n := 0
	if pass > 0 {
		var err error
		if n, err = g.Conn.Write(p[:pass]); err != nil {
			return n, err
		}
	}
	if pass == len(p) {
		return n, nil
	}
	g.once.Do(func() { close(g.stalled) })
	<-g.open
	m, err := g.Conn.Write(p[pass:])
	return n + m, err
}

func (g *c14pGate) release() { close(g.open) }

type c14pStep struct {
	c14hStep
	pace     string // "w", "c", "x"
	gate     *c14pGate
	raw      net.Conn
	tc       *tls.Conn
	hsDone   chan error
	complete bool // the peer completes its handshake
}

func c14RunPend(in []string) string {
	out, again := c14RunPendOnce(in)
	if again {
		out, _ = c14RunPendOnce(in)
	}
	return out
}

func c14pCount(srv *modbus.ModbusServer) int {
	_, n, _ := srv.VerifServerSnapshot()
	return n
}

func c14RunPendOnce(in []string) (out string, again bool) {
	defer func() {
		if r := recover(); r != nil {
			out, again = fmt.Sprintf("panic:%v", r), false
		}
	}()
	if len(in) < 4 {
		return "harness-error:bad-input", false
	}
	pki := c14hGetPKI(in[0])
	pool := pki.pool(in[1])
	if pool == nil {
		return "harness-error:unknown-pool-certificate", false
	}
	maxc := atoi(in[2])
	if maxc < 0 || maxc > 64 {
		return "harness-error:bad-maxclients", false
	}
	var steps []*c14pStep
	for _, tok := range in[3:] {
		f := strings.Split(tok, ";")
		if len(f) != 5 {
			return "harness-error:bad-step-token", false
		}
		cert, ok := pki.chain(f[1])
		if !ok {
			return "harness-error:unknown-certificate", false
		}
		s := &c14pStep{pace: "w", complete: true}
		if f[0] != "w" {
			pq := strings.Split(f[0], "-")
			if len(pq) != 2 || (pq[1] != "c" && pq[1] != "x") || pq[0] == "" {
				return "harness-error:bad-pace", false
			}
			s.pace, s.complete = pq[1], pq[1] == "c"
			s.gate = &c14pGate{mode: pq[0][0], stalled: make(chan struct{}), open: make(chan struct{})}
			switch {
			case pq[0] == "s", pq[0] == "f":
			case pq[0][0] == 'h' && atoi(pq[0][1:]) > 0:
				s.gate.k = atoi(pq[0][1:])
			default:
				return "harness-error:bad-stall", false
			}
		}
		s.cert, s.ver, s.req = cert, c14Version(f[2]), unhex(f[4])
		s.expect = s.complete && cert != nil && f[3] == "1" && (f[2] == "12" || f[2] == "13")
		steps = append(steps, s)
	}
	if len(steps) > 200 {
		return "harness-error:too-many-steps", false
	}

	h := &c14RoleHandler{}
	srv, err := modbus.NewServer(&modbus.ServerConfiguration{
		URL:           "tcp+tls://127.0.0.1:0",
		TLSServerCert: pki.srv,
		TLSClientCAs:  pool,
		MaxClients:    uint(maxc),
		Timeout:       10 * time.Second,
		Logger:        quiet,
	}, h)
	if err != nil {
		return "harness-error:newserver:" + err.Error(), false
	}
	if err = srv.Start(); err != nil {
		return "harness-error:start:" + err.Error(), false
	}
	defer srv.Stop()
	addr := srv.VerifListenAddr()
	if addr == nil {
		return "harness-error:no-listener", false
	}
	// whatever happens, no goroutine of this case stays behind a gate
	defer func() {
		for _, s := range steps {
			if s.gate != nil && s.raw != nil {
				s.raw.Close()
				select {
				case <-s.gate.open:
				default:
					s.gate.release()
				}
			}
		}
	}()

	conf := func(s *c14pStep) *tls.Config {
		c := &tls.Config{RootCAs: pki.trust, ServerName: "127.0.0.1", MinVersion: s.ver, MaxVersion: s.ver}
		if s.cert != nil {
			cert := s.cert
			// the whole list is sent, whatever CAs the server names as acceptable
			c.GetClientCertificate = func(*tls.CertificateRequestInfo) (*tls.Certificate, error) { return cert, nil }
		}
		return c
	}
	// the request of a step and the response to it, through the tunnel if
	// there is one (no tunnel: the request goes in the clear on the same socket)
	talk := func(s *c14pStep, hsErr error) {
		var w net.Conn = s.raw
		if hsErr == nil {
			w = s.tc
		}
		w.SetDeadline(time.Now().Add(c14hOpTimeout))
		if _, werr := w.Write(s.req); werr == nil {
			s.resp = c14ReadResponse(w, s.req)
		}
	}

	for _, s := range steps {
		n0 := c14pCount(srv)
		raw, err := net.DialTimeout("tcp", addr.String(), c14hOpTimeout)
		if err != nil {
			continue
		}
		s.raw = raw
		raw.SetDeadline(time.Now().Add(c14hOpTimeout))
		if s.gate == nil {
			s.tc = tls.Client(raw, conf(s))
			talk(s, s.tc.Handshake())
			raw.Close()
			// the session is over once the server has dropped the connection from its list
			waitCount(srv, n0, c14hOpTimeout)
			continue
		}
		// a peer that stalls: its TLS client runs behind the gate
		s.gate.Conn = raw
		s.tc = tls.Client(s.gate, conf(s))
		s.hsDone = make(chan error, 1)
		go func(s *c14pStep) { s.hsDone <- s.tc.Handshake() }(s)
		select {
		case <-s.gate.stalled:
		case err := <-s.hsDone: // over before it could stall (turned away)
			s.hsDone <- err
		case <-time.After(c14hOpTimeout):
		}
		raw.SetDeadline(time.Time{})
		// the server has taken the connection: it is on its list
		waitCount(srv, n0+1, c14hOpTimeout)
	}
	// every step has arrived: the stalled peers finish, in the order they came
	for _, s := range steps {
		if s.gate == nil || s.raw == nil {
			continue
		}
		n0 := c14pCount(srv)
		if !s.complete {
			s.raw.Close()
			s.gate.release()
			<-s.hsDone
		} else {
			s.raw.SetDeadline(time.Now().Add(c14hOpTimeout))
			s.gate.release()
			talk(s, <-s.hsDone)
			s.raw.Close()
		}
		if n0 > 0 {
			waitCount(srv, n0-1, c14hOpTimeout)
		}
	}

	h.mu.Lock()
	defer h.mu.Unlock()
	calls := make([]int, len(steps))
	stray := 0
	for _, rec := range h.recs {
		i := int(rec.unit) - 1
		if i < 0 || i >= len(steps) {
			stray++
			continue
		}
		calls[i]++
	}
	missed, intruded := false, false
	var parts []string
	for i, s := range steps {
		parts = append(parts, fmt.Sprintf("%d/%s", calls[i], b01(s.resp)))
		served := calls[i] > 0 || s.resp
		if s.expect && !(calls[i] == 1 && s.resp) {
			missed = true
		}
		if !s.expect && served {
			intruded = true
		}
	}
	out = strings.Join(parts, ",")
	if stray > 0 {
		out += fmt.Sprintf(",stray=%d", stray)
	}
	return out, missed && !intruded
}

// ------------------------------------------------------------ generators

type c14pGen struct {
	*c14hGen
	maxc    int
	paces   []string
	pending int
}

// the last step g.c14hGen.add made gets its pace
func (g *c14pGen) pace(p string) {
	g.paces = append(g.paces, p)
	if p != "w" {
		g.pending++
	}
}

func (g *c14pGen) stall() string {
	switch g.r.Intn(6) {
	case 0, 1:
		return "s"
	case 2:
		return "h" + itoa(g.r.Pick(1, 4, 5, 6))
	case 3:
		return "h" + itoa(7+g.r.Intn(58))
	}
	return "f"
}

func (g *c14pGen) token() string {
	toks := []string{g.ks, g.pool, itoa(g.maxc)}
	for i, s := range g.steps {
		toks = append(toks, g.paces[i]+";"+s)
	}
	return strings.Join(toks, " ")
}

// a step that does everything at once, from the repertoire of tlshist
func (g *c14pGen) whole() {
	f := g.pki.foreign[g.r.Intn(len(g.pki.foreign))]
	switch g.r.Intn(10) {
	case 0, 1, 2, 3:
		g.add([]string{"good", "goodb", "goodi+inter", "goodi"}[g.r.Intn(4)], g.modernVer())
	case 4:
		g.add(g.carrier([]string{f}), g.modernVer())
	case 5, 6:
		cs := g.intruderChains(f)
		g.add(cs[g.r.Intn(len(cs))], g.modernVer())
	case 7, 8:
		g.add([]string{"expired", "self", "none", "expired+" + f, "self+" + f}[g.r.Intn(5)], g.modernVer())
	default:
		g.add("good", []string{"10", "11"}[g.r.Intn(2)])
	}
	g.pace("w")
}

// a peer that stalls; what it holds matters when it completes
func (g *c14pGen) stalled(stall, end string) {
	f := g.pki.foreign[g.r.Intn(len(g.pki.foreign))]
	switch g.r.Intn(8) {
	case 0, 1, 2, 3:
		g.add([]string{"good", "goodb", "goodi+inter"}[g.r.Intn(3)], g.modernVer())
	case 4:
		g.add(g.pki.leafOf[f]+"+"+f, g.modernVer())
	case 5:
		g.add([]string{"expired", "self", "none"}[g.r.Intn(3)], g.modernVer())
	case 6:
		g.add("good", []string{"10", "11"}[g.r.Intn(2)])
	default:
		g.add(g.carrier([]string{f}), g.modernVer())
	}
	g.pace(stall + "-" + end)
}

func scnC14Pending(o *Out, r *Rng, thorough bool) {
	var gens []*c14pGen
	var kinds []string
	pools := []string{"ca", "ca+inter"}
	ends := []string{"x", "c"}
	for _, ks := range c14Keysets(thorough) {
		pki := c14hGetPKI(ks)
		mk := func(maxc int) *c14pGen {
			return &c14pGen{c14hGen: c14hNewGen(pki, r, ks, pools[r.Intn(len(pools))]), maxc: maxc}
		}
		// ---- every way of stalling x both ends, ONE pending peer: a valid client
		// before it (control), then valid clients and peers that must be refused
		for _, stall := range []string{"s", "h1", "h5", "h" + itoa(6+r.Intn(59)), "f"} {
			for _, end := range ends {
				for _, maxc := range []int{0, 2} {
					if maxc == 2 && !thorough && r.Intn(2) == 0 {
						continue
					}
					g := mk(maxc)
					g.add("good", g.modernVer())
					g.pace("w")
					g.stalled(stall, end)
					g.add([]string{"good", "goodb", "goodi+inter"}[r.Intn(3)], g.modernVer())
					g.pace("w")
					g.whole()
					g.add("goodb", g.modernVer())
					g.pace("w")
					gens = append(gens, g)
					kinds = append(kinds, "one-pending")
				}
			}
		}
		// ---- k pending peers, k = 1 .. MaxClients-1, then valid clients: with the
		// default MaxClients (10) and with exactly one place left (MaxClients = k+1)
		ksizes := []int{1, 2, 3, 9}
		if thorough {
			ksizes = []int{1, 2, 3, 4, 5, 6, 7, 8, 9}
		}
		for _, k := range ksizes {
			for _, maxc := range []int{0, k + 1} {
				if maxc == 10 {
					continue
				}
				g := mk(maxc)
				for i := 0; i < k; i++ {
					g.stalled(g.stall(), ends[r.Intn(2)])
					if r.Intn(3) == 0 {
						g.whole()
					}
				}
				g.add("good", g.modernVer())
				g.pace("w")
				g.whole()
				g.add("goodi+inter", g.modernVer())
				g.pace("w")
				gens = append(gens, g)
				kinds = append(kinds, "k-pending")
			}
		}
		// ---- random histories
		n := 10
		if thorough {
			n = 100
		}
		for i := 0; i < n; i++ {
			steps := 3 + r.Intn(6)
			room := 1 + r.Intn(4) // pending peers at most
			g := mk(0)
			for s := 0; s < steps; s++ {
				if g.pending < room && r.Intn(3) == 0 {
					g.stalled(g.stall(), ends[r.Intn(2)])
				} else {
					g.whole()
				}
			}
			if g.pending > 0 {
				g.maxc = r.Pick(0, g.pending+1, g.pending+1+r.Intn(3))
			}
			gens = append(gens, g)
			kinds = append(kinds, "random")
		}
	}
	var ins []string
	for _, g := range gens {
		ins = append(ins, g.token())
	}
	for i, out := range o.RunMany("tlspend", ins) {
		g := gens[i]
		free := "default"
		if g.maxc != 0 {
			free = itoa(g.maxc - g.pending)
		}
		o.Stat("tlspend:" + kinds[i] + ":pending=" + itoa(g.pending) + ":places-left=" + free)
		res := strings.Split(out, ",")
		before := 0
		for k, class := range g.class {
			got := "?"
			if k < len(res) {
				got = res[k]
			}
			p := g.paces[k]
			if p == "w" {
				p = "at-once:pending-before=" + itoa(before)
			} else {
				before++
				if d := strings.IndexAny(p, "0123456789"); d > 0 {
					p = p[:d] + "N" + p[strings.Index(p, "-"):]
				}
			}
			o.Stat("tlspend:step:" + p + ":" + class + ":" + got)
		}
	}
}

func init() {
	register("C14", scnC14Pending)
	executors["tlspend"] = c14RunPend
}
