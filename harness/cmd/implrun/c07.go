package main

// C07 - Every client call completes within the timeout, whatever the peer does.
//
//   timed  scheme speed timeout_ms behaviour close chunks op...
//            -> "<result> <verdict> <bound_ns>" | "hang"
//
// REAL time. One public client call runs against a peer that plays a TIMED
// STREAM: chunk i ("<t_us>:<hex>") is made available t_us microseconds after
// the peer has received the request (floods are written "cyc:<n>:<period_us>:
// <hex>/<hex>/...": chunk i < n at i*period, contents round robin), the
// optional close ("c<t_us>") happens at that offset. The behaviour token is a label (silent, stall, trickle, flood-*,
// close, delay, ...); the generator has already translated it into the stream.
//
//   scheme s:tcp, s:rtuovertcp   client attached (VerifNewClientOnConn) to the scripted
//                                connection in real-deadline mode
//          l:tcp, l:rtuovertcp   modbus.NewClient + Open against a fake TCP device on loopback
//          l:udp, l:rtuoverudp   ... against a fake UDP device (one datagram per chunk)
//          l:rtu                 ... against a pseudo-terminal (serialPortWrapper, 10 ms polls)
//
// result  = projected outcome of the call (ok:<values> | err:<class>, as callOp/errClass)
// verdict = "intime" if the call returned within bound + 150 ms scheduling slack,
//           "late:<ms>" otherwise; "early:<ms>" if a timeout was reported before the
//           configured timeout had elapsed; "hang" if the watchdog (6 x timeout) fired
// bound   = the configuration-only bound of the model (Spec/TimedSpec.v), computed here
//           from the implementation's own t1/t35 and printed so that modeld compares it
//           with the extracted tm_mbap_bound / tm_rtu_bound.

import (
	"fmt"
	"net"
	"os"
	"sort"
	"strconv"
	"strings"
	"sync"
	"syscall"
	"time"
	"unsafe"

	"github.com/simonvetter/modbus"
	"verifharness/internal/sconn"
)

const c07Slack = 150 * time.Millisecond

func init() {
	register("C07", scnTimed)
	register("C05", scnTimedStale)
	executors["timed"] = execTimed
}

type c07Chunk struct {
	at time.Duration
	b  []byte
}

// c07Play delivers the chunks (and the close) at their offsets from start.
func c07Play(start time.Time, chunks []c07Chunk, closeAt time.Duration, send func([]byte), cls func(), stop <-chan struct{}) {
	i := 0
	for i < len(chunks) || closeAt >= 0 {
		var at time.Duration
		isClose := false
		if i < len(chunks) && (closeAt < 0 || chunks[i].at <= closeAt) {
			at = chunks[i].at
		} else {
			at, isClose = closeAt, true
		}
		if d := time.Until(start.Add(at)); d > 0 {
			tm := time.NewTimer(d)
			select {
			case <-stop:
				tm.Stop()
				return
			case <-tm.C:
			}
		} else {
			select {
			case <-stop:
				return
			default:
			}
		}
		if isClose {
			cls()
			return
		}
		send(chunks[i].b)
		i++
	}
}

func c07IsRTU(scheme string) bool { return strings.Contains(scheme, "rtu") }

// the model's bound on the duration of a call (Spec/TimedSpec.v), from the
// implementation's own character time and inter-frame delay
func c07Bound(scheme string, speed int, tmo time.Duration, nreq int) time.Duration {
	if !c07IsRTU(scheme) {
		return tmo
	}
	t1, t35 := modbus.VerifSerialTimings(uint(speed))
	g := time.Duration(0)
	if scheme == "l:rtu" {
		g = 10 * time.Millisecond
	}
	a := tmo + g
	if b := t35 + time.Duration(nreq)*t1 + t35; b > a {
		a = b
	}
	return a + 256*t1 + 500*time.Microsecond + g
}

type c07Res struct {
	out string
	dur time.Duration
}

func execTimed(in []string) (out string) {
	defer func() {
		if r := recover(); r != nil {
			out = "panic"
		}
	}()
	if len(in) < 7 {
		return "harness-error:bad-input"
	}
	scheme, speed := in[0], atoi(in[1])
	tmo := time.Duration(atoi(in[2])) * time.Millisecond
	closeAt := time.Duration(-1)
	if strings.HasPrefix(in[4], "c") {
		closeAt = time.Duration(atoi(in[4][1:])) * time.Microsecond
	}
	var chunks []c07Chunk
	if in[5] != "-" {
		for _, t := range strings.Split(in[5], ",") {
			if strings.HasPrefix(t, "cyc:") {
				// cyc:<n>:<period_us>:<hex>/<hex>/...  chunk i (i < n) at i*period, contents cycling
				p := strings.Split(t, ":")
				if len(p) != 4 {
					return "harness-error:bad-chunk"
				}
				var frames [][]byte
				for _, h := range strings.Split(p[3], "/") {
					frames = append(frames, unhex(h))
				}
				for i := 0; i < atoi(p[1]); i++ {
					chunks = append(chunks, c07Chunk{time.Duration(i*atoi(p[2])) * time.Microsecond, frames[i%len(frames)]})
				}
				continue
			}
			p := strings.SplitN(t, ":", 2)
			if len(p) != 2 {
				return "harness-error:bad-chunk"
			}
			chunks = append(chunks, c07Chunk{time.Duration(atoi(p[0])) * time.Microsecond, unhex(p[1])})
		}
	}
	op := in[6:]
	if tmo <= 0 {
		return "harness-error:bad-timeout"
	}

	stop := make(chan struct{})
	var stopOnce sync.Once
	halt := func() { stopOnce.Do(func() { close(stop) }) }
	defer halt()
	var mu sync.Mutex
	nreq := 0
	noteReq := func(n int) {
		mu.Lock()
		if nreq == 0 {
			nreq = n
		}
		mu.Unlock()
	}

	var mc *modbus.ModbusClient
	var err error
	var release func() // unblocks a hung call
	conf := &modbus.ClientConfiguration{Timeout: tmo, Speed: uint(speed), Logger: quiet}

	switch scheme {
	case "s:tcp", "s:rtuovertcp":
		c := sconn.New(false)
		var once sync.Once
		c.OnWrite = func(_ *sconn.Conn, b []byte) {
			once.Do(func() {
				start := time.Now()
				noteReq(len(b))
				go c07Play(start, chunks, closeAt, func(x []byte) { c.Feed(x) }, c.PeerClose, stop)
			})
		}
		conf.URL = scheme[2:] + "://sconn"
		mc, err = modbus.VerifNewClientOnConn(conf, c)
		if err != nil {
			return "harness-error:client"
		}
		release = func() { c.Close() }

	case "l:tcp", "l:rtuovertcp":
		ln, e := net.Listen("tcp", "127.0.0.1:0")
		if e != nil {
			return "harness-error:listen"
		}
		defer ln.Close()
		var devDone sync.WaitGroup
		devDone.Add(1)
		go func() {
			defer devDone.Done()
			ln.(*net.TCPListener).SetDeadline(time.Now().Add(3 * time.Second))
			conn, e := ln.Accept()
			if e != nil {
				return
			}
			defer conn.Close()
			buf := make([]byte, 600)
			conn.SetReadDeadline(time.Now().Add(3 * time.Second))
			n, e := conn.Read(buf)
			if e != nil {
				<-stop
				return
			}
			start := time.Now()
			noteReq(n)
			c07Play(start, chunks, closeAt, func(x []byte) { conn.Write(x) }, func() { conn.Close() }, stop)
			<-stop
		}()
		defer devDone.Wait()
		defer halt()
		conf.URL = scheme[2:] + "://" + ln.Addr().String()
		mc, err = modbus.NewClient(conf)
		if err != nil {
			return "harness-error:client"
		}
		if err = mc.Open(); err != nil {
			return "harness-error:open"
		}
		defer mc.Close()
		release = func() { mc.Close() }

	case "l:udp", "l:rtuoverudp":
		pc, e := net.ListenUDP("udp", &net.UDPAddr{IP: net.IPv4(127, 0, 0, 1)})
		if e != nil {
			return "harness-error:listen"
		}
		defer pc.Close()
		var devDone sync.WaitGroup
		devDone.Add(1)
		go func() {
			defer devDone.Done()
			buf := make([]byte, 600)
			pc.SetReadDeadline(time.Now().Add(3 * time.Second))
			n, addr, e := pc.ReadFromUDP(buf)
			if e != nil {
				return
			}
			start := time.Now()
			noteReq(n)
			c07Play(start, chunks, -1, func(x []byte) { pc.WriteToUDP(x, addr) }, func() {}, stop)
		}()
		defer devDone.Wait()
		defer halt()
		conf.URL = scheme[2:] + "://" + pc.LocalAddr().String()
		mc, err = modbus.NewClient(conf)
		if err != nil {
			return "harness-error:client"
		}
		if err = mc.Open(); err != nil {
			return "harness-error:open"
		}
		defer mc.Close()
		release = func() { mc.Close() }

	case "l:rtu":
		master, slave, e := c07OpenPty()
		if e != nil {
			return "harness-error:pty"
		}
		defer master.Close()
		var devDone sync.WaitGroup
		devDone.Add(1)
		go func() {
			defer devDone.Done()
			// wait for the request on the master side (poll: the fd is non-blocking friendly)
			buf := make([]byte, 600)
			got := 0
			lim := time.Now().Add(3 * time.Second)
			for got == 0 && time.Now().Before(lim) {
				master.SetReadDeadline(time.Now().Add(50 * time.Millisecond))
				n, _ := master.Read(buf)
				got += n
				select {
				case <-stop:
					return
				default:
				}
			}
			if got == 0 {
				return
			}
			start := time.Now()
			noteReq(8) // the request may arrive in pieces; every generated request is 8 bytes long
			c07Play(start, chunks, -1, func(x []byte) { master.Write(x) }, func() {}, stop)
		}()
		defer devDone.Wait()
		defer halt()
		conf.URL = "rtu://" + slave
		mc, err = modbus.NewClient(conf)
		if err != nil {
			return "harness-error:client"
		}
		if err = mc.Open(); err != nil {
			return "harness-error:open:" + strings.ReplaceAll(err.Error(), " ", "_")
		}
		defer mc.Close()
		release = func() { mc.Close() }

	default:
		return "harness-error:bad-scheme"
	}
	mc.SetUnitId(1)

	done := make(chan c07Res, 1)
	go func() {
		t0 := time.Now()
		r := callOp(mc, op)
		done <- c07Res{r, time.Since(t0)}
	}()
	watchdog := 6 * tmo
	var res c07Res
	wd := time.NewTimer(watchdog)
	select {
	case res = <-done:
		wd.Stop()
	case <-wd.C:
		halt()
		release()
		select {
		case <-done:
		case <-time.After(2 * time.Second):
		}
		return "hang"
	}
	halt()

	mu.Lock()
	n := nreq
	mu.Unlock()
	if n == 0 {
		n = 8
	}
	bound := c07Bound(scheme, speed, tmo, n)
	verdict := "intime"
	if res.dur > bound+c07Slack {
		verdict = "late:" + itoa(int((res.dur-bound)/time.Millisecond))
	} else if res.out == "err:timeout" && res.dur < tmo {
		verdict = "early:" + itoa(int((tmo-res.dur)/time.Millisecond))
	}
	// the measured duration lets the model side compare with the finish time it
	// predicts for THIS peer behaviour (tighter than the behaviour-independent bound)
	return res.out + " " + verdict + " " + strconv.FormatInt(int64(bound), 10) + " dur=" + strconv.FormatInt(int64(res.dur/time.Microsecond), 10)
}

// ------------------------------------------------------------------ pty

// c07OpenPty opens a pseudo-terminal pair; the client opens the slave path as
// its serial device, the fake device talks on the master.
func c07OpenPty() (master *os.File, slave string, err error) {
	fd, err := syscall.Open("/dev/ptmx", syscall.O_RDWR|syscall.O_NOCTTY|syscall.O_NONBLOCK|syscall.O_CLOEXEC, 0)
	if err != nil {
		return nil, "", err
	}
	var unlock int32
	if _, _, e := syscall.Syscall(syscall.SYS_IOCTL, uintptr(fd), syscall.TIOCSPTLCK, uintptr(unsafe.Pointer(&unlock))); e != 0 {
		syscall.Close(fd)
		return nil, "", e
	}
	var n uint32
	if _, _, e := syscall.Syscall(syscall.SYS_IOCTL, uintptr(fd), syscall.TIOCGPTN, uintptr(unsafe.Pointer(&n))); e != 0 {
		syscall.Close(fd)
		return nil, "", e
	}
	master = os.NewFile(uintptr(fd), "ptmx")
	return master, fmt.Sprintf("/dev/pts/%d", n), nil
}

// ------------------------------------------------------------------ generator

// small requests only (8 bytes on an RTU link): the post-write sleep n*t1 + t35
// then ends long before the deadline
func c07Op(r *Rng) []string {
	a := hxi(r.Intn(0xff00))
	if r.Intn(6) == 0 {
		// maximum-size replies (257 / 259 bytes over MBAP)
		return [][]string{{"ReadRegisters", a, hxi(124), "0"}, {"ReadRegisters", a, hxi(125), "1"},
			{"ReadCoils", a, hxi(2000)}, {"ReadUint64s", a, hxi(31), "0"}}[r.Intn(4)]
	}
	switch r.Intn(8) {
	case 0:
		return []string{"ReadCoils", a, hxi(1 + r.Intn(40))}
	case 1:
		return []string{"ReadDiscreteInputs", a, hxi(1 + r.Intn(40))}
	case 2:
		return []string{"ReadRegister", a, itoa(r.Intn(2))}
	case 3:
		return []string{"ReadUint32s", a, hxi(1 + r.Intn(4)), itoa(r.Intn(2))}
	case 4:
		return []string{"ReadUint64", a, itoa(r.Intn(2))}
	case 5:
		return []string{"WriteCoil", a, itoa(r.Intn(2))}
	case 6:
		return []string{"WriteRegister", a, hxi(r.Intn(65536))}
	}
	return []string{"ReadRegisters", a, hxi(1 + r.Intn(12)), itoa(r.Intn(2))}
}

var c07UnknownFc = []byte{0, 7, 8, 9, 0x14, 0x17, 0x2b, 0x55, 0x80, 0x87, 0x97, 0xff}

type c07Case struct {
	beh    string
	close  int // us, -1: none
	chunks []c07Chunk
	cyc    string // flood: "cyc:<n>:<period_us>:<hex>/<hex>/..." instead of chunks
}

func (c c07Case) tokens() (closeTok, chunkTok string) {
	closeTok = "-"
	if c.close >= 0 {
		closeTok = "c" + itoa(c.close)
	}
	if c.cyc != "" {
		return closeTok, c.cyc
	}
	if len(c.chunks) == 0 {
		return closeTok, "-"
	}
	p := make([]string, len(c.chunks))
	for i, ch := range c.chunks {
		p[i] = itoa(int(ch.at/time.Microsecond)) + ":" + hx(ch.b)
	}
	return closeTok, strings.Join(p, ",")
}

// c07Cases: the peer behaviours of the property for one transport and one call
func c07Cases(r *Rng, scheme string, tmoMs int, op []string, thorough bool) []c07Case {
	rtu := c07IsRTU(scheme)
	T := tmoMs * 1000 // us
	us := func(f float64) time.Duration { return time.Duration(f*float64(T)) * time.Microsecond }
	fc, payload, ok := buildReply(r, op, 1)
	if !ok {
		return nil
	}
	frame := func(txn, proto uint16, unit byte) []byte {
		if rtu {
			return rtuFrame(unit, fc, payload)
		}
		return mbapFrame(txn, proto, -1, unit, fc, payload)
	}
	reply := frame(1, 0, 1)
	L := len(reply)
	var cs []c07Case
	add := func(beh string, close int, chunks ...c07Chunk) { cs = append(cs, c07Case{beh, close, chunks, ""}) }
	canClose := scheme != "l:udp" && scheme != "l:rtuoverudp" && scheme != "l:rtu"

	// total silence
	add("silent", -1)

	// stall after k bytes of a valid reply
	ks := []int{1, 2, 3, 6, 7, 8, L - 1}
	if thorough {
		ks = nil
		for k := 1; k < L; k++ {
			ks = append(ks, k)
		}
	}
	seen := map[int]bool{}
	for _, k := range ks {
		if k < 1 || k >= L || seen[k] {
			continue
		}
		seen[k] = true
		if k >= 2 && r.Bool() {
			h := 1 + r.Intn(k-1)
			add("stall", -1, c07Chunk{us(0.05), reply[:h]}, c07Chunk{us(0.2), reply[h:k]})
		} else {
			add("stall", -1, c07Chunk{us(0.1), reply[:k]})
		}
	}

	// trickle: one byte every timeout/4 (offset by timeout/8: no byte is due at the deadline itself)
	{
		var ch []c07Chunk
		for i := 0; i < L && i < 24; i++ {
			ch = append(ch, c07Chunk{us(0.125 + 0.25*float64(i)), reply[i : i+1]})
		}
		add("trickle", -1, ch...)
	}

	// floods, one frame per millisecond for 5 x timeout
	flood := func(beh string, gen func(i int) []byte) {
		m := 3 + r.Intn(4) // distinct frames, sent round robin
		hs := make([]string, m)
		for i := range hs {
			hs[i] = hx(gen(i))
		}
		cs = append(cs, c07Case{beh, -1, nil, "cyc:" + itoa(5*tmoMs) + ":1000:" + strings.Join(hs, "/")})
	}
	if rtu {
		// well-formed replies from another unit: the first one is refused (bad unit id)
		flood("flood-foreign-unit", func(i int) []byte { return frame(0, 0, byte(2+r.Intn(200))) })
		// garbage whose second byte is not a function code the frame reader knows:
		// protocol error on the first three bytes, then the re-synchronisation flush
		flood("flood-garbage", func(i int) []byte {
			g := r.Bytes(3 + r.Intn(30))
			g[1] = c07UnknownFc[r.Intn(len(c07UnknownFc))]
			return g
		})
	} else {
		// well-formed frames with foreign transaction ids: skipped until the deadline
		flood("flood-foreign-txn", func(i int) []byte { return frame(uint16(2+r.Intn(65000)), 0, 1) })
		// well-formed frames of a foreign protocol: skipped until the deadline
		flood("flood-foreign-proto", func(i int) []byte { return frame(1, uint16(1+r.Intn(65535)), 1) })
		// garbage whose first header carries an illegal length (0, 1 or > 254): protocol error at once
		flood("flood-garbage", func(i int) []byte {
			g := r.Bytes(7 + r.Intn(30))
			bad := []int{0, 1, 255, 256, 1000, 65535}[r.Intn(6)]
			g[4], g[5] = byte(bad>>8), byte(bad)
			return g
		})
		// foreign frames first, then the reply at 0.5 x timeout
		{
			var ch []c07Chunk
			for i := 0; i < 5; i++ {
				ch = append(ch, c07Chunk{us(0.05 * float64(i+1)), frame(uint16(7+i), uint16(i%2), 1)})
			}
			ch = append(ch, c07Chunk{us(0.5), reply})
			add("skip-then-reply", -1, ch...)
		}
	}

	// the peer closes after k bytes
	if canClose {
		for _, k := range []int{0, 1, 3, L - 1} {
			if k < 0 || k >= L {
				continue
			}
			if k == 0 {
				add("close", int(us(0.3)/time.Microsecond))
			} else {
				add("close", int(us(0.3)/time.Microsecond), c07Chunk{us(0.1), reply[:k]})
			}
		}
	}

	// a valid reply delayed by 0.2 / 0.5 / 0.8 x timeout (never more: scheduler noise
	// must not be able to push it past the deadline)
	for _, f := range []float64{0.2, 0.5, 0.8} {
		add("delay", -1, c07Chunk{us(f), reply})
	}
	// ... in two pieces
	if L >= 2 {
		h := 1 + r.Intn(L-1)
		add("delay-split", -1, c07Chunk{us(0.2), reply[:h]}, c07Chunk{us(0.6), reply[h:]})
	}
	// ... and too late (1.3 x timeout): the call has already timed out
	add("too-late", -1, c07Chunk{us(1.3), reply})
	return cs
}

type c07Setup struct {
	scheme string
	speed  int
}

func scnTimed(o *Out, r *Rng, thorough bool) {
	setups := []c07Setup{
		{"s:tcp", 0}, {"s:rtuovertcp", 19200}, {"s:rtuovertcp", 115200},
		{"l:tcp", 0}, {"l:udp", 0}, {"l:rtuovertcp", 19200},
		{"l:rtuoverudp", 19200}, {"l:rtuoverudp", 115200},
	}
	if m, _, e := c07OpenPty(); e == nil {
		m.Close()
		setups = append(setups, c07Setup{"l:rtu", 19200}, c07Setup{"l:rtu", 115200})
	} else {
		o.Stat("timed:pty-unavailable")
	}
	tmos := []int{150}
	reps := 1
	if thorough {
		tmos = []int{100, 150, 250}
		reps = 3
		setups = append(setups, c07Setup{"s:rtuovertcp", 9600}, c07Setup{"s:rtuovertcp", 38400}, c07Setup{"l:rtuoverudp", 9600})
	}
	var ins []string
	var behs []string
	for rep := 0; rep < reps; rep++ {
		for _, tmo := range tmos {
			for _, su := range setups {
				op := c07Op(r)
				if su.scheme == "l:udp" || su.scheme == "l:tcp" || su.scheme == "s:tcp" {
					// also the largest replies a datagram / frame can carry (257 and 259 bytes)
					big := [][]string{{"ReadRegisters", "10", hxi(125), "0"}, {"ReadRegisters", "20", hxi(124), "1"}}[r.Intn(2)]
					for _, c := range c07Cases(r, su.scheme, tmo, big, thorough) {
						if !strings.HasPrefix(c.beh, "delay") && !strings.HasPrefix(c.beh, "split") {
							continue
						}
						ct, ch := c.tokens()
						ins = append(ins, strings.Join(append([]string{su.scheme, itoa(su.speed), itoa(tmo), c.beh, ct, ch}, big...), " "))
						behs = append(behs, c.beh)
						o.Stat("timed:beh:" + c.beh + ":max-size")
					}
				}
				for _, c := range c07Cases(r, su.scheme, tmo, op, thorough) {
					ct, ch := c.tokens()
					ins = append(ins, strings.Join(append([]string{su.scheme, itoa(su.speed), itoa(tmo), c.beh, ct, ch}, op...), " "))
					behs = append(behs, c.beh)
					o.Stat("timed:beh:" + c.beh)
					o.Stat("timed:scheme:" + su.scheme)
				}
			}
		}
	}
	// a long request on a slow line (about 290 ms on the wire at 9600 bps) with a
	// timeout longer than that: the call must end at the deadline armed BEFORE
	// the transmission, not one timeout after it
	for _, su := range []c07Setup{{"s:rtuovertcp", 9600}, {"l:rtuovertcp", 9600}} {
		big := []string{"WriteRegisters", "10", "rep:123:1234"}
		for _, c := range c07Cases(r, su.scheme, 400, big, false) {
			if c.beh != "silent" && c.beh != "stall" {
				continue
			}
			ct, ch := c.tokens()
			ins = append(ins, strings.Join(append([]string{su.scheme, itoa(su.speed), "400", c.beh, ct, ch}, big...), " "))
			behs = append(behs, c.beh)
			o.Stat("timed:beh:" + c.beh + ":long-request")
		}
	}
	// cases of the same behaviour last equally long: run them in the same batch
	idx := make([]int, len(ins))
	for i := range idx {
		idx[i] = i
	}
	sort.SliceStable(idx, func(a, b int) bool { return behs[idx[a]] < behs[idx[b]] })
	const par = 16
	for lo := 0; lo < len(idx); lo += par {
		hi := lo + par
		if hi > len(idx) {
			hi = len(idx)
		}
		batch := make([]string, 0, par)
		for _, i := range idx[lo:hi] {
			batch = append(batch, ins[i])
		}
		for _, out := range o.RunMany("timed", batch) {
			f := strings.Fields(out)
			if len(f) < 2 {
				o.Stat("timed:verdict:" + out)
				continue
			}
			p := strings.SplitN(f[0], ":", 3)
			if p[0] == "err" && len(p) > 1 {
				o.Stat("timed:result:err:" + p[1])
			} else {
				o.Stat("timed:result:" + p[0])
			}
			o.Stat("timed:verdict:" + strings.SplitN(f[1], ":", 2)[0])
		}
	}
}

// C05 in time (Properties/C05b.v): the stale-frame behaviours of the timed
// scenario on the MBAP transports - floods of foreign transaction ids /
// protocol ids until well after the deadline, stale frames followed by the
// own reply - against the timed model: outcome, and a duration that is the
// deadline itself for the floods.
func scnTimedStale(o *Out, r *Rng, thorough bool) {
	var ins []string
	tmos := []int{150}
	if thorough {
		tmos = []int{100, 150, 250}
	}
	for _, tmo := range tmos {
		for _, scheme := range []string{"s:tcp", "l:tcp", "l:udp"} {
			op := []string{"ReadRegisters", hxi(r.Intn(65000)), hxi(1 + r.Intn(8)), itoa(r.Intn(2))}
			for _, c := range c07Cases(r, scheme, tmo, op, false) {
				if c.beh != "flood-foreign-txn" && c.beh != "flood-foreign-proto" && c.beh != "skip-then-reply" {
					continue
				}
				ct, ch := c.tokens()
				ins = append(ins, strings.Join(append([]string{scheme, "0", itoa(tmo), c.beh, ct, ch}, op...), " "))
				o.Stat("timed:beh:" + c.beh)
			}
		}
	}
	o.RunMany("timed", ins)
}
