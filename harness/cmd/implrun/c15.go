package main

// C15 - the client role is taken faithfully from the certificate.
//
// scenario "role":  input  = extensions "<kind>:<hex value>" joined by commas ("-" = none)
//                            kind r  = Modbus Role OID 1.3.6.1.4.1.50316.802.1
//                                 n* = near-miss OIDs (sibling, prefix, extension, ...)
//                                 o* = unrelated OIDs
//                   output = hex of the string returned by extractRole ("-" if empty),
//                            "panic" if it panicked
// scenario "utf8":  input  = hex bytes, output = 1/0 from unicode/utf8.Valid
// scenario "srole": input  = 0 <exts>: a plain TCP session (no certificate);
//                   output = hex of the ClientRole the handlers saw

import (
	"crypto/x509"
	"crypto/x509/pkix"
	"encoding/asn1"
	"strings"
	"sync"
	"time"
	"unicode/utf8"

	"github.com/simonvetter/modbus"

	"verifharness/internal/sconn"
)

var oidKinds = map[string]asn1.ObjectIdentifier{
	"r":  {1, 3, 6, 1, 4, 1, 50316, 802, 1},
	"n":  {1, 3, 6, 1, 4, 1, 50316, 802, 2},
	"n2": {1, 3, 6, 1, 4, 1, 50316, 802},
	"n3": {1, 3, 6, 1, 4, 1, 50316, 802, 1, 0},
	"n4": {1, 3, 6, 1, 4, 1, 50316, 801, 1},
	"n5": {1, 3, 6, 1, 4, 1, 50316, 802, 0},
	"n6": {2, 3, 6, 1, 4, 1, 50316, 802, 1},
	"o":  {2, 5, 29, 17},
	"o2": {2, 5, 29, 15},
	"o3": {1, 2, 840, 113549, 1, 9, 1},
}

var nearKinds = []string{"n", "n2", "n3", "n4", "n5", "n6"}
var otherKinds = []string{"o", "o2", "o3"}

func parseExts(tok string) []pkix.Extension {
	if tok == "-" || tok == "" {
		return nil
	}
	var exts []pkix.Extension
	for _, e := range strings.Split(tok, ",") {
		i := strings.IndexByte(e, ':')
		id, ok := oidKinds[e[:i]]
		if !ok {
			panic("bad oid kind " + e[:i])
		}
		v := unhex(e[i+1:])
		exts = append(exts, pkix.Extension{Id: id, Value: v[:len(v):len(v)]})
	}
	return exts
}

func extTok(kind string, v []byte) string { return kind + ":" + hx(v) }

func extsTok(es []string) string {
	if len(es) == 0 {
		return "-"
	}
	return strings.Join(es, ",")
}

type roleHandler struct {
	mu    sync.Mutex
	roles []string
}

func (h *roleHandler) see(r string) {
	h.mu.Lock()
	h.roles = append(h.roles, r)
	h.mu.Unlock()
}
func (h *roleHandler) HandleCoils(r *modbus.CoilsRequest) ([]bool, error) {
	h.see(r.ClientRole)
	return make([]bool, r.Quantity), nil
}
func (h *roleHandler) HandleDiscreteInputs(r *modbus.DiscreteInputsRequest) ([]bool, error) {
	h.see(r.ClientRole)
	return make([]bool, r.Quantity), nil
}
func (h *roleHandler) HandleHoldingRegisters(r *modbus.HoldingRegistersRequest) ([]uint16, error) {
	h.see(r.ClientRole)
	return make([]uint16, r.Quantity), nil
}
func (h *roleHandler) HandleInputRegisters(r *modbus.InputRegistersRequest) ([]uint16, error) {
	h.see(r.ClientRole)
	return make([]uint16, r.Quantity), nil
}

func init() {
	register("C15", scnRoleFirstByte, scnRoleContent, scnRoleLengths, scnRoleExts, scnRoleRandom, scnUtf8, scnRolePlainTCP)

	executors["role"] = func(in []string) (out string) {
		cert := &x509.Certificate{Extensions: parseExts(in[0])}
		var role string
		if panics(func() { role = modbus.VerifExtractRole(cert) }) {
			return "panic"
		}
		return hx([]byte(role))
	}
	executors["utf8"] = func(in []string) string {
		if utf8.Valid(unhex(in[0])) {
			return "1"
		}
		return "0"
	}
	// plain TCP session: one request per handler entry point, all must see the same role
	executors["srole"] = func(in []string) string {
		if in[0] != "0" {
			return "harness-error:tls-sessions-are-covered-by-C14"
		}
		h := &roleHandler{}
		srv, err := modbus.NewServer(&modbus.ServerConfiguration{URL: "tcp://127.0.0.1:0", Timeout: time.Second, Logger: quiet}, h)
		if err != nil {
			return "harness-error:" + err.Error()
		}
		c := sconn.New(true)
		reqs := [][]byte{
			mbapFrame(1, 0, -1, 1, 1, []byte{0, 0, 0, 1}),
			mbapFrame(2, 0, -1, 1, 2, []byte{0, 0, 0, 1}),
			mbapFrame(3, 0, -1, 1, 3, []byte{0, 0, 0, 1}),
			mbapFrame(4, 0, -1, 1, 4, []byte{0, 0, 0, 1}),
			mbapFrame(5, 0, -1, 1, 5, []byte{0, 0, 0xff, 0}),
			mbapFrame(6, 0, -1, 1, 6, []byte{0, 0, 0, 7}),
			mbapFrame(7, 0, -1, 1, 15, []byte{0, 0, 0, 1, 1, 1}),
			mbapFrame(8, 0, -1, 1, 16, []byte{0, 0, 0, 1, 2, 0, 7}),
		}
		c.Feed(reqs...)
		c.PeerClose()
		if panics(func() { srv.VerifServeConn(c) }) {
			return "panic"
		}
		h.mu.Lock()
		defer h.mu.Unlock()
		if len(h.roles) != len(reqs) {
			return "harness-error:handler-calls=" + itoa(len(h.roles))
		}
		for _, r := range h.roles {
			if r != h.roles[0] {
				return "mixed"
			}
		}
		return hx([]byte(h.roles[0]))
	}
}

// ---------------------------------------------------------------- helpers

// derLen is the DER definite-length encoding (X.690), written independently of the library.
func derLen(n int) []byte {
	if n < 128 {
		return []byte{byte(n)}
	}
	var ds []byte
	for v := n; v > 0; v >>= 8 {
		ds = append([]byte{byte(v)}, ds...)
	}
	return append([]byte{0x80 | byte(len(ds))}, ds...)
}

func derUTF8(s []byte) []byte {
	return append(append([]byte{0x0c}, derLen(len(s))...), s...)
}

// longLen encodes n on exactly k length octets (possibly non-minimal)
func longLen(n int, k int) []byte {
	b := []byte{0x80 | byte(k)}
	for i := k - 1; i >= 0; i-- {
		if i >= 8 {
			b = append(b, 0)
		} else {
			b = append(b, byte(uint64(n)>>(8*uint(i))))
		}
	}
	return b
}

func cat(parts ...[]byte) []byte {
	var b []byte
	for _, p := range parts {
		b = append(b, p...)
	}
	return b
}

// encodeScalar: UTF-8 per RFC 3629 (own implementation)
func encodeScalar(b []byte, c int) []byte {
	switch {
	case c < 0x80:
		return append(b, byte(c))
	case c < 0x800:
		return append(b, 0xc0|byte(c>>6), 0x80|byte(c&0x3f))
	case c < 0x10000:
		return append(b, 0xe0|byte(c>>12), 0x80|byte(c>>6&0x3f), 0x80|byte(c&0x3f))
	}
	return append(b, 0xf0|byte(c>>18), 0x80|byte(c>>12&0x3f), 0x80|byte(c>>6&0x3f), 0x80|byte(c&0x3f))
}

var scalarEdges = []int{0, 1, 0x41, 0x7f, 0x80, 0x7ff, 0x800, 0xfff, 0x1000, 0xcfff, 0xd000, 0xd7ff,
	0xe000, 0xfffd, 0xffff, 0x10000, 0x3ffff, 0x40000, 0xfffff, 0x100000, 0x10ffff}

func randScalar(r *Rng) int {
	switch r.Intn(6) {
	case 0:
		return scalarEdges[r.Intn(len(scalarEdges))]
	case 1:
		return r.Intn(0x80)
	case 2:
		return 0x80 + r.Intn(0x780)
	case 3:
		for {
			c := 0x800 + r.Intn(0xf800)
			if c < 0xd800 || c > 0xdfff {
				return c
			}
		}
	case 4:
		return 0x10000 + r.Intn(0x100000)
	}
	return 0x20 + r.Intn(0x5f)
}

// randUTF8 builds valid UTF-8 of roughly n bytes (never more)
func randUTF8(r *Rng, n int) []byte {
	var b []byte
	for len(b) < n {
		e := encodeScalar(nil, randScalar(r))
		if len(b)+len(e) > n {
			e = []byte{byte(0x20 + r.Intn(0x5f))}
		}
		b = append(b, e...)
	}
	return b
}

func (o *Out) role(tok string) string {
	out := o.Run("role", tok)
	switch out {
	case "-":
		o.Stat("role:empty")
	case "panic":
		o.Stat("role:panic")
	default:
		o.Stat("role:nonempty")
	}
	return out
}

func (o *Out) roleValue(v []byte) string { return o.role(extTok("r", v)) }

// ---------------------------------------------------------------- generators

// all 256 identifier octets x length forms
func scnRoleFirstByte(o *Out, r *Rng, thorough bool) {
	a128 := []byte(strings.Repeat("a", 128))
	a300 := randUTF8(r, 300)
	for b0 := 0; b0 < 256; b0++ {
		f := []byte{byte(b0)}
		vals := [][]byte{
			f,
			cat(f, []byte{0}),
			cat(f, []byte{1, 0x41}),
			cat(f, []byte{2, 0xc3, 0xa9}),
			cat(f, []byte{0x81, 1, 0x41}),
			cat(f, []byte{0x81, 0x80}, a128),
			cat(f, []byte{0x82, 1, 0x2c}, a300),
			cat(f, []byte{0x80, 0x41, 0, 0}),
			cat(f, []byte{1, 0x41, 0}),
			cat(f, []byte{5, 0x41}),
			// high-tag-number form continuation / plausible other string types
			cat(f, []byte{0x0c, 1, 0x41}),
			cat(f, []byte{3}, []byte("abc")),
			cat(f, []byte{4, 0, 0x41, 0, 0x42}),
		}
		for _, v := range vals {
			o.roleValue(v)
		}
		// the same value behind a good first role extension and before one (duplicates)
		o.role(extsTok([]string{extTok("r", derUTF8([]byte("op"))), extTok("r", cat(f, []byte{1, 0x41}))}))
		o.role(extsTok([]string{extTok("r", cat(f, []byte{1, 0x41})), extTok("r", derUTF8([]byte("op")))}))
	}
}

// every 1- and 2-byte content, structured 3-4 byte sequences
func scnRoleContent(o *Out, r *Rng, thorough bool) {
	for a := 0; a < 256; a++ {
		c := []byte{byte(a)}
		o.roleValue(derUTF8(c))
		o.Run("utf8", hx(c))
	}
	var ins []string
	var uins []string
	for a := 0; a < 256; a++ {
		for b := 0; b < 256; b++ {
			c := []byte{byte(a), byte(b)}
			ins = append(ins, extTok("r", derUTF8(c)))
			uins = append(uins, hx(c))
		}
	}
	for i, out := range o.RunMany("role", ins) {
		_ = i
		if out == "-" {
			o.Stat("role:empty")
		} else {
			o.Stat("role:nonempty")
		}
	}
	o.RunMany("utf8", uins)

	lead3 := []byte{0xe0, 0xe1, 0xec, 0xed, 0xee, 0xef, 0xdf, 0xc2}
	lead4 := []byte{0xf0, 0xf1, 0xf3, 0xf4, 0xf5, 0xf7, 0xf8, 0xfb, 0xfc, 0xfe, 0xff}
	second := []byte{0x00, 0x7f, 0x80, 0x8f, 0x90, 0x9f, 0xa0, 0xbf, 0xc0, 0xff}
	contb := []byte{0x7f, 0x80, 0xbf, 0xc0}
	emit := func(seq []byte) {
		// alone, every proper prefix (truncated sequence), and inside a context
		for k := 1; k <= len(seq); k++ {
			o.roleValue(derUTF8(seq[:k]))
			o.Run("utf8", hx(seq[:k]))
		}
		ctx := cat([]byte("a"), seq, []byte("b"))
		o.roleValue(derUTF8(ctx))
		o.Run("utf8", hx(ctx))
		ctx = cat([]byte{0xc3, 0xa9}, seq, []byte{0xe2, 0x82, 0xac})
		o.roleValue(derUTF8(ctx))
		o.Run("utf8", hx(ctx))
	}
	for _, l := range lead3 {
		for _, s := range second {
			for _, c := range contb {
				emit([]byte{l, s, c})
			}
		}
	}
	for _, l := range lead4 {
		for _, s := range second {
			for _, c := range contb {
				for _, d := range contb {
					emit([]byte{l, s, c, d})
				}
			}
		}
	}
	// every lead byte with valid-looking continuations, and 5/6 byte legacy forms
	for l := 0x80; l < 0x100; l++ {
		emit([]byte{byte(l), 0x80, 0x80, 0x80})
		emit([]byte{byte(l), 0xbf, 0xbf, 0xbf})
		emit([]byte{byte(l), 0xa0, 0x80})
		emit([]byte{byte(l), 0x90, 0x80, 0x80, 0x80, 0x80})
	}
	// the encodings of the edge scalars and of their neighbours, incl. surrogates and > U+10FFFF
	for _, c := range scalarEdges {
		for d := -1; d <= 1; d++ {
			if c+d >= 0 {
				emit(encodeScalar(nil, c+d))
			}
		}
	}
	for _, c := range []int{0xd800, 0xdbff, 0xdc00, 0xdfff, 0x110000, 0x1fffff} {
		emit(encodeScalar(nil, c))
	}
	// random 3 and 4 byte sequences
	n := 3000
	if thorough {
		n = 60000
	}
	for i := 0; i < n; i++ {
		seq := r.Bytes(3 + r.Intn(2))
		if r.Bool() {
			seq[0] = 0xe0 + byte(r.Intn(0x18))
		}
		for k := 1; k < len(seq); k++ {
			if r.Intn(4) != 0 {
				seq[k] = 0x80 + byte(r.Intn(0x40))
			}
		}
		o.roleValue(derUTF8(seq))
		o.Run("utf8", hx(seq))
	}
}

// length forms
func scnRoleLengths(o *Out, r *Rng, thorough bool) {
	lens := []int{0, 1, 2, 126, 127, 128, 129, 255, 256, 257, 300}
	if thorough {
		lens = append(lens, 65535, 65536, 65537, 70000)
	}
	for _, n := range lens {
		s := randUTF8(r, n)
		for len(s) < n {
			s = append(s, 'x')
		}
		var hdrs [][]byte
		hdrs = append(hdrs, derLen(n))
		for k := 1; k <= 9; k++ {
			if k < 8 && n>>(8*uint(k)) != 0 {
				continue // n does not fit k octets
			}
			hdrs = append(hdrs, longLen(n, k))
		}
		if n < 128 {
			hdrs = append(hdrs, []byte{byte(n)})
		}
		hdrs = append(hdrs, []byte{0x80}, longLen(n, 127))
		for _, h := range hdrs {
			full := cat([]byte{0x0c}, h, s)
			o.roleValue(full)
			o.roleValue(cat(full, []byte{0}))
			o.roleValue(cat(full, r.Bytes(1+r.Intn(5))))
			o.roleValue(cat(full, full))
			if n > 0 {
				o.roleValue(full[:len(full)-1])
				o.roleValue(full[:len(full)-n])
				o.roleValue(full[:len(full)-n+n/2])
			}
			// header cut at every position
			for k := 0; k <= len(h); k++ {
				o.roleValue(full[:k])
				o.roleValue(full[:1+k])
			}
		}
	}
	// lengths that cannot be met / do not fit
	for _, h := range [][]byte{
		{0x84, 0x7f, 0xff, 0xff, 0xff}, {0x84, 0x80, 0, 0, 0}, {0x84, 0xff, 0xff, 0xff, 0xff},
		{0x84, 0, 0x80, 0, 0}, {0x84, 0, 0, 0, 5}, {0x83, 0x7f, 0xff, 0xff}, {0x83, 0x80, 0, 0}, {0x83, 0xff, 0xff, 0xff},
		{0x83, 0, 0, 5}, {0x82, 0, 5}, {0x82, 0, 0x80}, {0x82, 0xff, 0xff}, {0x81, 5}, {0x81, 0x7f}, {0x81, 0x80}, {0x81, 0xff}, {0x81, 0},
		{0x85, 0, 0, 0, 0, 5}, {0x85, 1, 0, 0, 0, 0}, {0x85, 0, 0, 0, 1, 0}, {0x88, 0, 0, 0, 0, 0, 0, 0, 5},
		{0x88, 0x7f, 0xff, 0xff, 0xff, 0xff, 0xff, 0xff, 0xff}, {0x88, 0xff, 0xff, 0xff, 0xff, 0xff, 0xff, 0xff, 0xff},
		{0x89, 1, 0, 0, 0, 0, 0, 0, 0, 0}, {0xff}, {0x7f}, {0x84, 0, 0x7f, 0xff, 0xff}, {0x84, 1, 0, 0, 0},
	} {
		for _, body := range [][]byte{nil, []byte("A"), []byte("hello"), []byte(strings.Repeat("a", 128)), []byte(strings.Repeat("b", 255)), r.Bytes(130)} {
			o.roleValue(cat([]byte{0x0c}, h, body))
		}
	}
	// every second octet with a fixed 5-byte and a 130-byte body
	for b1 := 0; b1 < 256; b1++ {
		o.roleValue(cat([]byte{0x0c, byte(b1)}, []byte("hello")))
		o.roleValue(cat([]byte{0x0c, byte(b1)}, []byte(strings.Repeat("a", 130))))
		o.roleValue(cat([]byte{0x0c, byte(b1), 0x82}, []byte(strings.Repeat("a", 130))))
		o.roleValue(cat([]byte{0x0c, 0x81, byte(b1)}, []byte(strings.Repeat("a", b1))))
		o.roleValue(cat([]byte{0x0c, 0x82, 0, byte(b1)}, []byte(strings.Repeat("a", b1))))
		o.roleValue(cat([]byte{0x0c, 0x82, 1, byte(b1)}, []byte(strings.Repeat("a", 256+b1))))
	}
}

// 0..4 extensions in every order with 0, 1, 2.. role OIDs and near-miss OIDs
func scnRoleExts(o *Out, r *Rng, thorough bool) {
	pool := []func() string{
		func() string { return extTok("r", derUTF8([]byte("operator"))) },
		func() string { return extTok("r", derUTF8(randUTF8(r, 1+r.Intn(20)))) },
		func() string { return extTok("r", []byte{0x13, 2, 0x6f, 0x70}) },             // PrintableString
		func() string { return extTok("r", []byte{0x0c, 2, 0x6f, 0x70, 0}) },          // trailing byte
		func() string { return extTok("r", []byte{0x0c, 2, 0xc0, 0x80}) },             // invalid UTF-8
		func() string { return extTok("r", nil) },                                     // empty value
		func() string { return extTok("r", []byte{0x0c, 0}) },                         // empty string
		func() string { return extTok(nearKinds[r.Intn(len(nearKinds))], derUTF8([]byte("admin"))) },
		func() string { return extTok(otherKinds[r.Intn(len(otherKinds))], r.Bytes(r.Intn(12))) },
		func() string { return extTok(otherKinds[r.Intn(len(otherKinds))], derUTF8([]byte("root"))) },
	}
	o.role("-")
	var rec func(prefix []string, depth int)
	rec = func(prefix []string, depth int) {
		if len(prefix) > 0 {
			out := o.role(extsTok(prefix))
			nr := 0
			for _, e := range prefix {
				if strings.HasPrefix(e, "r:") {
					nr++
				}
			}
			if nr > 2 {
				nr = 2
			}
			o.Stat("exts:roleoids=" + itoa(nr))
			_ = out
		}
		if depth == 0 {
			return
		}
		for _, g := range pool {
			rec(append(append([]string{}, prefix...), g()), depth-1)
		}
	}
	rec(nil, 4)
	// every near-miss and unrelated OID alone and next to a good role
	for _, k := range append(append([]string{}, nearKinds...), otherKinds...) {
		o.role(extTok(k, derUTF8([]byte("admin"))))
		o.role(extsTok([]string{extTok(k, derUTF8([]byte("admin"))), extTok("r", derUTF8([]byte("viewer")))}))
		o.role(extsTok([]string{extTok("r", derUTF8([]byte("viewer"))), extTok(k, derUTF8([]byte("admin")))}))
	}
}

// random role strings up to 300 bytes, random mutations of well-formed values
func scnRoleRandom(o *Out, r *Rng, thorough bool) {
	n := 4000
	if thorough {
		n = 60000
	}
	for i := 0; i < n; i++ {
		var s []byte
		switch r.Intn(4) {
		case 0:
			s = r.Bytes(r.Intn(301))
		default:
			s = randUTF8(r, r.Pick(0, 1, 2, 5, 20, 100, 127, 128, 129, 200, 255, 256, 257, 300, r.Intn(301)))
		}
		v := derUTF8(s)
		switch r.Intn(8) {
		case 0: // flip one byte
			if len(v) > 0 {
				v[r.Intn(len(v))] ^= byte(1 << uint(r.Intn(8)))
			}
		case 1: // flip in the header
			v[r.Intn(min2(len(v), 4))] ^= byte(1 << uint(r.Intn(8)))
		case 2: // delete a byte
			k := r.Intn(len(v))
			v = append(v[:k:k], v[k+1:]...)
		case 3: // insert a byte
			k := r.Intn(len(v) + 1)
			v = cat(v[:k], r.Bytes(1), v[k:])
		case 4: // cut
			v = v[:r.Intn(len(v)+1)]
		}
		var es []string
		pos := r.Intn(4)
		for k := 0; k < 4; k++ {
			if k == pos {
				es = append(es, extTok("r", v))
			} else if r.Intn(3) == 0 {
				kinds := append(append([]string{}, nearKinds...), otherKinds...)
				es = append(es, extTok(kinds[r.Intn(len(kinds))], derUTF8(randUTF8(r, r.Intn(10)))))
			} else if r.Intn(12) == 0 {
				es = append(es, extTok("r", derUTF8(randUTF8(r, r.Intn(10)))))
			}
		}
		o.role(extsTok(es))
	}
}

func min2(a, b int) int {
	if a < b {
		return a
	}
	return b
}

// utf8.Valid directly: random valid strings, random bytes, mutations
func scnUtf8(o *Out, r *Rng, thorough bool) {
	o.Run("utf8", "-")
	n := 4000
	if thorough {
		n = 60000
	}
	for i := 0; i < n; i++ {
		var s []byte
		switch r.Intn(3) {
		case 0:
			s = r.Bytes(r.Intn(40))
		default:
			s = randUTF8(r, r.Intn(60))
		}
		if len(s) > 0 && r.Intn(3) == 0 {
			switch r.Intn(3) {
			case 0:
				s[r.Intn(len(s))] ^= byte(1 << uint(r.Intn(8)))
			case 1:
				k := r.Intn(len(s))
				s = append(s[:k:k], s[k+1:]...)
			case 2:
				s = s[:r.Intn(len(s))]
			}
		}
		if o.Run("utf8", hx(s)) == "1" {
			o.Stat("utf8:valid")
		} else {
			o.Stat("utf8:invalid")
		}
	}
}

// plain TCP sessions: the handlers see the empty role
func scnRolePlainTCP(o *Out, r *Rng, thorough bool) {
	for i := 0; i < 8; i++ {
		o.Run("srole", "0 -")
	}
	o.Run("srole", "0 "+extTok("r", derUTF8([]byte("operator"))))
}
