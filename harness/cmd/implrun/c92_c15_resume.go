package main

// C15 (continued) - the handlers of a TLS session see the role of the client
// leaf certificate of THAT session, whether the session was negotiated by a
// full handshake or RESUMED from an earlier one.
//
// scenario "tlsroleresume": keyset family mode(seq|keep) sess...
//   sess = <member>;<role exts>;<ver>;<verifies>;<leaf exts>;<cache>;<request>.<request>...
//   As scenario "tlsroleseq" (c91_c15_roleseq.go: ONE real modbus server
//   (tcp+tls) for the whole case, an ordered sequence of TLS sessions, client
//   certificates from a family sharing identifying material), with clients
//   that keep a TLS session cache as most TLS stacks do: <cache> = c<k> names
//   the tls.ClientSessionCache the client of this session uses (one cache per
//   client identity: all the sessions that name c<k> present the same
//   certificate), "-" = a client without a cache (as this library's own
//   client). A later session of a client therefore OFFERS to resume its
//   earlier session (TLS 1.2 session ticket / TLS 1.3 pre-shared key) when
//   the versions allow it; whether the server accepts is up to the server.
//   Sessions of other clients (other certificate, own cache) connect in
//   between.
//   output: as tlsroleseq, per session "<role>+<role>.../<responses>" joined
//   by ",". Whether a session was resumed (ConnectionState().DidResume) and
//   whether the client held a cached session is recorded as a statistic only:
//   the role must not depend on it.
//
// scenario "tlsroleresumectl": keyset ver -> "ok"
//   harness self-test and a look at the crypto/tls behaviour the model takes
//   as documented (Model/RoleResume.v tls_resume_documented): against a plain
//   crypto/tls server that keeps ONE tls.Config (so that it accepts its own
//   tickets), the very client configuration of "tlsroleresume" resumes from
//   its second connection on, a client with another certificate and its own
//   cache in between does a full handshake, and on every connection - resumed
//   or not - the server finds the leaf of THAT client in PeerCertificates[0].
//
// This file sorts after c91_c15_roleseq.go on purpose: the registration is
// appended, the random streams of the existing C15 generators keep their indices.

import (
	"bytes"
	"crypto/tls"
	"fmt"
	"net"
	"strings"
	"sync"
	"time"

	"github.com/simonvetter/modbus"
)

// ------------------------------------------------------------ client side

// a session cache that counts what goes through it
type c15ResCache struct {
	inner tls.ClientSessionCache
	mu    sync.Mutex
	hits  int
}

func newC15ResCache() *c15ResCache {
	return &c15ResCache{inner: tls.NewLRUClientSessionCache(8)}
}

func (c *c15ResCache) Get(key string) (*tls.ClientSessionState, bool) {
	s, ok := c.inner.Get(key)
	if ok && s != nil {
		c.mu.Lock()
		c.hits++
		c.mu.Unlock()
	}
	return s, ok
}

func (c *c15ResCache) Put(key string, s *tls.ClientSessionState) { c.inner.Put(key, s) }

func (c *c15ResCache) count() int {
	c.mu.Lock()
	defer c.mu.Unlock()
	return c.hits
}

// the tls.Config of a harness client: one certificate, one version, and the
// session cache of that client (nil: none)
func c15ResClientConf(srvPKI *c14PKI, cert *tls.Certificate, ver uint16, cache *c15ResCache) *tls.Config {
	conf := &tls.Config{RootCAs: srvPKI.caPool, ServerName: "127.0.0.1", MinVersion: ver, MaxVersion: ver,
		// present the certificate whatever CAs the server names as acceptable
		GetClientCertificate: func(*tls.CertificateRequestInfo) (*tls.Certificate, error) { return cert, nil }}
	if cache != nil {
		conf.ClientSessionCache = cache
	}
	return conf
}

// what the executor saw of the TLS layer, per input: read by the generator for
// the statistics only (the cases run in this process)
var c15ResSeen sync.Map // input -> []string, one of full|resumed|refused (+ticket) per session

// ------------------------------------------------------------ executor

func c15RunRoleResume(in []string) string {
	out, complete := c15RunRoleResumeOnce(in)
	if !complete {
		// a session that had to be served missed a deadline (loaded machine): once more, on a fresh server
		out, _ = c15RunRoleResumeOnce(in)
	}
	return out
}

func c15RunRoleResumeOnce(in []string) (out string, complete bool) {
	defer func() {
		if r := recover(); r != nil {
			out, complete = fmt.Sprintf("panic:%v", r), true
		}
	}()
	if len(in) < 4 {
		return "harness-error:bad-input", true
	}
	keyset, family, mode := in[0], in[1], in[2]
	if _, ok := c15SeqFamilies[family]; !ok {
		return "harness-error:bad-family", true
	}
	if mode != "seq" && mode != "keep" {
		return "harness-error:bad-mode", true
	}
	srvPKI := c14GetPKI(keyset) // the server's own certificate and the CA the clients trust
	pki := c15SeqGetPKI(keyset)
	var conns []*c15SeqConn
	caches := map[string]*c15ResCache{}     // fresh for every run: the tickets of another server are of no use
	owner := map[string]*tls.Certificate{}  // one cache per client identity
	cacheOf := map[*c15SeqConn]*c15ResCache{}
	for _, tok := range in[3:] {
		f := strings.Split(tok, ";")
		if len(f) != 7 {
			return "harness-error:bad-session-token", true
		}
		member := 0
		if _, err := fmt.Sscanf(f[0], "%d", &member); err != nil || member < 0 || member > 9 {
			return "harness-error:bad-member", true
		}
		lc := pki.leaf(family, member, f[1])
		c := &c15SeqConn{cert: lc.cert, ver: c14Version(f[2]), expect: lc.verifies && (f[2] == "12" || f[2] == "13")}
		for _, r := range strings.Split(f[6], ".") {
			c.reqs = append(c.reqs, unhex(r))
		}
		if id := f[5]; id != "-" {
			if !strings.HasPrefix(id, "c") {
				return "harness-error:bad-cache", true
			}
			if o, ok := owner[id]; ok && o != lc.cert {
				return "harness-error:cache-shared-between-identities", true
			}
			owner[id] = lc.cert
			if caches[id] == nil {
				caches[id] = newC15ResCache()
			}
			cacheOf[c] = caches[id]
		}
		conns = append(conns, c)
	}
	if len(conns) > 200 {
		return "harness-error:too-many-sessions", true
	}

	h := &c14RoleHandler{}
	srv, err := modbus.NewServer(&modbus.ServerConfiguration{
		URL:           "tcp+tls://127.0.0.1:0",
		TLSServerCert: srvPKI.srvValid,
		TLSClientCAs:  pki.pool,
		MaxClients:    uint(len(conns) + 2),
		Timeout:       60 * time.Second,
		Logger:        quiet,
	}, h)
	if err != nil {
		return "harness-error:newserver:" + err.Error(), true
	}
	if err = srv.Start(); err != nil {
		return "harness-error:start:" + err.Error(), true
	}
	defer srv.Stop()
	addr := srv.VerifListenAddr()
	if addr == nil {
		return "harness-error:no-listener", true
	}

	seen := make([]string, len(conns))
	for i, c := range conns {
		seen[i] = "refused"
		raw, err := net.DialTimeout("tcp", addr.String(), c15SeqTimeout)
		if err != nil {
			continue
		}
		c.raw = raw
		c.local = raw.LocalAddr().String()
		cache := cacheOf[c]
		had := 0
		if cache != nil {
			had = cache.count()
		}
		tc := tls.Client(raw, c15ResClientConf(srvPKI, c.cert, c.ver, cache))
		raw.SetDeadline(time.Now().Add(c15SeqTimeout))
		if tc.Handshake() == nil {
			c.tc = tc
			seen[i] = "full"
			if tc.ConnectionState().DidResume {
				seen[i] = "resumed"
			}
		}
		if cache != nil && cache.count() > had {
			seen[i] += "+ticket"
		}
		for _, q := range c.reqs {
			var w net.Conn = raw // the tunnel is not there: the request goes in the clear
			if c.tc != nil {
				w = c.tc
			}
			w.SetDeadline(time.Now().Add(c15SeqTimeout))
			// reading the response is also what lets a TLS 1.3 client take the
			// ticket the server sent after the handshake
			if _, err := w.Write(q); err == nil && c15SeqReadResponse(w, q) {
				c.resps++
			}
		}
		if mode == "seq" {
			raw.Close()
			waitCount(srv, 0, c15SeqTimeout)
		}
	}
	for _, c := range conns {
		if c.raw != nil {
			c.raw.Close()
		}
	}
	waitCount(srv, 0, c15SeqTimeout)

	h.mu.Lock()
	defer h.mu.Unlock()
	per := make([][]string, len(conns))
	stray := 0
	for _, rec := range h.recs {
		i := int(rec.unit) - 1
		if i < 0 || i >= len(conns) {
			stray++
			continue
		}
		r := hx([]byte(rec.role))
		if rec.addr != conns[i].local {
			r = "?" + r // the invocation does not carry the address of the connection the request came from
		}
		per[i] = append(per[i], r)
	}
	complete = true
	var parts []string
	for i, c := range conns {
		roles := "none"
		if len(per[i]) > 0 {
			roles = strings.Join(per[i], "+")
		}
		parts = append(parts, fmt.Sprintf("%s/%d", roles, c.resps))
		if c.expect && (c.resps != len(c.reqs) || len(per[i]) != len(c.reqs)) {
			complete = false
		}
		if len(per[i]) == 0 {
			seen[i] = strings.Replace(seen[i], "full", "refused", 1) // a TLS 1.3 client learns of the refusal after its handshake
		}
	}
	c15ResSeen.Store(strings.Join(in, " "), seen)
	out = strings.Join(parts, ",")
	if stray > 0 {
		out += fmt.Sprintf(",stray=%d", stray)
	}
	return out, complete
}

// ------------------------------------------------------------ control

func c15RunRoleResumeCtl(in []string) string {
	out := c15RunRoleResumeCtlOnce(in)
	if out != "ok" && !strings.HasPrefix(out, "harness-error:bad") {
		out = c15RunRoleResumeCtlOnce(in) // loaded machine: once more
	}
	return out
}

func c15RunRoleResumeCtlOnce(in []string) (out string) {
	defer func() {
		if r := recover(); r != nil {
			out = fmt.Sprintf("panic:%v", r)
		}
	}()
	if len(in) != 2 || (in[1] != "12" && in[1] != "13") {
		return "harness-error:bad-input"
	}
	srvPKI := c14GetPKI(in[0])
	pki := c15SeqGetPKI(in[0])
	ver := c14Version(in[1])
	certA := pki.leaf("k", 0, extTok("r", derUTF8([]byte("operator")))).cert
	certB := pki.leaf("k", 1, extTok("r", derUTF8([]byte("viewer")))).cert
	// the connections, in order: who connects, and whether crypto/tls is expected to resume
	type step struct {
		cert   *tls.Certificate
		cache  *c15ResCache
		resume bool
	}
	ca, cb := newC15ResCache(), newC15ResCache()
	steps := []step{{certA, ca, false}, {certA, ca, true}, {certB, cb, false}, {certA, ca, true}, {certB, cb, true}, {certA, nil, false}}

	inner, err := net.Listen("tcp", "127.0.0.1:0")
	if err != nil {
		return "harness-error:listen:" + err.Error()
	}
	defer inner.Close()
	inner.(*net.TCPListener).SetDeadline(time.Now().Add(time.Duration(len(steps)+2) * c15SeqTimeout))
	// ONE configuration for all the connections: the server accepts the tickets it issued
	sconf := &tls.Config{Certificates: []tls.Certificate{*srvPKI.srvValid}, ClientAuth: tls.RequireAndVerifyClientCert,
		ClientCAs: pki.pool, MinVersion: tls.VersionTLS12}
	type view struct {
		ok, resumed bool
		leaf        []byte
	}
	views := make(chan view, len(steps))
	go func() {
		for range steps {
			c, err := inner.Accept()
			if err != nil {
				views <- view{}
				continue
			}
			func() {
				defer c.Close()
				ts := tls.Server(c, sconf)
				c.SetDeadline(time.Now().Add(c15SeqTimeout))
				if ts.Handshake() != nil {
					views <- view{}
					return
				}
				st := ts.ConnectionState()
				v := view{ok: true, resumed: st.DidResume}
				if len(st.PeerCertificates) > 0 {
					v.leaf = st.PeerCertificates[0].Raw
				}
				// one exchange, so that a TLS 1.3 client reads (and with that takes its ticket)
				b := make([]byte, 1)
				if _, err := ts.Read(b); err != nil {
					v.ok = false
				}
				ts.Write([]byte{0x2a})
				views <- v
				ts.Read(b) // until the client closes
			}()
		}
	}()
	for i, s := range steps {
		raw, err := net.DialTimeout("tcp", inner.Addr().String(), c15SeqTimeout)
		if err != nil {
			return fmt.Sprintf("fail:%d:dial", i)
		}
		raw.SetDeadline(time.Now().Add(c15SeqTimeout))
		tc := tls.Client(raw, c15ResClientConf(srvPKI, s.cert, ver, s.cache))
		if err := tc.Handshake(); err != nil {
			raw.Close()
			return fmt.Sprintf("fail:%d:handshake", i)
		}
		resumed := tc.ConnectionState().DidResume
		b := make([]byte, 1)
		if _, err := tc.Write([]byte{1}); err != nil {
			raw.Close()
			return fmt.Sprintf("fail:%d:write", i)
		}
		if _, err := tc.Read(b); err != nil || b[0] != 0x2a {
			raw.Close()
			return fmt.Sprintf("fail:%d:read", i)
		}
		raw.Close()
		var v view
		select {
		case v = <-views:
		case <-time.After(2 * c15SeqTimeout):
			return fmt.Sprintf("fail:%d:server-silent", i)
		}
		switch {
		case !v.ok:
			return fmt.Sprintf("fail:%d:server-handshake", i)
		case resumed != s.resume || v.resumed != s.resume:
			return fmt.Sprintf("fail:%d:resumed-client=%v-server=%v-expected=%v", i, resumed, v.resumed, s.resume)
		case !bytes.Equal(v.leaf, s.cert.Certificate[0]):
			return fmt.Sprintf("fail:%d:peer-certificate-is-not-the-leaf-of-this-client", i)
		}
	}
	return "ok"
}

// ------------------------------------------------------------ generator

// one connection of a case: which client (0 = A, 1 = B, 2 = C), which version, with its cache or without
type c15ResStep struct {
	who     int
	ver     string
	nocache bool
}

func c15ResSteps(s string) []c15ResStep {
	var l []c15ResStep
	for _, t := range strings.Fields(s) {
		st := c15ResStep{who: int(t[0] - 'A'), ver: t[1:3]}
		st.nocache = strings.HasSuffix(t, "n")
		l = append(l, st)
	}
	return l
}

func scnC15RoleResume(o *Out, r *Rng, thorough bool) {
	keysets := []string{"ec"}
	nRandom := 4
	if thorough {
		keysets = []string{"ec", "rsa"}
		nRandom = 40
	}
	var ctl []string
	for _, ks := range keysets {
		ctl = append(ctl, ks+" 12", ks+" 13")
	}
	for i, out := range o.RunMany("tlsroleresumectl", ctl) {
		o.Stat("tlsroleresumectl:" + strings.Fields(ctl[i])[1] + ":" + strings.SplitN(out, ":", 2)[0])
	}

	// who connects when: the same client again and again, two and three clients
	// taking turns, a client that changes the version, clients without a cache
	structured := []string{
		"A12 A12 A12",
		"A13 A13 A13 A13",
		"A12 B12 A12 B12",
		"A13 B13 A13 B13 A13",
		"A13 A13 A12 A12 A13 A13",
		"A12 B13 A12 C12 B13 A12",
		"A13 A13n A13 B12 B12n B12",
		"B13 A12 B13 A12 C13 C13",
	}
	// the role extension of clients A, B, C (classes of c91_c15_roleseq.go)
	assign := [][3]string{
		{"r1", "none", "r2"},
		{"r1", "r2", "strtype"},
		{"r2", "r1", "trailing"},
		{"r1", "badlen", "other"},
		{"r1", "dup", "none"},
		{"none", "r1", "r2"},
		{"r1", "r1", "r2"},
		{"strtype", "r2", "r1"},
		{"trailing", "r1", "badlen"},
		{"other", "r2", "r1"},
	}
	var ins []string
	var descr [][]string
	nth := 0
	for _, ks := range keysets {
		pki := c15SeqGetPKI(ks)
		for _, fam := range c15SeqFamOrder {
			var seqs [][]c15ResStep
			var classes [][3]string
			for _, s := range structured {
				seqs = append(seqs, c15ResSteps(s))
				classes = append(classes, assign[nth%len(assign)])
				nth++
			}
			for i := 0; i < nRandom; i++ {
				s := make([]c15ResStep, 3+r.Intn(4))
				nwho := 1 + r.Intn(3)
				v0 := itoa(r.Pick(12, 13))
				for j := range s {
					s[j] = c15ResStep{who: r.Intn(nwho), ver: v0, nocache: r.Intn(8) == 0}
					if r.Intn(4) == 0 {
						s[j].ver = itoa(r.Pick(12, 13))
					}
					if r.Intn(24) == 0 {
						s[j].ver = "11" // an old version: this session is refused, the later ones are not affected
					}
				}
				seqs = append(seqs, s)
				var cl [3]string
				for j := range cl {
					cl[j] = c15SeqClasses[r.Intn(len(c15SeqClasses))]
				}
				classes = append(classes, cl)
			}
			for n, steps := range seqs {
				v := newC15SeqVariants(r)
				mode := "seq"
				if r.Intn(3) == 0 {
					mode = "keep"
				}
				var exts [3]string
				for j := range exts {
					exts[j] = v.exts(classes[n][j])
				}
				toks := []string{ks, fam, mode}
				d := []string{fam, mode}
				for i, st := range steps {
					lc := pki.leaf(fam, st.who, exts[st.who])
					cache := "c" + itoa(st.who)
					if st.nocache {
						cache = "-"
					}
					var reqs []string
					for k := 1 + r.Intn(3); k > 0; k-- {
						q := c14Request(r)
						q[6] = byte(i + 1) // the unit id names the session
						reqs = append(reqs, hx(q))
					}
					toks = append(toks, strings.Join([]string{itoa(st.who), exts[st.who], st.ver, b01(lc.verifies), lc.exts, cache, strings.Join(reqs, ".")}, ";"))
					d = append(d, classes[n][st.who])
				}
				ins = append(ins, strings.Join(toks, " "))
				descr = append(descr, d)
			}
		}
	}
	for i, out := range o.RunMany("tlsroleresume", ins) {
		d := descr[i]
		o.Stat("tlsroleresume:family=" + d[0] + ":" + d[1] + ":sessions=" + itoa(len(d)-2))
		var seen []string
		if v, ok := c15ResSeen.Load(ins[i]); ok {
			seen = v.([]string)
		}
		resumed := 0
		for j, s := range strings.Split(out, ",") {
			tlsView := "unknown"
			if j < len(seen) {
				tlsView = seen[j]
			}
			if strings.HasPrefix(tlsView, "resumed") {
				resumed++
			}
			o.Stat("tlsroleresume:session:tls=" + tlsView)
			cl := "?"
			if j+2 < len(d) {
				cl = d[j+2]
			}
			switch {
			case strings.HasPrefix(s, "none/"):
				o.Stat("tlsroleresume:session:" + cl + ":refused")
			case strings.HasPrefix(s, "-/") || strings.HasPrefix(s, "-+"):
				o.Stat("tlsroleresume:session:" + cl + ":empty-role")
			default:
				o.Stat("tlsroleresume:session:" + cl + ":role")
			}
		}
		if resumed > 0 {
			o.Stat("tlsroleresume:case:with-resumed-sessions")
		} else {
			o.Stat("tlsroleresume:case:no-resumed-session")
		}
	}
}

func init() {
	register("C15", scnC15RoleResume)
	executors["tlsroleresume"] = c15RunRoleResume
	executors["tlsroleresumectl"] = c15RunRoleResumeCtl
}
