package main

import (
	"crypto/tls"
	"net"
	"os"
	"strings"
	"sync"
	"syscall"
	"time"

	"github.com/simonvetter/modbus"
)

func init() { register("C01", scnClientTx) }

// C01: what the client transmits for every kind of call and argument class.
// The peer stays silent (virtual stall) so that every accepted call ends in a
// timeout after exactly one frame; both framings.
func scnClientTx(o *Out, r *Rng, thorough bool) {
	n := 6000
	if thorough {
		n = 200000
	}
	var ins []string
	for i := 0; i < n; i++ {
		unit, e, w := randCfg(r)
		fr := "m"
		if r.Intn(3) == 0 {
			fr = "r"
		}
		cls := opAny
		if r.Intn(5) < 2 {
			cls = opValid
		}
		op := randOp(r, cls)
		ins = append(ins, strings.Join(append([]string{fr, hxi(unit), itoa(e), itoa(w), "s", "-"}, op...), " "))
		o.Stat("op:" + op[0])
	}
	// complete sweep of the 16-bit multiplication cases: every quantity that
	// wraps for the multi-register reads
	for _, name := range []string{"ReadUint32s", "ReadFloat32s", "ReadUint64s", "ReadFloat64s"} {
		step := 97
		if thorough {
			step = 1
		}
		for q := 0; q < 65536; q += step {
			ins = append(ins, "m 1 1 1 s - "+name+" 0 "+hxi(q)+" 0")
		}
		for _, q := range []int{16383, 16384, 16385, 32767, 32768, 32769, 49152, 65535} {
			ins = append(ins, "m 1 1 1 s - "+name+" 0 "+hxi(q)+" 0")
		}
	}
	// "exactly one request frame" whatever comes back: valid replies, replies with
	// a wrong CRC, exceptions, replies from another unit, stale / foreign MBAP frames
	nr := 400
	if thorough {
		nr = 8000
	}
	for i := 0; i < nr; i++ {
		unit, e, w := randCfg(r)
		fr := "m"
		if i%2 == 0 {
			fr = "r"
		}
		op := randOp(r, opValid)
		fc, payload, ok := buildReply(r, op, e)
		if !ok {
			continue
		}
		p := reply{txn: 1, proto: 0, length: -1, unit: byte(unit), fc: fc, payload: payload}
		kind := r.Intn(5)
		switch kind {
		case 1:
			p.badCRC = 1 + r.Intn(3)
			p.txn = uint16(2 + r.Intn(60000))
		case 2:
			p.fc |= 0x80
			p.payload = []byte{byte(1 + r.Intn(11))}
		case 3:
			p.unit ^= byte(1 + r.Intn(254))
		case 4:
			p.proto = uint16(1 + r.Intn(65535))
		}
		end := []string{"s", "c", "r"}[r.Intn(3)]
		ins = append(ins, clientCase(fr, unit, e, w, end, [][]byte{p.bytes(fr, r)}, op))
		o.Stat("peer:" + []string{"valid", "badcrc-or-stale", "exception", "other-unit", "foreign-proto"}[kind])
	}
	outs := o.RunMany("cc", ins)
	for _, out := range outs {
		if strings.HasPrefix(out, "err:params") {
			o.Stat("res:params")
		} else {
			o.Stat("res:sent")
		}
	}
}

// ------------------------------------------------------------------ all six transports
//
// txreal: scheme unit e w op... -> "<socket kind> <first bytes the peer saw | none> <result>"
// The client is built by NewClient + the real Open() for tcp, udp, tcp+tls,
// rtu (on a pty), rtuovertcp, rtuoverudp; the loopback peer never answers.

func init() {
	executors["txreal"] = c01TxReal
	register("C01", scnTxReal)
}

func c01TxReal(in []string) (out string) {
	defer func() {
		if r := recover(); r != nil {
			out = "panic"
		}
	}()
	scheme := in[0]
	cert, pool := c16Creds()
	conf := &modbus.ClientConfiguration{Timeout: 120 * time.Millisecond, Logger: quiet,
		TLSClientCert: cert, TLSRootCAs: pool, Speed: 115200}

	// the peer collects everything it receives until it is told to stop; the
	// verdict is taken after the client call has returned (the request is
	// written before the client starts waiting), so machine load cannot make
	// the peer miss a transmitted frame
	var mu sync.Mutex
	var got []byte
	kindSeen := ""
	stop := make(chan struct{})
	stopped := func() bool {
		select {
		case <-stop:
			return true
		default:
			return false
		}
	}
	collect := func(kind string, b []byte) {
		mu.Lock()
		kindSeen = kind
		got = append(got, b...)
		mu.Unlock()
	}
	var cleanup []func()
	defer func() {
		close(stop)
		for _, f := range cleanup {
			f()
		}
	}()
	tl, err := net.Listen("tcp", "127.0.0.1:0")
	if err != nil {
		return "harness-error:" + err.Error()
	}
	cleanup = append(cleanup, func() { tl.Close() })
	go func() {
		c, err := tl.Accept()
		if err != nil {
			return
		}
		defer c.Close()
		readLoop := func(rd net.Conn, kind string, pre []byte) {
			if len(pre) > 0 {
				collect(kind, pre)
			}
			buf := make([]byte, 4096)
			for !stopped() {
				rd.SetReadDeadline(time.Now().Add(20 * time.Millisecond))
				n, err := rd.Read(buf)
				if n > 0 {
					collect(kind, buf[:n])
				}
				if err != nil && !os.IsTimeout(err) {
					return
				}
			}
		}
		// first bytes decide: TLS handshake record or plain bytes
		var first []byte
		buf := make([]byte, 4096)
		for len(first) == 0 && !stopped() {
			c.SetReadDeadline(time.Now().Add(20 * time.Millisecond))
			n, err := c.Read(buf)
			first = append(first, buf[:n]...)
			if err != nil && !os.IsTimeout(err) {
				return
			}
		}
		if len(first) >= 3 && first[0] == 0x16 && first[1] == 0x03 {
			ts := tls.Server(&c16Replay{Conn: c, pre: first}, &tls.Config{
				Certificates: []tls.Certificate{*cert}, ClientAuth: tls.RequireAnyClientCert,
				MinVersion: tls.VersionTLS12})
			c.SetDeadline(time.Now().Add(5 * time.Second))
			if err := ts.Handshake(); err != nil {
				collect("tls-handshake-failed", nil)
				return
			}
			c.SetDeadline(time.Time{})
			readLoop(ts, "tls", nil)
			return
		}
		readLoop(c, "tcp", first)
	}()
	var target string
	switch {
	case scheme == "rtu":
		master, slave, err := c16OpenPty()
		if err != nil {
			return "skipped:pty"
		}
		cleanup = append(cleanup, func() { master.Close() })
		target = slave
		fd := int(master.Fd()) // (Fd() switches the descriptor to blocking mode: call it once)
		syscall.SetNonblock(fd, true)
		go func() {
			buf := make([]byte, 512)
			for !stopped() {
				n, err := syscall.Read(fd, buf)
				if n > 0 {
					collect("serial", buf[:n])
				} else if err != nil && err != syscall.EAGAIN && err != syscall.EIO {
					return
				}
				time.Sleep(2 * time.Millisecond)
			}
		}()
	case strings.Contains(scheme, "udp"):
		pc, err := net.ListenPacket("udp", "127.0.0.1:0")
		if err != nil {
			return "harness-error:" + err.Error()
		}
		cleanup = append(cleanup, func() { pc.Close() })
		target = pc.LocalAddr().String()
		go func() {
			buf := make([]byte, 4096)
			for !stopped() {
				pc.SetReadDeadline(time.Now().Add(20 * time.Millisecond))
				n, _, err := pc.ReadFrom(buf)
				if n > 0 {
					collect("udp", buf[:n])
				}
				if err != nil && !os.IsTimeout(err) {
					return
				}
			}
		}()
	default:
		target = tl.Addr().String()
	}
	conf.URL = scheme + "://" + target
	mc, err := modbus.NewClient(conf)
	if err != nil {
		return "err:" + errClass(err)
	}
	if err = mc.Open(); err != nil {
		return "open-error"
	}
	defer mc.Close()
	mc.SetUnitId(uint8(unhx(in[1])))
	mc.SetEncoding(modbus.Endianness(atoi(in[2])), modbus.WordOrder(atoi(in[3])))
	// "the configured byte/word order" is the last ACCEPTED configuration: selector
	// pairs that must be refused (each carries the other valid value of one
	// selector and an invalid value of the other) leave it as it is
	if e1 := mc.SetEncoding(modbus.Endianness(3-atoi(in[2])), modbus.WordOrder(0)); e1 == nil {
		return "harness-error:bad-selector-accepted"
	}
	if e2 := mc.SetEncoding(modbus.Endianness(7), modbus.WordOrder(3-atoi(in[3]))); e2 == nil {
		return "harness-error:bad-selector-accepted"
	}
	r := callOp(mc, in[4:])
	// C01 is about what is transmitted: the result is projected to rejected-locally / sent
	if r == "err:params" {
		r = "params"
	} else if r != "panic" {
		r = "sent"
	}
	kind := map[string]string{"tcp": "tcp", "rtuovertcp": "tcp", "tcp+tls": "tls", "udp": "udp", "rtuoverudp": "udp", "rtu": "serial"}[scheme]
	// let the bytes written by the call reach the peer: poll until something has
	// arrived and the line has been quiet for a while (nothing must arrive for a rejected call)
	deadline := time.Now().Add(3 * time.Second)
	if r == "params" {
		deadline = time.Now().Add(250 * time.Millisecond)
	}
	last, lastChange := -1, time.Now()
	for time.Now().Before(deadline) {
		mu.Lock()
		n := len(got)
		mu.Unlock()
		if n != last {
			last, lastChange = n, time.Now()
		}
		if n > 0 && time.Since(lastChange) > 80*time.Millisecond {
			break
		}
		time.Sleep(5 * time.Millisecond)
	}
	mu.Lock()
	defer mu.Unlock()
	if kindSeen == "tls-handshake-failed" {
		return "tls-handshake-failed none " + r
	}
	if len(got) == 0 {
		return kind + " none " + r
	}
	return kindSeen + " " + hx(got) + " " + r
}

func scnTxReal(o *Out, r *Rng, thorough bool) {
	n := 8
	if thorough {
		n = 150
	}
	var ins []string
	for _, scheme := range []string{"tcp", "udp", "tcp+tls", "rtuovertcp", "rtuoverudp", "rtu"} {
		if scheme == "rtu" && !c16PtyAvailable() {
			o.Stat("txreal:pty-unavailable")
			continue
		}
		for i := 0; i < n; i++ {
			unit, e, w := randCfg(r)
			cls := opValid
			if i%4 == 3 {
				cls = opAny
			}
			op := randOp(r, cls)
			// keep transmitted frames within one datagram / pty buffer
			ins = append(ins, strings.Join(append([]string{scheme, hxi(unit), itoa(e), itoa(w)}, op...), " "))
			o.Stat("txreal:" + scheme)
		}
	}
	o.RunMany("txreal", ins)
}
