package main

import (
	"crypto/tls"
	"net"
	"strings"
	"syscall"
	"time"

	"github.com/simonvetter/modbus"
)

func init() { register("C01", scnClientTx) }

// C01: what the client transmits for every kind of call and argument class.
// The peer stays silent (virtual stall) so that every accepted call ends in a
// timeout after exactly one frame; both framings.
func scnClientTx(o *Out, r *Rng, thorough bool) {
	n := 6000
	if thorough {
		n = 200000
	}
	var ins []string
	for i := 0; i < n; i++ {
		unit, e, w := randCfg(r)
		fr := "m"
		if r.Intn(3) == 0 {
			fr = "r"
		}
		cls := opAny
		if r.Intn(5) < 2 {
			cls = opValid
		}
		op := randOp(r, cls)
		ins = append(ins, strings.Join(append([]string{fr, hxi(unit), itoa(e), itoa(w), "s", "-"}, op...), " "))
		o.Stat("op:" + op[0])
	}
	// complete sweep of the 16-bit multiplication cases: every quantity that
	// wraps for the multi-register reads
	for _, name := range []string{"ReadUint32s", "ReadFloat32s", "ReadUint64s", "ReadFloat64s"} {
		step := 97
		if thorough {
			step = 1
		}
		for q := 0; q < 65536; q += step {
			ins = append(ins, "m 1 1 1 s - "+name+" 0 "+hxi(q)+" 0")
		}
		for _, q := range []int{16383, 16384, 16385, 32767, 32768, 32769, 49152, 65535} {
			ins = append(ins, "m 1 1 1 s - "+name+" 0 "+hxi(q)+" 0")
		}
	}
	outs := o.RunMany("cc", ins)
	for _, out := range outs {
		if strings.HasPrefix(out, "err:params") {
			o.Stat("res:params")
		} else {
			o.Stat("res:sent")
		}
	}
}

// ------------------------------------------------------------------ all six transports
//
// txreal: scheme unit e w op... -> "<socket kind> <first bytes the peer saw | none> <result>"
// The client is built by NewClient + the real Open() for tcp, udp, tcp+tls,
// rtu (on a pty), rtuovertcp, rtuoverudp; the loopback peer never answers.

func init() {
	executors["txreal"] = c01TxReal
	register("C01", scnTxReal)
}

func c01TxReal(in []string) (out string) {
	defer func() {
		if r := recover(); r != nil {
			out = "panic"
		}
	}()
	scheme := in[0]
	cert, pool := c16Creds()
	conf := &modbus.ClientConfiguration{Timeout: 120 * time.Millisecond, Logger: quiet,
		TLSClientCert: cert, TLSRootCAs: pool, Speed: 115200}

	type seen struct {
		kind string
		data []byte
	}
	res := make(chan seen, 4)
	var cleanup []func()
	defer func() {
		for _, f := range cleanup {
			f()
		}
	}()
	tl, err := net.Listen("tcp", "127.0.0.1:0")
	if err != nil {
		return "harness-error:" + err.Error()
	}
	cleanup = append(cleanup, func() { tl.Close() })
	go func() {
		c, err := tl.Accept()
		if err != nil {
			return
		}
		defer c.Close()
		first := c16ReadBurst(c, 1500*time.Millisecond)
		if len(first) >= 3 && first[0] == 0x16 && first[1] == 0x03 {
			ts := tls.Server(&c16Replay{Conn: c, pre: first}, &tls.Config{
				Certificates: []tls.Certificate{*cert}, ClientAuth: tls.RequireAnyClientCert,
				MinVersion: tls.VersionTLS12})
			c.SetDeadline(time.Now().Add(3 * time.Second))
			if err := ts.Handshake(); err != nil {
				res <- seen{"tls-handshake-failed", nil}
				return
			}
			c.SetDeadline(time.Time{})
			res <- seen{"tls", c16ReadBurst(ts, 1500*time.Millisecond)}
			return
		}
		res <- seen{"tcp", first}
	}()
	var target string
	switch {
	case scheme == "rtu":
		master, slave, err := c16OpenPty()
		if err != nil {
			return "skipped:pty"
		}
		cleanup = append(cleanup, func() { master.Close() })
		target = slave
		go func() {
			var got []byte
			buf := make([]byte, 512)
			deadline := time.Now().Add(1500 * time.Millisecond)
			fd := int(master.Fd())
			syscall.SetNonblock(fd, true)
			quietSince := time.Time{}
			for time.Now().Before(deadline) {
				n, err := syscall.Read(fd, buf)
				if n > 0 {
					got = append(got, buf[:n]...)
					quietSince = time.Now()
				} else if err != nil && err != syscall.EAGAIN && err != syscall.EIO {
					break
				}
				if len(got) > 0 && time.Since(quietSince) > 60*time.Millisecond {
					break
				}
				time.Sleep(2 * time.Millisecond)
			}
			res <- seen{"serial", got}
		}()
	case strings.Contains(scheme, "udp"):
		pc, err := net.ListenPacket("udp", "127.0.0.1:0")
		if err != nil {
			return "harness-error:" + err.Error()
		}
		cleanup = append(cleanup, func() { pc.Close() })
		target = pc.LocalAddr().String()
		go func() {
			buf := make([]byte, 4096)
			pc.SetReadDeadline(time.Now().Add(1500 * time.Millisecond))
			n, _, err := pc.ReadFrom(buf)
			if err != nil {
				res <- seen{"udp", nil}
				return
			}
			res <- seen{"udp", append([]byte(nil), buf[:n]...)}
		}()
	default:
		target = tl.Addr().String()
	}
	conf.URL = scheme + "://" + target
	mc, err := modbus.NewClient(conf)
	if err != nil {
		return "err:" + errClass(err)
	}
	if err = mc.Open(); err != nil {
		return "open-error"
	}
	defer mc.Close()
	mc.SetUnitId(uint8(unhx(in[1])))
	mc.SetEncoding(modbus.Endianness(atoi(in[2])), modbus.WordOrder(atoi(in[3])))
	r := callOp(mc, in[4:])
	wait := 2 * time.Second
	if r == "err:params" {
		wait = 250 * time.Millisecond // nothing must arrive
	}
	// C01 is about what is transmitted: the result is projected to rejected-locally / sent
	if r == "err:params" {
		r = "params"
	} else if r != "panic" {
		r = "sent"
	}
	kind := map[string]string{"tcp": "tcp", "rtuovertcp": "tcp", "tcp+tls": "tls", "udp": "udp", "rtuoverudp": "udp", "rtu": "serial"}[scheme]
	select {
	case s := <-res:
		if len(s.data) == 0 {
			return s.kind + " none " + r
		}
		return s.kind + " " + hx(s.data) + " " + r
	case <-time.After(wait):
		return kind + " none " + r
	}
}

func scnTxReal(o *Out, r *Rng, thorough bool) {
	n := 8
	if thorough {
		n = 150
	}
	var ins []string
	for _, scheme := range []string{"tcp", "udp", "tcp+tls", "rtuovertcp", "rtuoverudp", "rtu"} {
		if scheme == "rtu" && !c16PtyAvailable() {
			o.Stat("txreal:pty-unavailable")
			continue
		}
		for i := 0; i < n; i++ {
			unit, e, w := randCfg(r)
			cls := opValid
			if i%4 == 3 {
				cls = opAny
			}
			op := randOp(r, cls)
			// keep transmitted frames within one datagram / pty buffer
			ins = append(ins, strings.Join(append([]string{scheme, hxi(unit), itoa(e), itoa(w)}, op...), " "))
			o.Stat("txreal:" + scheme)
		}
	}
	o.RunMany("txreal", ins)
}
