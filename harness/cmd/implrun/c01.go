package main

import "strings"

func init() { register("C01", scnClientTx) }

// C01: what the client transmits for every kind of call and argument class.
// The peer stays silent (virtual stall) so that every accepted call ends in a
// timeout after exactly one frame; both framings.
func scnClientTx(o *Out, r *Rng, thorough bool) {
	n := 6000
	if thorough {
		n = 200000
	}
	var ins []string
	for i := 0; i < n; i++ {
		unit, e, w := randCfg(r)
		fr := "m"
		if r.Intn(3) == 0 {
			fr = "r"
		}
		cls := opAny
		if r.Intn(5) < 2 {
			cls = opValid
		}
		op := randOp(r, cls)
		ins = append(ins, strings.Join(append([]string{fr, hxi(unit), itoa(e), itoa(w), "s", "-"}, op...), " "))
		o.Stat("op:" + op[0])
	}
	// complete sweep of the 16-bit multiplication cases: every quantity that
	// wraps for the multi-register reads
	for _, name := range []string{"ReadUint32s", "ReadFloat32s", "ReadUint64s", "ReadFloat64s"} {
		step := 97
		if thorough {
			step = 1
		}
		for q := 0; q < 65536; q += step {
			ins = append(ins, "m 1 1 1 s - "+name+" 0 "+hxi(q)+" 0")
		}
		for _, q := range []int{16383, 16384, 16385, 32767, 32768, 32769, 49152, 65535} {
			ins = append(ins, "m 1 1 1 s - "+name+" 0 "+hxi(q)+" 0")
		}
	}
	outs := o.RunMany("cc", ins)
	for _, out := range outs {
		if strings.HasPrefix(out, "err:params") {
			o.Stat("res:params")
		} else {
			o.Stat("res:sent")
		}
	}
}
