package main

// The TLS scenarios of c14b.go whose observable belongs to another property
// run under that property as well (same generators, same executors):
//   tlschainrole under C15 (the role is the LEAF's, whatever else the client presents),
//   tlsroles     under C11 (every invocation carries the role of ITS connection).
// This file sorts after c11*.go / c15.go on purpose: the registrations are
// appended, the random streams of the existing generators keep their indices.

func init() {
	register("C15", scnC14ChainRole)
	register("C11", scnC14Roles)
}
