package main

import (
	"fmt"
	"net"
	"os"
	"runtime/debug"
	"strings"
	"time"

	"github.com/simonvetter/modbus"
)

// C10, scenario "lifeblock": lifecycle traces in which the listen step of
// Start can FAIL. The server is bound to a fixed address (not port 0, so that
// "the same address" means something across Stop/Start); while the server is
// stopped the harness occupies that address with a foreign listener (K) and
// releases it (U). A Start that cannot bind must fail cleanly: error returned,
// server left stopped (not started, no accept goroutine), Stop afterwards a
// harmless no-op, and Start serves again once the address is free.
//
//	in:  maxc op...      ops: S P K U C<i> T<i> E R<i> D<i>
//	out: one token per op (model: ocaml/scn_lifeblock.ml over Model/Lifeblock.v)

func init() {
	register("C10", scnLifeblock)
	executors["lifeblock"] = runLifeblock
}

// ephemeralRange: the local port range the kernel draws from for outgoing
// connections and port-0 binds; a fixed address for the server is chosen
// outside of it so that no other socket of the machine lands on it by chance
func ephemeralRange() (int, int) {
	lo, hi := 32768, 60999
	if b, err := os.ReadFile("/proc/sys/net/ipv4/ip_local_port_range"); err == nil {
		var a, z int
		if n, _ := fmt.Sscan(string(b), &a, &z); n == 2 && a > 0 && z >= a {
			lo, hi = a, z
		}
	}
	return lo, hi
}

var fixedAddrState uint32

// fixedAddr finds a loopback address that is free right now and outside the
// ephemeral range. (Which port is used is not part of the case: it plays the
// role the kernel's choice plays for port 0.)
func fixedAddr() (string, error) {
	lo, hi := ephemeralRange()
	if fixedAddrState == 0 {
		fixedAddrState = uint32(os.Getpid())*2654435761 + uint32(time.Now().UnixNano())
	}
	for try := 0; try < 4000; try++ {
		fixedAddrState = fixedAddrState*1664525 + 1013904223
		p := 10000 + int(fixedAddrState>>8)%50000
		if p >= lo && p <= hi && try < 3000 {
			continue
		}
		a := fmt.Sprintf("127.0.0.1:%d", p)
		l, err := net.Listen("tcp", a)
		if err != nil {
			continue
		}
		l.Close()
		return a, nil
	}
	return "", fmt.Errorf("no free fixed port")
}

func runLifeblock(in []string) string {
	steerMu.Lock()
	defer steerMu.Unlock()
	st := newSteer()
	modbus.VerifSetYield(st.yield)
	defer modbus.VerifSetYield(nil)
	// see runSlots: keep finalizers from closing sockets behind the server's back
	defer debug.SetGCPercent(debug.SetGCPercent(-1))

	maxc := atoi(in[0])
	addr, err := fixedAddr()
	if err != nil {
		return "harness-error:" + err.Error()
	}
	h := &countHandler{}
	srv, err := modbus.NewServer(&modbus.ServerConfiguration{URL: "tcp://" + addr, MaxClients: uint(maxc),
		Timeout: 30 * time.Second, Logger: quiet}, h)
	if err != nil {
		return "harness-error:" + err.Error()
	}
	// Stop must never panic, whatever happened before; a panic is reported as an
	// observable of its own (the model never produces it)
	stop := func() (res string) {
		defer func() {
			if r := recover(); r != nil {
				res = "panic"
			}
		}()
		if err := srv.Stop(); err != nil {
			return "err:"
		}
		return ""
	}
	var foreign net.Listener
	defer func() {
		stop()
		if foreign != nil {
			foreign.Close()
		}
	}()

	conns := map[int]net.Conn{}
	served := map[int]bool{}
	heldAcc := -1
	var outs []string
	dial := func(i int) bool {
		c, err := net.DialTimeout("tcp", addr, time.Second)
		if err != nil {
			return false
		}
		conns[i] = c
		return true
	}
	for _, op := range in[1:] {
		k := op[0]
		i := 0
		if len(op) > 1 {
			i = atoi(op[1:])
		}
		switch k {
		case 'S':
			res := "ok:"
			if err := srv.Start(); err != nil {
				res = "err:"
			}
			s, _ := snap(srv)
			outs = append(outs, res+s)
		case 'P':
			res := stop()
			if res == "panic" {
				outs = append(outs, res)
				break
			}
			waitCount(srv, 0, 2*time.Second)
			for k := range served {
				delete(served, k)
			}
			s, _ := snap(srv)
			outs = append(outs, res+s)
		case 'K':
			if foreign != nil {
				outs = append(outs, "busy")
				break
			}
			l, err := net.Listen("tcp", addr)
			if err != nil {
				outs = append(outs, "busy")
				break
			}
			foreign = l
			outs = append(outs, "blocked")
		case 'U':
			if foreign != nil {
				foreign.Close()
				foreign = nil
			}
			outs = append(outs, "free")
		case 'C':
			// while the foreign listener holds the address a dial would reach it,
			// not the server; otherwise the dial itself tells whether the server
			// is listening (a stopped server must refuse)
			_, before := snap(srv)
			if foreign != nil || !dial(i) {
				outs = append(outs, "refused")
				break
			}
			waitSig(st.enrolledCh, 2*time.Second)
			s, after := snap(srv)
			if after > before {
				served[i] = true
			}
			outs = append(outs, s)
		case 'T':
			st.mu.Lock()
			st.holdTaken = true
			st.mu.Unlock()
			if foreign != nil || !dial(i) {
				st.mu.Lock()
				st.holdTaken = false
				st.mu.Unlock()
				outs = append(outs, "refused")
				break
			}
			if !waitSig(st.takenCh, 2*time.Second) {
				return "harness-error:no-taken-yield"
			}
			heldAcc = i
			outs = append(outs, "taken")
		case 'E':
			_, before := snap(srv)
			if heldAcc >= 0 {
				st.releaseAcc <- struct{}{}
				waitSig(st.enrolledCh, 2*time.Second)
			}
			s, after := snap(srv)
			if after > before {
				served[heldAcc] = true
			}
			heldAcc = -1
			outs = append(outs, s)
		case 'R':
			outs = append(outs, probe(conns[i]))
		case 'D':
			_, before := snap(srv)
			if c := conns[i]; c != nil {
				c.Close()
			}
			if served[i] {
				waitSig(st.endedCh, 2*time.Second)
				waitCount(srv, before-1, 2*time.Second)
				delete(served, i)
			}
			delete(conns, i)
			s, _ := snap(srv)
			outs = append(outs, s)
		}
	}
	// release a held accept goroutine so that it can finish
	if heldAcc >= 0 {
		st.releaseAcc <- struct{}{}
	}
	for _, c := range conns {
		c.Close()
	}
	return strings.Join(outs, " ")
}

// genBlockTrace: a random lifecycle trace over Start, Stop, foreign listener
// appears / goes away, connect, held accept, request, disconnect. Starts are
// attempted in every combination of {stopped, started} x {address free,
// occupied}; at most one accept goroutine is held at a time.
func genBlockTrace(r *Rng, n int) (ops []string, failed int) {
	started, blocked, heldAcc := false, false, false
	next := 1
	var open []int
	rm := func(i int) {
		for k := range open {
			if open[k] == i {
				open = append(open[:k], open[k+1:]...)
				return
			}
		}
	}
	start := func() {
		ops = append(ops, "S")
		if !started && blocked {
			failed++
		} else {
			started = true
		}
	}
	if r.Intn(3) > 0 {
		start()
	}
	connect := func() {
		ops = append(ops, "C"+itoa(next))
		if started {
			open = append(open, next)
		}
		next++
	}
	pick := func() (int, bool) {
		if len(open) == 0 {
			return 0, false
		}
		i := open[r.Intn(len(open))]
		return i, !(heldAcc && i == next-1)
	}
	for len(ops) < n {
		x := r.Intn(100)
		if started {
			switch {
			case x < 22 && !heldAcc:
				connect()
			case x < 30 && !heldAcc:
				ops = append(ops, "T"+itoa(next))
				open = append(open, next)
				next++
				heldAcc = true
			case x < 42 && heldAcc:
				ops = append(ops, "E")
				heldAcc = false
			case x < 57:
				if i, ok := pick(); ok {
					ops = append(ops, "R"+itoa(i))
				}
			case x < 67:
				if i, ok := pick(); ok {
					ops = append(ops, "D"+itoa(i))
					rm(i)
				}
			case x < 90:
				ops = append(ops, "P")
				started = false
			case x < 95:
				start() // Start on a started server: no-op, no error
			default:
				ops = append(ops, "K") // the foreign bind itself must fail
			}
			continue
		}
		switch {
		case x < 32:
			start()
		case x < 40:
			ops = append(ops, "P") // Stop on a stopped server (possibly after a failed Start)
		case x < 48 && !heldAcc:
			connect() // a stopped server refuses
		case x < 54:
			if i, ok := pick(); ok {
				ops = append(ops, "R"+itoa(i)) // closed by Stop
			}
		case x < 58:
			if i, ok := pick(); ok {
				ops = append(ops, "D"+itoa(i))
				rm(i)
			}
		case x < 66 && heldAcc:
			ops = append(ops, "E")
			heldAcc = false
		case x < 84 && !blocked:
			ops = append(ops, "K")
			blocked = true
			// the step of interest: Start (and Start again, Stop) while blocked
			for j := r.Intn(3); j > 0; j-- {
				if r.Intn(4) == 0 {
					ops = append(ops, "P")
				} else {
					start()
				}
			}
		case x >= 84 && blocked:
			ops = append(ops, "U")
			blocked = false
			if r.Intn(3) > 0 {
				start()
				if !heldAcc {
					ops = append(ops, "C"+itoa(next), "R"+itoa(next))
					open = append(open, next)
					next++
				}
			}
		}
	}
	if heldAcc {
		ops = append(ops, "E")
	}
	return ops, failed
}

func scnLifeblock(o *Out, r *Rng, thorough bool) {
	n := 22
	if thorough {
		n = 500
	}
	fixed := []string{
		// failed first Start of a server that never listened; Stop; free; serve
		"2 K S P U S C1 R1 P C2",
		// failed restart (twice), Stop twice, free, serve again on the same address
		"2 S C1 R1 P K S S P P U S C2 R2 R1",
		// Start right after the failed Start, without a Stop in between
		"1 S P K S U S C1 R1 C2 D1 C3 R3",
		// a connection accepted during Stop, enrolled while the restart fails
		"2 S T1 P K S E R1 U S C2 R2",
		"2 S T1 P K S U S E R1 C2 R2",
		// the foreign bind fails while the server listens; Start on a started server is a no-op
		"3 S K C1 R1 S P K S U K S U S C2 R2 P",
		"1 K S S S P U S S C1 R1 P P K S U S C2 R2",
	}
	for _, f := range fixed {
		o.Run("lifeblock", f)
	}
	for i := 0; i < n; i++ {
		maxc := 1 + r.Intn(3)
		ops, failed := genBlockTrace(r, 8+r.Intn(16))
		o.Run("lifeblock", itoa(maxc)+" "+strings.Join(ops, " "))
		if failed > 2 {
			failed = 3
		}
		o.Stat("lifeblock:failed-starts:" + itoa(failed))
	}
}
