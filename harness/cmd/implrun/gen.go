package main

import (
	"strings"
)

// independent bit-serial CRC-16/MODBUS used to build device replies
func crcRef(b []byte) (lo, hi byte) {
	s := uint16(0xffff)
	for _, x := range b {
		s ^= uint16(x)
		for i := 0; i < 8; i++ {
			if s&1 == 1 {
				s = s>>1 ^ 0xa001
			} else {
				s >>= 1
			}
		}
	}
	return byte(s), byte(s >> 8)
}

func mbapFrame(txn, proto uint16, length int, unit, fc byte, payload []byte) []byte {
	if length < 0 {
		length = 2 + len(payload)
	}
	f := []byte{byte(txn >> 8), byte(txn), byte(proto >> 8), byte(proto), byte(length >> 8), byte(length), unit, fc}
	return append(f, payload...)
}

func rtuFrame(unit, fc byte, payload []byte) []byte {
	f := append([]byte{unit, fc}, payload...)
	lo, hi := crcRef(f)
	return append(f, lo, hi)
}

var boundaryAddr = []int{0, 1, 2, 0x7fff, 0x8000, 0xff00, 0xfffc, 0xfffd, 0xfffe, 0xffff}

func pickAddr(r *Rng) int {
	if r.Intn(3) == 0 {
		return r.Intn(65536)
	}
	return boundaryAddr[r.Intn(len(boundaryAddr))]
}

// quantity around a limit
func around(r *Rng, lim int) int {
	switch r.Intn(8) {
	case 0:
		return 0
	case 1:
		return 1
	case 2:
		return lim - 1
	case 3:
		return lim
	case 4:
		return lim + 1
	case 5:
		return 65535
	case 6:
		return r.Intn(65536)
	}
	return 1 + r.Intn(lim)
}

func hxi(i int) string { return hxu(uint64(i)) }

func randBits(r *Rng, n int) string {
	if n == 0 {
		return "-"
	}
	var sb strings.Builder
	for i := 0; i < n; i++ {
		if r.Bool() {
			sb.WriteByte('1')
		} else {
			sb.WriteByte('0')
		}
	}
	return sb.String()
}

func randNums(r *Rng, n int, bitsN uint) string {
	if n == 0 {
		return "-"
	}
	p := make([]string, n)
	mask := uint64(1)<<bitsN - 1
	if bitsN == 64 {
		mask = ^uint64(0)
	}
	for i := range p {
		v := r.U64() & mask
		if r.Intn(6) == 0 {
			v = interesting64[r.Intn(len(interesting64))] & mask
		}
		p[i] = hxu(v)
	}
	return strings.Join(p, ",")
}

// opClass: which part of the argument space to draw from
const (
	opAny = iota
	opValid
)

// randOp draws a public client call. With class opValid the arguments are
// within protocol limits (a reply can then be built for it).
func randOp(r *Rng, class int) []string {
	rt := func() string {
		if class == opValid || r.Intn(8) != 0 {
			return itoa(r.Intn(2))
		}
		return itoa(2 + r.Intn(5))
	}
	qty := func(lim int) int {
		if class == opValid {
			switch r.Intn(4) {
			case 0:
				return 1
			case 1:
				return lim
			}
			return 1 + r.Intn(lim)
		}
		return around(r, lim)
	}
	addrFor := func(n int) int {
		a := pickAddr(r)
		if class == opValid && a+n-1 > 0xffff {
			a = 0x10000 - n
			if r.Bool() && a > 0 {
				a = r.Intn(a + 1)
			}
		}
		return a
	}
	// slice lengths incl. >= 65536 (the narrowing cases)
	bigLen := func(lim int, per int) int {
		if class == opValid {
			return qty(lim)
		}
		switch r.Intn(12) {
		case 0:
			return 65536 / per
		case 1:
			return 65536/per + 1
		case 2:
			return 65536/per + lim
		case 3:
			return 65535 / per
		case 4:
			return 65536/per + 1 + r.Intn(lim)
		}
		return around(r, lim) % 70000
	}
	listTok := func(n int, gen func(int) string) string {
		if n > 3000 {
			return "rep:" + itoa(n) + ":" + hxi(r.Intn(2))
		}
		return gen(n)
	}
	switch r.Intn(30) {
	case 0:
		q := qty(2000)
		return []string{"ReadCoils", hxi(addrFor(q)), hxi(q)}
	case 1:
		return []string{"ReadCoil", hxi(pickAddr(r))}
	case 2:
		q := qty(2000)
		return []string{"ReadDiscreteInputs", hxi(addrFor(q)), hxi(q)}
	case 3:
		return []string{"ReadDiscreteInput", hxi(pickAddr(r))}
	case 4:
		q := qty(125)
		return []string{"ReadRegisters", hxi(addrFor(q)), hxi(q), rt()}
	case 5:
		return []string{"ReadRegister", hxi(pickAddr(r)), rt()}
	case 6, 7:
		q := qty(62)
		if class != opValid && r.Intn(4) == 0 {
			q = []int{32767, 32768, 32769, 32770, 32768 + 62, 65535, 63}[r.Intn(7)]
		}
		return []string{[]string{"ReadUint32s", "ReadFloat32s"}[r.Intn(2)], hxi(addrFor(2 * q)), hxi(q), rt()}
	case 8:
		return []string{[]string{"ReadUint32", "ReadFloat32"}[r.Intn(2)], hxi(addrFor(2)), rt()}
	case 9, 10:
		q := qty(31)
		if class != opValid && r.Intn(4) == 0 {
			q = []int{16383, 16384, 16385, 16384 + 31, 32768, 49152, 65535, 32}[r.Intn(8)]
		}
		return []string{[]string{"ReadUint64s", "ReadFloat64s"}[r.Intn(2)], hxi(addrFor(4 * q)), hxi(q), rt()}
	case 11:
		return []string{[]string{"ReadUint64", "ReadFloat64"}[r.Intn(2)], hxi(addrFor(4)), rt()}
	case 12, 13:
		q := qty(250)
		return []string{[]string{"ReadBytes", "ReadRawBytes"}[r.Intn(2)], hxi(addrFor((q + 1) / 2)), hxi(q), rt()}
	case 14:
		return []string{"WriteCoil", hxi(pickAddr(r)), itoa(r.Intn(2))}
	case 15, 16:
		n := bigLen(1968, 1)
		return []string{"WriteCoils", hxi(addrFor(n % 65536)), listTok(n, func(n int) string { return randBits(r, n) })}
	case 17:
		return []string{"WriteRegister", hxi(pickAddr(r)), hxi(r.Intn(65536))}
	case 18, 19:
		n := bigLen(123, 2)
		return []string{"WriteRegisters", hxi(addrFor(n % 65536)), listTok(n, func(n int) string { return randNums(r, n, 16) })}
	case 20, 21:
		n := bigLen(61, 4)
		return []string{[]string{"WriteUint32s", "WriteFloat32s"}[r.Intn(2)], hxi(addrFor(2 * n % 65536)), listTok(n, func(n int) string { return randNums(r, n, 32) })}
	case 22:
		return []string{[]string{"WriteUint32", "WriteFloat32"}[r.Intn(2)], hxi(addrFor(2)), hxu(r.U64() & 0xffffffff)}
	case 23, 24:
		n := bigLen(30, 8)
		return []string{[]string{"WriteUint64s", "WriteFloat64s"}[r.Intn(2)], hxi(addrFor(4 * n % 65536)), listTok(n, func(n int) string { return randNums(r, n, 64) })}
	case 25:
		return []string{[]string{"WriteUint64", "WriteFloat64"}[r.Intn(2)], hxi(addrFor(4)), hxu(r.U64())}
	default:
		n := bigLen(246, 1)
		tok := "-"
		if n > 3000 {
			tok = "rep:" + itoa(n) + ":" + hxi(r.Intn(256))
		} else if n > 0 {
			tok = hx(r.Bytes(n))
		}
		return []string{[]string{"WriteBytes", "WriteRawBytes"}[r.Intn(2)], hxi(addrFor((n + 1) / 2 % 65536)), tok}
	}
}

func randCfg(r *Rng) (unit int, e int, w int) {
	unit = r.Pick(0, 1, 17, 247, 255, r.Intn(256))
	return unit, 1 + r.Intn(2), 1 + r.Intn(2)
}

// replyFor builds the valid reply (fc, payload) a device would send to the
// request, or ok=false when the call is rejected locally (no request).
// Independent of the library: written from the Modbus specification.
func replyFor(r *Rng, t []string) (fc byte, payload []byte, ok bool) {
	a := int(unhx(t[1]))
	be := func(v int) []byte { return []byte{byte(v >> 8), byte(v)} }
	inRange := func(n int) bool { return n >= 1 && a+n-1 <= 0xffff }
	regRead := func(n int, rti int) (byte, []byte, bool) {
		if n < 1 || n > 125 || !inRange(n) || rti > 1 {
			return 0, nil, false
		}
		return byte(3 + rti), append([]byte{byte(2 * n)}, r.Bytes(2*n)...), true
	}
	switch t[0] {
	case "ReadCoils", "ReadDiscreteInputs", "ReadCoil", "ReadDiscreteInput":
		q := 1
		if len(t) == 3 {
			q = int(unhx(t[2]))
		}
		if q < 1 || q > 2000 || !inRange(q) {
			return 0, nil, false
		}
		fc = 1
		if strings.Contains(t[0], "Discrete") {
			fc = 2
		}
		n := (q + 7) / 8
		return fc, append([]byte{byte(n)}, r.Bytes(n)...), true
	case "ReadRegisters":
		return regRead(int(unhx(t[2])), int(unhx(t[3])))
	case "ReadRegister":
		return regRead(1, int(unhx(t[2])))
	case "ReadUint32s", "ReadFloat32s":
		return regRead(2*int(unhx(t[2])), int(unhx(t[3])))
	case "ReadUint32", "ReadFloat32":
		return regRead(2, int(unhx(t[2])))
	case "ReadUint64s", "ReadFloat64s":
		return regRead(4*int(unhx(t[2])), int(unhx(t[3])))
	case "ReadUint64", "ReadFloat64":
		return regRead(4, int(unhx(t[2])))
	case "ReadBytes", "ReadRawBytes":
		q := int(unhx(t[2]))
		return regRead((q+1)/2, int(unhx(t[3])))
	case "WriteCoil":
		v := []byte{0, 0}
		if t[2] == "1" {
			v = []byte{0xff, 0}
		}
		return 5, append(be(a), v...), true
	case "WriteRegister":
		return 6, nil, true // value echo depends on the encoding: filled in by the caller
	case "WriteCoils":
		n := len(boolsTok(t[2]))
		if n < 1 || n > 1968 || !inRange(n) {
			return 0, nil, false
		}
		return 15, append(be(a), be(n)...), true
	case "WriteRegisters", "WriteUint32s", "WriteFloat32s", "WriteUint64s", "WriteFloat64s",
		"WriteUint32", "WriteFloat32", "WriteUint64", "WriteFloat64", "WriteBytes", "WriteRawBytes":
		n := 0
		switch t[0] {
		case "WriteRegisters":
			n = len(numsTok(t[2]))
		case "WriteUint32s", "WriteFloat32s":
			n = 2 * len(numsTok(t[2]))
		case "WriteUint64s", "WriteFloat64s":
			n = 4 * len(numsTok(t[2]))
		case "WriteUint32", "WriteFloat32":
			n = 2
		case "WriteUint64", "WriteFloat64":
			n = 4
		default:
			n = (len(bytesTok(t[2])) + 1) / 2
		}
		if n < 1 || n > 123 || !inRange(n) {
			return 0, nil, false
		}
		return 16, append(be(a), be(n)...), true
	}
	return 0, nil, false
}
