package main

// C19 - RTU timing follows the serial-line specification: "for EVERY baud rate
// the character time is eleven bit times", whatever the character framing of
// the serial port, and "an RTU client never starts transmitting a request
// earlier than that inter-frame delay after the end of the previous frame it
// received".
//
//   silenceframing  speed databits parity stopbits n margin_us
//        -> "ok n=<n> mingap=<ns>" | "err:..." | "hang" | "skipped:..."
//
// A REAL serial client: modbus.NewClient("rtu://<pty slave>") + the real
// Open() (serialPortWrapper, goburrow/serial) with the given line settings
// (databits 7|8, parity 0 none | 1 even | 2 odd, stopbits 0 = left unset | 1 | 2)
// runs n back-to-back ReadRegisters against a fake device on the master side
// of the pseudo terminal. The device answers every request once the client is
// (most probably) blocked in its read: margin_us after the request and the
// client's post-transmit delay are over.
//
// Soundness of the measurement (one-sided, as in execSilence): before[k] is
// read BEFORE reply k is handed to the line, so it is not later than the
// instant the client can have seen the end of that frame; arrive[k+1] is read
// after the device's read returned the first byte of request k+1, so it is not
// earlier than the instant the client started to transmit.
// arrive[k+1] - before[k] over-estimates the silence the client kept: a client
// that waits the inter-frame delay after the frame it received cannot fail,
// whatever the scheduler does. The smallest of the n-1 gaps is printed; the
// model side (ocaml/scn_timingline.ml) compares it with the inter-frame delay
// of the extracted Coq model (Model/TimingLine.v: a function of the speed
// only). The library's own t1/t3.5 are not consulted here.

import (
	"os"
	"strconv"
	"strings"
	"sync"
	"time"

	"github.com/simonvetter/modbus"
)

func init() {
	register("C19", scnSilenceFraming)
	executors["silenceframing"] = execSilenceFraming
}

func execSilenceFraming(in []string) string {
	if len(in) != 6 {
		return "harness-error:bad-input"
	}
	speed, dataBits, parity, stopBits := atoi(in[0]), atoi(in[1]), atoi(in[2]), atoi(in[3])
	n, margin := atoi(in[4]), time.Duration(atoi(in[5]))*time.Microsecond
	if speed <= 0 || n < 2 || n > 16 || margin < 0 {
		return "harness-error:bad-input"
	}
	// the line is busy with the request and the client keeps its post-transmit
	// delay for about this long (figures of the serial-line guide, only used to
	// place the replies; nothing is concluded from them)
	busy := c19Busy(speed)

	master, slave, err := c07OpenPty()
	if err != nil {
		return "skipped:pty"
	}
	defer master.Close()

	mc, err := modbus.NewClient(&modbus.ClientConfiguration{
		URL:      "rtu://" + slave,
		Speed:    uint(speed),
		DataBits: uint(dataBits),
		Parity:   uint(parity),
		StopBits: uint(stopBits),
		Timeout:  3*busy + margin + 3*time.Second,
		Logger:   quiet,
	})
	if err != nil {
		return "err:client:" + errClass(err)
	}
	if err = mc.Open(); err != nil {
		// the serial layer refuses these line settings on this device
		return "skipped:open:" + strings.ReplaceAll(err.Error(), " ", "_")
	}
	// (closed explicitly: Close() waits for a call in progress, which a hung client never ends)
	closeClient := func() { go mc.Close() }
	defer func() { closeClient() }()
	mc.SetUnitId(1)

	var mu sync.Mutex
	arrive := make([]time.Time, 0, n)
	before := make([]time.Time, 0, n)
	stop := make(chan struct{})
	var halt sync.Once
	var dev sync.WaitGroup
	dev.Add(1)
	go func() {
		defer dev.Done()
		buf := make([]byte, 64)
		for k := 0; k < n; k++ {
			got := 0
			var first time.Time
			for got < 8 {
				master.SetReadDeadline(time.Now().Add(100 * time.Millisecond))
				m, err := master.Read(buf[got:])
				now := time.Now()
				if m > 0 && got == 0 {
					first = now
				}
				got += m
				select {
				case <-stop:
					return
				default:
				}
				if err != nil && !os.IsTimeout(err) && m == 0 {
					// EIO: the slave side is closed (or not open any more)
					time.Sleep(2 * time.Millisecond)
				}
			}
			mu.Lock()
			arrive = append(arrive, first)
			mu.Unlock()
			// read-registers request: unit fc addr(2) quantity(2) crc(2)
			q := int(buf[4])<<8 | int(buf[5])
			if got != 8 || q < 1 || q > 125 {
				return
			}
			data := make([]byte, 2*q)
			for i := range data {
				data[i] = byte(k*37 + i*11 + 0x80)
			}
			reply := rtuFrame(buf[0], buf[1], append([]byte{byte(2 * q)}, data...))
			select {
			case <-stop:
				return
			case <-time.After(time.Until(first.Add(busy + margin))):
			}
			t := time.Now()
			mu.Lock()
			before = append(before, t)
			mu.Unlock()
			if _, err := master.Write(reply); err != nil {
				return
			}
		}
	}()
	defer dev.Wait()
	defer halt.Do(func() { close(stop) })

	type res struct{ out string }
	done := make(chan res, 1)
	go func() {
		for k := 0; k < n; k++ {
			q := uint16(1 + k%3)
			vs, err := mc.ReadRegisters(uint16(0x100+k), q, modbus.HOLDING_REGISTER)
			if err != nil {
				done <- res{"err:" + itoa(k) + ":" + errClass(err)}
				return
			}
			if len(vs) != int(q) {
				done <- res{"err:" + itoa(k) + ":len"}
				return
			}
		}
		done <- res{"ok"}
	}()
	// watchdog: only turns a hang into a failing case
	wd := time.NewTimer(time.Duration(n)*(4*busy+2*margin+4*time.Second) + 10*time.Second)
	defer wd.Stop()
	select {
	case r := <-done:
		if r.out != "ok" {
			return r.out
		}
	case <-wd.C:
		halt.Do(func() { close(stop) })
		return "hang"
	}
	halt.Do(func() { close(stop) })
	dev.Wait()
	mc.Close()
	closeClient = func() {}

	mu.Lock()
	defer mu.Unlock()
	if len(arrive) != n || len(before) != n {
		return "err:script:" + itoa(len(arrive)) + ":" + itoa(len(before))
	}
	var minGap time.Duration
	for k := 0; k+1 < n; k++ {
		gap := arrive[k+1].Sub(before[k])
		if k == 0 || gap < minGap {
			minGap = gap
		}
	}
	return "ok n=" + itoa(n) + " mingap=" + strconv.FormatInt(int64(minGap), 10)
}

// ------------------------------------------------------------------ generator

// low speeds: 3.5 characters last 8 .. 257 ms, far above the resolution of the
// measurement; 19200 bps and more (fixed 1750 us) only in the thorough tier
var c19fLowSpeeds = []int{150, 300, 600, 1200, 2400, 4800}

func scnSilenceFraming(o *Out, r *Rng, thorough bool) {
	if !c16PtyAvailable() {
		o.Stat("silenceframing:pty-unavailable")
		return
	}
	var ins []string
	add := func(speed, dataBits, parity, stopBits int) {
		n := 4
		if speed < 300 {
			n = 3
		}
		margin := 15000 + r.Intn(30000)
		ins = append(ins, strings.Join([]string{itoa(speed), itoa(dataBits), itoa(parity), itoa(stopBits),
			itoa(n), itoa(margin)}, " "))
	}
	for _, dataBits := range []int{7, 8} {
		for _, parity := range []int{0, 1, 2} {
			for _, stopBits := range []int{0, 1, 2} {
				if thorough {
					for _, speed := range append(append([]int{}, c19fLowSpeeds...), 9600, 19200, 38400) {
						add(speed, dataBits, parity, stopBits)
					}
					add(c19fLowSpeeds[r.Intn(len(c19fLowSpeeds))], dataBits, parity, stopBits)
					continue
				}
				// every framing at 300 bps and at one more low speed (150 bps: thorough only, a case takes 3 s)
				add(300, dataBits, parity, stopBits)
				add(c19fLowSpeeds[2+r.Intn(len(c19fLowSpeeds)-2)], dataBits, parity, stopBits)
			}
		}
	}
	// the cases sleep most of the time: all of them run at once
	outs := make([]string, len(ins))
	var wg sync.WaitGroup
	for i := range ins {
		wg.Add(1)
		go func(i int) {
			defer wg.Done()
			outs[i] = execCase("silenceframing", ins[i])
		}(i)
	}
	wg.Wait()
	for i, in := range ins {
		f := strings.Split(in, " ")
		if strings.HasPrefix(outs[i], "skipped:") {
			// no serial device, or the serial layer refuses the line settings: nothing was observed
			o.Stat("silenceframing:" + strings.Join(strings.SplitN(outs[i], ":", 3)[:2], "-") +
				":" + f[1] + c19fParityName(f[2]) + f[3])
			continue
		}
		o.Case("silenceframing", in, outs[i])
		o.Stat("silenceframing:speed=" + f[0])
		o.Stat("silenceframing:line-settings=" + f[1] + c19fParityName(f[2]) + f[3])
		o.Stat("silenceframing:bits-per-character=" + itoa(c19fCharBits(atoi(f[1]), atoi(f[2]), atoi(f[3]))))
		if !strings.HasPrefix(outs[i], "ok ") {
			o.Stat("silenceframing:not-ok")
		}
	}
}

func c19fParityName(p string) string {
	switch p {
	case "0":
		return "N"
	case "1":
		return "E"
	case "2":
		return "O"
	}
	return "?"
}

// length of a character on the line under these settings, for the statistics
// only (stop bits left unset: what NewClient documents, 2 without parity, else 1)
func c19fCharBits(dataBits, parity, stopBits int) int {
	if stopBits == 0 {
		stopBits = 1
		if parity == 0 {
			stopBits = 2
		}
	}
	bits := 1 + dataBits + stopBits
	if parity != 0 {
		bits++
	}
	return bits
}
