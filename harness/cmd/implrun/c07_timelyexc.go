package main

// C07, converse clause: "a valid reply that arrives before the timeout is
// never turned into a timeout" - for ALL operations and ALL valid replies.
// A valid reply to a request is either the normal response or an EXCEPTION
// response (function code | 0x80, one exception code byte); the behaviours of
// scnTimed (c07.go) answer with normal responses only. This generator adds,
// for the same `timed` executor and the same model-side handler
// (ocaml/scn_timed.ml: the extracted tm_client_call, whose outcome on such a
// reply is client_validate's exception error, Properties/C07x.v), on every
// transport of scnTimed (MBAP and RTU framing; scripted, loopback TCP / UDP,
// pty), for every function code the client emits (01 02 03 04 05 06 0F 10)
// and typed wrappers on top of them:
//
//   exc-now    the exception reply is there as soon as the request was received
//   exc-delay  ... arrives after 0.1 / 0.2 / 0.3 x timeout
//   exc-split  ... arrives in two pieces (cut anywhere, also inside the 3-byte
//              RTU header / the MBAP header) at 0.05 and 0.2 x timeout
//
// with every documented exception code (1 2 3 4 5 6 8 10 11) and some
// undocumented ones (still a well-formed reply: "unknown exception code"),
// sent by the addressed unit or by the gateway unit 255. Expected (computed by
// the model, not here): the call returns that exception's error, and returns
// it when the last byte of the reply has arrived - the timeout (600 ms; the
// latest reply byte is due at 0.3 x timeout) is long enough for the measured
// duration check of scn_timed.ml (predicted return + 150 ms slack) to tell "at
// the arrival of the reply" from "at the deadline".

import (
	"fmt"
	"sort"
	"strings"
	"time"
)

func init() {
	register("C07", scnTimedExc)
}

var c07ExcDocumented = []byte{1, 2, 3, 4, 5, 6, 8, 10, 11}
var c07ExcOther = []byte{0, 7, 9, 12, 0x10, 0x7f, 0x80, 0xff}

type c07ExcOp struct {
	kind string // function code of the request (or the wrapper's name)
	op   []string
}

// one call per function code the client emits, plus typed wrappers; small
// requests (the RTU post-write sleep n*t1 + t35 stays short)
func c07ExcOps(r *Rng) []c07ExcOp {
	a := func(n int) string { return hxi(r.Intn(0x10000 - n)) }
	ops := []c07ExcOp{
		{"fc01", [][]string{{"ReadCoils", a(40), hxi(1 + r.Intn(40))}, {"ReadCoil", a(1)}}[r.Intn(2)]},
		{"fc02", [][]string{{"ReadDiscreteInputs", a(40), hxi(1 + r.Intn(40))}, {"ReadDiscreteInput", a(1)}}[r.Intn(2)]},
		{"fc03", [][]string{{"ReadRegisters", a(12), hxi(1 + r.Intn(12)), "0"}, {"ReadRegister", a(1), "0"}}[r.Intn(2)]},
		{"fc04", [][]string{{"ReadRegisters", a(12), hxi(1 + r.Intn(12)), "1"}, {"ReadRegister", a(1), "1"}}[r.Intn(2)]},
		{"fc05", []string{"WriteCoil", a(1), itoa(r.Intn(2))}},
		{"fc06", []string{"WriteRegister", a(1), hxi(r.Intn(65536))}},
		{"fc0f", []string{"WriteCoils", a(24), randBits(r, 1+r.Intn(24))}},
		{"fc10", []string{"WriteRegisters", a(6), randNums(r, 1+r.Intn(6), 16)}},
	}
	rt := itoa(r.Intn(2))
	rd := [][]string{
		{"ReadUint32s", a(8), hxi(1 + r.Intn(4)), rt}, {"ReadFloat32", a(2), rt},
		{"ReadUint64", a(4), rt}, {"ReadFloat64s", a(8), hxi(1 + r.Intn(2)), rt},
		{"ReadBytes", a(8), hxi(1 + r.Intn(16)), rt}, {"ReadRawBytes", a(8), hxi(1 + r.Intn(16)), rt},
	}[r.Intn(6)]
	wr := [][]string{
		{"WriteUint32", a(2), hxu(r.U64() & 0xffffffff)}, {"WriteFloat32s", a(4), randNums(r, 1+r.Intn(2), 32)},
		{"WriteUint64", a(4), hxu(r.U64())}, {"WriteFloat64s", a(8), randNums(r, 1+r.Intn(2), 64)},
		{"WriteBytes", a(4), hx(r.Bytes(1 + r.Intn(8)))}, {"WriteRawBytes", a(4), hx(r.Bytes(1 + r.Intn(8)))},
	}[r.Intn(6)]
	return append(ops, c07ExcOp{"wrapper:" + rd[0], rd}, c07ExcOp{"wrapper:" + wr[0], wr})
}

type c07ExcCase struct {
	key string // batches: cases that last equally long run together
	in  string
}

func scnTimedExc(o *Out, r *Rng, thorough bool) {
	setups := []c07Setup{
		{"s:tcp", 0}, {"s:rtuovertcp", 19200}, {"s:rtuovertcp", 115200},
		{"l:tcp", 0}, {"l:udp", 0}, {"l:rtuovertcp", 19200},
		{"l:rtuoverudp", 19200}, {"l:rtuoverudp", 115200},
	}
	if m, _, e := c07OpenPty(); e == nil {
		m.Close()
		setups = append(setups, c07Setup{"l:rtu", 19200}, c07Setup{"l:rtu", 115200})
	} else {
		o.Stat("timedexc:pty-unavailable")
	}
	tmos := []int{600}
	if thorough {
		tmos = []int{400, 600, 1000}
		setups = append(setups, c07Setup{"s:rtuovertcp", 9600}, c07Setup{"s:rtuovertcp", 38400}, c07Setup{"l:rtuoverudp", 9600})
	}
	var cases []c07ExcCase
	rot := r.Intn(len(c07ExcDocumented))
	for _, tmo := range tmos {
		T := tmo * 1000 // us
		at := func(f float64) time.Duration { return time.Duration(f*float64(T)) * time.Microsecond }
		for _, su := range setups {
			rtu := c07IsRTU(su.scheme)
			for _, eo := range c07ExcOps(r) {
				fc, _, ok := buildReply(r, eo.op, 1)
				if !ok {
					o.Stat("timedexc:no-reply-built")
					continue
				}
				// the codes this call is answered with: quick, one documented code per
				// delivery (rotating: every documented code is used on every run) and
				// now and then an undocumented one; thorough, every documented code at
				// once and two more per other delivery
				type delivery struct {
					beh  string
					code byte
				}
				next := func() byte { rot++; return c07ExcDocumented[rot%len(c07ExcDocumented)] }
				other := func() byte { return c07ExcOther[r.Intn(len(c07ExcOther))] }
				var ds []delivery
				if thorough {
					for _, c := range c07ExcDocumented {
						ds = append(ds, delivery{"exc-now", c})
					}
					ds = append(ds, delivery{"exc-now", other()}, delivery{"exc-delay", next()}, delivery{"exc-delay", other()},
						delivery{"exc-split", next()}, delivery{"exc-split", other()})
				} else {
					ds = append(ds, delivery{"exc-now", next()}, delivery{"exc-delay", next()})
					if r.Intn(3) == 0 {
						ds = append(ds, delivery{"exc-split", next()})
					}
					if r.Intn(3) == 0 {
						ds[r.Intn(len(ds))].code = other()
					}
				}
				for _, d := range ds {
					unit := byte(1) // the addressed unit (execTimed: SetUnitId(1)) ...
					if r.Intn(6) == 0 {
						unit = 255 // ... or the gateway answering on its behalf
					}
					var reply []byte
					if rtu {
						reply = rtuFrame(unit, fc|0x80, []byte{d.code})
					} else {
						reply = mbapFrame(1, 0, -1, unit, fc|0x80, []byte{d.code})
					}
					c := c07Case{beh: d.beh, close: -1}
					switch d.beh {
					case "exc-now":
						c.chunks = []c07Chunk{{0, reply}}
					case "exc-delay":
						f := []float64{0.1, 0.2, 0.3}[r.Intn(3)]
						c.chunks = []c07Chunk{{at(f), reply}}
					case "exc-split":
						h := 1 + r.Intn(len(reply)-1)
						c.chunks = []c07Chunk{{at(0.05), reply[:h]}, {at(0.2), reply[h:]}}
					}
					key := fmt.Sprintf("%s:%06d", d.beh, int(c.chunks[len(c.chunks)-1].at/time.Millisecond))
					ct, ch := c.tokens()
					cases = append(cases, c07ExcCase{key, strings.Join(append([]string{su.scheme, itoa(su.speed), itoa(tmo), d.beh, ct, ch}, eo.op...), " ")})
					o.Stat("timedexc:beh:" + d.beh)
					o.Stat("timedexc:scheme:" + su.scheme)
					o.Stat("timedexc:op:" + eo.kind)
					o.Stat("timedexc:code:" + itoa(int(d.code)))
					if unit == 255 {
						o.Stat("timedexc:from-gateway-unit")
					}
				}
			}
		}
	}
	sort.SliceStable(cases, func(a, b int) bool { return cases[a].key < cases[b].key })
	const par = 16
	for lo := 0; lo < len(cases); lo += par {
		hi := lo + par
		if hi > len(cases) {
			hi = len(cases)
		}
		batch := make([]string, 0, par)
		for _, c := range cases[lo:hi] {
			batch = append(batch, c.in)
		}
		for _, out := range o.RunMany("timed", batch) {
			f := strings.Fields(out)
			if len(f) < 2 {
				o.Stat("timedexc:verdict:" + out)
				continue
			}
			p := strings.SplitN(f[0], ":", 3)
			if p[0] == "err" && len(p) > 1 {
				o.Stat("timedexc:result:err:" + p[1])
			} else {
				o.Stat("timedexc:result:" + p[0])
			}
			o.Stat("timedexc:verdict:" + strings.SplitN(f[1], ":", 2)[0])
		}
	}
}
