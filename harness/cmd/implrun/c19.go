package main

// C19 - RTU timing follows the serial-line specification.
//
//   timing       rate           -> "t1 t35"             (decimal, nanoseconds)
//   timingrange  lo hi          -> "t1:t35,t1:t35,..."  every rate lo..hi
//   silence      rate n delays  -> "ok" | "gap:<ns>:<t35>" | "err:..."
//
// timing/timingrange return what modbus.VerifSerialTimings (newRTUTransport)
// computes. silence runs n back-to-back requests of a real RTU client against
// a fake device on a scripted connection with real deadlines and measures the
// silence the client keeps between the end of reply k and request k+1.

import (
	"fmt"
	"strconv"
	"strings"
	"sync"
	"time"

	"github.com/simonvetter/modbus"
	"verifharness/internal/sconn"
)

const c19MaxRate = 10000000

func init() {
	register("C19", scnTiming, scnSilence)

	executors["timing"] = func(in []string) string {
		rate, err := strconv.ParseUint(in[0], 10, 64)
		if err != nil {
			return "harness-error:bad-rate"
		}
		t1, t35 := modbus.VerifSerialTimings(uint(rate))
		return strconv.FormatInt(int64(t1), 10) + " " + strconv.FormatInt(int64(t35), 10)
	}
	executors["timingrange"] = func(in []string) string {
		lo, err1 := strconv.ParseUint(in[0], 10, 64)
		hi, err2 := strconv.ParseUint(in[1], 10, 64)
		if err1 != nil || err2 != nil || lo > hi {
			return "harness-error:bad-range"
		}
		var sb strings.Builder
		for r := lo; r <= hi; r++ {
			t1, t35 := modbus.VerifSerialTimings(uint(r))
			if r > lo {
				sb.WriteByte(',')
			}
			sb.WriteString(strconv.FormatInt(int64(t1), 10))
			sb.WriteByte(':')
			sb.WriteString(strconv.FormatInt(int64(t35), 10))
		}
		return sb.String()
	}
	executors["silence"] = execSilence
	executors["silencegarble"] = execSilenceGarble
	executors["silencepartial"] = execSilencePartial
	executors["silencewindow"] = execSilenceWindow
}

// ------------------------------------------------------------ observed silence

// execSilence: in = rate, number of requests, reply delays in microseconds
// (comma separated, reply k is fed delays[k] after request k arrived).
//
// Soundness of the measurement: before[k] is read BEFORE reply k is made
// available to the client, so it is not later than the instant the client
// can have seen the end of the frame; arrive[k+1] is read inside the client's
// Write call, so it is not earlier than the instant the client decided to
// transmit. arrive[k+1] - before[k] therefore over-estimates the silence the
// client kept: a client that waits t35 after the end of the frame it
// received can never fail the check, whatever the scheduler does.
func execSilence(in []string) string {
	rate := atoi(in[0])
	n := atoi(in[1])
	var delays []time.Duration
	for _, s := range strings.Split(in[2], ",") {
		delays = append(delays, time.Duration(atoi(s))*time.Microsecond)
	}
	if rate <= 0 || n < 2 || len(delays) == 0 {
		return "harness-error:bad-input"
	}
	_, t35 := modbus.VerifSerialTimings(uint(rate))

	c := sconn.New(false)
	var mu sync.Mutex
	arrive := make([]time.Time, 0, n)
	before := make([]time.Time, n)
	var wg sync.WaitGroup
	c.OnWrite = func(c *sconn.Conn, b []byte) {
		now := time.Now()
		mu.Lock()
		k := len(arrive)
		arrive = append(arrive, now)
		mu.Unlock()
		if k >= n || len(b) != 8 {
			return
		}
		// valid reply to a read-registers request: unit fc bytecount data crc
		q := int(b[4])<<8 | int(b[5])
		data := make([]byte, 2*q)
		for i := range data {
			data[i] = byte(k*31 + i)
		}
		reply := rtuFrame(b[0], b[1], append([]byte{byte(2 * q)}, data...))
		d := delays[k%len(delays)]
		wg.Add(1)
		go func() {
			defer wg.Done()
			time.Sleep(d)
			t := time.Now()
			mu.Lock()
			before[k] = t
			mu.Unlock()
			c.Feed(reply)
		}()
	}
	mc, err := modbus.VerifNewClientOnConn(&modbus.ClientConfiguration{
		URL: "rtuovertcp://x", Timeout: 5 * time.Second, Speed: uint(rate), Logger: quiet}, c)
	if err != nil {
		return "err:client:" + strings.ReplaceAll(err.Error(), " ", "_")
	}
	mc.SetUnitId(1)
	for k := 0; k < n; k++ {
		q := uint16(1 + k%3)
		vs, err := mc.ReadRegisters(uint16(0x100+k), q, modbus.HOLDING_REGISTER)
		if err != nil {
			return "err:" + itoa(k) + ":" + strings.ReplaceAll(err.Error(), " ", "_")
		}
		if len(vs) != int(q) {
			return "err:" + itoa(k) + ":len"
		}
	}
	wg.Wait()
	mu.Lock()
	defer mu.Unlock()
	if len(arrive) != n {
		return "err:requests:" + itoa(len(arrive))
	}
	for k := 0; k+1 < n; k++ {
		gap := arrive[k+1].Sub(before[k])
		if gap < t35 {
			return fmt.Sprintf("gap:%d:%d", int64(gap), int64(t35))
		}
	}
	return "ok"
}

// execSilenceGarble: in = rate. The first reply is rejected early (unknown
// function code in the 3-byte header); its tail arrives while the client is
// flushing the line (the scripted connection feeds it at the moment the
// flush's Read finds the queue empty). The tail is part of what the client
// received, so the next request must not start earlier than t3.5 after it.
func execSilenceGarble(in []string) string {
	rate := atoi(in[0])
	_, t35 := modbus.VerifSerialTimings(uint(rate))
	c := sconn.New(false)
	var mu sync.Mutex
	var arrive []time.Time
	var tailAt time.Time
	stage := 0
	c.OnWrite = func(c *sconn.Conn, b []byte) {
		mu.Lock()
		arrive = append(arrive, time.Now())
		k := len(arrive)
		mu.Unlock()
		if k == 1 {
			c.Feed([]byte{b[0], 0x55, 0x00}) // unknown function code: rejected at once
			mu.Lock()
			stage = 1
			mu.Unlock()
		} else if k == 2 {
			c.Feed(rtuFrame(b[0], b[1], []byte{2, 0x12, 0x34}))
		}
	}
	c.OnWait = func(c *sconn.Conn, readCall int) {
		mu.Lock()
		defer mu.Unlock()
		if stage == 1 {
			// the flush is waiting for stale bytes: here they come
			stage = 2
			tailAt = time.Now()
			c.Feed([]byte{0xde, 0xad, 0xbe, 0xef, 0x01, 0x02})
		}
	}
	mc, err := modbus.VerifNewClientOnConn(&modbus.ClientConfiguration{
		URL: "rtuovertcp://x", Timeout: 3 * time.Second, Speed: uint(rate), Logger: quiet}, c)
	if err != nil {
		return "err:client"
	}
	mc.SetUnitId(1)
	if _, err := mc.ReadRegisters(0, 1, modbus.HOLDING_REGISTER); err != modbus.ErrProtocolError {
		return "err:first:" + errClass(err)
	}
	if _, err := mc.ReadRegisters(0, 1, modbus.HOLDING_REGISTER); err != nil {
		return "err:second:" + errClass(err)
	}
	mu.Lock()
	defer mu.Unlock()
	if stage != 2 || len(arrive) != 2 {
		return "err:script"
	}
	if gap := arrive[1].Sub(tailAt); gap < t35 {
		return fmt.Sprintf("gap:%d:%d", int64(gap), int64(t35))
	}
	return "ok"
}

// execSilenceWindow: in = rate, fraction (percent of t3.5). After a complete
// reply the caller waits <fraction> of t3.5 and then issues the next request:
// the client must still let the REST of t3.5 expire before transmitting.
func execSilenceWindow(in []string) string {
	rate, pct := atoi(in[0]), atoi(in[1])
	_, t35 := modbus.VerifSerialTimings(uint(rate))
	c := sconn.New(false)
	var mu sync.Mutex
	var arrive []time.Time
	c.OnWrite = func(c *sconn.Conn, b []byte) {
		now := time.Now()
		mu.Lock()
		arrive = append(arrive, now)
		mu.Unlock()
		c.Feed(rtuFrame(b[0], b[1], []byte{2, 0x12, 0x34}))
	}
	mc, err := modbus.VerifNewClientOnConn(&modbus.ClientConfiguration{
		URL: "rtuovertcp://x", Timeout: 2 * time.Second, Speed: uint(rate), Logger: quiet}, c)
	if err != nil {
		return "err:client"
	}
	mc.SetUnitId(1)
	// heard[k]: when the client took the last byte of reply k off the line (not
	// later than the instant it records as the line's last activity)
	var heard []time.Time
	for k := 0; k < 4; k++ {
		if _, err := mc.ReadRegisters(0, 1, modbus.HOLDING_REGISTER); err != nil {
			return "err:" + itoa(k) + ":" + errClass(err)
		}
		h := c.LastRead
		heard = append(heard, h)
		// busy-wait for precision: the interesting window is narrower than a timer tick
		target := h.Add(t35 * time.Duration(pct) / 100)
		for time.Now().Before(target) {
		}
	}
	mu.Lock()
	defer mu.Unlock()
	for k := 0; k+1 < len(arrive) && k < len(heard); k++ {
		if gap := arrive[k+1].Sub(heard[k]); gap < t35 {
			return fmt.Sprintf("gap:%d:%d", int64(gap), int64(t35))
		}
	}
	return "ok"
}

// execSilencePartial: in = rate. The first reply arrives late and incomplete:
// its header and one more byte reach the client shortly before the request
// deadline, the rest never comes, so the call ends in a timeout. Those bytes
// were received: the next request must still wait t3.5 after them.
func execSilencePartial(in []string) string {
	rate := atoi(in[0])
	_, t35 := modbus.VerifSerialTimings(uint(rate))
	timeout := 120 * time.Millisecond
	c := sconn.New(false)
	var mu sync.Mutex
	var arrive []time.Time
	var partialAt time.Time
	c.OnWrite = func(c *sconn.Conn, b []byte) {
		now := time.Now()
		mu.Lock()
		arrive = append(arrive, now)
		k := len(arrive)
		mu.Unlock()
		if k == 1 {
			go func() {
				time.Sleep(timeout - 12*time.Millisecond)
				mu.Lock()
				partialAt = time.Now()
				mu.Unlock()
				c.Feed([]byte{b[0], b[1], 2, 0x12}) // header + one data byte of a 7-byte reply
			}()
		} else if k == 2 {
			c.Feed(rtuFrame(b[0], b[1], []byte{2, 0x12, 0x34}))
		}
	}
	mc, err := modbus.VerifNewClientOnConn(&modbus.ClientConfiguration{
		URL: "rtuovertcp://x", Timeout: timeout, Speed: uint(rate), Logger: quiet}, c)
	if err != nil {
		return "err:client"
	}
	mc.SetUnitId(1)
	if _, err := mc.ReadRegisters(0, 1, modbus.HOLDING_REGISTER); err != modbus.ErrRequestTimedOut {
		return "err:first:" + errClass(err)
	}
	// the unread bytes of the cut reply are still queued: the second exchange may fail,
	// only the instant of its transmission matters here
	mc.ReadRegisters(0, 1, modbus.HOLDING_REGISTER)
	mu.Lock()
	defer mu.Unlock()
	if len(arrive) != 2 || partialAt.IsZero() {
		return "err:script"
	}
	if gap := arrive[1].Sub(partialAt); gap < t35 {
		return fmt.Sprintf("gap:%d:%d", int64(gap), int64(t35))
	}
	return "ok"
}

// ------------------------------------------------------------------ generators

var c19Bauds = []int{
	300, 600, 1200, 1800, 2400, 4800, 7200, 9600, 14400, 19200, 28800, 31250, 38400, 56000, 57600,
	76800, 115200, 128000, 230400, 250000, 256000, 460800, 500000, 576000, 921600, 1000000,
	1152000, 1500000, 2000000, 2500000, 3000000, 3500000, 4000000,
}

func scnTiming(o *Out, r *Rng, thorough bool) {
	seen := map[int]bool{}
	one := func(rate int, class string) {
		if rate < 1 || rate > c19MaxRate || seen[rate] {
			return
		}
		seen[rate] = true
		o.Run("timing", itoa(rate))
		o.Stat("timing:" + class)
		if rate < 19200 {
			o.Stat("timing:rate<19200")
		} else {
			o.Stat("timing:rate>=19200")
		}
	}
	// every rate up to 30000: all of the 3.5-character regime and the switch
	for rate := 1; rate <= 30000; rate++ {
		class := "all-1..30000"
		if rate >= 19100 && rate <= 19300 {
			class = "around-19200"
		}
		one(rate, class)
	}
	// powers of two, +-1
	for k := uint(0); 1<<k <= c19MaxRate; k++ {
		for d := -1; d <= 1; d++ {
			one(1<<k+d, "pow2+-1")
		}
	}
	// powers of ten and the upper end of the range, +-1
	for p := 1; p <= c19MaxRate; p *= 10 {
		for d := -1; d <= 1; d++ {
			one(p+d, "pow10+-1")
		}
	}
	// standard baud rates, +-1
	for _, b := range c19Bauds {
		for d := -1; d <= 1; d++ {
			one(b+d, "baud+-1")
		}
	}
	// divisors of 11*10^9 (exact character times) and their neighbours
	for _, b := range []int{11, 55, 1375, 34375, 88000, 171875, 1000000, 1100000, 2200000, 5500000, 6875000, 10000000} {
		for d := -1; d <= 1; d++ {
			one(b+d, "divisor+-1")
		}
	}
	// uniform and log-uniform random rates up to 10^7
	for i := 0; i < 20000; i++ {
		one(30001+r.Intn(c19MaxRate-30000), "random-uniform")
	}
	for i := 0; i < 20000; i++ {
		bitsN := 15 + r.Intn(9) // 2^15 .. 2^24
		one(int(r.U64()&(1<<uint(bitsN)-1))|1<<uint(bitsN-1), "random-log")
	}
	if thorough {
		// every rate 1..10^7, 1000 consecutive rates per case
		var ins []string
		for lo := 1; lo <= c19MaxRate; lo += 1000 {
			hi := lo + 999
			if hi > c19MaxRate {
				hi = c19MaxRate
			}
			ins = append(ins, itoa(lo)+" "+itoa(hi))
		}
		o.RunMany("timingrange", ins)
		o.stats["timingrange:rates-covered"] += c19MaxRate
	}
}

// independent of the library: the delays of the Modbus serial-line guide, used
// only to place the fake device's reply before/after the client starts reading
func c19Busy(rate int) time.Duration {
	t1 := 11 * time.Second / time.Duration(rate)
	t35 := 1750 * time.Microsecond
	if rate < 19200 {
		t35 = t1 * 35 / 10
	}
	return 8*t1 + t35 // request of 8 bytes, then the post-transmit delay
}

func scnSilence(o *Out, r *Rng, thorough bool) {
	rates := []int{1200, 9600, 19200, 115200}
	reps := 1
	if thorough {
		rates = []int{1200, 2400, 9600, 19199, 19200, 38400, 115200, 1000000}
		reps = 6
	}
	var ins []string
	for _, rate := range rates {
		busy := int(c19Busy(rate) / time.Microsecond)
		for rep := 0; rep < reps; rep++ {
			for variant := 0; variant < 3; variant++ {
				n := 4 + r.Intn(3)
				ds := make([]string, n)
				for k := range ds {
					late := busy + 300 + r.Intn(2700) // the client is blocked in Read when the reply comes
					early := 50 + r.Intn(450)          // the reply is queued before the client reads
					switch {
					case variant == 0, variant == 2 && r.Bool():
						ds[k] = itoa(late)
					default:
						ds[k] = itoa(early)
					}
				}
				ins = append(ins, itoa(rate)+" "+itoa(n)+" "+strings.Join(ds, ","))
				o.Stat("silence:" + []string{"late-replies", "early-replies", "mixed"}[variant])
			}
		}
	}
	// rejected reply whose tail arrives during the flush (9600 / 14400 bps: t3.5 well above the flush window)
	// the caller comes back shortly before t3.5 has elapsed (75% .. 97% of it)
	for _, out := range o.RunMany("silencewindow", []string{"1200 80", "1200 92", "2400 85", "9600 90", "600 97"}) {
		if out != "ok" {
			o.Stat("silencewindow:not-ok")
		}
	}
	// late, incomplete reply cut by the deadline (low rates: t3.5 is 32 / 64 ms)
	for _, out := range o.RunMany("silencepartial", []string{"1200", "600", "2400"}) {
		if out != "ok" {
			o.Stat("silencepartial:not-ok")
		}
	}
	for _, out := range o.RunMany("silencegarble", []string{"9600", "14400", "4800"}) {
		if out != "ok" {
			o.Stat("silencegarble:not-ok")
		}
	}
	for _, out := range o.RunMany("silence", ins) {
		if out != "ok" {
			o.Stat("silence:not-ok")
		}
	}
}
