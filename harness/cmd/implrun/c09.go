package main

import (
	"fmt"
	"io"
	"net"
	"os"
	"runtime"
	"runtime/debug"
	"strings"
	"sync"
	"time"

	"github.com/simonvetter/modbus"
	"verifharness/internal/sconn"
)

func init() {
	register("C09", scnSlots, scnBurst, scnIdle)
	register("C10", scnLifecycle, scnRestart)
	executors["slots"] = runSlots
	executors["idle"] = runIdle
	executors["burst"] = runBurst
	executors["blockedwrite"] = runBlockedWrite
}

// runBlockedWrite: the real per-connection path (VerifServeConn) on a scripted
// connection whose Write blocks until the write deadline - a client that has
// stopped reading, send path full - and which stays idle after n requests.
// The session must end (and the slot be released) about one timeout per
// pending response plus one idle timeout later.   in: nreq timeout_ms
func runBlockedWrite(in []string) (out string) {
	defer func() {
		if r := recover(); r != nil {
			out = "panic"
		}
	}()
	nreq, tmo := atoi(in[0]), time.Duration(atoi(in[1]))*time.Millisecond
	srv, err := modbus.NewServer(&modbus.ServerConfiguration{URL: "tcp://127.0.0.1:0", Timeout: tmo, Logger: quiet}, &countHandler{})
	if err != nil {
		return "harness-error:" + err.Error()
	}
	c := sconn.New(false)
	c.BlockWrites = true
	for i := 0; i < nreq; i++ {
		c.Feed(probeReq)
	}
	done := make(chan struct{})
	go func() {
		defer close(done)
		defer func() { recover() }()
		srv.VerifServeConn(c)
	}()
	limit := time.Duration(nreq+1)*tmo + 800*time.Millisecond
	select {
	case <-done:
		if !c.IsClosed() {
			return "ended-not-closed"
		}
		return "released"
	case <-time.After(limit):
		c.Close()
		return "held"
	}
}

// runBurst: k connections arrive at (nearly) the same instant at a server with
// MaxClients = maxc; exactly min(k, maxc) of them must be served - each of
// those answers a probe -, the others closed; after all disconnect the list is
// empty again and a new connection is served.   in: maxc k
func runBurst(in []string) string {
	steerMu.Lock()
	defer steerMu.Unlock()
	modbus.VerifSetYield(nil)
	maxc, k := atoi(in[0]), atoi(in[1])
	h := &countHandler{}
	srv, err := modbus.NewServer(&modbus.ServerConfiguration{URL: "tcp://127.0.0.1:0", MaxClients: uint(maxc),
		Timeout: 30 * time.Second, Logger: quiet}, h)
	if err != nil {
		return "harness-error:" + err.Error()
	}
	if err := srv.Start(); err != nil {
		return "harness-error:" + err.Error()
	}
	defer srv.Stop()
	addr := srv.VerifListenAddr().String()
	conns := make([]net.Conn, k)
	var wg sync.WaitGroup
	for i := 0; i < k; i++ {
		wg.Add(1)
		go func(i int) {
			defer wg.Done()
			c, err := net.DialTimeout("tcp", addr, time.Second)
			if err == nil {
				conns[i] = c
			}
		}(i)
	}
	wg.Wait()
	want := k
	if maxc < k {
		want = maxc
	}
	waitCount(srv, want, time.Second)
	time.Sleep(20 * time.Millisecond)
	_, n, _ := srv.VerifServerSnapshot()
	resp, closed, other := 0, 0, 0
	res := make([]string, k)
	for i := range conns {
		wg.Add(1)
		go func(i int) {
			defer wg.Done()
			res[i] = probe(conns[i])
		}(i)
	}
	wg.Wait()
	for _, r := range res {
		switch r {
		case "resp":
			resp++
		case "closed":
			closed++
		default:
			other++
		}
	}
	for _, c := range conns {
		if c != nil {
			c.Close()
		}
	}
	waitCount(srv, 0, 2*time.Second)
	_, after, _ := srv.VerifServerSnapshot()
	c, err := net.DialTimeout("tcp", addr, time.Second)
	fresh := "closed"
	if err == nil {
		fresh = probe(c)
		c.Close()
	}
	return fmt.Sprintf("n=%d resp=%d closed=%d other=%d after=%d fresh=%s", n, resp, closed, other, after, fresh)
}

// The yield hook is process-global: steered server scenarios run one at a time.
var steerMu sync.Mutex

type steer struct {
	mu          sync.Mutex
	holdTaken   bool          // hold the next goroutine reaching accept:taken
	holdEnded   bool          // hold the next goroutine reaching session:ended
	takenCh     chan struct{} // signalled when a goroutine is being held at accept:taken
	releaseAcc  chan struct{}
	enrolledCh  chan struct{} // signalled at every accept:enrolled
	endedCh     chan struct{} // signalled at every session:ended
	releaseEnd  chan struct{}
}

func newSteer() *steer {
	return &steer{takenCh: make(chan struct{}, 64), releaseAcc: make(chan struct{}, 1),
		enrolledCh: make(chan struct{}, 64), endedCh: make(chan struct{}, 64), releaseEnd: make(chan struct{}, 1)}
}

func (st *steer) yield(point string) {
	switch point {
	case "accept:taken":
		st.mu.Lock()
		hold := st.holdTaken
		st.holdTaken = false
		st.mu.Unlock()
		if hold {
			st.takenCh <- struct{}{}
			<-st.releaseAcc
		}
	case "accept:enrolled":
		st.enrolledCh <- struct{}{}
	case "session:ended":
		st.mu.Lock()
		hold := st.holdEnded
		st.holdEnded = false
		st.mu.Unlock()
		st.endedCh <- struct{}{}
		if hold {
			<-st.releaseEnd
		}
	}
}

func waitSig(ch chan struct{}, d time.Duration) bool {
	select {
	case <-ch:
		return true
	case <-time.After(d):
		return false
	}
}

type countHandler struct {
	mu    sync.Mutex
	calls int
}

func (h *countHandler) hit() { h.mu.Lock(); h.calls++; h.mu.Unlock() }
func (h *countHandler) HandleCoils(r *modbus.CoilsRequest) ([]bool, error) {
	h.hit()
	return make([]bool, r.Quantity), nil
}
func (h *countHandler) HandleDiscreteInputs(r *modbus.DiscreteInputsRequest) ([]bool, error) {
	h.hit()
	return make([]bool, r.Quantity), nil
}
func (h *countHandler) HandleHoldingRegisters(r *modbus.HoldingRegistersRequest) ([]uint16, error) {
	h.hit()
	return make([]uint16, r.Quantity), nil
}
func (h *countHandler) HandleInputRegisters(r *modbus.InputRegistersRequest) ([]uint16, error) {
	h.hit()
	return make([]uint16, r.Quantity), nil
}

var probeReq = []byte{0, 9, 0, 0, 0, 6, 1, 3, 0, 0, 0, 1}

// probe sends one request and reports whether a response came back
func probe(c net.Conn) string {
	if c == nil {
		return "closed"
	}
	c.SetDeadline(time.Now().Add(1500 * time.Millisecond))
	if _, err := c.Write(probeReq); err != nil {
		return "closed"
	}
	buf := make([]byte, 11)
	if _, err := io.ReadFull(c, buf); err != nil {
		if os.IsTimeout(err) {
			return "noresp" // neither answered nor closed: the connection is left dangling
		}
		return "closed"
	}
	return "resp"
}

// accGoroutines counts live goroutines inside acceptTCPClients once the
// number is stable (an accept goroutine whose listener was closed returns at once)
func accGoroutines() int {
	count := func() int {
		buf := make([]byte, 1<<20)
		n := runtime.Stack(buf, true)
		return strings.Count(string(buf[:n]), "(*ModbusServer).acceptTCPClients(")
	}
	last := count()
	for i := 0; i < 60; i++ {
		time.Sleep(3 * time.Millisecond)
		c := count()
		if c == last && i >= 1 {
			return c
		}
		last = c
	}
	return last
}

func snap(srv *modbus.ModbusServer) (string, int) {
	st, n, _ := srv.VerifServerSnapshot()
	s := "0"
	if st {
		s = "1"
	}
	return fmt.Sprintf("%s/%d/a%d", s, n, accGoroutines()), n
}

// waitCount polls until the active list has the wanted length
func waitCount(srv *modbus.ModbusServer, want int, d time.Duration) {
	end := time.Now().Add(d)
	for time.Now().Before(end) {
		if _, n, _ := srv.VerifServerSnapshot(); n == want {
			return
		}
		time.Sleep(time.Millisecond)
	}
}

func runSlots(in []string) string {
	steerMu.Lock()
	defer steerMu.Unlock()
	st := newSteer()
	modbus.VerifSetYield(st.yield)
	defer modbus.VerifSetYield(nil)
	// a connection the server forgets to close would otherwise be closed behind
	// its back by the finalizer of the collected net.Conn: keep the collector
	// out of the way for the duration of the trace
	defer debug.SetGCPercent(debug.SetGCPercent(-1))

	maxc := atoi(in[0])
	h := &countHandler{}
	srv, err := modbus.NewServer(&modbus.ServerConfiguration{URL: "tcp://127.0.0.1:0", MaxClients: uint(maxc),
		Timeout: 30 * time.Second, Logger: quiet}, h)
	if err != nil {
		return "harness-error:" + err.Error()
	}
	defer srv.Stop()

	conns := map[int]net.Conn{}
	served := map[int]bool{}
	heldAcc, heldEnd := -1, -1
	var addr string
	var outs []string
	dial := func(i int) bool {
		if addr == "" {
			return false
		}
		c, err := net.DialTimeout("tcp", addr, time.Second)
		if err != nil {
			return false
		}
		conns[i] = c
		return true
	}
	for _, op := range in[1:] {
		k := op[0]
		i := 0
		if len(op) > 1 {
			i = atoi(op[1:])
		}
		switch k {
		case 'S':
			if err := srv.Start(); err != nil {
				return "harness-error:start:" + err.Error()
			}
			if a := srv.VerifListenAddr(); a != nil {
				addr = a.String()
			}
			s, _ := snap(srv)
			outs = append(outs, s)
		case 'P':
			srv.Stop()
			want := 0
			if heldEnd >= 0 {
				want = 1
			}
			waitCount(srv, want, 2*time.Second)
			for k := range served {
				if k != heldEnd {
					delete(served, k)
				}
			}
			s, _ := snap(srv)
			outs = append(outs, s)
		case 'C':
			_, before := snap(srv)
			if started, _, _ := srv.VerifServerSnapshot(); !started || !dial(i) {
				outs = append(outs, "refused")
				break
			}
			waitSig(st.enrolledCh, 2*time.Second)
			s, after := snap(srv)
			if after > before {
				served[i] = true
			}
			outs = append(outs, s)
		case 'T':
			st.mu.Lock()
			st.holdTaken = true
			st.mu.Unlock()
			if started, _, _ := srv.VerifServerSnapshot(); !started || !dial(i) {
				st.mu.Lock()
				st.holdTaken = false
				st.mu.Unlock()
				outs = append(outs, "refused")
				break
			}
			if !waitSig(st.takenCh, 2*time.Second) {
				return "harness-error:no-taken-yield"
			}
			heldAcc = i
			outs = append(outs, "taken")
		case 'E':
			_, before := snap(srv)
			if heldAcc >= 0 {
				st.releaseAcc <- struct{}{}
				waitSig(st.enrolledCh, 2*time.Second)
			}
			s, after := snap(srv)
			if after > before {
				served[heldAcc] = true
			}
			heldAcc = -1
			outs = append(outs, s)
		case 'R':
			outs = append(outs, probe(conns[i]))
		case 'D', 'B', 'X':
			_, before := snap(srv)
			c := conns[i]
			if k == 'X' {
				st.mu.Lock()
				st.holdEnded = served[i]
				st.mu.Unlock()
			}
			if c != nil {
				if k == 'B' {
					// MBAP header announcing an illegal length: protocol error
					c.Write([]byte{0, 1, 0, 0, 0, 0, 1})
				} else {
					c.Close()
				}
			}
			if served[i] {
				waitSig(st.endedCh, 2*time.Second)
				if k == 'X' {
					heldEnd = i
				} else {
					waitCount(srv, before-1, 2*time.Second)
					delete(served, i)
				}
			}
			if k == 'B' && c != nil {
				c.Close()
			}
			if k != 'X' {
				delete(conns, i)
			}
			s, _ := snap(srv)
			outs = append(outs, s)
		case 'M':
			_, before := snap(srv)
			if heldEnd >= 0 {
				st.releaseEnd <- struct{}{}
				waitCount(srv, before-1, 2*time.Second)
				delete(served, heldEnd)
				delete(conns, heldEnd)
			}
			heldEnd = -1
			s, _ := snap(srv)
			outs = append(outs, s)
		}
	}
	// release anything still held so that goroutines can finish
	if heldAcc >= 0 {
		st.releaseAcc <- struct{}{}
	}
	if heldEnd >= 0 {
		st.releaseEnd <- struct{}{}
	}
	for _, c := range conns {
		c.Close()
	}
	return strings.Join(outs, " ")
}

func runIdle(in []string) string {
	steerMu.Lock()
	defer steerMu.Unlock()
	modbus.VerifSetYield(nil)
	k := atoi(in[0])
	timeout := time.Duration(atoi(in[1])) * time.Millisecond
	mode := ""
	if len(in) > 2 {
		mode = in[2]
	}
	h := &countHandler{}
	srv, err := modbus.NewServer(&modbus.ServerConfiguration{URL: "tcp://127.0.0.1:0", MaxClients: uint(k),
		Timeout: timeout, Logger: quiet}, h)
	if err != nil {
		return "harness-error:" + err.Error()
	}
	if err := srv.Start(); err != nil {
		return "harness-error:" + err.Error()
	}
	defer srv.Stop()
	addr := srv.VerifListenAddr().String()
	results := make([]string, k)
	var wg sync.WaitGroup
	for i := 0; i < k; i++ {
		c, err := net.DialTimeout("tcp", addr, time.Second)
		if err != nil {
			return "harness-error:dial"
		}
		// the deadline of a connection that never completes a request is the one
		// armed at its admission (after this instant)
		last := time.Now()
		// stagger the last activity of the connections
		time.Sleep(time.Duration(i) * timeout / time.Duration(4*k))
		switch mode {
		case "silent": // never sends anything: the deadline armed at admission must end the session
		case "header": // stalls inside the MBAP header of its first frame
			c.Write([]byte{0, 1, 0})
		case "body": // stalls inside the body of its first frame
			c.Write([]byte{0, 1, 0, 0, 0, 6, 1, 3, 0})
		default:
			if probe(c) != "resp" {
				return "harness-error:probe"
			}
			last = time.Now() // the server re-arms its deadline after this instant
		}
		wg.Add(1)
		go func(i int, c net.Conn, last time.Time) {
			defer wg.Done()
			c.SetDeadline(time.Now().Add(timeout + 3*time.Second))
			buf := make([]byte, 1)
			_, err := c.Read(buf)
			d := time.Since(last)
			c.Close()
			switch {
			case err == nil:
				results[i] = "idle:data"
			case d < timeout-2*time.Millisecond:
				results[i] = fmt.Sprintf("idle:early:%v", d)
			case d > timeout+600*time.Millisecond:
				results[i] = fmt.Sprintf("idle:late:%v", d)
			default:
				results[i] = "idle:ok"
			}
		}(i, c, last)
	}
	wg.Wait()
	waitCount(srv, 0, 2*time.Second)
	// all slots must be free again: a new connection is served
	c, err := net.DialTimeout("tcp", addr, time.Second)
	if err != nil {
		return "harness-error:dial2"
	}
	defer c.Close()
	p := probe(c)
	s, _ := snap(srv)
	return strings.Join(results, " ") + " " + s + " " + p
}

// random traces; at most one accept goroutine and one session held at a time
func genTrace(r *Rng, maxc int, n int, lifecycle bool) []string {
	ops := []string{"S"}
	started := true
	next := 1
	var open []int // connections the harness has dialled and not closed
	heldAcc, heldEnd := false, false
	rm := func(i int) {
		for k := range open {
			if open[k] == i {
				open = append(open[:k], open[k+1:]...)
				return
			}
		}
	}
	for len(ops) < n {
		x := r.Intn(100)
		switch {
		case x < 30 && !heldAcc:
			ops = append(ops, "C"+itoa(next))
			if started {
				open = append(open, next)
			}
			next++
		case x < 38 && !heldAcc && started:
			ops = append(ops, "T"+itoa(next))
			open = append(open, next)
			next++
			heldAcc = true
		case x < 50 && heldAcc:
			ops = append(ops, "E")
			heldAcc = false
		case x < 62 && len(open) > 0:
			i := open[r.Intn(len(open))]
			if !(heldAcc && i == next-1) {
				ops = append(ops, "R"+itoa(i))
			}
		case x < 74 && len(open) > 0:
			i := open[r.Intn(len(open))]
			if heldAcc && i == next-1 {
				break
			}
			ops = append(ops, "D"+itoa(i))
			rm(i)
		case x < 80 && len(open) > 0:
			i := open[r.Intn(len(open))]
			if heldAcc && i == next-1 {
				break
			}
			ops = append(ops, "B"+itoa(i))
			rm(i)
		case x < 86 && len(open) > 0 && !heldEnd:
			i := open[r.Intn(len(open))]
			if heldAcc && i == next-1 {
				break
			}
			ops = append(ops, "X"+itoa(i))
			rm(i)
			heldEnd = true
		case x < 92 && heldEnd:
			ops = append(ops, "M")
			heldEnd = false
		case lifecycle && x < 96:
			ops = append(ops, "P")
			started = false
		case lifecycle:
			ops = append(ops, "S")
			started = true
		}
	}
	if heldAcc {
		ops = append(ops, "E")
	}
	if heldEnd {
		ops = append(ops, "M")
	}
	return ops
}

func scnSlots(o *Out, r *Rng, thorough bool) {
	n := 60
	if thorough {
		n = 1500
	}
	// the classic races first: arrival at the limit, removal order, reclaim
	fixed := []string{
		"1 S C1 C2 R1 R2 D1 C3 R3",
		"2 S C1 C2 C3 R3 X1 C4 R4 M C5 R5",
		"2 S C1 C2 D2 C3 D1 C4 R3 R4",
		"3 S C1 C2 C3 D2 D1 D3 C4 C5 C6 C7 R4 R5 R6 R7",
		"2 S T1 E R1 C2 R2 C3 R3",
		"1 S C1 B1 C2 R2",
		"1 S C1 C2 D1 C3 R3",
		"2 S C1 C2 C3 C4 D1 C5 R5 D2 C6 R6",
		"1 S C1 C2 C3 D1 C4 R4 D4 C5 R5",
		"4 S C1 C2 C3 C4 X1 D3 M D4 D2 C5 C6 C7 C8 C9 R5 R9",
		// the limit across a restart while the teardown of an old session is pending
		"2 S C1 X1 P S C2 M R2 C3 C4 R3 R4",
		"3 S C1 C2 X2 P S C3 C4 M R3 R4 C5 C6 R5 R6",
		"1 S C1 X1 P S M C2 R2 C3 R3",
	}
	for _, f := range fixed {
		o.Run("slots", f)
	}
	for i := 0; i < n; i++ {
		maxc := 1 + r.Intn(4)
		o.Run("slots", itoa(maxc)+" "+strings.Join(genTrace(r, maxc, 8+r.Intn(30), false), " "))
		o.Stat("maxc:" + itoa(maxc))
	}
}

func scnBurst(o *Out, r *Rng, thorough bool) {
	n := 12
	if thorough {
		n = 200
	}
	for i := 0; i < n; i++ {
		maxc := 1 + r.Intn(4)
		o.Run("burst", itoa(maxc)+" "+itoa(2+r.Intn(3*maxc)))
	}
}

func scnIdle(o *Out, r *Rng, thorough bool) {
	o.RunMany("blockedwrite", []string{"1 150", "2 120", "3 100"})
	o.Run("idle", "2 200")
	o.Run("idle", "3 350")
	// connections that never complete a first request must be timed out as well
	o.Run("idle", "2 200 silent")
	o.Run("idle", "2 220 header")
	o.Run("idle", "1 180 body")
	if thorough {
		for i := 0; i < 10; i++ {
			o.Run("idle", itoa(1+r.Intn(4))+" "+itoa(150+r.Intn(400)))
		}
	}
}

// rapid Stop/Start cycles: after each cycle exactly one accept goroutine is alive
func scnRestart(o *Out, r *Rng, thorough bool) {
	o.Run("slots", "2 S P S P S P S P S P S C1 R1 P S C2 R2 P")
	o.Run("slots", "1 S C1 P S P S C2 R2 P S P S P S C3 R3")
}

func scnLifecycle(o *Out, r *Rng, thorough bool) {
	n := 50
	if thorough {
		n = 1200
	}
	fixed := []string{
		"2 S C1 R1 P R1 C2 S C3 R3",
		"2 S T1 P E R1 S C2 R2",
		"2 S T1 P S E R1 C2 R2",
		"3 S S C1 P P S S C2 R2 R1",
		"2 S C1 X1 P M S C2 R2",
		// a session whose teardown is still pending when the server is restarted
		"2 S C1 X1 P S C2 M R2 C3 C4 R3 R4",
		"3 S C1 C2 X2 P S C3 C4 M R3 R4 C5 C6 R5 R6",
		"1 S C1 X1 P S M C2 R2 C3 R3",
		"1 P C1 S C2 R2 P S P S C3 R3",
	}
	for _, f := range fixed {
		o.Run("slots", f)
	}
	for i := 0; i < n; i++ {
		maxc := 1 + r.Intn(4)
		o.Run("slots", itoa(maxc)+" "+strings.Join(genTrace(r, maxc, 8+r.Intn(30), true), " "))
	}
}
