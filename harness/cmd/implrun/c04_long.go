package main

// Property C04, LONG histories on ONE connection: "any sequence of typed writes
// and reads ... behaves like a sequential register file" is a statement about
// every finite history, also the ones that are longer than anything the
// per-connection state of the two ends can count (the MBAP transaction
// identifier is a 16-bit field: after 65 536 exchanges on a connection every
// value of it has been used). Scenario e2e opens a fresh connection for every
// history of at most 60 steps; here ONE real client stays connected to ONE
// real server (memory-backed handler of c04.go) for tens of thousands of
// typed calls, and EVERY one of them is held against the register file.
//
//   e2elong  scheme e w reps stride { ; [fail k errname] (op... | setunit u | setenc e w) }*
//     -> "n=<steps> req=<invocations> res=<class>*<count>,... odd=<i>:<result>|<calls>,...
//         blocks=<digest>,... M <coilruns> <regruns>"
//
// The steps after "stride" are a CYCLE (same syntax as the steps of e2e); the
// history is the cycle repeated `reps` times, and the values written by step
// number i (0-based, counted over the whole history) are the values of the
// cycle moved by i, so that no two rounds write the same data and a read-back
// that returned what an earlier round had written is told apart:
//     WriteCoil               v xor bit 0 of i
//     WriteCoils              bit k xor bit (k mod 16) of i
//     WriteRegister(s), WriteUint32(s)/Float32(s), WriteUint64(s)/Float64(s)
//                             every value + i * stride (mod 2^16 / 2^32 / 2^64;
//                             floats are their bit patterns)
//     WriteBytes/WriteRawBytes byte k + byte (k mod 3) of i (mod 256)
// Reads, setunit, setenc and the failure script of a step are those of the cycle.
//
// Output (the per-step observable is the one of e2e: "<result> <invocations>"):
//   n      steps executed (the session is given up after the third step whose
//          result is a transport-level failure - neither values, nor a Modbus
//          exception, nor a locally rejected call - so that a broken build
//          costs a few timeouts, not thousands; and after 200 s)
//   req    handler invocations over the whole history (= requests served)
//   res    how many steps ended in each result class (ok, err:exc:2, err:params, ...)
//   odd    the first 8 transport-level failures in full ("-": none)
//   blocks one digest (first 8 hex digits of the MD5 of the per-step lines
//          "<result> <invocations>\n") per block of 512 steps: every value
//          returned and every argument the handler saw, for every step
//   M      the handler memory over the cells that were written, as in e2e

import (
	"crypto/md5"
	"encoding/hex"
	"sort"
	"strings"
	"time"

	"github.com/simonvetter/modbus"
)

const c04LongBlock = 512

func init() {
	register("C04", scnE2ELong)
	executors["e2elong"] = runE2ELong
}

// the step of the cycle as step number i of the history
func c04LongDerive(st []string, i int, stride uint64) []string {
	if len(st) < 3 || !strings.HasPrefix(st[0], "Write") {
		return st
	}
	ui := uint64(i)
	shift := func(vs []uint64, bitsN uint) []uint64 {
		out := make([]uint64, len(vs))
		for k, v := range vs {
			out[k] = v + ui*stride
			if bitsN < 64 {
				out[k] &= uint64(1)<<bitsN - 1
			}
		}
		return out
	}
	switch st[0] {
	case "WriteCoil":
		v := (st[2] == "1") != (i&1 == 1)
		return []string{st[0], st[1], bits([]bool{v})}
	case "WriteCoils":
		vs := boolsTok(st[2])
		out := make([]bool, len(vs))
		for k, v := range vs {
			out[k] = v != ((i>>(uint(k)%16))&1 == 1)
		}
		return []string{st[0], st[1], bits(out)}
	case "WriteRegister":
		return []string{st[0], st[1], csvu(shift([]uint64{unhx(st[2])}, 16))}
	case "WriteRegisters":
		return []string{st[0], st[1], csvu(shift(numsTok(st[2]), 16))}
	case "WriteUint32", "WriteFloat32":
		return []string{st[0], st[1], csvu(shift([]uint64{unhx(st[2])}, 32))}
	case "WriteUint32s", "WriteFloat32s":
		return []string{st[0], st[1], csvu(shift(numsTok(st[2]), 32))}
	case "WriteUint64", "WriteFloat64":
		return []string{st[0], st[1], csvu(shift([]uint64{unhx(st[2])}, 64))}
	case "WriteUint64s", "WriteFloat64s":
		return []string{st[0], st[1], csvu(shift(numsTok(st[2]), 64))}
	case "WriteBytes", "WriteRawBytes":
		bs := bytesTok(st[2])
		out := make([]byte, len(bs))
		for k, b := range bs {
			out[k] = b + byte(i>>(8*(uint(k)%3)))
		}
		return []string{st[0], st[1], hx(out)}
	}
	return st
}

// values, a Modbus exception or a locally rejected call: what a register file
// can answer; anything else is a failure of the transport
func c04LongClass(res string) (class string, odd bool) {
	switch {
	case strings.HasPrefix(res, "ok:"):
		return "ok", false
	case strings.HasPrefix(res, "err:exc:"), res == "err:params":
		return res, false
	}
	return res, true
}

func runE2ELong(in []string) string {
	done := make(chan string, 1)
	go func() {
		defer func() {
			if r := recover(); r != nil {
				done <- "panic"
			}
		}()
		done <- runE2ELongHistory(in)
	}()
	select {
	case s := <-done:
		return s
	case <-time.After(280 * time.Second):
		return "harness-error:timeout"
	}
}

func runE2ELongHistory(in []string) string {
	if len(in) < 5 {
		return "harness-error:bad-input"
	}
	useTLS := in[0] == "tls"
	if !useTLS && in[0] != "tcp" {
		return "harness-error:bad-scheme"
	}
	reps, stride := atoi(in[3]), unhx(in[4])
	var cycle [][]string
	for _, t := range in[5:] {
		if t == ";" {
			cycle = append(cycle, []string{})
		} else if len(cycle) == 0 {
			return "harness-error:bad-input"
		} else {
			cycle[len(cycle)-1] = append(cycle[len(cycle)-1], t)
		}
	}
	if reps <= 0 || len(cycle) == 0 {
		return "harness-error:bad-input"
	}
	h := newMemHandler()

	// the idle timeout of the server and the timeout of the client are far above
	// what a loopback exchange takes, also on a loaded machine
	sconf := &modbus.ServerConfiguration{URL: "tcp://127.0.0.1:0", Timeout: 60 * time.Second, MaxClients: 2, Logger: quiet}
	var mat *e2eTLS
	if useTLS {
		mat = e2eTLSMaterial()
		if mat.err != nil {
			return "harness-error:tls-material:" + mat.err.Error()
		}
		sconf.URL = "tcp+tls://127.0.0.1:0"
		sconf.TLSServerCert = mat.serverCert
		sconf.TLSClientCAs = mat.pool
	}
	srv, err := modbus.NewServer(sconf, h)
	if err != nil {
		return "harness-error:newserver:" + err.Error()
	}
	if err := srv.Start(); err != nil {
		return "harness-error:start:" + err.Error()
	}
	defer srv.Stop()
	la := srv.VerifListenAddr()
	if la == nil {
		return "harness-error:no-listen-addr"
	}
	addr := la.String()

	cconf := &modbus.ClientConfiguration{URL: "tcp://" + addr, Timeout: 5 * time.Second, Logger: quiet}
	if useTLS {
		cconf.URL = "tcp+tls://" + addr
		cconf.TLSClientCert = mat.clientCert
		cconf.TLSRootCAs = mat.pool
	}
	mc, err := modbus.NewClient(cconf)
	if err != nil {
		return "harness-error:newclient:" + err.Error()
	}
	if err := mc.Open(); err != nil {
		return "harness-error:open:" + err.Error()
	}
	defer mc.Close()
	if err := mc.SetEncoding(modbus.Endianness(unhx(in[1])), modbus.WordOrder(unhx(in[2]))); err != nil {
		return "harness-error:initial-encoding"
	}

	started := time.Now()
	total := reps * len(cycle)
	counts := map[string]int{}
	var odd, blocks []string
	nodd, req, n := 0, 0, 0
	dg := md5.New()
	inBlock := 0
	closeBlock := func() {
		if inBlock > 0 {
			blocks = append(blocks, hex.EncodeToString(dg.Sum(nil))[:8])
			dg.Reset()
			inBlock = 0
		}
	}
	for i := 0; i < total; i++ {
		st := cycle[i%len(cycle)]
		var ferr error
		fskip := 0
		if len(st) >= 3 && st[0] == "fail" {
			fskip = atoi(st[1])
			ferr = behErr(st[2])
			st = st[3:]
		}
		h.mu.Lock()
		h.failErr, h.failSkip = ferr, fskip
		h.log = h.log[:0]
		h.mu.Unlock()

		var res string
		switch {
		case len(st) == 2 && st[0] == "setunit":
			mc.SetUnitId(uint8(unhx(st[1])))
			res = "ok:u"
		case len(st) == 3 && st[0] == "setenc":
			res = resStr("u", mc.SetEncoding(modbus.Endianness(unhx(st[1])), modbus.WordOrder(unhx(st[2]))))
		default:
			res = callOp(mc, c04LongDerive(st, i, stride))
		}

		h.mu.Lock()
		h.failErr, h.failSkip = nil, 0
		calls := "-"
		if len(h.log) > 0 {
			calls = strings.Join(h.log, "+")
		}
		req += len(h.log)
		h.mu.Unlock()

		dg.Write([]byte(res + " " + calls + "\n"))
		inBlock++
		if inBlock == c04LongBlock {
			closeBlock()
		}
		n++
		class, isOdd := c04LongClass(res)
		counts[class]++
		if isOdd {
			if nodd < 8 {
				odd = append(odd, itoa(i)+":"+res+"|"+calls)
			}
			nodd++
			if nodd >= 3 {
				break
			}
		}
		if i%256 == 255 && time.Since(started) > 200*time.Second {
			break
		}
	}
	closeBlock()

	var classes []string
	for k := range counts {
		classes = append(classes, k)
	}
	sort.Strings(classes)
	for i, k := range classes {
		classes[i] = k + "*" + itoa(counts[k])
	}
	oddS := "-"
	if len(odd) > 0 {
		oddS = strings.Join(odd, ",")
	}
	return "n=" + itoa(n) + " req=" + itoa(req) + " res=" + strings.Join(classes, ",") +
		" odd=" + oddS + " blocks=" + strings.Join(blocks, ",") + " " + h.dump()
}

// ---------------------------------------------------------------- generator

// one cycle of typed calls around a hot address, read-backs of the writes of
// the cycle, now and then another unit id / encoding / a handler that fails /
// an arbitrary (possibly locally rejected) call; `calls` = the steps that are
// certain to reach the server
func c04LongCycle(r *Rng) (toks []string, steps, calls int, stats []string) {
	stat := func(k string) { stats = append(stats, k) }
	m := r.Pick(5, 8, 13, 21, 34, 4+r.Intn(40))
	hot := r.Pick(0, 1, 0x7ffe, 0xff00, 0xfff0, 0xfffc, 0xfffd, 0xfffe, 0xffff, r.Intn(65536))
	var writes []e2eWrite
	for k := 0; k < m; k++ {
		x := r.Intn(100)
		if x < 4 {
			stat("long:step:setunit")
			toks = append(toks, ";", "setunit", hxi(r.Pick(0, 1, 17, 247, 255, r.Intn(256))))
			continue
		}
		if x < 10 {
			e, w := 1+r.Intn(2), 1+r.Intn(2)
			if r.Intn(6) == 0 {
				e = r.Pick(0, 3, 255)
				stat("long:step:setenc:invalid")
			}
			stat("long:step:setenc")
			toks = append(toks, ";", "setenc", hxi(e), hxi(w))
			continue
		}
		var op []string
		certain := true
		y := r.Intn(100)
		switch {
		case y < 5:
			for op = randOp(r, opValid); c04LongBig(op); op = randOp(r, opValid) {
			}
			stat("long:gen:valid")
		case y < 9:
			// any arguments: many are rejected locally
			for op = randOp(r, opAny); c04LongBig(op); op = randOp(r, opAny) {
			}
			certain = false
			stat("long:gen:any")
		case y < 60 || len(writes) == 0:
			op = e2eFocused(r, hot)
			stat("long:gen:focused")
		default:
			op = e2eReadBack(r, writes[r.Intn(len(writes))])
			stat("long:gen:readback")
		}
		stat("long:op:" + op[0])
		toks = append(toks, ";")
		if r.Intn(16) == 0 {
			stat("long:step:fail")
			toks = append(toks, "fail", itoa(r.Pick(0, 0, 0, 1)), e2eErrNames[r.Intn(len(e2eErrNames))])
		}
		toks = append(toks, op...)
		if certain {
			calls++
		}
		if w, ok := e2eWriteInfo(op); ok {
			writes = append(writes, w)
		}
	}
	return toks, m, calls, stats
}

// the steps of a cycle are run thousands of times, and the specification
// enumerates the cells of a call one by one (unary position arithmetic): calls
// on more than 64 cells (128 coils) are left to scenario e2e, which goes up to the protocol
// limits; read quantities no request can carry (rejected locally) stay in
func c04LongBig(op []string) bool {
	if strings.HasPrefix(op[0], "Read") {
		if strings.HasSuffix(op[0], "s") && len(op) >= 3 {
			q := unhx(op[2])
			return q > 64 && q <= 2100
		}
		return false
	}
	for _, t := range op[2:] {
		if n, _, ok := expandRep(t); ok {
			return n > 64
		}
		if c := strings.Count(t, ","); c >= 64 || (c == 0 && len(t) > 128) {
			return true
		}
	}
	return false
}

// what the model side spends on one round of the cycle, in units of about
// 0.6 us: the extracted specification splits a written value into words by
// binary long division (a 64-bit value costs about 0.1 ms, a 32-bit value a
// fifth of that) and joins the registers of a value read by multiplications
// (a few us per register)
func c04LongWeight(toks []string) int {
	n := 0
	for i, t := range toks {
		if i+2 >= len(toks) {
			continue
		}
		v := toks[i+2]
		switch t {
		case "WriteCoil":
			n++
		case "WriteCoils":
			n += len(boolsTok(v))
		case "WriteRegister":
			n += 8
		case "WriteRegisters":
			n += 8 * len(numsTok(v))
		case "WriteUint32", "WriteFloat32":
			n += 40
		case "WriteUint32s", "WriteFloat32s":
			n += 40 * len(numsTok(v))
		case "WriteUint64", "WriteFloat64":
			n += 128
		case "WriteUint64s", "WriteFloat64s":
			n += 128 * len(numsTok(v))
		case "WriteBytes", "WriteRawBytes":
			n += 2 * len(bytesTok(v))
		case "ReadCoils", "ReadDiscreteInputs":
			n += int(unhx(v)&0xffff) / 2
		case "ReadRegisters":
			n += 6 * int(unhx(v)&0xffff)
		case "ReadUint32s", "ReadFloat32s":
			n += 12 * int(unhx(v)&0xffff)
		case "ReadUint64s", "ReadFloat64s":
			n += 24 * int(unhx(v)&0xffff)
		case "ReadBytes", "ReadRawBytes":
			n += 3 * int(unhx(v)&0xffff)
		case "ReadUint64", "ReadFloat64":
			n += 24
		}
	}
	return n
}

func scnE2ELong(o *Out, r *Rng, thorough bool) {
	var ins []string
	// rounds: how many times the requests of the history go round the 16-bit
	// transaction identifier of the connection. budget: what the steps of the
	// whole history may cost on the model side (c04LongWeight times the number
	// of rounds; 4 000 000 is about 2.5 s): cycles that are too heavy for the
	// tier are drawn again
	add := func(scheme string, rounds int, budget int) {
		var toks, stats []string
		steps, calls, reps := 0, 0, 0
		want := rounds*65536 + 40 + r.Intn(400)
		for {
			toks, steps, calls, stats = c04LongCycle(r)
			if calls < 2 || 5*calls < 4*steps {
				continue
			}
			reps = (want + calls - 1) / calls
			if c04LongWeight(toks)*reps <= budget {
				break
			}
		}
		for _, k := range stats {
			o.Stat(k)
		}
		head := []string{scheme, itoa(1 + r.Intn(2)), itoa(1 + r.Intn(2)), itoa(reps), hxu(r.U64() | 1)}
		ins = append(ins, strings.Join(append(head, toks...), " "))
		o.Stat("long:scheme:" + scheme)
	}
	add("tcp", 1, 4000000)
	add("tls", 1, 4000000)
	if thorough {
		add("tcp", 1, 32000000)
		add("tcp", 1, 32000000)
		add("tcp", 2, 32000000)
		add("tls", 1, 32000000)
		add("tls", 2, 32000000)
		add("tcp", 0, 32000000) // a few hundred requests: the short end of the same family
	}
	for _, out := range o.RunMany("e2elong", ins) {
		f := strings.Fields(out)
		if len(f) != 8 || !strings.HasPrefix(f[1], "req=") {
			o.Stat("long:out:" + out)
			continue
		}
		req := atoi(f[1][4:])
		switch {
		case req > 2*65536:
			o.Stat("long:requests-on-one-connection:more-than-131072")
		case req > 65536:
			o.Stat("long:requests-on-one-connection:more-than-65536")
		default:
			o.Stat("long:requests-on-one-connection:fewer")
		}
		for _, c := range strings.Split(strings.TrimPrefix(f[2], "res="), ",") {
			p := strings.SplitN(c, "*", 2)
			if len(p) == 2 {
				o.stats["long:res:"+p[0]] += atoi(p[1])
			}
		}
		if f[3] != "odd=-" {
			o.Stat("long:transport-failures:some")
		}
	}
}
