package main

// C16 - Each URL scheme selects its documented transport; bad configs are
// refused. Executors run the real NewClient / NewServer / SetEncoding / Open /
// Start; the effective configuration is read through VerifClientConfig /
// VerifServerConfig, the wiring is observed by a loopback peer.

import (
	"bytes"
	"crypto/ecdsa"
	"crypto/elliptic"
	"crypto/rand"
	"crypto/tls"
	"crypto/x509"
	"crypto/x509/pkix"
	"fmt"
	"math/big"
	"net"
	"os"
	"strconv"
	"strings"
	"sync"
	"syscall"
	"time"
	"unsafe"

	"github.com/simonvetter/modbus"
	"verifharness/internal/sconn"
)

// ------------------------------------------------------------ credentials

var (
	c16CredOnce sync.Once
	c16Cert     *tls.Certificate
	c16Pool     *x509.CertPool
	c16CredErr  error
)

// one in-memory self-signed key pair (valid as server and as client
// certificate for 127.0.0.1) and a pool holding it
func c16Creds() (*tls.Certificate, *x509.CertPool) {
	c16CredOnce.Do(func() {
		key, err := ecdsa.GenerateKey(elliptic.P256(), rand.Reader)
		if err != nil {
			c16CredErr = err
			return
		}
		tmpl := &x509.Certificate{
			SerialNumber:          big.NewInt(16),
			Subject:               pkix.Name{CommonName: "verif-c16"},
			NotBefore:             time.Now().Add(-time.Hour),
			NotAfter:              time.Now().Add(24 * time.Hour),
			KeyUsage:              x509.KeyUsageDigitalSignature | x509.KeyUsageCertSign,
			ExtKeyUsage:           []x509.ExtKeyUsage{x509.ExtKeyUsageServerAuth, x509.ExtKeyUsageClientAuth},
			BasicConstraintsValid: true,
			IsCA:                  true,
			IPAddresses:           []net.IP{net.ParseIP("127.0.0.1")},
			DNSNames:              []string{"localhost"},
		}
		der, err := x509.CreateCertificate(rand.Reader, tmpl, tmpl, &key.PublicKey, key)
		if err != nil {
			c16CredErr = err
			return
		}
		leaf, err := x509.ParseCertificate(der)
		if err != nil {
			c16CredErr = err
			return
		}
		c16Cert = &tls.Certificate{Certificate: [][]byte{der}, PrivateKey: key, Leaf: leaf}
		c16Pool = x509.NewCertPool()
		c16Pool.AddCert(leaf)
	})
	if c16CredErr != nil {
		panic(c16CredErr)
	}
	return c16Cert, c16Pool
}

// signed hex (time.Duration is an int64)
func shx(v int64) string {
	if v < 0 {
		return "-" + strconv.FormatUint(uint64(-(v+1))+1, 16)
	}
	return strconv.FormatUint(uint64(v), 16)
}

func unshx(s string) int64 {
	if strings.HasPrefix(s, "-") {
		return -int64(unhx(s[1:])-1) - 1
	}
	return int64(unhx(s))
}

// ------------------------------------------------------------ executors

func c16NewClient(in []string) (out string) {
	defer func() {
		if r := recover(); r != nil {
			out = "panic"
		}
	}()
	conf := &modbus.ClientConfiguration{
		URL:      string(unhex(in[0])),
		Speed:    uint(unhx(in[1])),
		DataBits: uint(unhx(in[2])),
		Parity:   uint(unhx(in[3])),
		StopBits: uint(unhx(in[4])),
		Timeout:  time.Duration(unshx(in[5])),
		Logger:   quiet,
	}
	cert, pool := c16Creds()
	if in[6] == "1" {
		conf.TLSClientCert = cert
	}
	if in[7] == "1" {
		conf.TLSRootCAs = pool
	}
	before := *conf
	mc, err := modbus.NewClient(conf)
	if *conf != before {
		return "caller-config-modified"
	}
	if err != nil {
		res := "err:" + errClass(err)
		// a refused configuration must not leave a half-working object behind:
		// whatever is returned along with the error refuses to open
		if mc != nil {
			if oerr := mc.Open(); oerr != modbus.ErrConfigurationError {
				res += "+open:" + errClass(oerr)
			}
		}
		return res
	}
	c := modbus.VerifClientConfig(mc)
	return fmt.Sprintf("%s %s %s %s %s %s %s %s %s %s", hx([]byte(c.URL)), hxu(uint64(c.Speed)),
		hxu(uint64(c.DataBits)), hxu(uint64(c.Parity)), hxu(uint64(c.StopBits)), shx(int64(c.Timeout)),
		hxu(uint64(c.UnitId)), hxu(uint64(c.Endianness)), hxu(uint64(c.WordOrder)), hxu(uint64(c.Transport)))
}

func c16NewServer(in []string) (out string) {
	defer func() {
		if r := recover(); r != nil {
			out = "panic"
		}
	}()
	conf := &modbus.ServerConfiguration{
		URL:        string(unhex(in[0])),
		Timeout:    time.Duration(unshx(in[1])),
		MaxClients: uint(unhx(in[2])),
		Logger:     quiet,
	}
	cert, pool := c16Creds()
	if in[3] == "1" {
		conf.TLSServerCert = cert
	}
	if in[4] == "1" {
		conf.TLSClientCAs = pool
	}
	before := *conf
	var events []string
	ms, err := modbus.NewServer(conf, &scriptHandler{events: &events})
	if *conf != before {
		return "caller-config-modified"
	}
	if err != nil {
		res := "err:" + errClass(err)
		if ms != nil {
			if serr := ms.Start(); serr != modbus.ErrConfigurationError {
				res += "+start:" + errClass(serr)
				ms.Stop()
			}
		}
		return res
	}
	c := modbus.VerifServerConfig(ms)
	return fmt.Sprintf("%s %s %s %s", hx([]byte(c.URL)), shx(int64(c.Timeout)),
		hxu(uint64(c.MaxClients)), hxu(uint64(c.Transport)))
}

// setenc: e w -> error class, frame of the typed write that follows
func c16SetEnc(in []string) (out string) {
	defer func() {
		if r := recover(); r != nil {
			out = "panic"
		}
	}()
	c := sconn.New(true)
	mc, err := modbus.VerifNewClientOnConn(&modbus.ClientConfiguration{
		URL: "tcp://sconn", Timeout: time.Second, Logger: quiet}, c)
	if err != nil {
		return "harness-error:" + err.Error()
	}
	serr := mc.SetEncoding(modbus.Endianness(unhx(in[0])), modbus.WordOrder(unhx(in[1])))
	// no reply is scripted: the write goes out, the call then times out
	mc.WriteUint32(0, 0x11223344)
	return errClass(serr) + " " + writesStr(c.WriteLog())
}

// what a frame looks like to the peer that received it
func c16Framing(b []byte) string {
	mbap := len(b) >= 8 && b[2] == 0 && b[3] == 0 && int(b[4])<<8|int(b[5]) == len(b)-6
	rtu := false
	if len(b) >= 4 {
		lo, hi := crcRef(b[:len(b)-2])
		rtu = lo == b[len(b)-2] && hi == b[len(b)-1]
	}
	switch {
	case mbap && rtu:
		return "ambiguous:" + hx(b)
	case mbap:
		return "mbap"
	case rtu:
		return "rtu"
	}
	return "unknown:" + hx(b)
}

// reads what arrives until the line has been quiet for a while
func c16ReadBurst(c net.Conn, first time.Duration) []byte {
	var got []byte
	buf := make([]byte, 1024)
	wait := first
	for {
		c.SetReadDeadline(time.Now().Add(wait))
		n, err := c.Read(buf)
		got = append(got, buf[:n]...)
		if err != nil {
			return got
		}
		wait = 60 * time.Millisecond
	}
}

// a conn that replays bytes already taken from the socket
type c16Replay struct {
	net.Conn
	pre []byte
}

func (p *c16Replay) Read(b []byte) (int, error) {
	if len(p.pre) > 0 {
		n := copy(b, p.pre)
		p.pre = p.pre[n:]
		return n, nil
	}
	return p.Conn.Read(b)
}

const (
	c16TIOCGPTN   = 0x80045430
	c16TIOCSPTLCK = 0x40045431
)

// pseudo terminal pair: the master side plays the serial device
func c16OpenPty() (master *os.File, slave string, err error) {
	master, err = os.OpenFile("/dev/ptmx", os.O_RDWR|syscall.O_NOCTTY, 0)
	if err != nil {
		return
	}
	var unlock int32
	if _, _, e := syscall.Syscall(syscall.SYS_IOCTL, master.Fd(), c16TIOCSPTLCK, uintptr(unsafe.Pointer(&unlock))); e != 0 {
		master.Close()
		return nil, "", e
	}
	var n uint32
	if _, _, e := syscall.Syscall(syscall.SYS_IOCTL, master.Fd(), c16TIOCGPTN, uintptr(unsafe.Pointer(&n))); e != 0 {
		master.Close()
		return nil, "", e
	}
	slave = "/dev/pts/" + strconv.Itoa(int(n))
	return
}

func c16PtyAvailable() bool {
	m, _, err := c16OpenPty()
	if err != nil {
		return false
	}
	m.Close()
	return true
}

// wiring: scheme -> "<socket kind> <framing>" as seen by a loopback peer of
// a client built by NewClient + Open for <scheme>://<peer>
func c16Wiring(in []string) (out string) {
	defer func() {
		if r := recover(); r != nil {
			out = "panic"
		}
	}()
	scheme := string(unhex(in[0]))
	cert, pool := c16Creds()
	conf := &modbus.ClientConfiguration{Timeout: 100 * time.Millisecond, Logger: quiet,
		TLSClientCert: cert, TLSRootCAs: pool}

	type seen struct {
		kind string
		data []byte
	}
	res := make(chan seen, 4)
	var cleanup []func()
	defer func() {
		for _, f := range cleanup {
			f()
		}
	}()

	// the peer offers every socket type on loopback; the client decides which
	// one it talks to
	tl, err := net.Listen("tcp", "127.0.0.1:0")
	if err != nil {
		return "harness-error:" + err.Error()
	}
	cleanup = append(cleanup, func() { tl.Close() })
	go func() {
		c, err := tl.Accept()
		if err != nil {
			return
		}
		defer c.Close()
		first := c16ReadBurst(c, 2*time.Second)
		if len(first) >= 3 && first[0] == 0x16 && first[1] == 0x03 {
			// a TLS handshake record: complete the handshake and look inside
			ts := tls.Server(&c16Replay{Conn: c, pre: first}, &tls.Config{
				Certificates: []tls.Certificate{*cert}, ClientAuth: tls.RequireAnyClientCert,
				MinVersion: tls.VersionTLS12})
			c.SetDeadline(time.Now().Add(3 * time.Second))
			if err := ts.Handshake(); err != nil {
				res <- seen{"tls-handshake-failed", nil}
				return
			}
			c.SetDeadline(time.Time{})
			res <- seen{"tls", c16ReadBurst(ts, 2*time.Second)}
			return
		}
		res <- seen{"tcp", first}
	}()

	var target string
	switch {
	case scheme == "rtu":
		master, slave, err := c16OpenPty()
		if err != nil {
			return "harness-error:pty:" + err.Error()
		}
		cleanup = append(cleanup, func() { master.Close() })
		target = slave
		go func() {
			var got []byte
			buf := make([]byte, 256)
			deadline := time.Now().Add(2 * time.Second)
			fd := int(master.Fd()) // (Fd() switches the descriptor to blocking mode: call it once)
			syscall.SetNonblock(fd, true)
			quietSince := time.Time{}
			for time.Now().Before(deadline) {
				n, err := syscall.Read(fd, buf)
				if n > 0 {
					got = append(got, buf[:n]...)
					quietSince = time.Now()
				} else if err != nil && err != syscall.EAGAIN && err != syscall.EIO {
					break
				}
				if len(got) > 0 && time.Since(quietSince) > 60*time.Millisecond {
					break
				}
				time.Sleep(2 * time.Millisecond)
			}
			res <- seen{"serial", got}
		}()
	case strings.Contains(scheme, "udp"):
		pc, err := net.ListenPacket("udp", "127.0.0.1:0")
		if err != nil {
			return "harness-error:" + err.Error()
		}
		cleanup = append(cleanup, func() { pc.Close() })
		target = pc.LocalAddr().String()
		go func() {
			buf := make([]byte, 2048)
			pc.SetReadDeadline(time.Now().Add(2 * time.Second))
			n, _, err := pc.ReadFrom(buf)
			if err != nil {
				return
			}
			res <- seen{"udp", append([]byte(nil), buf[:n]...)}
		}()
	default:
		target = tl.Addr().String()
	}

	conf.URL = scheme + "://" + target
	mc, err := modbus.NewClient(conf)
	if err != nil {
		return "err:" + errClass(err)
	}
	if err = mc.Open(); err != nil {
		return "open-error:" + err.Error()
	}
	mc.ReadRegisters(0, 1, modbus.HOLDING_REGISTER)
	defer mc.Close()

	select {
	case s := <-res:
		return s.kind + " " + c16Framing(s.data)
	case <-time.After(3 * time.Second):
		return "nothing-seen"
	}
}

// srvwiring: scheme -> what a loopback client has to speak to get an answer
// from a server built by NewServer + Start for <scheme>://127.0.0.1:0
func c16SrvWiring(in []string) (out string) {
	defer func() {
		if r := recover(); r != nil {
			out = "panic"
		}
	}()
	scheme := string(unhex(in[0]))
	cert, pool := c16Creds()
	var events []string
	ms, err := modbus.NewServer(&modbus.ServerConfiguration{URL: scheme + "://127.0.0.1:0",
		TLSServerCert: cert, TLSClientCAs: pool, Logger: quiet}, &scriptHandler{events: &events})
	if err != nil {
		return "err:" + errClass(err)
	}
	if err = ms.Start(); err != nil {
		return "start-error:" + err.Error()
	}
	defer ms.Stop()
	addr := ms.VerifListenAddr()
	if addr == nil || addr.Network() != "tcp" {
		return "no-tcp-listener"
	}
	req := mbapFrame(7, 0, -1, 1, 3, []byte{0, 0, 0, 1})
	try := func(c net.Conn) string {
		c.SetDeadline(time.Now().Add(500 * time.Millisecond))
		if _, err := c.Write(req); err != nil {
			return ""
		}
		buf := make([]byte, 512)
		n, _ := c.Read(buf)
		if n == 0 {
			return ""
		}
		if !bytes.Equal(buf[:2], req[:2]) {
			return "unknown:" + hx(buf[:n])
		}
		return c16Framing(buf[:n])
	}
	// plain TCP first
	if c, err := net.DialTimeout("tcp", addr.String(), time.Second); err == nil {
		r := try(c)
		c.Close()
		if r != "" {
			return "tcp " + r
		}
	}
	// then inside TLS
	c, err := tls.DialWithDialer(&net.Dialer{Timeout: time.Second}, "tcp", addr.String(), &tls.Config{
		Certificates: []tls.Certificate{*cert}, RootCAs: pool, MinVersion: tls.VersionTLS12})
	if err != nil {
		return "no-answer"
	}
	defer c.Close()
	if r := try(c); r != "" {
		return "tls " + r
	}
	return "no-answer"
}

// ------------------------------------------------------------ generators

var c16Schemes = []string{"tcp", "tcp+tls", "udp", "rtu", "rtuovertcp", "rtuoverudp"}

func c16NearMisses(r *Rng) []string {
	var l []string
	for _, s := range c16Schemes {
		flip := []byte(s)
		k := r.Intn(len(flip))
		if flip[k] >= 'a' && flip[k] <= 'z' {
			flip[k] -= 32
		}
		l = append(l,
			strings.ToUpper(s)+"://h:1", strings.Title(s)+"://h:1", string(flip)+"://h:1",
			"x"+s+"://h:1", s+"x://h:1", " "+s+"://h:1", s+" ://h:1", s+":// h:1",
			"\t"+s+"://h:1", s+"\n://h:1", s+"\x00://h:1", "\x00"+s+"://h:1",
			s[:len(s)-1]+"://h:1", s[1:]+"://h:1",
			s+":/h:1", s+":/x", s+":///x", s+"//h:1", s+":h:1", s+"/://h:1", s+":/ /h:1", s+";//h:1",
			s, s+":", s+":/", s+"://", s+"://"+"://", s+"://a://b", "a://"+s+"://b", "://"+s+"://b",
			s+"://"+s+"://h:1", s+s+"://h:1", s+"+tls://h:1", s+"+://h:1", "+"+s+"://h:1")
	}
	l = append(l, "", ":", "/", "//", ":/", "://", ":///", "://x", "x", "h:502", "localhost:502",
		"rtu+tls://x", "tls://x", "tcp-tls://x", "tcp+TLS://x", "tcp +tls://x", "tcptls://x", "tcp+tls+tcp://x",
		"tcp+ssl://x", "ssl://x", "modbus://x", "mbap://x", "http://x", "serial:///dev/ttyS0", "rtuoverTCP://x",
		"rtu over tcp://x", "rtuovertcp+tls://x", "rtuovertls://x", "udp+tls://x", "tcpoverudp://x", "rtuoverrtu://x",
		"t\u0441p://x", "\xff\xfe://x", "tcp\xc0\x80://x", "tcp:\u2215/x", "ｔｃｐ://x")
	return l
}

func c16RandURL(r *Rng) string {
	n := r.Intn(24)
	b := make([]byte, n)
	switch r.Intn(3) {
	case 0: // printable
		for i := range b {
			b[i] = byte(32 + r.Intn(95))
		}
	case 1: // URL-ish alphabet, separators likely
		alpha := "tcpudrls+:/ov e"
		for i := range b {
			b[i] = alpha[r.Intn(len(alpha))]
		}
	default: // binary
		copy(b, r.Bytes(n))
	}
	s := string(b)
	switch r.Intn(4) {
	case 0: // put a separator somewhere
		k := r.Intn(len(s) + 1)
		s = s[:k] + "://" + s[k:]
	case 1: // a valid scheme in front
		s = c16Schemes[r.Intn(len(c16Schemes))] + "://" + s
	}
	return s
}

var c16Speeds = []uint64{9600, 115200, 1, 19200, 19201, 1 << 32, ^uint64(0)}
var c16DataBits = []uint64{5, 7, 8, 9, 255, ^uint64(0)}
var c16Parities = []uint64{1, 2, 3, 255, 1 << 40}
var c16StopBits = []uint64{1, 2, 3, 1 << 33}
var c16Timeouts = []int64{1, int64(time.Millisecond), int64(300 * time.Millisecond), int64(time.Second),
	int64(5 * time.Second), int64(120 * time.Second), -1, -int64(time.Second), 1<<63 - 1, -1 << 63}

func c16PickU(r *Rng, l []uint64) uint64 { return l[r.Intn(len(l))] }

// client input for a URL and a 7-bit mask of the fields that are set
func c16ClientIn(r *Rng, url string, mask int) string {
	f := []string{hx([]byte(url)), "0", "0", "0", "0", "0", "0", "0"}
	if mask&1 != 0 {
		f[1] = hxu(c16PickU(r, c16Speeds))
	}
	if mask&2 != 0 {
		f[2] = hxu(c16PickU(r, c16DataBits))
	}
	if mask&4 != 0 {
		f[3] = hxu(c16PickU(r, c16Parities))
	}
	if mask&8 != 0 {
		f[4] = hxu(c16PickU(r, c16StopBits))
	}
	if mask&16 != 0 {
		f[5] = shx(c16Timeouts[r.Intn(len(c16Timeouts))])
	}
	if mask&32 != 0 {
		f[6] = "1"
	}
	if mask&64 != 0 {
		f[7] = "1"
	}
	return strings.Join(f, " ")
}

func c16ServerIn(r *Rng, url string, mask int) string {
	f := []string{hx([]byte(url)), "0", "0", "0", "0"}
	if mask&1 != 0 {
		f[1] = shx(c16Timeouts[r.Intn(len(c16Timeouts))])
	}
	if mask&2 != 0 {
		f[2] = hxu(c16PickU(r, []uint64{1, 2, 10, 11, 1000, 1 << 32, ^uint64(0)}))
	}
	if mask&4 != 0 {
		f[3] = "1"
	}
	if mask&8 != 0 {
		f[4] = "1"
	}
	return strings.Join(f, " ")
}

var c16Rests = []string{"", "h:502", "127.0.0.1:502", "[::1]:502", "/dev/ttyUSB0", "a://b", "://", " ", "x y", "\x00", "COM1"}

func c16Outcome(out string) string {
	if strings.HasPrefix(out, "err:") || out == "panic" {
		return out
	}
	f := strings.Fields(out)
	return "ok:transport" + f[len(f)-1]
}

func scnC16NewClient(o *Out, r *Rng, thorough bool) {
	var ins []string
	// the six schemes x targets x every subset of the optional fields
	for _, s := range c16Schemes {
		for _, rest := range c16Rests {
			for mask := 0; mask < 128; mask++ {
				ins = append(ins, c16ClientIn(r, s+"://"+rest, mask))
			}
		}
	}
	// near misses: nothing set, everything set, random subsets
	for _, u := range c16NearMisses(r) {
		ins = append(ins, c16ClientIn(r, u, 0), c16ClientIn(r, u, 127), c16ClientIn(r, u, 96))
		for k := 0; k < 3; k++ {
			ins = append(ins, c16ClientIn(r, u, r.Intn(128)))
		}
	}
	n := 4000
	if thorough {
		n = 60000
	}
	for i := 0; i < n; i++ {
		ins = append(ins, c16ClientIn(r, c16RandURL(r), r.Intn(128)))
	}
	for _, out := range o.RunMany("newclient", ins) {
		o.Stat("newclient:" + c16Outcome(out))
	}
}

func scnC16NewServer(o *Out, r *Rng, thorough bool) {
	var ins []string
	for _, s := range c16Schemes {
		for _, rest := range c16Rests {
			for mask := 0; mask < 16; mask++ {
				ins = append(ins, c16ServerIn(r, s+"://"+rest, mask))
			}
		}
	}
	for _, u := range c16NearMisses(r) {
		for mask := 0; mask < 16; mask++ {
			if mask == 0 || mask == 15 || mask == 12 || r.Intn(4) == 0 {
				ins = append(ins, c16ServerIn(r, u, mask))
			}
		}
	}
	n := 4000
	if thorough {
		n = 60000
	}
	for i := 0; i < n; i++ {
		ins = append(ins, c16ServerIn(r, c16RandURL(r), r.Intn(16)))
	}
	for _, out := range o.RunMany("newserver", ins) {
		o.Stat("newserver:" + c16Outcome(out))
	}
}

func scnC16SetEnc(o *Out, r *Rng, thorough bool) {
	vals := []uint64{0, 1, 2, 3}
	big := []uint64{4, 255, 256, 257, 258, 0x101, 0x102, 0x10001, 0x10002, 65535, 1 << 31, 1 << 32, 1<<32 + 1, 1<<32 + 2,
		1 << 63, 1<<63 + 1, 1<<63 + 2, ^uint64(0), ^uint64(0) - 1}
	var ins []string
	for _, e := range vals {
		for _, w := range vals {
			ins = append(ins, hxu(e)+" "+hxu(w))
		}
	}
	for _, b := range big {
		for _, v := range vals {
			ins = append(ins, hxu(b)+" "+hxu(v), hxu(v)+" "+hxu(b))
		}
		ins = append(ins, hxu(b)+" "+hxu(big[r.Intn(len(big))]))
	}
	n := 200
	if thorough {
		n = 5000
	}
	for i := 0; i < n; i++ {
		e, w := r.U64(), r.U64()
		if r.Bool() {
			e = uint64(r.Intn(4))
		}
		if r.Bool() {
			w = uint64(r.Intn(4))
		}
		if r.Intn(3) == 0 {
			e, w = uint64(1+r.Intn(2)), uint64(1+r.Intn(2))
		}
		ins = append(ins, hxu(e)+" "+hxu(w))
	}
	for _, out := range o.RunMany("setenc", ins) {
		o.Stat("setenc:" + strings.Fields(out)[0])
	}
}

func scnC16Wiring(o *Out, r *Rng, thorough bool) {
	pty := c16PtyAvailable()
	for _, s := range c16Schemes {
		if s == "rtu" && !pty {
			o.Stat("wiring:rtu:skipped-no-pty")
			continue
		}
		out := o.Run("wiring", hx([]byte(s)))
		o.Stat("wiring:" + s + ":" + out)
	}
	// schemes no transport exists for: nothing may be opened
	for _, s := range []string{"TCP", "tcp ", "rtu+tls", "", "tls", "rtuovertls"} {
		o.Run("wiring", hx([]byte(s)))
	}
	for _, s := range append(append([]string{}, c16Schemes...), "TCP", "tls", "") {
		out := o.Run("srvwiring", hx([]byte(s)))
		o.Stat("srvwiring:" + s + ":" + out)
	}
}

func init() {
	register("C16", scnC16NewClient, scnC16NewServer, scnC16SetEnc, scnC16Wiring)
	executors["newclient"] = c16NewClient
	executors["newserver"] = c16NewServer
	executors["setenc"] = c16SetEnc
	executors["wiring"] = c16Wiring
	executors["srvwiring"] = c16SrvWiring
}
