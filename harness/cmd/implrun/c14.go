package main

// C14 - Modbus/TLS enforces mutual authentication in both directions.
//
// All certificates are generated at run time (a CA, a foreign CA, an
// intermediate, leaves). The credential x version matrix is enumerated
// completely in the quick tier.
//
// scenario "tlssrv": cred kind ver hascert verifies expected bytes exts
//   a real modbus.NewServer("tcp+tls://127.0.0.1:0") with a counting handler;
//   a harness peer (TLS client presenting <cred> at exactly version <ver>, or
//   a plain-text peer) connects, sends <bytes> (a valid MBAP request) after
//   the handshake attempt and tries to read the response.
//   output "calls=<handler invocations> resp=<0/1> role=<hex of the ClientRole the handler saw, - if none>"
//   (exts: the extension list of the presented leaf in the C15 token format;
//   some credentials carry a Modbus Role extension)
// scenario "tlscli": cred ver hascert verifies expected host name
//   a real modbus.NewClient("tcp+tls://<host>:<port>") + Open + ReadRegister
//   against a harness TLS server presenting <cred> at exactly <ver>
//   (ClientAuth = RequestClientCert: its side of the handshake does not depend
//   on the client certificate) that counts the application bytes it receives.
//   output "open=<ok|err> bytes=<n>"
// scenario "tlsctor": side scheme hascert haspool -> "ok" | "err:<class>"
// scenario "tlsctl": keyset ver -> "ok": harness client against harness server
//   at exactly <ver> (control: this process CAN negotiate TLS 1.0 .. 1.3, so
//   a refusal seen in tlssrv/tlscli is the library's doing).
//
// scenarios "tlschainrole", "tlsroles", "tlsresume", "tlsresumectl": see c14b.go
//
// verifies = x509.Certificate.Verify of the presented leaf with the pool
// configured on the modbus side, the presented intermediates, the usage and
// host name crypto/tls would use, now; computed when the case is generated,
// independently of any connection. expected = verifies && ver >= TLS 1.2.

import (
	"crypto"
	"crypto/ecdsa"
	"crypto/elliptic"
	"crypto/rand"
	"crypto/rsa"
	"crypto/tls"
	"crypto/x509"
	"crypto/x509/pkix"
	"fmt"
	"io"
	"math/big"
	"net"
	"strings"
	"sync"
	"time"

	"github.com/simonvetter/modbus"
)

const c14OpTimeout = 2 * time.Second

// ------------------------------------------------------------ certificates

type c14Cred struct {
	name string
	cert *tls.Certificate // nil: the peer has no certificate
	pool *x509.CertPool   // what the modbus side is configured with (ClientCAs / RootCAs)
}

type c14PKI struct {
	caPool    *x509.CertPool
	srvValid  *tls.Certificate // the modbus server's own certificate in tlssrv
	cliValid  *tls.Certificate // the modbus client's own certificate in tlscli
	clients   map[string]*c14Cred
	servers   map[string]*c14Cred
	cliOrder  []string
	srvOrder  []string
	serialCtr int64
	// c14b.go: credentials of the scenarios tlschainrole / tlsroles / tlsresume
	// (kept out of cliOrder / srvOrder: the tlssrv / tlscli matrices are unchanged)
	chainOrder []string                  // client credentials presenting leaf + issuer, in clients[]
	roleOrder  []string                  // client credentials that all carry serial number 1, in clients[]
	rolePool   *x509.CertPool            // the client CA pool of the tlsroles server
	rootSets   map[string]*x509.CertPool // named root pools of the tlsresume clients
	rootOrder  []string
	extsOf     map[string]string // extension tokens of certificates crypto/x509 refuses to parse, by credential name
}

var (
	c14PKIMu  sync.Mutex
	c14PKISet = map[string]*c14PKI{}
)

type c14Signer struct {
	cert *x509.Certificate
	key  crypto.Signer
}

func c14NewKey(rsaKeys bool) crypto.Signer {
	if rsaKeys {
		k, err := rsa.GenerateKey(rand.Reader, 2048)
		if err != nil {
			panic(err)
		}
		return k
	}
	k, err := ecdsa.GenerateKey(elliptic.P256(), rand.Reader)
	if err != nil {
		panic(err)
	}
	return k
}

type c14Spec struct {
	cn          string
	isCA        bool
	notBefore   time.Duration // relative to now
	notAfter    time.Duration
	eku         []x509.ExtKeyUsage
	ips         []net.IP
	dns         []string
	role        []byte           // DER value of a Modbus Role extension (nil: none)
	serial      int64            // fixed serial number (0: the next one of the counter)
	extra       []pkix.Extension // further extensions, after the role extension
	mayNotParse bool             // crypto/x509 may refuse to parse the result (duplicated extension)
}

// issue creates a key pair and a certificate signed by parent (self-signed when parent is nil)
func (p *c14PKI) issue(rsaKeys bool, s c14Spec, parent *c14Signer) (*c14Signer, []byte) {
	key := c14NewKey(rsaKeys)
	p.serialCtr++
	now := time.Now()
	tmpl := &x509.Certificate{
		SerialNumber:          big.NewInt(1000 + p.serialCtr),
		Subject:               pkix.Name{CommonName: s.cn, Organization: []string{"verif-c14"}},
		NotBefore:             now.Add(s.notBefore),
		NotAfter:              now.Add(s.notAfter),
		KeyUsage:              x509.KeyUsageDigitalSignature,
		ExtKeyUsage:           s.eku,
		BasicConstraintsValid: true,
		IsCA:                  s.isCA,
		IPAddresses:           s.ips,
		DNSNames:              s.dns,
	}
	if s.isCA {
		tmpl.KeyUsage |= x509.KeyUsageCertSign
	}
	if s.serial != 0 {
		tmpl.SerialNumber = big.NewInt(s.serial)
	}
	if s.role != nil {
		tmpl.ExtraExtensions = []pkix.Extension{{Id: oidKinds["r"], Value: s.role}}
	}
	tmpl.ExtraExtensions = append(tmpl.ExtraExtensions, s.extra...)
	if _, ok := key.(*rsa.PrivateKey); ok {
		tmpl.KeyUsage |= x509.KeyUsageKeyEncipherment
	}
	signer := &c14Signer{cert: tmpl, key: key}
	if parent != nil {
		signer = parent
	}
	der, err := x509.CreateCertificate(rand.Reader, tmpl, signer.cert, key.Public(), signer.key)
	if err != nil {
		panic(err)
	}
	cert, err := x509.ParseCertificate(der)
	if err != nil {
		if s.mayNotParse {
			// only the raw bytes are of any use (see c14RawCert)
			return &c14Signer{cert: &x509.Certificate{Raw: der}, key: key}, der
		}
		panic(err)
	}
	return &c14Signer{cert: cert, key: key}, der
}

func c14TLSCert(leaf *c14Signer, chain ...*c14Signer) *tls.Certificate {
	c := &tls.Certificate{Certificate: [][]byte{leaf.cert.Raw}, PrivateKey: leaf.key, Leaf: leaf.cert}
	for _, x := range chain {
		c.Certificate = append(c.Certificate, x.cert.Raw)
	}
	return c
}

func c14Pool(certs ...*c14Signer) *x509.CertPool {
	p := x509.NewCertPool()
	for _, c := range certs {
		p.AddCert(c.cert)
	}
	return p
}

// keyset "ec", "ec2", ... = ECDSA P-256; "rsa", ... = RSA 2048. Every keyset has its own fresh keys.
func c14GetPKI(keyset string) *c14PKI {
	c14PKIMu.Lock()
	defer c14PKIMu.Unlock()
	if p, ok := c14PKISet[keyset]; ok {
		return p
	}
	rsaKeys := strings.HasPrefix(keyset, "rsa")
	p := &c14PKI{clients: map[string]*c14Cred{}, servers: map[string]*c14Cred{}}
	const day = 24 * time.Hour
	cliEKU := []x509.ExtKeyUsage{x509.ExtKeyUsageClientAuth}
	srvEKU := []x509.ExtKeyUsage{x509.ExtKeyUsageServerAuth}
	lo := []net.IP{net.ParseIP("127.0.0.1")}

	ca, _ := p.issue(rsaKeys, c14Spec{cn: "verif CA", isCA: true, notBefore: -day, notAfter: 30 * day}, nil)
	foreign, _ := p.issue(rsaKeys, c14Spec{cn: "foreign CA", isCA: true, notBefore: -day, notAfter: 30 * day}, nil)
	inter, _ := p.issue(rsaKeys, c14Spec{cn: "verif intermediate", isCA: true, notBefore: -day, notAfter: 30 * day}, ca)
	p.caPool = c14Pool(ca)

	srvOwn, _ := p.issue(rsaKeys, c14Spec{cn: "modbus server", notBefore: -time.Hour, notAfter: day, eku: srvEKU, ips: lo}, ca)
	cliOwn, _ := p.issue(rsaKeys, c14Spec{cn: "modbus client", notBefore: -time.Hour, notAfter: day, eku: cliEKU}, ca)
	p.srvValid = c14TLSCert(srvOwn)
	p.cliValid = c14TLSCert(cliOwn)

	addC := func(name string, cert *tls.Certificate, pool *x509.CertPool) {
		p.clients[name] = &c14Cred{name: name, cert: cert, pool: pool}
		p.cliOrder = append(p.cliOrder, name)
	}
	addS := func(name string, cert *tls.Certificate, pool *x509.CertPool) {
		p.servers[name] = &c14Cred{name: name, cert: cert, pool: pool}
		p.srvOrder = append(p.srvOrder, name)
	}
	mk := func(s c14Spec, parent *c14Signer) *c14Signer { c, _ := p.issue(rsaKeys, s, parent); return c }
	ok := func(cn string, eku []x509.ExtKeyUsage, ips []net.IP) c14Spec {
		return c14Spec{cn: cn, notBefore: -time.Hour, notAfter: day, eku: eku, ips: ips}
	}

	// ---- client credentials (presented to the modbus server)
	withRole := func(s c14Spec, der []byte) c14Spec { s.role = der; return s }
	utf8 := func(str string) []byte { return append([]byte{0x0c, byte(len(str))}, str...) }
	addC("valid", c14TLSCert(mk(withRole(ok("client valid", cliEKU, nil), utf8("operator")), ca)), p.caPool)
	addC("selfsigned", c14TLSCert(mk(withRole(ok("client selfsigned", cliEKU, nil), utf8("admin")), nil)), p.caPool)
	addC("foreign", c14TLSCert(mk(ok("client foreign", cliEKU, nil), foreign)), p.caPool)
	addC("expired", c14TLSCert(mk(c14Spec{cn: "client expired", notBefore: -2 * day, notAfter: -time.Hour, eku: cliEKU,
		role: utf8("admin")}, ca)), p.caPool)
	addC("notyet", c14TLSCert(mk(c14Spec{cn: "client notyet", notBefore: time.Hour, notAfter: day, eku: cliEKU}, ca)), p.caPool)
	addC("wrongeku", c14TLSCert(mk(ok("client wrongeku", srvEKU, nil), ca)), p.caPool)
	addC("noeku", c14TLSCert(mk(ok("client noeku", nil, nil), ca)), p.caPool)
	pinned := mk(ok("client pinned", cliEKU, nil), nil)
	addC("pinned", c14TLSCert(pinned), c14Pool(pinned))
	// a role that is not a UTF8String (PrintableString tag): the role must come out empty
	pinnedF := mk(withRole(ok("client pinned foreign-signed", cliEKU, nil), []byte{0x13, 2, 'o', 'p'}), foreign)
	addC("pinnedforeign", c14TLSCert(pinnedF), c14Pool(pinnedF))
	pinnedX := mk(c14Spec{cn: "client pinned expired", notBefore: -2 * day, notAfter: -time.Hour, eku: cliEKU}, nil)
	addC("pinnedexpired", c14TLSCert(pinnedX), c14Pool(pinnedX))
	viaInter := mk(withRole(ok("client via intermediate", cliEKU, nil), utf8("op\u00e9rateur \u2713")), inter)
	addC("inter", c14TLSCert(viaInter, inter), p.caPool)
	addC("intermissing", c14TLSCert(viaInter), p.caPool)
	addC("none", nil, p.caPool)

	// ---- server credentials (presented to the modbus client dialling 127.0.0.1)
	addS("valid", c14TLSCert(mk(ok("server valid", srvEKU, lo), ca)), p.caPool)
	addS("selfsigned", c14TLSCert(mk(ok("server selfsigned", srvEKU, lo), nil)), p.caPool)
	addS("foreign", c14TLSCert(mk(ok("server foreign", srvEKU, lo), foreign)), p.caPool)
	addS("expired", c14TLSCert(mk(c14Spec{cn: "server expired", notBefore: -2 * day, notAfter: -time.Hour, eku: srvEKU, ips: lo}, ca)), p.caPool)
	addS("notyet", c14TLSCert(mk(c14Spec{cn: "server notyet", notBefore: time.Hour, notAfter: day, eku: srvEKU, ips: lo}, ca)), p.caPool)
	addS("wrongeku", c14TLSCert(mk(ok("server wrongeku", cliEKU, lo), ca)), p.caPool)
	addS("wronghost", c14TLSCert(mk(c14Spec{cn: "127.0.0.1", notBefore: -time.Hour, notAfter: day, eku: srvEKU,
		ips: []net.IP{net.ParseIP("10.9.8.7")}, dns: []string{"other.example"}}, ca)), p.caPool)
	addS("nosan", c14TLSCert(mk(c14Spec{cn: "127.0.0.1", notBefore: -time.Hour, notAfter: day, eku: srvEKU}, ca)), p.caPool)
	spinned := mk(ok("server pinned", srvEKU, lo), nil)
	addS("pinned", c14TLSCert(spinned), c14Pool(spinned))
	spinnedH := mk(ok("server pinned wrong host", srvEKU, []net.IP{net.ParseIP("10.9.8.7")}), nil)
	addS("pinnedwronghost", c14TLSCert(spinnedH), c14Pool(spinnedH))
	sViaInter := mk(ok("server via intermediate", srvEKU, lo), inter)
	addS("inter", c14TLSCert(sViaInter, inter), p.caPool)
	addS("intermissing", c14TLSCert(sViaInter), p.caPool)
	addS("none", nil, p.caPool)

	c14ExtendPKI(p, rsaKeys, ca, foreign, inter)

	c14PKISet[keyset] = p
	return p
}

// the oracle: x509.Certificate.Verify as crypto/tls calls it, without any connection
func c14Verifies(cred *c14Cred, usage x509.ExtKeyUsage, dnsName string) bool {
	if cred.cert == nil || len(cred.cert.Certificate) == 0 {
		return false
	}
	leaf, err := x509.ParseCertificate(cred.cert.Certificate[0])
	if err != nil {
		return false
	}
	inter := x509.NewCertPool()
	for _, der := range cred.cert.Certificate[1:] {
		c, err := x509.ParseCertificate(der)
		if err != nil {
			return false
		}
		inter.AddCert(c)
	}
	_, err = leaf.Verify(x509.VerifyOptions{
		Roots:         cred.pool,
		Intermediates: inter,
		CurrentTime:   time.Now(),
		DNSName:       dnsName,
		KeyUsages:     []x509.ExtKeyUsage{usage},
	})
	return err == nil
}

func c14Version(tok string) uint16 {
	switch tok {
	case "10":
		return tls.VersionTLS10
	case "11":
		return tls.VersionTLS11
	case "12":
		return tls.VersionTLS12
	case "13":
		return tls.VersionTLS13
	}
	panic("bad version token " + tok)
}

func c14SplitCred(tok string) (keyset, name string) {
	i := strings.IndexByte(tok, ':')
	if i < 0 {
		panic("bad credential token " + tok)
	}
	return tok[:i], tok[i+1:]
}

func b01(b bool) string {
	if b {
		return "1"
	}
	return "0"
}

// ------------------------------------------------------------ tlssrv

// counts the invocations and records the role every one of them saw
type c14Handler struct {
	mu    sync.Mutex
	roles []string
}

func (h *c14Handler) see(role string) {
	h.mu.Lock()
	h.roles = append(h.roles, role)
	h.mu.Unlock()
}
func (h *c14Handler) HandleCoils(r *modbus.CoilsRequest) ([]bool, error) {
	h.see(r.ClientRole)
	return make([]bool, r.Quantity), nil
}
func (h *c14Handler) HandleDiscreteInputs(r *modbus.DiscreteInputsRequest) ([]bool, error) {
	h.see(r.ClientRole)
	return make([]bool, r.Quantity), nil
}
func (h *c14Handler) HandleHoldingRegisters(r *modbus.HoldingRegistersRequest) ([]uint16, error) {
	h.see(r.ClientRole)
	return make([]uint16, r.Quantity), nil
}
func (h *c14Handler) HandleInputRegisters(r *modbus.InputRegistersRequest) ([]uint16, error) {
	h.see(r.ClientRole)
	return make([]uint16, r.Quantity), nil
}

// the extension list of the presented leaf, as extractRole will see it:
// "r:<value>" for the Modbus Role OID, "o:<value>" for any other
func c14LeafExts(cred *c14Cred) string {
	if cred.cert == nil {
		return "-"
	}
	leaf, err := x509.ParseCertificate(cred.cert.Certificate[0])
	if err != nil {
		panic(err)
	}
	var es []string
	for _, e := range leaf.Extensions {
		kind := "o"
		if e.Id.Equal(oidKinds["r"]) {
			kind = "r"
		}
		es = append(es, extTok(kind, e.Value))
	}
	return extsTok(es)
}

// reads one MBAP response and tells whether it is a normal response to req
func c14ReadResponse(c net.Conn, req []byte) bool {
	hdr := make([]byte, 7)
	c.SetReadDeadline(time.Now().Add(c14OpTimeout))
	if _, err := io.ReadFull(c, hdr); err != nil {
		return false
	}
	n := int(hdr[4])<<8 | int(hdr[5])
	if n < 2 || n > 254 {
		return false
	}
	body := make([]byte, n-1)
	if _, err := io.ReadFull(c, body); err != nil {
		return false
	}
	return len(req) >= 8 && hdr[0] == req[0] && hdr[1] == req[1] && hdr[6] == req[6] && body[0] == req[7]
}

// A case in which the peer is expected to be served is given a second attempt
// when the first one did not get through (a deadline missed on a loaded
// machine); a case in which the peer must be refused is never repeated.
func c14RunSrv(in []string) string {
	out := c14RunSrvOnce(in)
	if in[5] == "1" && !strings.HasPrefix(out, "calls=1 resp=1") {
		out = c14RunSrvOnce(in)
	}
	return out
}

func c14RunSrvOnce(in []string) (out string) {
	defer func() {
		if r := recover(); r != nil {
			out = fmt.Sprintf("panic:%v", r)
		}
	}()
	keyset, name := c14SplitCred(in[0])
	kind, ver := in[1], in[2]
	payload := unhex(in[6])
	pki := c14GetPKI(keyset)
	cred := pki.clients[name]
	if cred == nil {
		return "harness-error:unknown-credential"
	}

	h := &c14Handler{}
	srv, err := modbus.NewServer(&modbus.ServerConfiguration{
		URL:           "tcp+tls://127.0.0.1:0",
		TLSServerCert: pki.srvValid,
		TLSClientCAs:  cred.pool,
		Timeout:       5 * time.Second,
		Logger:        quiet,
	}, h)
	if err != nil {
		return "harness-error:newserver:" + err.Error()
	}
	if err = srv.Start(); err != nil {
		return "harness-error:start:" + err.Error()
	}
	defer srv.Stop()
	addr := srv.VerifListenAddr()
	if addr == nil {
		return "harness-error:no-listener"
	}

	raw, err := net.DialTimeout("tcp", addr.String(), c14OpTimeout)
	if err != nil {
		return "harness-error:dial:" + err.Error()
	}
	resp := false
	if kind == "tls" {
		v := c14Version(ver)
		conf := &tls.Config{RootCAs: pki.caPool, ServerName: "127.0.0.1", MinVersion: v, MaxVersion: v}
		if cred.cert != nil {
			// present the certificate whatever CAs the server names as acceptable
			conf.GetClientCertificate = func(*tls.CertificateRequestInfo) (*tls.Certificate, error) {
				return cred.cert, nil
			}
		}
		tc := tls.Client(raw, conf)
		raw.SetDeadline(time.Now().Add(c14OpTimeout))
		herr := tc.Handshake()
		if herr == nil {
			tc.SetDeadline(time.Now().Add(c14OpTimeout))
			if _, werr := tc.Write(payload); werr == nil {
				resp = c14ReadResponse(tc, payload)
			}
		} else {
			// the tunnel is not there: try the request in the clear on the same socket
			raw.SetDeadline(time.Now().Add(c14OpTimeout))
			if _, werr := raw.Write(payload); werr == nil {
				resp = c14ReadResponse(raw, payload)
			}
		}
	} else {
		raw.SetDeadline(time.Now().Add(c14OpTimeout))
		if _, werr := raw.Write(payload); werr == nil {
			resp = c14ReadResponse(raw, payload)
		}
	}
	raw.Close()
	// the session is over once the server has dropped the connection from its list
	waitCount(srv, 0, c14OpTimeout)
	h.mu.Lock()
	defer h.mu.Unlock()
	role := "-"
	for i, r := range h.roles {
		if i == 0 {
			role = hx([]byte(r))
		} else if hx([]byte(r)) != role {
			role = "mixed"
		}
	}
	return fmt.Sprintf("calls=%d resp=%s role=%s", len(h.roles), b01(resp), role)
}

// ------------------------------------------------------------ tlscli

func c14RunCli(in []string) string {
	out := c14RunCliOnce(in)
	if in[4] == "1" && !strings.HasPrefix(out, "open=ok bytes=12") {
		out = c14RunCliOnce(in)
	}
	return out
}

func c14RunCliOnce(in []string) (out string) {
	defer func() {
		if r := recover(); r != nil {
			out = fmt.Sprintf("panic:%v", r)
		}
	}()
	keyset, name := c14SplitCred(in[0])
	v := c14Version(in[1])
	host := string(unhex(in[5]))
	pki := c14GetPKI(keyset)
	cred := pki.servers[name]
	if cred == nil {
		return "harness-error:unknown-credential"
	}

	ln, err := net.Listen("tcp", "127.0.0.1:0")
	if err != nil {
		return "harness-error:listen:" + err.Error()
	}
	defer ln.Close()
	ln.(*net.TCPListener).SetDeadline(time.Now().Add(2 * c14OpTimeout))

	got := make(chan int, 1)
	go func() {
		n := 0
		defer func() {
			recover()
			got <- n
		}()
		c, err := ln.Accept()
		if err != nil {
			return
		}
		defer c.Close()
		conf := &tls.Config{MinVersion: v, MaxVersion: v, ClientAuth: tls.RequestClientCert}
		if cred.cert != nil {
			conf.Certificates = []tls.Certificate{*cred.cert}
		}
		ts := tls.Server(c, conf)
		c.SetDeadline(time.Now().Add(c14OpTimeout))
		if err := ts.Handshake(); err != nil {
			return
		}
		// application bytes inside the tunnel; answer the first complete request
		buf := make([]byte, 512)
		var rx []byte
		answered := false
		end := time.Now().Add(c14OpTimeout)
		for {
			ts.SetReadDeadline(end)
			k, err := ts.Read(buf)
			n += k
			rx = append(rx, buf[:k]...)
			if !answered && len(rx) >= 12 {
				answered = true
				ts.SetWriteDeadline(time.Now().Add(c14OpTimeout))
				ts.Write([]byte{rx[0], rx[1], 0, 0, 0, 5, rx[6], rx[7], 2, 0, 0x2a})
			}
			if err != nil {
				return
			}
		}
	}()

	port := ln.Addr().(*net.TCPAddr).Port
	mc, err := modbus.NewClient(&modbus.ClientConfiguration{
		URL:           fmt.Sprintf("tcp+tls://%s:%d", host, port),
		TLSClientCert: pki.cliValid,
		TLSRootCAs:    cred.pool,
		Timeout:       time.Second,
		Logger:        quiet,
	})
	if err != nil {
		return "harness-error:newclient:" + err.Error()
	}
	open := "ok"
	if oerr := mc.Open(); oerr != nil {
		open = "err"
	}
	// the call is made whatever Open returned (a caller ignoring the error must
	// not get a request out either); it panics on a client that is not open
	func() {
		defer func() { recover() }()
		mc.ReadRegister(0, modbus.HOLDING_REGISTER)
	}()
	func() {
		defer func() { recover() }()
		mc.Close()
	}()
	select {
	case n := <-got:
		return fmt.Sprintf("open=%s bytes=%d", open, n)
	case <-time.After(3 * c14OpTimeout):
		return "harness-error:fake-server-stuck"
	}
}

// ------------------------------------------------------------ tlsctor

func c14RunCtor(in []string) (out string) {
	defer func() {
		if r := recover(); r != nil {
			out = "panic"
		}
	}()
	pki := c14GetPKI("ec")
	url := string(unhex(in[1])) + "://127.0.0.1:0"
	var err error
	switch in[0] {
	case "s":
		conf := &modbus.ServerConfiguration{URL: url, Logger: quiet}
		if in[2] == "1" {
			conf.TLSServerCert = pki.srvValid
		}
		if in[3] == "1" {
			conf.TLSClientCAs = pki.caPool
		}
		_, err = modbus.NewServer(conf, &countHandler{})
	case "c":
		conf := &modbus.ClientConfiguration{URL: url, Logger: quiet}
		if in[2] == "1" {
			conf.TLSClientCert = pki.cliValid
		}
		if in[3] == "1" {
			conf.TLSRootCAs = pki.caPool
		}
		_, err = modbus.NewClient(conf)
	default:
		return "harness-error:bad-side"
	}
	if err != nil {
		return "err:" + errClass(err)
	}
	return "ok"
}

// ------------------------------------------------------------ tlsctl

// harness client against harness server at exactly one version, both sides
// authenticated with the valid credentials of the keyset
func c14RunCtl(in []string) (out string) {
	defer func() {
		if r := recover(); r != nil {
			out = fmt.Sprintf("panic:%v", r)
		}
	}()
	pki := c14GetPKI(in[0])
	v := c14Version(in[1])
	ln, err := tls.Listen("tcp", "127.0.0.1:0", &tls.Config{
		Certificates: []tls.Certificate{*pki.servers["valid"].cert},
		ClientAuth:   tls.RequireAndVerifyClientCert,
		ClientCAs:    pki.caPool,
		MinVersion:   tls.VersionTLS10,
	})
	if err != nil {
		return "harness-error:listen:" + err.Error()
	}
	defer ln.Close()
	srvRes := make(chan string, 1)
	go func() {
		c, err := ln.Accept()
		if err != nil {
			srvRes <- "accept:" + err.Error()
			return
		}
		defer c.Close()
		c.SetDeadline(time.Now().Add(c14OpTimeout))
		tc := c.(*tls.Conn)
		if err := tc.Handshake(); err != nil {
			srvRes <- "server-handshake:" + err.Error()
			return
		}
		if tc.ConnectionState().Version != v {
			srvRes <- "server-version"
			return
		}
		b := make([]byte, 4)
		if _, err := io.ReadFull(tc, b); err != nil || string(b) != "ping" {
			srvRes <- "server-read"
			return
		}
		tc.Write([]byte("pong"))
		srvRes <- "ok"
	}()
	c, err := tls.DialWithDialer(&net.Dialer{Timeout: c14OpTimeout}, "tcp", ln.Addr().String(), &tls.Config{
		Certificates: []tls.Certificate{*pki.clients["valid"].cert},
		RootCAs:      pki.caPool,
		MinVersion:   v,
		MaxVersion:   v,
	})
	if err != nil {
		return "fail:client-handshake:" + strings.ReplaceAll(err.Error(), " ", "_")
	}
	defer c.Close()
	c.SetDeadline(time.Now().Add(c14OpTimeout))
	if c.ConnectionState().Version != v {
		return "fail:client-version"
	}
	if _, err := c.Write([]byte("ping")); err != nil {
		return "fail:client-write"
	}
	b := make([]byte, 4)
	if _, err := io.ReadFull(c, b); err != nil || string(b) != "pong" {
		return "fail:client-read"
	}
	select {
	case r := <-srvRes:
		if r != "ok" {
			return "fail:" + strings.ReplaceAll(r, " ", "_")
		}
	case <-time.After(c14OpTimeout):
		return "fail:server-stuck"
	}
	return "ok"
}

// ------------------------------------------------------------ generators

var c14Versions = []string{"10", "11", "12", "13"}

func c14Keysets(thorough bool) []string {
	if thorough {
		return []string{"ec", "rsa", "ec2", "rsa2"}
	}
	return []string{"ec"}
}

// a valid request of one of the six single-call function codes
func c14Request(r *Rng) []byte {
	txn := uint16(r.Intn(65536))
	unit := byte(r.Pick(1, 1, 0, 17, 247, 255))
	be := func(v int) []byte { return []byte{byte(v >> 8), byte(v)} }
	switch r.Intn(6) {
	case 0, 1:
		q := 1 + r.Intn(2000)
		a := r.Intn(65536 - q + 1)
		return mbapFrame(txn, 0, -1, unit, byte(1+r.Intn(2)), append(be(a), be(q)...))
	case 2, 3:
		q := 1 + r.Intn(125)
		a := r.Intn(65536 - q + 1)
		return mbapFrame(txn, 0, -1, unit, byte(3+r.Intn(2)), append(be(a), be(q)...))
	case 4:
		return mbapFrame(txn, 0, -1, unit, 5, append(be(r.Intn(65536)), byte(r.Pick(0, 0xff)), 0))
	}
	return mbapFrame(txn, 0, -1, unit, 6, append(be(r.Intn(65536)), be(r.Intn(65536))...))
}

func scnC14Control(o *Out, r *Rng, thorough bool) {
	var ins []string
	for _, ks := range c14Keysets(thorough) {
		for _, v := range c14Versions {
			ins = append(ins, ks+" "+v)
		}
	}
	for i, out := range o.RunMany("tlsctl", ins) {
		o.Stat("tlsctl:" + ins[i] + ":" + out)
	}
}

func scnC14Server(o *Out, r *Rng, thorough bool) {
	var ins []string
	for _, ks := range c14Keysets(thorough) {
		pki := c14GetPKI(ks)
		for _, name := range pki.cliOrder {
			cred := pki.clients[name]
			ver := c14Verifies(cred, x509.ExtKeyUsageClientAuth, "")
			for _, v := range c14Versions {
				exp := ver && (v == "12" || v == "13")
				ins = append(ins, strings.Join([]string{ks + ":" + name, "tls", v, b01(cred.cert != nil), b01(ver),
					b01(exp), hx(c14Request(r)), c14LeafExts(cred)}, " "))
			}
		}
		// plain-text peers: the valid client's pool, no TLS at all
		for i := 0; i < 4; i++ {
			ins = append(ins, strings.Join([]string{ks + ":valid", "plain", "0", "0", "0", "0", hx(c14Request(r)), "-"}, " "))
		}
		garbage := [][]byte{
			r.Bytes(1 + r.Intn(40)),
			append([]byte{0x16, 0x03, 0x03, 0x00, 0x20}, r.Bytes(0x20)...), // a handshake record header + noise
			append([]byte{0x16, 0x03, 0x01, 0x00, 0x05, 0x01, 0x00, 0x00, 0x01, 0x00}, r.Bytes(8)...),
			append([]byte{0x17, 0x03, 0x03, 0x00, 0x0c}, c14Request(r)...), // an application-data record in the clear
			[]byte("GET / HTTP/1.0\r\n\r\n"),
			{0},
		}
		for _, g := range garbage {
			ins = append(ins, strings.Join([]string{ks + ":valid", "garbage", "0", "0", "0", "0", hx(g), "-"}, " "))
		}
	}
	for i, out := range o.RunMany("tlssrv", ins) {
		f := strings.Fields(ins[i])
		o.Stat("tlssrv:" + f[0] + ":" + f[1] + f[2] + ":" + strings.ReplaceAll(out, " ", ","))
	}
}

func scnC14Client(o *Out, r *Rng, thorough bool) {
	var ins []string
	const host = "127.0.0.1"
	for _, ks := range c14Keysets(thorough) {
		pki := c14GetPKI(ks)
		for _, name := range pki.srvOrder {
			cred := pki.servers[name]
			ver := c14Verifies(cred, x509.ExtKeyUsageServerAuth, host)
			for _, v := range c14Versions {
				exp := ver && (v == "12" || v == "13")
				ins = append(ins, strings.Join([]string{ks + ":" + name, v, b01(cred.cert != nil), b01(ver),
					b01(exp), hx([]byte(host)), hx([]byte(host))}, " "))
			}
		}
	}
	for i, out := range o.RunMany("tlscli", ins) {
		f := strings.Fields(ins[i])
		o.Stat("tlscli:" + f[0] + ":v" + f[1] + ":" + strings.ReplaceAll(out, " ", ","))
	}
}

func scnC14Ctor(o *Out, r *Rng, thorough bool) {
	for _, side := range []string{"s", "c"} {
		for _, scheme := range []string{"tcp+tls", "tcp"} {
			for mask := 0; mask < 4; mask++ {
				in := strings.Join([]string{side, hx([]byte(scheme)), b01(mask&1 != 0), b01(mask&2 != 0)}, " ")
				out := o.Run("tlsctor", in)
				o.Stat("tlsctor:" + side + ":" + scheme + ":" + itoa(mask) + ":" + out)
			}
		}
	}
}

func init() {
	register("C14", scnC14Control, scnC14Server, scnC14Client, scnC14Ctor)
	executors["tlssrv"] = c14RunSrv
	executors["tlscli"] = c14RunCli
	executors["tlsctor"] = c14RunCtor
	executors["tlsctl"] = c14RunCtl
}
