package main

// C14 (continued) - TLS sessions in which MORE than one certificate or more
// than one connection is involved. The certificates come from the factory of
// c14.go (c14GetPKI -> c14ExtendPKI below).
//
// scenario "tlschainrole": cred ver hascert verifies expected bytes chainexts
//   the tlssrv run (real NewServer(tcp+tls), one harness TLS client, one valid
//   request) with a client that presents SEVERAL certificates: a leaf whose own
//   role is empty (no Modbus Role extension, PrintableString, trailing byte,
//   zero-length string, invalid UTF-8, empty value, near-miss OID, duplicated)
//   followed by the issuing intermediate / root CA certificate, which carries a
//   well-formed Modbus Role extension. chainexts = the extension lists of ALL the
//   presented certificates, leaf first, joined by "/".
//   output "calls=<n> resp=<0/1> role=<hex of the ClientRole the handler saw, - if none/empty>"
// scenario "tlsroles": keyset mode(seq|conc|par) conn...
//   conn = <cred>;<ver>;<verifies>;<leaf exts>;<request>.<request>...
//   ONE real modbus server (tcp+tls) for the whole case; its client CA pool
//   holds several pinned self-signed client leaves and a CA. All the client
//   certificates of the case carry the SAME serial number (1) and different
//   roles (or none). seq: the connections come one after the other; conc: all
//   the sessions are open at once and the requests go round-robin; par: every
//   connection is dialled and driven by its own goroutine. The requests of
//   connection i carry unit id i+1; an invocation is attributed to connection i
//   by its unit id and must carry that connection's ClientAddr.
//   output: per connection "<role>+<role>.../<responses>" (one role per handler
//   invocation, hex, "-" = empty role, "none" = no invocation), joined by ","
// scenario "tlsresume": servercred ver rootsA verifiesA rootsB verifiesB
//   one harness crypto/tls server with ONE long-lived tls.Config (it issues and
//   accepts session tickets) presenting <servercred> at exactly <ver>, and two
//   real modbus clients IN THIS PROCESS, one after the other: A (TLSRootCAs =
//   root set A) does Open + ReadRegister + Close, then B (root set B) does the
//   same against the same address.
//   output "a=<ok|err> a_bytes=<n> b_open=<ok|err> b_bytes=<n>" (bytes = the
//   application bytes the server received on that client's connection)
// scenario "tlsresumectl": keyset ver -> "ok": two harness crypto/tls clients
//   sharing a ClientSessionCache against the same kind of harness server: the
//   second one RESUMES (control: the tlsresume server does hand out tickets it
//   accepts, so a refusal seen in tlsresume is not for want of a ticket).

import (
	"crypto/tls"
	"crypto/x509"
	"crypto/x509/pkix"
	"fmt"
	"io"
	"net"
	"strings"
	"sync"
	"time"

	"github.com/simonvetter/modbus"
)

// ------------------------------------------------------------ certificates

func c14ExtendPKI(p *c14PKI, rsaKeys bool, ca, foreign, inter *c14Signer) {
	const day = 24 * time.Hour
	cliEKU := []x509.ExtKeyUsage{x509.ExtKeyUsageClientAuth}
	mk := func(s c14Spec, parent *c14Signer) *c14Signer { c, _ := p.issue(rsaKeys, s, parent); return c }
	leaf := func(cn string, role []byte) c14Spec {
		return c14Spec{cn: cn, notBefore: -time.Hour, notAfter: day, eku: cliEKU, role: role}
	}
	caSpec := func(cn string, role []byte) c14Spec {
		return c14Spec{cn: cn, isCA: true, notBefore: -day, notAfter: 30 * day, role: role}
	}
	utf8 := func(str string) []byte { return append([]byte{0x0c, byte(len(str))}, str...) }
	p.extsOf = map[string]string{}

	// ---- chains: the ISSUER carries a well-formed role, the leaf's own role is empty
	interR := mk(caSpec("verif intermediate with role", utf8("admin")), ca)
	rootR := mk(caSpec("verif root with role", utf8("root")), nil)
	addChain := func(name string, cert *tls.Certificate, pool *x509.CertPool) {
		p.clients[name] = &c14Cred{name: name, cert: cert, pool: pool}
		p.chainOrder = append(p.chainOrder, name)
	}
	viaR := func(name string, role []byte) {
		addChain(name, c14TLSCert(mk(leaf("client "+name, role), interR), interR), p.caPool)
	}
	viaR("chnorole", nil)
	viaR("chprintable", []byte{0x13, 5, 'a', 'd', 'm', 'i', 'n'})
	viaR("chtrailing", []byte{0x0c, 2, 'o', 'p', 0})
	viaR("chemptystring", []byte{0x0c, 0})
	viaR("chbadutf8", []byte{0x0c, 2, 0xc0, 0x80})
	viaR("chemptyvalue", []byte{})
	viaR("chleafrole", utf8("operator")) // control: the leaf's own role
	nearS := leaf("client chnearoid", nil)
	nearS.extra = []pkix.Extension{{Id: oidKinds["n"], Value: utf8("admin")}}
	addChain("chnearoid", c14TLSCert(mk(nearS, interR), interR), p.caPool)
	// two role extensions in the leaf: crypto/x509 refuses to parse such a certificate
	dupS := leaf("client chdup", utf8("viewer"))
	dupS.extra = []pkix.Extension{{Id: oidKinds["r"], Value: utf8("viewer")}}
	dupS.mayNotParse = true
	dupC := c14TLSCert(mk(dupS, interR), interR)
	if len(dupC.Leaf.Extensions) == 0 && dupC.Leaf.SerialNumber == nil {
		dupC.Leaf = nil
		p.extsOf["chdup"] = extsTok([]string{extTok("r", utf8("viewer")), extTok("r", utf8("viewer"))})
	}
	addChain("chdup", dupC, p.caPool)
	// leaf + intermediate + root, all presented
	addChain("chthree", c14TLSCert(mk(leaf("client chthree", nil), interR), interR, ca), p.caPool)
	// the role-bearing issuer is a root the server trusts, presented along with the leaf
	addChain("chrootrole", c14TLSCert(mk(leaf("client chrootrole", nil), rootR), rootR), c14Pool(rootR))
	// controls: an issuer without role; the role-bearing issuer known to the server but not presented
	addChain("chplain", c14TLSCert(mk(leaf("client chplain", nil), inter), inter), p.caPool)
	addChain("chnotsent", c14TLSCert(mk(leaf("client chnotsent", nil), interR)), c14Pool(ca, interR))

	// ---- different certificates, all with serial number 1
	s1 := func(cn string, role []byte) c14Spec { s := leaf(cn, role); s.serial = 1; return s }
	s1ops := mk(s1("panel", utf8("ops")), nil)
	s1admin := mk(s1("engineering station", utf8("admin")), nil)
	s1none := mk(s1("logger", nil), nil)
	s1printable := mk(s1("legacy panel", []byte{0x13, 3, 'o', 'p', 's'}), nil)
	s1ca := mk(s1("issued viewer", utf8("viewer")), ca)
	s1ca2 := mk(s1("reissued engineer", utf8("engineer")), ca)
	s1out := mk(s1("stranger", utf8("root")), nil)
	s1foreign := mk(s1("foreign admin", utf8("admin")), foreign)
	p.rolePool = c14Pool(s1ops, s1admin, s1none, s1printable, ca)
	for _, x := range []struct {
		name string
		c    *c14Signer
	}{{"s1ops", s1ops}, {"s1admin", s1admin}, {"s1none", s1none}, {"s1printable", s1printable},
		{"s1ca", s1ca}, {"s1ca2", s1ca2}, {"s1out", s1out}, {"s1foreign", s1foreign}} {
		p.clients[x.name] = &c14Cred{name: x.name, cert: c14TLSCert(x.c), pool: p.rolePool}
		p.roleOrder = append(p.roleOrder, x.name)
	}

	// ---- root sets of the tlsresume clients
	p.rootSets = map[string]*x509.CertPool{
		"ca":       p.caPool,
		"foreign":  c14Pool(foreign),
		"pin":      p.servers["pinned"].pool,
		"otherpin": p.servers["pinnedwronghost"].pool,
	}
	p.rootOrder = []string{"ca", "foreign", "pin", "otherpin"}
}

func c14ExtsOfCert(c *x509.Certificate) string {
	var es []string
	for _, e := range c.Extensions {
		kind := "o"
		if e.Id.Equal(oidKinds["r"]) {
			kind = "r"
		}
		es = append(es, extTok(kind, e.Value))
	}
	return extsTok(es)
}

// the extension lists of every presented certificate, leaf first, joined by "/"
func c14ChainExts(p *c14PKI, cred *c14Cred) string {
	var cs []string
	for i, der := range cred.cert.Certificate {
		c, err := x509.ParseCertificate(der)
		if err != nil {
			if t, ok := p.extsOf[cred.name]; ok && i == 0 {
				cs = append(cs, t)
				continue
			}
			panic(err)
		}
		cs = append(cs, c14ExtsOfCert(c))
	}
	return strings.Join(cs, "/")
}

// ------------------------------------------------------------ tlschainrole

// cred ver hascert verifies expected bytes chainexts: the tlssrv run
func c14RunChainRole(in []string) string {
	if len(in) != 7 {
		return "harness-error:bad-input"
	}
	return c14RunSrv([]string{in[0], "tls", in[1], in[2], in[3], in[4], in[5], "-"})
}

// ------------------------------------------------------------ tlsroles

type c14RoleRec struct {
	unit uint8
	addr string
	role string
}

type c14RoleHandler struct {
	mu   sync.Mutex
	recs []c14RoleRec
}

func (h *c14RoleHandler) see(unit uint8, addr, role string) {
	h.mu.Lock()
	h.recs = append(h.recs, c14RoleRec{unit, addr, role})
	h.mu.Unlock()
}
func (h *c14RoleHandler) HandleCoils(r *modbus.CoilsRequest) ([]bool, error) {
	h.see(r.UnitId, r.ClientAddr, r.ClientRole)
	return make([]bool, r.Quantity), nil
}
func (h *c14RoleHandler) HandleDiscreteInputs(r *modbus.DiscreteInputsRequest) ([]bool, error) {
	h.see(r.UnitId, r.ClientAddr, r.ClientRole)
	return make([]bool, r.Quantity), nil
}
func (h *c14RoleHandler) HandleHoldingRegisters(r *modbus.HoldingRegistersRequest) ([]uint16, error) {
	h.see(r.UnitId, r.ClientAddr, r.ClientRole)
	return make([]uint16, r.Quantity), nil
}
func (h *c14RoleHandler) HandleInputRegisters(r *modbus.InputRegistersRequest) ([]uint16, error) {
	h.see(r.UnitId, r.ClientAddr, r.ClientRole)
	return make([]uint16, r.Quantity), nil
}

type c14RoleConn struct {
	cred   *c14Cred
	ver    uint16
	expect bool
	reqs   [][]byte
	raw    net.Conn
	tc     *tls.Conn
	local  string
	resps  int
}

func c14RunRoles(in []string) string {
	out, complete := c14RunRolesOnce(in)
	if !complete {
		// a connection that had to be served missed a deadline (loaded machine)
		out, _ = c14RunRolesOnce(in)
	}
	return out
}

func c14RunRolesOnce(in []string) (out string, complete bool) {
	defer func() {
		if r := recover(); r != nil {
			out, complete = fmt.Sprintf("panic:%v", r), true
		}
	}()
	if len(in) < 3 {
		return "harness-error:bad-input", true
	}
	pki := c14GetPKI(in[0])
	mode := in[1]
	var conns []*c14RoleConn
	for _, tok := range in[2:] {
		f := strings.Split(tok, ";")
		if len(f) != 5 {
			return "harness-error:bad-connection-token", true
		}
		cred := pki.clients[f[0]]
		if cred == nil || cred.cert == nil {
			return "harness-error:unknown-credential", true
		}
		c := &c14RoleConn{cred: cred, ver: c14Version(f[1]), expect: f[2] == "1" && (f[1] == "12" || f[1] == "13")}
		for _, r := range strings.Split(f[4], ".") {
			c.reqs = append(c.reqs, unhex(r))
		}
		conns = append(conns, c)
	}

	h := &c14RoleHandler{}
	srv, err := modbus.NewServer(&modbus.ServerConfiguration{
		URL:           "tcp+tls://127.0.0.1:0",
		TLSServerCert: pki.srvValid,
		TLSClientCAs:  pki.rolePool,
		MaxClients:    uint(len(conns) + 2),
		Timeout:       5 * time.Second,
		Logger:        quiet,
	}, h)
	if err != nil {
		return "harness-error:newserver:" + err.Error(), true
	}
	if err = srv.Start(); err != nil {
		return "harness-error:start:" + err.Error(), true
	}
	defer srv.Stop()
	addr := srv.VerifListenAddr()
	if addr == nil {
		return "harness-error:no-listener", true
	}

	open := func(c *c14RoleConn) {
		raw, err := net.DialTimeout("tcp", addr.String(), c14OpTimeout)
		if err != nil {
			return
		}
		c.raw = raw
		c.local = raw.LocalAddr().String()
		cert := c.cred.cert
		conf := &tls.Config{RootCAs: pki.caPool, ServerName: "127.0.0.1", MinVersion: c.ver, MaxVersion: c.ver,
			GetClientCertificate: func(*tls.CertificateRequestInfo) (*tls.Certificate, error) { return cert, nil }}
		tc := tls.Client(raw, conf)
		raw.SetDeadline(time.Now().Add(c14OpTimeout))
		if tc.Handshake() == nil {
			c.tc = tc
		}
	}
	exchange := func(c *c14RoleConn, k int) {
		if c.raw == nil || k >= len(c.reqs) {
			return
		}
		var w net.Conn = c.raw // the tunnel is not there: the request goes in the clear
		if c.tc != nil {
			w = c.tc
		}
		w.SetDeadline(time.Now().Add(c14OpTimeout))
		if _, err := w.Write(c.reqs[k]); err == nil && c14ReadResponse(w, c.reqs[k]) {
			c.resps++
		}
	}
	shut := func(c *c14RoleConn) {
		if c.raw != nil {
			c.raw.Close()
		}
	}
	maxReqs := 0
	for _, c := range conns {
		if len(c.reqs) > maxReqs {
			maxReqs = len(c.reqs)
		}
	}
	switch mode {
	case "seq":
		for _, c := range conns {
			open(c)
			for k := range c.reqs {
				exchange(c, k)
			}
			shut(c)
			waitCount(srv, 0, c14OpTimeout)
		}
	case "conc":
		for _, c := range conns {
			open(c)
		}
		for k := 0; k < maxReqs; k++ {
			for _, c := range conns {
				exchange(c, k)
			}
		}
		for _, c := range conns {
			shut(c)
		}
		waitCount(srv, 0, c14OpTimeout)
	case "par":
		var wg sync.WaitGroup
		for _, c := range conns {
			wg.Add(1)
			go func(c *c14RoleConn) {
				defer wg.Done()
				defer func() { recover() }()
				open(c)
				for k := range c.reqs {
					exchange(c, k)
				}
			}(c)
		}
		wg.Wait()
		for _, c := range conns {
			shut(c)
		}
		waitCount(srv, 0, c14OpTimeout)
	default:
		return "harness-error:bad-mode", true
	}

	h.mu.Lock()
	defer h.mu.Unlock()
	per := make([][]string, len(conns))
	stray := 0
	for _, rec := range h.recs {
		i := int(rec.unit) - 1
		if i < 0 || i >= len(conns) {
			stray++
			continue
		}
		r := hx([]byte(rec.role))
		if rec.addr != conns[i].local {
			r = "?" + r // the invocation does not carry the address of the connection the request came from
		}
		per[i] = append(per[i], r)
	}
	complete = true
	var parts []string
	for i, c := range conns {
		roles := "none"
		if len(per[i]) > 0 {
			roles = strings.Join(per[i], "+")
		}
		parts = append(parts, fmt.Sprintf("%s/%d", roles, c.resps))
		if c.expect && (c.resps != len(c.reqs) || len(per[i]) != len(c.reqs)) {
			complete = false
		}
	}
	out = strings.Join(parts, ",")
	if stray > 0 {
		out += fmt.Sprintf(",stray=%d", stray)
	}
	return out, complete
}

// ------------------------------------------------------------ tlsresume

// one long-lived tls.Config (session tickets issued and accepted) serving `n`
// connections; for every accepted connection, in order of acceptance, the
// number of application bytes received is sent on the returned channel
func c14TicketServer(pki *c14PKI, cred *c14Cred, v uint16, n int) (net.Listener, chan [2]int, error) {
	inner, err := net.Listen("tcp", "127.0.0.1:0")
	if err != nil {
		return nil, nil, err
	}
	inner.(*net.TCPListener).SetDeadline(time.Now().Add(4 * c14OpTimeout))
	conf := &tls.Config{
		ClientAuth: tls.RequireAndVerifyClientCert,
		ClientCAs:  pki.caPool,
		MinVersion: v,
		MaxVersion: v,
	}
	if cred.cert != nil {
		conf.Certificates = []tls.Certificate{*cred.cert}
	}
	ln := tls.NewListener(inner, conf)
	res := make(chan [2]int, n)
	serve := func(idx int, c net.Conn) {
		got := 0
		defer func() {
			recover()
			c.Close()
			res <- [2]int{idx, got}
		}()
		ts := c.(*tls.Conn)
		c.SetDeadline(time.Now().Add(c14OpTimeout))
		if err := ts.Handshake(); err != nil {
			return
		}
		buf := make([]byte, 512)
		var rx []byte
		end := time.Now().Add(2 * c14OpTimeout)
		for {
			ts.SetReadDeadline(end)
			k, err := ts.Read(buf)
			got += k
			rx = append(rx, buf[:k]...)
			for len(rx) >= 12 {
				ts.SetWriteDeadline(time.Now().Add(c14OpTimeout))
				ts.Write([]byte{rx[0], rx[1], 0, 0, 0, 5, rx[6], rx[7], 2, 0, 0x2a})
				rx = rx[12:]
			}
			if err != nil {
				return
			}
		}
	}
	go func() {
		for i := 0; i < n; i++ {
			c, err := ln.Accept()
			if err != nil {
				for ; i < n; i++ {
					res <- [2]int{i, -1}
				}
				return
			}
			go serve(i, c)
		}
	}()
	return ln, res, nil
}

var c14ResumeMu sync.Mutex // a session cache is per process: one tlsresume case at a time

func c14RunResume(in []string) string {
	c14ResumeMu.Lock()
	defer c14ResumeMu.Unlock()
	if len(in) != 6 {
		return "harness-error:bad-input"
	}
	modern := in[1] == "12" || in[1] == "13"
	wantA, wantB := in[3] == "1" && modern, in[5] == "1" && modern
	out := c14RunResumeOnce(in)
	// only a client that had to be served and was not gets a second attempt
	if (wantA && !strings.HasPrefix(out, "a=ok a_bytes=12 ")) || (wantB && !strings.HasSuffix(out, " b_open=ok b_bytes=12")) {
		out = c14RunResumeOnce(in)
	}
	return out
}

func c14RunResumeOnce(in []string) (out string) {
	defer func() {
		if r := recover(); r != nil {
			out = fmt.Sprintf("panic:%v", r)
		}
	}()
	keyset, name := c14SplitCred(in[0])
	v := c14Version(in[1])
	pki := c14GetPKI(keyset)
	cred := pki.servers[name]
	rootsA, rootsB := pki.rootSets[in[2]], pki.rootSets[in[4]]
	if cred == nil || rootsA == nil || rootsB == nil {
		return "harness-error:unknown-credential"
	}
	ln, res, err := c14TicketServer(pki, cred, v, 2)
	if err != nil {
		return "harness-error:listen:" + err.Error()
	}
	defer ln.Close()
	port := ln.Addr().(*net.TCPAddr).Port

	client := func(roots *x509.CertPool) string {
		mc, err := modbus.NewClient(&modbus.ClientConfiguration{
			URL:           fmt.Sprintf("tcp+tls://127.0.0.1:%d", port),
			TLSClientCert: pki.cliValid,
			TLSRootCAs:    roots,
			Timeout:       time.Second,
			Logger:        quiet,
		})
		if err != nil {
			return "newclient-error"
		}
		open := "ok"
		if oerr := mc.Open(); oerr != nil {
			open = "err"
		}
		// the call is made whatever Open returned; it panics on a client that is not open
		var val uint16
		var rerr error = io.ErrClosedPipe
		func() {
			defer func() { recover() }()
			val, rerr = mc.ReadRegister(0, modbus.HOLDING_REGISTER)
		}()
		func() {
			defer func() { recover() }()
			mc.Close()
		}()
		if open == "ok" && (rerr != nil || val != 0x2a) {
			open = "ok-noreply"
		}
		return open
	}
	wait := func(idx int) int {
		select {
		case r := <-res:
			if r[0] != idx {
				return -2
			}
			return r[1]
		case <-time.After(3 * c14OpTimeout):
			return -3
		}
	}
	a := client(rootsA)
	an := wait(0)
	b := client(rootsB)
	bn := wait(1)
	if an < 0 || bn < 0 {
		return fmt.Sprintf("harness-error:ticket-server:%d:%d", an, bn)
	}
	return fmt.Sprintf("a=%s a_bytes=%d b_open=%s b_bytes=%d", a, an, b, bn)
}

// ------------------------------------------------------------ tlsresumectl

func c14RunResumeCtl(in []string) (out string) {
	c14ResumeMu.Lock()
	defer c14ResumeMu.Unlock()
	defer func() {
		if r := recover(); r != nil {
			out = fmt.Sprintf("panic:%v", r)
		}
	}()
	if len(in) != 2 {
		return "harness-error:bad-input"
	}
	pki := c14GetPKI(in[0])
	v := c14Version(in[1])
	ln, res, err := c14TicketServer(pki, pki.servers["valid"], v, 2)
	if err != nil {
		return "harness-error:listen:" + err.Error()
	}
	defer ln.Close()
	cache := tls.NewLRUClientSessionCache(4)
	once := func() (resumed bool, fail string) {
		c, err := tls.DialWithDialer(&net.Dialer{Timeout: c14OpTimeout}, "tcp", ln.Addr().String(), &tls.Config{
			Certificates:       []tls.Certificate{*pki.cliValid},
			RootCAs:            pki.caPool,
			MinVersion:         tls.VersionTLS12,
			ClientSessionCache: cache,
		})
		if err != nil {
			return false, "handshake:" + strings.ReplaceAll(err.Error(), " ", "_")
		}
		defer c.Close()
		c.SetDeadline(time.Now().Add(c14OpTimeout))
		if c.ConnectionState().Version != v {
			return false, "version"
		}
		if _, err := c.Write([]byte{0, 1, 0, 0, 0, 6, 1, 3, 0, 0, 0, 1}); err != nil {
			return false, "write"
		}
		b := make([]byte, 11)
		if _, err := io.ReadFull(c, b); err != nil || b[10] != 0x2a {
			return false, "read"
		}
		return c.ConnectionState().DidResume, ""
	}
	wait := func() bool {
		select {
		case r := <-res:
			return r[1] == 12
		case <-time.After(3 * c14OpTimeout):
			return false
		}
	}
	r1, f1 := once()
	if f1 != "" {
		return "fail:first:" + f1
	}
	if !wait() {
		return "fail:first:server"
	}
	r2, f2 := once()
	if f2 != "" {
		return "fail:second:" + f2
	}
	if !wait() {
		return "fail:second:server"
	}
	if r1 {
		return "fail:first-resumed"
	}
	if !r2 {
		return "fail:second-not-resumed"
	}
	return "ok"
}

// ------------------------------------------------------------ generators

func scnC14ChainRole(o *Out, r *Rng, thorough bool) {
	var ins []string
	vers := []string{"12", "13"}
	if thorough {
		vers = c14Versions
	}
	for _, ks := range c14Keysets(thorough) {
		pki := c14GetPKI(ks)
		for _, name := range pki.chainOrder {
			cred := pki.clients[name]
			ver := c14Verifies(cred, x509.ExtKeyUsageClientAuth, "")
			for _, v := range vers {
				exp := ver && (v == "12" || v == "13")
				ins = append(ins, strings.Join([]string{ks + ":" + name, v, b01(cred.cert != nil), b01(ver), b01(exp),
					hx(c14Request(r)), c14ChainExts(pki, cred)}, " "))
			}
		}
	}
	for i, out := range o.RunMany("tlschainrole", ins) {
		f := strings.Fields(ins[i])
		o.Stat("tlschainrole:" + f[0] + ":v" + f[1] + ":" + strings.ReplaceAll(out, " ", ","))
	}
}

func c14RolesCase(pki *c14PKI, r *Rng, ks, mode string, names []string, vers []string) string {
	toks := []string{ks, mode}
	for i, name := range names {
		cred := pki.clients[name]
		ver := c14Verifies(cred, x509.ExtKeyUsageClientAuth, "")
		var reqs []string
		for k := 1 + r.Intn(3); k > 0; k-- {
			q := c14Request(r)
			q[6] = byte(i + 1) // the unit id names the connection
			reqs = append(reqs, hx(q))
		}
		toks = append(toks, strings.Join([]string{name, vers[i%len(vers)], b01(ver), c14LeafExts(cred), strings.Join(reqs, ".")}, ";"))
	}
	return strings.Join(toks, " ")
}

func scnC14Roles(o *Out, r *Rng, thorough bool) {
	var ins []string
	for _, ks := range c14Keysets(thorough) {
		pki := c14GetPKI(ks)
		add := func(mode string, vers []string, names ...string) {
			ins = append(ins, c14RolesCase(pki, r, ks, mode, names, vers))
		}
		v12, v13, mixed := []string{"12"}, []string{"13"}, []string{"13", "12"}
		add("seq", v13, "s1ops", "s1admin", "s1none", "s1ops")
		add("seq", v12, "s1admin", "s1ops", "s1printable", "s1ca", "s1out", "s1none", "s1ca2")
		add("seq", mixed, "s1none", "s1ops", "s1foreign", "s1ca2", "s1ca", "s1admin")
		add("conc", v13, "s1ops", "s1admin", "s1none", "s1ca")
		add("conc", mixed, "s1ca", "s1ca2", "s1printable", "s1admin", "s1ops", "s1out")
		add("par", mixed, "s1admin", "s1none", "s1ops", "s1ca2")
		n := 4
		if thorough {
			n = 24
		}
		modes := []string{"seq", "conc", "par"}
		for i := 0; i < n; i++ {
			k := 2 + r.Intn(6)
			names := make([]string, k)
			for j := range names {
				names[j] = pki.roleOrder[r.Intn(len(pki.roleOrder))]
			}
			vs := [][]string{v12, v13, mixed, {"12", "13", "13"}}[r.Intn(4)]
			if r.Intn(8) == 0 {
				vs = []string{"13", "11", "12", "10"} // old versions: those connections are refused
			}
			add(modes[r.Intn(len(modes))], vs, names...)
		}
	}
	for i, out := range o.RunMany("tlsroles", ins) {
		f := strings.Fields(ins[i])
		o.Stat("tlsroles:" + f[1] + ":conns=" + itoa(len(f)-2))
		_ = out
	}
}

func scnC14Resume(o *Out, r *Rng, thorough bool) {
	const host = "127.0.0.1"
	for _, ks := range c14Keysets(thorough) {
		pki := c14GetPKI(ks)
		verifies := func(cred *c14Cred, roots string) string {
			return b01(c14Verifies(&c14Cred{name: cred.name, cert: cred.cert, pool: pki.rootSets[roots]}, x509.ExtKeyUsageServerAuth, host))
		}
		var pairs [][3]string // server credential, roots of A, roots of B
		for _, srv := range []string{"valid", "pinned", "inter"} {
			trust := "ca"
			if srv == "pinned" {
				trust = "pin"
			}
			for _, other := range []string{"foreign", "otherpin"} {
				pairs = append(pairs, [3]string{srv, trust, other}) // the trusting client first
				pairs = append(pairs, [3]string{srv, other, trust}) // control: the other way round
			}
			pairs = append(pairs, [3]string{srv, trust, trust}, [3]string{srv, "foreign", "otherpin"})
		}
		pairs = append(pairs, [3]string{"valid", "ca", "pin"}, [3]string{"pinned", "pin", "ca"})
		if !thorough {
			// the quick tier keeps the two orders of every server x foreign pair and a few of the others
			var keep [][3]string
			for i, p := range pairs {
				if p[1] == "foreign" || p[2] == "foreign" || i%3 == r.Intn(3) {
					keep = append(keep, p)
				}
			}
			pairs = keep
		}
		vers := []string{"12", "13"}
		for _, p := range pairs {
			cred := pki.servers[p[0]]
			for _, v := range vers {
				in := strings.Join([]string{ks + ":" + p[0], v, p[1], verifies(cred, p[1]), p[2], verifies(cred, p[2])}, " ")
				// one after the other: the cases must not share the process with another TLS client
				out := o.Run("tlsresume", in)
				o.Stat("tlsresume:" + p[0] + ":v" + v + ":" + p[1] + ">" + p[2] + ":" + strings.ReplaceAll(out, " ", ","))
			}
		}
		if thorough {
			// an old server: nobody is served
			for _, v := range []string{"10", "11"} {
				in := strings.Join([]string{ks + ":valid", v, "ca", "1", "foreign", "0"}, " ")
				o.Stat("tlsresume:valid:v" + v + ":" + strings.ReplaceAll(o.Run("tlsresume", in), " ", ","))
			}
		}
	}
}

func scnC14ResumeCtl(o *Out, r *Rng, thorough bool) {
	for _, ks := range c14Keysets(thorough) {
		for _, v := range []string{"12", "13"} {
			in := ks + " " + v
			o.Stat("tlsresumectl:" + in + ":" + o.Run("tlsresumectl", in))
		}
	}
}

func init() {
	register("C14", scnC14ResumeCtl, scnC14Resume, scnC14ChainRole, scnC14Roles)
	// (c90tls.go registers tlschainrole under C15 and tlsroles under C11 as well)
	executors["tlschainrole"] = c14RunChainRole
	executors["tlsroles"] = c14RunRoles
	executors["tlsresume"] = c14RunResume
	executors["tlsresumectl"] = c14RunResumeCtl
}
