package main

// C07 - "whatever the peer does" includes a peer that does not READ.
//
//   noread  scheme speed timeout_ms room answered ncalls reply op...
//             -> "<c1>;<c2>;... bound=<ns> sent=<bytes> durs=<us>,<us>,..."
//
// REAL time. ncalls public client calls (the same operation, as a polling
// application would issue them) run one after the other on ONE connection.
// The peer reads and answers the first `answered` requests at once with the
// valid reply ("<fc>:<payload hex>"), then it goes dead with the connection
// still open: it reads nothing and sends nothing any more. From then on the
// link takes only `room` more bytes; a request that does not fit blocks in
// Write until the i/o deadline of the call.
//
//   scheme s:tcp, s:rtuovertcp   client attached (VerifNewClientOnConn) to the scripted
//                                connection wrapped in sconn.NoRead: room is exact, a Write
//                                without a write deadline blocks until the connection is closed
//          l:tcp, l:rtuovertcp   client attached to a real loopback TCP connection dialled by the
//                                harness with a 4 kB send buffer, the fake device listening with a
//                                2 kB receive buffer. room = "?": the kernel buffers fill up with
//                                the client's own requests; room = "full": the harness first
//                                fills the buffers itself (junk nobody reads), so that not even
//                                the first request fits
//
// ci      = <result>/<verdict>/<w>  per call
// result  = projected outcome of the call (ok:<values> | err:<class>)
// verdict = "intime" if the call returned within bound + slack, "late:<ms>" otherwise,
//           "early:<ms>" if a timeout was reported before the configured timeout had
//           elapsed; "hang" (no result) if the watchdog (bound + 1 s) fired - the
//           connection is then closed to release the call and the session ends
// w       = "w" if the request Write found the link full, "s" if it was taken at once
//           ("?" on the loopback schemes, where only the kernel knows)
// bound   = the configuration-only bound of the model (Spec/TimedSpec.v), as in `timed`
// sent    = request bytes the link took after the peer had stopped reading (loopback:
//           what the device finds in its socket when it finally drains it; not compared)

import (
	"context"
	"io"
	"net"
	"strconv"
	"strings"
	"sync"
	"sync/atomic"
	"syscall"
	"time"

	"github.com/simonvetter/modbus"
	"verifharness/internal/sconn"
)

// generous: some 70 calls in a row each get their own chance of a scheduling hiccup
const c07NoReadSlack = 400 * time.Millisecond

func init() {
	register("C07", scnNoRead)
	executors["noread"] = execNoRead
}

// c07ReqLen: the number of bytes the transport writes for op (dry run on a
// scripted connection that reports a deadline error at once)
func c07ReqLen(scheme string, op []string) int {
	c := sconn.New(true)
	mc, err := modbus.VerifNewClientOnConn(&modbus.ClientConfiguration{
		URL: scheme[2:] + "://sconn", Timeout: time.Second, Speed: 10000000, Logger: quiet}, c)
	if err != nil {
		return 0
	}
	mc.SetUnitId(1)
	callOp(mc, op)
	w := c.WriteLog()
	if len(w) == 0 {
		return 0
	}
	return len(w[0])
}

func execNoRead(in []string) (out string) {
	defer func() {
		if r := recover(); r != nil {
			out = "panic"
		}
	}()
	if len(in) < 8 {
		return "harness-error:bad-input"
	}
	scheme, speed := in[0], atoi(in[1])
	tmo := time.Duration(atoi(in[2])) * time.Millisecond
	roomTok, answered, ncalls := in[3], atoi(in[4]), atoi(in[5])
	op := in[7:]
	if tmo <= 0 || ncalls <= 0 || answered < 0 {
		return "harness-error:bad-input"
	}
	rtu := c07IsRTU(scheme)
	var fc byte
	var payload []byte
	if in[6] != "-" {
		p := strings.SplitN(in[6], ":", 2)
		if len(p) != 2 {
			return "harness-error:bad-reply"
		}
		fc, payload = byte(unhx(p[0])), unhex(p[1])
	} else if answered > 0 {
		return "harness-error:bad-reply"
	}
	replyFrame := func(i int) []byte { // the reply to call i (0-based) of a fresh client
		if rtu {
			return rtuFrame(1, fc, payload)
		}
		return mbapFrame(uint16(i+1), 0, -1, 1, fc, payload)
	}
	nreq := c07ReqLen(scheme, op)
	if nreq == 0 {
		return "harness-error:no-request"
	}
	bound := c07Bound(scheme, speed, tmo, nreq)

	conf := &modbus.ClientConfiguration{Timeout: tmo, Speed: uint(speed), Logger: quiet, URL: scheme[2:] + "://peer"}
	var mc *modbus.ModbusClient
	var err error
	var release func()        // unblocks a hung call
	var stopReading func()    // the peer goes dead
	var blockedNow func() int // Write calls that found the link full so far (-1: unknown)
	var sentNow func() int    // see "sent" above
	var cur int32             // index of the call in progress
	stop := make(chan struct{})
	var stopOnce sync.Once
	halt := func() { stopOnce.Do(func() { close(stop) }) }
	defer halt()

	switch scheme {
	case "s:tcp", "s:rtuovertcp":
		if roomTok == "?" || roomTok == "full" {
			return "harness-error:bad-room"
		}
		c := sconn.New(false)
		w := sconn.NewNoRead(c)
		c.OnWrite = func(_ *sconn.Conn, b []byte) {
			if i := int(atomic.LoadInt32(&cur)); i < answered {
				c.Feed(replyFrame(i))
			}
		}
		mc, err = modbus.VerifNewClientOnConn(conf, w)
		if err != nil {
			return "harness-error:client"
		}
		release = func() { w.Close() }
		stopReading = func() { w.StopReading(atoi(roomTok)) }
		blockedNow = w.BlockedNow
		sentNow = w.AcceptedNow

	case "l:tcp", "l:rtuovertcp":
		if roomTok != "?" && roomTok != "full" {
			return "harness-error:bad-room"
		}
		lc := net.ListenConfig{Control: func(network, address string, rc syscall.RawConn) error {
			return rc.Control(func(fd uintptr) {
				syscall.SetsockoptInt(int(fd), syscall.SOL_SOCKET, syscall.SO_RCVBUF, 2048)
			})
		}}
		ln, e := lc.Listen(context.Background(), "tcp", "127.0.0.1:0")
		if e != nil {
			return "harness-error:listen"
		}
		defer ln.Close()
		drain := make(chan struct{})
		drained := make(chan int, 1)
		var devDone sync.WaitGroup
		devDone.Add(1)
		go func() {
			defer devDone.Done()
			ln.(*net.TCPListener).SetDeadline(time.Now().Add(3 * time.Second))
			conn, e := ln.Accept()
			if e != nil {
				return
			}
			defer conn.Close()
			buf := make([]byte, nreq)
			for i := 0; i < answered; i++ {
				conn.SetReadDeadline(time.Now().Add(3 * time.Second))
				if _, e := io.ReadFull(conn, buf); e != nil {
					break
				}
				conn.Write(replyFrame(i))
			}
			// dead: the connection stays open, nothing is read, nothing is sent
			select {
			case <-stop:
				return
			case <-drain:
			}
			// the session is over: what did the link take in the meantime?
			n, big := 0, make([]byte, 65536)
			for {
				conn.SetReadDeadline(time.Now().Add(50 * time.Millisecond))
				k, e := conn.Read(big)
				n += k
				if e != nil {
					break
				}
			}
			drained <- n
			<-stop
		}()
		defer devDone.Wait()
		defer halt()
		d := net.Dialer{Timeout: 2 * time.Second}
		sock, e := d.Dial("tcp", ln.Addr().String())
		if e != nil {
			return "harness-error:dial"
		}
		sock.(*net.TCPConn).SetWriteBuffer(4096)
		mc, err = modbus.VerifNewClientOnConn(conf, sock)
		if err != nil {
			sock.Close()
			return "harness-error:client"
		}
		defer sock.Close()
		release = func() { sock.Close() }
		filled := 0
		stopReading = func() {
			if roomTok != "full" {
				return
			}
			// fill the buffers between the two ends with bytes nobody will read
			// (in ever smaller pieces: the kernel still squeezes small writes into the
			// last queued segment when a large one has already been refused)
			junk := make([]byte, 1<<16)
			lim := time.Now().Add(3 * time.Second)
			for _, sz := range []int{1 << 16, 4096, 256, 16, 1} {
				for time.Now().Before(lim) {
					sock.SetWriteDeadline(time.Now().Add(40 * time.Millisecond))
					k, e := sock.Write(junk[:sz])
					filled += k
					if e != nil {
						break
					}
				}
			}
			sock.SetWriteDeadline(time.Time{}) // hand the socket over without any deadline armed
		}
		blockedNow = func() int { return -1 }
		sentNow = func() int {
			close(drain)
			select {
			case n := <-drained:
				return n - filled
			case <-time.After(3 * time.Second):
				return -1
			}
		}

	default:
		return "harness-error:bad-scheme"
	}
	mc.SetUnitId(1)

	var cs, durs []string
	hung := false
	for i := 0; i < ncalls; i++ {
		atomic.StoreInt32(&cur, int32(i))
		if i == answered {
			stopReading()
		}
		b0 := blockedNow()
		done := make(chan c07Res, 1)
		go func() {
			t0 := time.Now()
			r := callOp(mc, op)
			done <- c07Res{r, time.Since(t0)}
		}()
		var res c07Res
		wd := time.NewTimer(bound + time.Second)
		select {
		case res = <-done:
			wd.Stop()
		case <-wd.C:
			release()
			select {
			case <-done:
			case <-time.After(2 * time.Second):
			}
			hung = true
		}
		if hung {
			cs = append(cs, "hang")
			break
		}
		verdict := "intime"
		if res.dur > bound+c07NoReadSlack {
			verdict = "late:" + itoa(int((res.dur-bound)/time.Millisecond))
		} else if res.out == "err:timeout" && res.dur < tmo {
			verdict = "early:" + itoa(int((tmo-res.dur)/time.Millisecond))
		}
		w := "?"
		if b0 >= 0 {
			w = "s"
			if blockedNow() > b0 {
				w = "w"
			}
		}
		cs = append(cs, res.out+"/"+verdict+"/"+w)
		durs = append(durs, strconv.FormatInt(int64(res.dur/time.Microsecond), 10))
	}
	sent := -1
	if !hung {
		if answered >= ncalls {
			stopReading()
		}
		sent = sentNow()
	}
	if len(durs) == 0 {
		durs = []string{"-"}
	}
	return strings.Join(cs, ";") + " bound=" + strconv.FormatInt(int64(bound), 10) +
		" sent=" + itoa(sent) + " durs=" + strings.Join(durs, ",")
}

// ------------------------------------------------------------------ generator

func scnNoRead(o *Out, r *Rng, thorough bool) {
	var ins []string
	add := func(scheme string, speed, tmo int, room string, answered, ncalls int, op []string) {
		reply := "-"
		if answered > 0 {
			fc, payload, ok := buildReply(r, op, 1)
			if !ok {
				answered = 0
			} else {
				reply = hxi(int(fc)) + ":" + hx(payload)
			}
		}
		ins = append(ins, strings.Join(append([]string{scheme, itoa(speed), itoa(tmo), room,
			itoa(answered), itoa(ncalls), reply}, op...), " "))
		o.Stat("noread:scheme:" + scheme)
		o.Stat("noread:answered:" + itoa(answered))
	}
	bigWrite := func() []string {
		return []string{"WriteRegisters", hxi(r.Intn(0xff00)), "rep:123:" + hxi(r.Intn(65536))}
	}

	// scripted connection: exact room
	tmos := []int{120}
	reps := 1
	if thorough {
		tmos = []int{80, 120, 200}
		reps = 3
	}
	for rep := 0; rep < reps; rep++ {
		for _, tmo := range tmos {
			for _, su := range []c07Setup{{"s:tcp", 0}, {"s:rtuovertcp", 19200}, {"s:rtuovertcp", 115200}} {
				op := c07Op(r)
				if r.Intn(3) == 0 {
					op = bigWrite()
				}
				if su.speed == 19200 && op[0] == "WriteRegisters" && tmo < 200 {
					// 255 bytes last 146 ms at 19200 bps: keep the post-write sleep inside the timeout
					op = c07Op(r)
				}
				n := c07ReqLen(su.scheme, op)
				if n < 2 {
					continue
				}
				type rm struct {
					room int
					kind string
				}
				rooms := []rm{{0, "none"}, {1 + r.Intn(n-1), "partial"}, {n, "exact"},
					{n + 1 + r.Intn(n-1), "one+partial"}, {2*n + r.Intn(n), "two+partial"}}
				for _, x := range rooms {
					answered := r.Intn(3)
					add(su.scheme, su.speed, tmo, itoa(x.room), answered, answered+x.room/n+2, op)
					o.Stat("noread:room:" + x.kind)
				}
			}
		}
	}

	// real sockets with small buffers
	// (a) the buffers are already full when the peer dies: no request fits any more
	for _, su := range []c07Setup{{"l:tcp", 0}, {"l:rtuovertcp", 115200}} {
		for _, answered := range []int{0, 2} {
			op := c07Op(r)
			if r.Bool() {
				op = bigWrite()
			}
			add(su.scheme, su.speed, 60, "full", answered, answered+3, op)
			o.Stat("noread:room:kernel-full")
		}
	}
	// (b) the buffers fill up with the client's own (largest) requests, one per timeout
	lsetups := []c07Setup{{"l:tcp", 0}}
	if thorough {
		lsetups = append(lsetups, c07Setup{"l:rtuovertcp", 115200}, c07Setup{"l:tcp", 0})
	}
	for _, su := range lsetups {
		answered := 2 * r.Intn(2)
		add(su.scheme, su.speed, 25, "?", answered, answered+72, bigWrite())
		o.Stat("noread:room:kernel-filling")
	}

	for i, out := range o.RunMany("noread", ins) {
		f := strings.Fields(out)
		if len(f) < 4 {
			o.Stat("noread:out:" + out)
			continue
		}
		for _, c := range strings.Split(f[0], ";") {
			p := strings.Split(c, "/")
			if len(p) != 3 {
				o.Stat("noread:call:" + c)
				continue
			}
			if strings.HasPrefix(p[0], "ok:") {
				p[0] = "ok"
			}
			o.Stat("noread:call:" + p[0] + "/" + strings.SplitN(p[1], ":", 2)[0] + "/" + p[2])
		}
		if strings.HasPrefix(ins[i], "l:") {
			// did the kernel buffers really fill up (fewer bytes taken than requests issued)?
			t := strings.Fields(ins[i])
			dead := atoi(t[5]) - atoi(t[4])
			sent := atoi(strings.TrimPrefix(f[2], "sent="))
			if sent >= 0 && sent < dead*c07ReqLen(t[0], t[7:]) {
				o.Stat("noread:kernel:link-filled")
			} else {
				o.Stat("noread:kernel:link-not-filled")
			}
		}
	}
}
