package main

// C12 - results do not depend on how the byte stream is segmented.
//
// Scripted connections (TCP-like): client calls ("cc") and server sessions
// ("srv") are re-run under many segmentations of the same peer byte stream;
// the scripted connection hands out at most one chunk per Read. The model side
// of "cc"/"srv" is evaluated on the concatenation, so agreement on every
// segmentation is the property; "segdiff" additionally compares the
// implementation's outputs among themselves; "ccc"/"srvc" are the same
// executors whose model side is the chunked model (Model/Chunks.v).
//
// UDP: scenario "udp" uses real loopback sockets; the device answers with the
// reply stream cut into a prescribed partition of datagrams.

import (
	"net"
	"strings"
	"sync"
	"time"

	"github.com/simonvetter/modbus"
	"verifharness/internal/sconn"
)

func init() {
	register("C12", scnSegClient, scnSegServer, scnSegUDP, scnSegLate)
	executors["ccc"] = func(in []string) string { return executors["cc"](in) }
	executors["srvc"] = func(in []string) string { return executors["srv"](in) }
	executors["segdiff"] = execSegdiff
	executors["seglate"] = execSegLate
	executors["udp"] = execUDP
}

// ---------------------------------------------------------------- segmentations

func concatChunks(cs [][]byte) []byte {
	var s []byte
	for _, c := range cs {
		s = append(s, c...)
	}
	return s
}

func cutAt(s []byte, cuts ...int) [][]byte {
	var cs [][]byte
	prev := 0
	for _, k := range cuts {
		cs = append(cs, s[prev:k])
		prev = k
	}
	return append(cs, s[prev:])
}

type segmentation struct {
	label  string
	chunks [][]byte
}

// segmentations of the stream made of the given frames. Deterministic in
// (frames, seed, thorough).
func segmentations(frames [][]byte, seed uint64, thorough bool) []segmentation {
	r := NewRng(seed, 12)
	s := concatChunks(frames)
	L := len(s)
	var segs []segmentation
	seen := map[string]bool{}
	add := func(label string, cs [][]byte) {
		k := writesStr(cs)
		if seen[k] {
			return
		}
		seen[k] = true
		segs = append(segs, segmentation{label, cs})
	}
	// reference: one frame per read
	add("ref", frames)
	if L == 0 {
		return segs
	}
	// byte by byte
	if L <= 300 || thorough {
		bw := make([][]byte, L)
		for i := range bw {
			bw[i] = s[i : i+1]
		}
		add("bytewise", bw)
	}
	// everything in one segment
	add("coalesced", [][]byte{s})
	// neighbouring frames coalesced pairwise, boundaries shifted by a few bytes
	var bounds []int
	off := 0
	for _, f := range frames[:len(frames)-1] {
		off += len(f)
		bounds = append(bounds, off)
	}
	for i := range bounds {
		var cuts []int
		for j, b := range bounds {
			if j != i {
				cuts = append(cuts, b)
			}
		}
		add("pair-coalesced", cutAt(s, cuts...))
	}
	for _, d := range []int{-3, -2, -1, 1, 2, 3, 6, 7, 8} {
		var cuts []int
		ok := true
		prev := 0
		for _, b := range bounds {
			k := b + d
			if k <= prev || k >= L {
				ok = false
				break
			}
			cuts = append(cuts, k)
			prev = k
		}
		if ok && len(cuts) > 0 {
			add("shifted", cutAt(s, cuts...))
		}
	}
	// points of interest: frame starts + header field offsets, frame ends
	var poi []int
	off = 0
	for _, f := range frames {
		for _, d := range []int{1, 2, 3, 4, 5, 6, 7, 8, 9} {
			if d < len(f) {
				poi = append(poi, off+d)
			}
		}
		off += len(f)
		for _, d := range []int{-2, -1, 0} {
			if off+d > 0 && off+d < L {
				poi = append(poi, off+d)
			}
		}
	}
	// every single split point
	if L <= 300 || thorough {
		for k := 1; k < L; k++ {
			add("split1", cutAt(s, k))
		}
	} else {
		for _, k := range poi {
			if k > 0 && k < L {
				add("split1", cutAt(s, k))
			}
		}
		for i := 0; i < 40; i++ {
			add("split1", cutAt(s, 1+r.Intn(L-1)))
		}
	}
	// every pair of split points (exhaustive up to 24 bytes, sampled above)
	if L <= 24 {
		for j := 1; j < L; j++ {
			for k := j + 1; k < L; k++ {
				add("split2", cutAt(s, j, k))
			}
		}
	} else {
		n := 30
		if thorough {
			n = 300
		}
		for i := 0; i < n; i++ {
			var j, k int
			switch r.Intn(3) {
			case 0:
				j, k = 1+r.Intn(L-1), 1+r.Intn(L-1)
			case 1:
				j, k = poi[r.Intn(len(poi))], 1+r.Intn(L-1)
			default:
				j, k = poi[r.Intn(len(poi))], poi[r.Intn(len(poi))]
			}
			if j > k {
				j, k = k, j
			}
			if j == k || j < 1 || k >= L {
				continue
			}
			add("split2", cutAt(s, j, k))
		}
	}
	// random chunkings, with empty chunks (the scripted connection drops
	// those: a Read never returns 0 bytes without an error)
	nr := 4
	if thorough {
		nr = 12
	}
	for i := 0; i < nr; i++ {
		p := r.Pick(2, 3, 5, 9, 40)
		var cs [][]byte
		prev := 0
		for k := 1; k < L; k++ {
			if r.Intn(p) == 0 {
				cs = append(cs, s[prev:k])
				prev = k
				if r.Intn(6) == 0 {
					cs = append(cs, []byte{})
				}
			}
		}
		cs = append(cs, s[prev:])
		if r.Intn(3) == 0 {
			cs = append([][]byte{{}}, cs...)
		}
		add("random", cs)
	}
	return segs
}

// segdiff: kind seed tier <reference case tokens> -> same | diff:<label>:<chunks>
// (re-runs every segmentation; used by -replay, the generator computes the
// same verdict from the runs it records)
func execSegdiff(in []string) string {
	if len(in) < 5 {
		return "harness-error:bad-segdiff"
	}
	kind, seed, thorough := in[0], unhx(in[1]), in[2] == "t"
	base := in[3:]
	ci := 5 // index of the chunks token in a cc case
	if kind == "srv" {
		ci = 1
	} else if kind == "udp" {
		ci = 4
	}
	if _, ok := executors[kind]; !ok {
		return "harness-error:bad-segdiff-kind"
	}
	if ci >= len(base) {
		return "harness-error:bad-segdiff"
	}
	segs := segmentations(chunksOrEmpty(base[ci]), seed, thorough)
	ref := ""
	for i, sg := range segs {
		c := append([]string(nil), base...)
		c[ci] = writesStr(sg.chunks)
		out := executors[kind](c)
		if i == 0 {
			ref = out
		} else if out != ref {
			return "diff:" + sg.label + ":" + writesStr(sg.chunks)
		}
	}
	return "same"
}

func chunksOrEmpty(tok string) [][]byte {
	cs := chunksTok(tok)
	if cs == nil {
		return [][]byte{{}}
	}
	return cs
}

// runSegmented runs the base case (tokens, chunk token at index ci) of
// scenario kind under every segmentation, records the runs and the verdict.
type segJob struct {
	kind  string
	base  []string
	ci    int
	seed  uint64
	label string
}

func runSegmented(o *Out, jobs []segJob, thorough bool, altEvery int) {
	type span struct{ from, to int }
	perScn := map[string][]string{}
	spans := map[string][]span{}
	labels := map[string][]string{}
	var order []string
	altName := map[string]string{"cc": "ccc", "srv": "srvc"}
	for ji, j := range jobs {
		segs := segmentations(chunksOrEmpty(j.base[j.ci]), j.seed, thorough)
		scn := j.kind
		// a share of the jobs is evaluated by the chunked model
		if altEvery > 0 && ji%altEvery == 0 {
			scn = altName[j.kind]
		}
		if _, ok := perScn[scn]; !ok {
			order = append(order, scn)
		}
		from := len(perScn[scn])
		for _, sg := range segs {
			c := append([]string(nil), j.base...)
			c[j.ci] = writesStr(sg.chunks)
			perScn[scn] = append(perScn[scn], strings.Join(c, " "))
			labels[scn] = append(labels[scn], sg.label)
			o.Stat("seg:" + sg.label)
		}
		spans[scn] = append(spans[scn], span{from, len(perScn[scn])})
		o.Stat("stream:" + j.label)
	}
	tier := "q"
	if thorough {
		tier = "t"
	}
	for _, scn := range order {
		outs := o.RunMany(scn, perScn[scn])
		k := 0
		for ji, j := range jobs {
			want := j.kind
			if altEvery > 0 && ji%altEvery == 0 {
				want = altName[j.kind]
			}
			if want != scn {
				continue
			}
			sp := spans[scn][k]
			k++
			verdict := "same"
			for i := sp.from + 1; i < sp.to; i++ {
				if outs[i] != outs[sp.from] {
					verdict = "diff:" + labels[scn][i] + ":" + strings.Split(perScn[scn][i], " ")[j.ci]
					o.Stat("segmentation-dependent")
					break
				}
			}
			o.Case("segdiff", j.kind+" "+hxu(j.seed)+" "+tier+" "+strings.Join(j.base, " "), verdict)
		}
	}
}

// ---------------------------------------------------------------- client streams

func scnSegClient(o *Out, r *Rng, thorough bool) {
	n := 270
	if thorough {
		n = 1800
	}
	var jobs []segJob
	addJob := func(label, fr string, unit, e, w int, end string, frames [][]byte, op []string) {
		base := strings.Split(clientCase(fr, unit, e, w, end, frames, op), " ")
		jobs = append(jobs, segJob{"cc", base, 5, r.U64(), "cc:" + fr + ":" + label})
	}
	for i := 0; i < n; i++ {
		unit, e, w := randCfg(r)
		fr := "m"
		if i%2 == 1 {
			fr = "r"
		}
		op := randOp(r, opValid)
		// mostly short replies so that the exhaustive double splits apply
		if r.Intn(3) != 0 {
			op = [][]string{{"ReadRegisters", hxi(r.Intn(65530)), hxi(1 + r.Intn(4)), itoa(r.Intn(2))},
				{"ReadCoils", hxi(r.Intn(60000)), hxi(1 + r.Intn(30))},
				{"WriteRegister", hxi(r.Intn(65536)), hxi(r.Intn(65536))},
				{"WriteCoil", hxi(r.Intn(65536)), itoa(r.Intn(2))},
				{"ReadUint32", hxi(r.Intn(65000)), itoa(r.Intn(2))},
				{"WriteUint32", hxi(r.Intn(65000)), hxu(r.U64() & 0xffffffff)},
				{"ReadBytes", hxi(r.Intn(65000)), hxi(1 + r.Intn(9)), itoa(r.Intn(2))}}[r.Intn(7)]
		}
		fc, payload, ok := buildReply(r, op, e)
		if !ok {
			continue
		}
		valid := reply{txn: 1, proto: 0, length: -1, unit: byte(unit), fc: fc, payload: payload}
		vb := valid.bytes(fr, r)
		end := []string{"s", "s", "c", "r"}[r.Intn(4)]
		foreign := func() []byte {
			f := valid
			if r.Bool() {
				f.txn = uint16(2 + r.Intn(65000))
			} else {
				f.proto = uint16(1 + r.Intn(65000))
			}
			if r.Bool() {
				f.payload = r.Bytes(r.Intn(12))
			}
			return f.bytes(fr, r)
		}
		switch (i / 2) % 9 {
		case 0, 1:
			addJob("valid", fr, unit, e, w, end, [][]byte{vb}, op)
		case 2:
			// the reply followed by another frame (left unread)
			addJob("valid+next", fr, unit, e, w, end, [][]byte{vb, valid.bytes(fr, r)}, op)
		case 3:
			if fr == "m" {
				frames := [][]byte{foreign()}
				if r.Bool() {
					frames = append(frames, foreign())
				}
				addJob("foreign-first", fr, unit, e, w, end, append(frames, vb), op)
			} else {
				addJob("valid+tail", fr, unit, e, w, end, [][]byte{vb, r.Bytes(1 + r.Intn(6))}, op)
			}
		case 4:
			m := valid
			label := mutate(r, fr, &m)
			addJob("mutated:"+label, fr, unit, e, w, end, [][]byte{m.bytes(fr, r)}, op)
		case 5:
			// a cut reply: the error depends on how many bytes arrived
			addJob("truncated", fr, unit, e, w, end, [][]byte{vb[:r.Intn(len(vb))]}, op)
		case 6:
			if fr == "m" {
				addJob("foreign-only", fr, unit, e, w, end, [][]byte{foreign(), foreign()}, op)
			} else {
				// a corrupted frame followed by a long tail: the flush of up to 1024
				// bytes crosses many chunks
				m := valid
				m.badCRC = 1
				tail := r.Bytes(r.Pick(5, 700, 1020, 1030, 1100))
				addJob("badcrc+flush", fr, unit, e, w, end, [][]byte{m.bytes(fr, r), tail[:len(tail)/2], tail[len(tail)/2:]}, op)
			}
		case 7:
			// exception reply
			x := reply{txn: 1, length: -1, unit: byte(unit), fc: fc | 0x80, payload: []byte{byte(r.Pick(1, 2, 3, 4, 6, 11, 0x55))}}
			if r.Intn(3) == 0 {
				x.unit = 255
			}
			addJob("exception", fr, unit, e, w, end, [][]byte{x.bytes(fr, r)}, op)
		default:
			addJob("random", fr, unit, e, w, end, [][]byte{r.Bytes(r.Pick(1, 3, 7, 8, 9, 20)), r.Bytes(r.Pick(1, 2, 12))}, op)
		}
	}
	// largest frames: 260-byte MBAP reply, 255-byte RTU reply (every single split point)
	for _, fr := range []string{"m", "r"} {
		op := []string{"ReadRegisters", "10", hxi(125), "0"}
		fc, payload, _ := buildReply(r, op, 1)
		valid := reply{txn: 1, length: -1, unit: 9, fc: fc, payload: payload}
		addJob("largest", fr, 9, 1, 1, "s", [][]byte{valid.bytes(fr, r)}, op)
	}
	runSegmented(o, jobs, thorough, 4)
}

// ---------------------------------------------------------------- server streams

func scnSegServer(o *Out, r *Rng, thorough bool) {
	n := 150
	if thorough {
		n = 1500
	}
	var jobs []segJob
	for i := 0; i < n; i++ {
		nf := r.Pick(1, 2, 2, 3, 4)
		var frames [][]byte
		var script []string
		label := "pipelined" + itoa(nf)
		for k := 0; k < nf; k++ {
			fc, payload, _ := randRequest(r)
			// mostly short requests
			if len(payload) > 12 && r.Intn(3) != 0 {
				be := func(v int) []byte { return []byte{byte(v >> 8), byte(v)} }
				fc = byte(r.Pick(1, 2, 3, 4, 5, 6))
				q := 1 + r.Intn(3)
				payload = append(be(r.Intn(65000)), be(q)...)
				if fc == 5 {
					payload = append(be(r.Intn(65000)), 0xff, 0)
				}
			}
			txn := uint16(r.U64())
			unit := byte(r.Pick(0, 1, 17, 247, 255, r.Intn(256)))
			proto := uint16(0)
			length := -1
			switch r.Intn(30) {
			case 0:
				proto = uint16(1 + r.Intn(65535))
				label = "hdr-proto"
			case 1:
				length = r.Pick(0, 1, 2, 254, 255, 256, 1000, 65535)
				label = "hdr-len"
			case 2:
				length = 2 + len(payload) + r.Pick(-1, 1)
				label = "hdr-lenoff"
			}
			frames = append(frames, mbapFrame(txn, proto, length, unit, fc, payload))
			script = append(script, behaviours[r.Intn(len(behaviours))])
		}
		switch r.Intn(8) {
		case 0:
			s := concatChunks(frames)
			cut := r.Intn(len(s) + 1)
			// keep whole frames as they are, cut the last one
			var fs [][]byte
			off := 0
			for _, f := range frames {
				if off+len(f) <= cut {
					fs = append(fs, f)
				} else if cut > off {
					fs = append(fs, f[:cut-off])
				}
				off += len(f)
			}
			if len(fs) == 0 {
				fs = [][]byte{{}}
			}
			frames = fs
			label = "cut"
		case 1:
			frames = append(frames, r.Bytes(1+r.Intn(10)))
			label = "garbage-tail"
		}
		end := []string{"c", "c", "s", "r"}[r.Intn(4)]
		base := strings.Split(serverCase(end, frames, script), " ")
		jobs = append(jobs, segJob{"srv", base, 1, r.U64(), "srv:" + label})
	}
	// the largest request: write 123 registers = 260-byte frame, pipelined with a short one
	{
		be := func(v int) []byte { return []byte{byte(v >> 8), byte(v)} }
		payload := append(append(be(100), be(123)...), 246)
		payload = append(payload, r.Bytes(246)...)
		frames := [][]byte{mbapFrame(7, 0, -1, 1, 16, payload), mbapFrame(8, 0, -1, 1, 3, append(be(0), be(2)...))}
		base := strings.Split(serverCase("c", frames, []string{"ok", "ok"}), " ")
		jobs = append(jobs, segJob{"srv", base, 1, r.U64(), "srv:largest"})
	}
	runSegmented(o, jobs, thorough, 4)
}

// ---------------------------------------------------------------- UDP

// execUDP: scheme unit e w dgrams op... -> result request-datagrams
func execUDP(in []string) (out string) {
	defer func() {
		if r := recover(); r != nil {
			out = "panic"
		}
	}()
	if len(in) < 6 {
		return "harness-error:bad-udp"
	}
	scheme := in[0]
	dgrams := chunksTok(in[4])
	dev, err := net.ListenUDP("udp", &net.UDPAddr{IP: net.IPv4(127, 0, 0, 1), Port: 0})
	if err != nil {
		return "harness-error:listen"
	}
	defer dev.Close()
	conn, err := net.DialUDP("udp", nil, dev.LocalAddr().(*net.UDPAddr))
	if err != nil {
		return "harness-error:dial"
	}
	defer conn.Close()
	mc, err := modbus.VerifNewClientOnConn(&modbus.ClientConfiguration{
		URL: scheme + "://" + dev.LocalAddr().String(), Timeout: 500 * time.Millisecond,
		Speed: 10000000, Logger: quiet}, conn)
	if err != nil {
		return "harness-error:client"
	}
	mc.SetUnitId(uint8(unhx(in[1])))
	mc.SetEncoding(modbus.Endianness(atoi(in[2])), modbus.WordOrder(atoi(in[3])))

	var mu sync.Mutex
	var reqs [][]byte
	done := make(chan struct{})
	go func() {
		defer close(done)
		buf := make([]byte, 2048)
		dev.SetReadDeadline(time.Now().Add(3 * time.Second))
		n, from, err := dev.ReadFromUDP(buf)
		if err != nil {
			return
		}
		mu.Lock()
		reqs = append(reqs, append([]byte(nil), buf[:n]...))
		mu.Unlock()
		for _, d := range dgrams {
			dev.SetWriteDeadline(time.Now().Add(time.Second))
			if _, err := dev.WriteToUDP(d, from); err != nil {
				return
			}
			time.Sleep(time.Millisecond)
		}
		// anything else the client sends within the call
		for {
			dev.SetReadDeadline(time.Now().Add(3 * time.Second))
			n, _, err := dev.ReadFromUDP(buf)
			if err != nil {
				return
			}
			mu.Lock()
			reqs = append(reqs, append([]byte(nil), buf[:n]...))
			mu.Unlock()
		}
	}()
	res := callOp(mc, in[5:])
	dev.Close() // unblocks the device goroutine
	select {
	case <-done:
	case <-time.After(5 * time.Second):
		return "harness-error:device-stuck"
	}
	mu.Lock()
	defer mu.Unlock()
	return res + " " + writesStr(reqs)
}

func udpCase(scheme string, unit, e, w int, dgrams [][]byte, op []string) string {
	return strings.Join(append([]string{scheme, hxi(unit), itoa(e), itoa(w), writesStr(dgrams)}, op...), " ")
}

// all partitions of s into datagrams whose sizes are drawn from sizes (the
// last datagram takes what is left if that is at most 260 bytes)
func partitions(s []byte, sizes []int, limit int, r *Rng) [][][]byte {
	var all [][][]byte
	var rec func(off int, acc [][]byte)
	rec = func(off int, acc [][]byte) {
		if len(all) >= 20000 {
			return
		}
		if off == len(s) {
			all = append(all, append([][]byte(nil), acc...))
			return
		}
		used := map[int]bool{}
		for _, z := range sizes {
			if z <= 0 || used[z] {
				continue
			}
			used[z] = true
			if off+z < len(s) {
				rec(off+z, append(acc, s[off:off+z]))
			}
		}
		if len(s)-off <= 260 {
			all = append(all, append(append([][]byte(nil), acc...), s[off:]))
		}
	}
	rec(0, nil)
	if len(all) >= 20000 {
		// too many to enumerate: the enumeration above is biased towards its
		// first choices, add uniformly drawn partitions in front
		var rnd [][][]byte
		for i := 0; i < limit; i++ {
			var p [][]byte
			off := 0
			for off < len(s) {
				z := sizes[r.Intn(len(sizes))]
				if z <= 0 || off+z >= len(s) {
					if len(s)-off <= 260 && (z <= 0 || r.Bool()) {
						z = len(s) - off
					} else {
						continue
					}
				}
				p = append(p, s[off:off+z])
				off += z
			}
			rnd = append(rnd, p)
		}
		all = append(rnd, all[:limit]...)
	}
	// dedupe
	seen := map[string]bool{}
	var uniq [][][]byte
	for _, p := range all {
		k := writesStr(p)
		if !seen[k] {
			seen[k] = true
			uniq = append(uniq, p)
		}
	}
	if len(uniq) <= limit {
		return uniq
	}
	// sample without replacement
	for i := 0; i < limit; i++ {
		j := i + r.Intn(len(uniq)-i)
		uniq[i], uniq[j] = uniq[j], uniq[i]
	}
	return uniq[:limit]
}

func scnSegUDP(o *Out, r *Rng, thorough bool) {
	limit := 150
	nstreams := 24
	if thorough {
		limit = 1500
		nstreams = 40
	}
	type job struct {
		from, to int
		base     string
	}
	var ins []string
	var jobs []job
	addStream := func(label, scheme string, unit, e, w int, frames [][]byte, op []string) {
		s := concatChunks(frames)
		sizes := []int{1, 6, 7, 8, 260}
		for _, f := range frames {
			sizes = append(sizes, len(f), len(f)+1)
		}
		from := len(ins)
		emit := func(kind string, p [][]byte) {
			if len(p) > 120 {
				return // keeps the delivery well inside the client timeout
			}
			ins = append(ins, udpCase(scheme, unit, e, w, p, op))
			o.Stat("udp:" + kind)
		}
		emit("one-frame-per-datagram", frames)
		emit("coalesced", [][]byte{s})
		bw := make([][]byte, len(s))
		for i := range bw {
			bw[i] = s[i : i+1]
		}
		emit("bytewise", bw)
		for _, p := range partitions(s, sizes, limit, r) {
			emit("partition", p)
		}
		// an empty datagram in between
		if len(frames) > 1 {
			emit("empty-datagram", append(append([][]byte{{}}, frames[0], []byte{}), frames[1:]...))
		}
		jobs = append(jobs, job{from, len(ins), scheme + " " + label})
		o.Stat("udpstream:" + scheme + ":" + label)
	}
	for i := 0; i < nstreams; i++ {
		unit, e, w := randCfg(r)
		scheme := "udp"
		fr := "m"
		if i%3 == 2 {
			scheme, fr = "rtuoverudp", "r"
		}
		op := [][]string{{"ReadRegisters", hxi(r.Intn(65530)), hxi(1 + r.Intn(3)), itoa(r.Intn(2))},
			{"ReadCoils", hxi(r.Intn(60000)), hxi(1 + r.Intn(20))},
			{"WriteRegister", hxi(r.Intn(65536)), hxi(r.Intn(65536))},
			{"ReadUint32", hxi(r.Intn(65000)), itoa(r.Intn(2))}}[r.Intn(4)]
		fc, payload, ok := buildReply(r, op, e)
		if !ok {
			continue
		}
		valid := reply{txn: 1, proto: 0, length: -1, unit: byte(unit), fc: fc, payload: payload}
		vb := valid.bytes(fr, r)
		if fr == "m" {
			foreign := valid
			foreign.txn = uint16(2 + r.Intn(65000))
			if r.Bool() {
				foreign.payload = r.Bytes(r.Intn(6))
			}
			switch i % 4 {
			case 0:
				addStream("foreign+valid", scheme, unit, e, w, [][]byte{foreign.bytes(fr, r), vb}, op)
			case 1:
				f2 := foreign
				f2.proto = 7
				addStream("foreign+foreign+valid", scheme, unit, e, w, [][]byte{foreign.bytes(fr, r), f2.bytes(fr, r), vb}, op)
			case 2:
				addStream("valid+next", scheme, unit, e, w, [][]byte{vb, foreign.bytes(fr, r)}, op)
			default:
				x := reply{txn: 1, length: -1, unit: byte(unit), fc: fc | 0x80, payload: []byte{byte(r.Pick(1, 2, 3, 4))}}
				addStream("foreign+exception", scheme, unit, e, w, [][]byte{foreign.bytes(fr, r), x.bytes(fr, r)}, op)
			}
		} else {
			if i%2 == 0 {
				addStream("valid", scheme, unit, e, w, [][]byte{vb}, op)
			} else {
				addStream("valid+tail", scheme, unit, e, w, [][]byte{vb, r.Bytes(1 + r.Intn(5))}, op)
			}
		}
	}
	// the 260-byte bound: two frames in one datagram of exactly 260 bytes
	// (within the bound), of 261 and of 272 bytes (the tail is cut by the
	// socket read: the reply never arrives whole)
	{
		op := []string{"ReadRegisters", "10", "2", "0"}
		valid := reply{txn: 1, length: -1, unit: 17, fc: 3, payload: []byte{4, 0xa, 0xb, 0xc, 0xd}}
		vb := valid.bytes("m", r) // 13 bytes
		for _, total := range []int{259, 260, 261, 272} {
			fl := total - len(vb)
			foreign := reply{txn: 900, length: -1, unit: 17, fc: 3, payload: r.Bytes(fl - 8)}
			fb := foreign.bytes("m", r)
			ins = append(ins, udpCase("udp", 17, 1, 1, [][]byte{append(append([]byte(nil), fb...), vb...)}, op))
			o.Stat("udp:coalesced-" + itoa(total))
			// the same stream within the bound: split at the frame boundary
			ins = append(ins, udpCase("udp", 17, 1, 1, [][]byte{fb, vb}, op))
			o.Stat("udp:split-" + itoa(total))
		}
		// a single reply datagram longer than 260 bytes cannot be a valid frame; a
		// 260-byte reply (largest frame) alone and followed by one more byte
		opl := []string{"ReadRegisters", "10", hxi(125), "0"}
		fc, payload, _ := buildReply(r, opl, 1)
		big := reply{txn: 1, length: -1, unit: 17, fc: fc, payload: payload}
		bb := big.bytes("m", r)
		ins = append(ins, udpCase("udp", 17, 1, 1, [][]byte{bb}, opl))
		ins = append(ins, udpCase("udp", 17, 1, 1, [][]byte{append(append([]byte(nil), bb...), 0x55)}, opl))
		ins = append(ins, udpCase("udp", 17, 1, 1, [][]byte{bb[:100], bb[100:]}, opl))
		o.Stat("udp:largest-frame")
	}
	outs := o.RunMany("udp", ins)
	// all partitions of one stream (within the bound) must give the same result
	for _, j := range jobs {
		verdict := "same"
		for i := j.from + 1; i < j.to; i++ {
			if outs[i] != outs[j.from] {
				verdict = "diff:" + strings.Split(ins[i], " ")[4]
				o.Stat("segmentation-dependent")
				break
			}
		}
		o.Case("segdiff", "udp 0 q "+ins[j.from], verdict)
	}
}

// seglate: unit cut stream op... : the first call meets a silent peer and times
// out (connection stays open); the late reply to it followed by the reply to the
// second call then arrives as one byte stream of which the first <cut> bytes are
// there before the second call starts and the rest once its request went out.
//   -> result-1 result-2 left=<unread bytes>
func execSegLate(in []string) string {
	unit := uint8(unhx(in[0]))
	cut := atoi(in[1])
	stream := unhex(in[2])
	c := sconn.New(true)
	mc := newClientOn("m", c, unit, 1, 1)
	r1 := callOp(mc, in[3:])
	if cut > 0 {
		c.Feed(stream[:cut])
	}
	fed := false
	c.OnWrite = func(c *sconn.Conn, b []byte) {
		if !fed && cut < len(stream) {
			fed = true
			c.Feed(stream[cut:])
		}
	}
	r2 := callOp(mc, in[3:])
	return r1 + " " + r2 + " left=" + itoa(c.Pending())
}

func scnSegLate(o *Out, r *Rng, thorough bool) {
	n := 6
	if thorough {
		n = 60
	}
	for i := 0; i < n; i++ {
		unit := 1 + r.Intn(247)
		qty := 1 + r.Intn(4)
		mk := func(txn uint16) []byte {
			payload := []byte{byte(2 * qty)}
			for k := 0; k < 2*qty; k++ {
				payload = append(payload, byte(r.Intn(256)))
			}
			return mbapFrame(txn, 0, -1, byte(unit), 3, payload)
		}
		late, cur := mk(1), mk(2)
		stream := append(append([]byte{}, late...), cur...)
		op := []string{"ReadRegisters", hxi(r.Intn(65530)), hxi(qty), "0"}
		// every cut of the late reply (and a few beyond it): all must give the same outcome
		var ins []string
		for cut := 0; cut <= len(late)+2; cut++ {
			ins = append(ins, strings.Join(append([]string{hxi(unit), itoa(cut), hx(stream)}, op...), " "))
		}
		o.RunMany("seglate", ins)
		o.Stat("seglate:cuts")
	}
}
