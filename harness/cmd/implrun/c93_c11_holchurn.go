package main

// C11 - "a connection ... whose handler call is blocked does not delay requests
// on other connections", for all numbers of concurrent connections: the SET of
// connections is part of the schedule. Scenario "holchurn": one connection's
// handler call is blocked for the whole case; meanwhile, following a generated
// script, new clients connect, established clients leave (close their socket,
// possibly mid-frame) or are closed by the server on a protocol error, and the
// other connections - the ones established before the handler blocked and the
// newcomers - keep sending requests (whole frames and frames stalled
// mid-frame, identical transaction ids). Every response must arrive while the
// handler is still blocked (one-sided bound, see holChurnBound); then the
// blocked call is released and answered. Observables as in "iso": per
// connection the response frames / close it saw and the handler invocations
// attributed to its ClientAddr; the expected ones are grun of
// Model/Sessions.v on the same interleaving (ocaml/scn_sessionschurn.ml).
//
//   in:  <frame of connection 0 (magic address: its handler call blocks)> <n0> step...
//        n0 = connections established before the handler blocks (0 .. n0-1)
//        step = "+"                 a new client connects (it gets the next index)
//             | "-<i>"              client i closes its socket
//             | "<i>:<hex>:<k>"     client i sends the chunk and reads k events
//   out: ok <per connection events|calls>  |  noresp:<step> | harness-error:...

import (
	"net"
	"strings"
	"time"
)

func init() {
	register("C11", scnHolChurn)
	executors["holchurn"] = runHolChurn
}

// a healthy connection is answered in well under a millisecond; a request
// queued behind the blocked handler call waits until the harness releases it
// (or for the 5 s safety release of isoHandler)
const holChurnBound = 1 * time.Second

// time given to the server to notice a connect / disconnect before the script
// goes on (only orders the events; nothing is expected to happen within it)
const holChurnSettle = 40 * time.Millisecond

func runHolChurn(in []string) (out string) {
	defer func() {
		if r := recover(); r != nil {
			out = "panic"
		}
	}()
	if len(in) < 3 {
		return "harness-error:input"
	}
	// a scheduling hiccup of the machine is not a finding: a request held up by
	// the blocked handler call stays unanswered on every attempt
	for attempt := 0; ; attempt++ {
		out = holChurnOnce(in)
		if attempt >= 2 || !strings.HasPrefix(out, "noresp") {
			return out
		}
	}
}

func holChurnOnce(in []string) string {
	n0 := atoi(in[1])
	if n0 < 1 || n0 > 16 {
		return "harness-error:n0"
	}
	h := &isoHandler{block: make(chan struct{}), entered: make(chan struct{}, 4)}
	ic, e := startIso(n0, h)
	if ic == nil {
		return e
	}
	released := false
	release := func() {
		if !released {
			released = true
			close(h.block)
		}
	}
	defer ic.close()
	defer release()
	addr := ic.srv.VerifListenAddr().String()
	events := make([][]string, n0)
	gone := make([]bool, n0)
	// connection 0: its handler call blocks
	ic.conns[0].SetWriteDeadline(time.Now().Add(time.Second))
	ic.conns[0].Write(unhex(in[0]))
	select {
	case <-h.entered:
	case <-time.After(2 * time.Second):
		return "harness-error:handler-not-entered"
	}
	for si, st := range in[2:] {
		switch {
		case st == "+":
			c, err := net.DialTimeout("tcp", addr, 2*time.Second)
			if err != nil {
				return "harness-error:dial"
			}
			ic.index[c.LocalAddr().String()] = len(ic.conns)
			ic.conns = append(ic.conns, c)
			events = append(events, nil)
			gone = append(gone, false)
			time.Sleep(holChurnSettle)
		case strings.HasPrefix(st, "-"):
			i := atoi(st[1:])
			if i < 1 || i >= len(ic.conns) || gone[i] {
				return "harness-error:conn"
			}
			ic.conns[i].Close()
			gone[i] = true
			time.Sleep(holChurnSettle)
		default:
			p := strings.Split(st, ":")
			if len(p) != 3 {
				return "harness-error:step"
			}
			i := atoi(p[0])
			if i < 1 || i >= len(ic.conns) || gone[i] {
				return "harness-error:conn"
			}
			c := ic.conns[i]
			c.SetWriteDeadline(time.Now().Add(time.Second))
			c.Write(unhex(p[1]))
			for k := atoi(p[2]); k > 0; k-- {
				ev := readEvent(c, holChurnBound)
				if ev == "T" {
					return "noresp:" + itoa(si)
				}
				events[i] = append(events[i], ev)
				if ev == "X" {
					// closed by the server: its session is being torn down
					gone[i] = true
					time.Sleep(holChurnSettle)
					break
				}
			}
		}
	}
	// the blocked call is released and answered now
	release()
	events[0] = append(events[0], readEvent(ic.conns[0], 2*time.Second))
	return "ok " + ic.render(events)
}

// ---------------------------------------------------------------- generator

func genHolChurn(o *Out, r *Rng) string {
	txn := uint16(r.Pick(0, 1, 7, 0xffff, r.Intn(65536)))
	fb := mbapFrame(txn, 0, -1, byte(r.Intn(256)), byte(r.Pick(3, 4)), append(be2(holMagic), be2(1+r.Intn(4))...))
	n0 := 2 + r.Intn(3)
	total := n0
	var live []int // connections that can still send (never connection 0)
	for i := 1; i < n0; i++ {
		live = append(live, i)
	}
	nframes := map[int]int{}
	rest := map[int][]byte{} // second part of a frame whose first part was sent
	var steps []string
	churn := 0
	drop := func(i int) {
		for k, c := range live {
			if c == i {
				live = append(live[:k], live[k+1:]...)
				break
			}
		}
		delete(rest, i)
	}
	send := func(i int, mustClose, allowSplit bool) {
		if tail, ok := rest[i]; ok {
			steps = append(steps, itoa(i)+":"+hx(tail)+":1")
			delete(rest, i)
			o.Stat("holchurn:step:complete-frame")
			return
		}
		f, closing, label := isoFrame(r, i, nframes[i], txn, mustClose)
		for mustClose && !closing {
			// a frame on which the server must close the connection
			f, closing, label = isoFrame(r, i, nframes[i], txn, true)
		}
		nframes[i]++
		o.Stat("holchurn:frame:" + label)
		switch {
		case closing:
			steps = append(steps, itoa(i)+":"+hx(f)+":1")
			drop(i)
			churn++
			o.Stat("holchurn:step:closed-by-server")
		case allowSplit && len(f) > 2 && r.Intn(3) == 0:
			cut := 1 + r.Intn(len(f)-1)
			steps = append(steps, itoa(i)+":"+hx(f[:cut])+":0")
			rest[i] = f[cut:]
			o.Stat("holchurn:step:stall-mid-frame")
		default:
			steps = append(steps, itoa(i)+":"+hx(f)+":1")
			o.Stat("holchurn:step:request")
		}
	}
	connect := func() {
		steps = append(steps, "+")
		live = append(live, total)
		total++
		churn++
		o.Stat("holchurn:step:connect")
	}
	ns := 3 + r.Intn(7)
	for s := 0; s < ns; s++ {
		x := r.Intn(100)
		switch {
		case x < 25 && total < 9:
			connect()
		case x < 40 && len(live) >= 2:
			i := live[r.Intn(len(live))]
			if _, mid := rest[i]; mid {
				o.Stat("holchurn:step:disconnect-mid-frame")
			} else {
				o.Stat("holchurn:step:disconnect")
			}
			steps = append(steps, "-"+itoa(i))
			drop(i)
			churn++
		case x < 50 && len(live) >= 2:
			send(live[r.Intn(len(live))], true, false)
		default:
			send(live[r.Intn(len(live))], false, true)
		}
	}
	if churn == 0 {
		connect()
	}
	// whatever happened to the set of connections, the remaining ones are
	// served: stalled frames are completed, and one more request on a
	// connection picked at random
	for _, i := range live {
		if _, mid := rest[i]; mid && r.Bool() {
			send(i, false, false)
		}
	}
	send(live[r.Intn(len(live))], false, false)
	o.Stat("holchurn:conns:" + itoa(total))
	return hx(fb) + " " + itoa(n0) + " " + strings.Join(steps, " ")
}

func scnHolChurn(o *Out, r *Rng, thorough bool) {
	n := 10
	if thorough {
		n = 150
	}
	ins := []string{
		// a client connects while the handler call of connection 0 is blocked; connection 1 goes on
		"0001000000060103beef0001 2 1:000100000006020300140001:1 + 1:000100000006020300150001:1 2:000100000006030300160001:1",
		// a client leaves while the handler call of connection 0 is blocked; connection 1 goes on
		"0001000000060103beef0001 3 2:000100000006030300160001:1 -2 1:000100000006020300150001:1",
	}
	for i := 0; i < n; i++ {
		ins = append(ins, genHolChurn(o, r))
	}
	o.RunMany("holchurn", ins)
}
