package main

// C18, "returned data stays stable" across the calls on the same client that
// are NOT requests: Close() and Open().
//
// stablelife: scheme unit e w { ; step }+
//   step = call <kind> <fc> <payload> op...   a request call; the device holds the reply PDU
//                                             (fc, payload) for it: kind v - it answers with it,
//                                             kind c - it reads the request and closes the
//                                             connection instead (tcp schemes), kind n - the
//                                             call must be refused locally, nothing is answered
//        | close                              mc.Close()
//        | open                               mc.Open()
//   -> per step "<result> <request frame the device received | ->" / "close" / "open:ok",
//      joined by ";", then "|stable" or "|changed:<step of the later call>:<step of the altered result>"
//
// The client is built by NewClient + the real Open() for tcp, tcp+tls (run-time
// generated key pair, as in the C13/C14 scenarios), rtuovertcp, udp and
// rtuoverudp, against a loopback device that keeps accepting for the whole case
// and answers every request frame with the reply of the call in progress
// (echoing its transaction id). Every slice a call returns is kept - the very
// slice, with its spare capacity - and re-compared with the snapshot taken when
// it was returned after EVERY later step, Close and Open included; earlier
// results are also passed as arguments (@k) to later writes, before and after a
// Close/Open cycle, and the frame the device received is an observable.
//
// No timing assumption decides the outcome: every exchange is answered at
// once, the client's timeout (8 s) and the watchdog only turn a hang into a
// failing case.

import (
	"crypto/tls"
	"net"
	"strings"
	"sync"
	"time"

	"github.com/simonvetter/modbus"
)

func init() {
	register("C18", scnStableLife)
	executors["stablelife"] = func(in []string) string {
		ch := make(chan string, 1)
		go func() {
			defer func() {
				if r := recover(); r != nil {
					ch <- "panic"
				}
			}()
			ch <- execStableLife(in)
		}()
		select {
		case s := <-ch:
			return s
		case <-time.After(90 * time.Second):
			return "harness-timeout"
		}
	}
}

type lifeReply struct {
	kind    string
	fc      byte
	payload []byte
}

// the loopback device
type lifePeer struct {
	framing string // "m" MBAP, "r" RTU
	unit    byte
	tlsConf *tls.Config
	ln      net.Listener
	pc      net.PacketConn

	mu     sync.Mutex
	idx    int // step number of the call in progress
	cur    lifeReply
	frames map[int][]byte // request frame received during step idx
	conns  []net.Conn
	wg     sync.WaitGroup
}

func (p *lifePeer) frame(req []byte, rp lifeReply) []byte {
	if p.framing == "m" {
		return mbapFrame(uint16(req[0])<<8|uint16(req[1]), 0, -1, p.unit, rp.fc, rp.payload)
	}
	return rtuFrame(p.unit, rp.fc, rp.payload)
}

// received: the request frame of the call in progress arrived; what to do
func (p *lifePeer) received(req []byte) lifeReply {
	p.mu.Lock()
	defer p.mu.Unlock()
	if _, dup := p.frames[p.idx]; dup {
		// a second frame during one call: shown as such
		p.frames[p.idx] = append(append(p.frames[p.idx], 0xff, 0xff, 0xff), req...)
	} else {
		p.frames[p.idx] = append([]byte(nil), req...)
	}
	return p.cur
}

func (p *lifePeer) serveTCP() {
	defer p.wg.Done()
	for {
		c, err := p.ln.Accept()
		if err != nil {
			return
		}
		p.mu.Lock()
		p.conns = append(p.conns, c)
		p.wg.Add(1)
		p.mu.Unlock()
		go p.handle(c)
	}
}

func (p *lifePeer) handle(c net.Conn) {
	defer p.wg.Done()
	defer c.Close()
	c.SetDeadline(time.Now().Add(80 * time.Second)) // watchdog only
	var rw net.Conn = c
	if p.tlsConf != nil {
		ts := tls.Server(c, p.tlsConf)
		if err := ts.Handshake(); err != nil {
			return
		}
		rw = ts
	}
	one := make([]byte, 1)
	for {
		var frame []byte
		for {
			total, known := hangFrameLen(p.framing, frame)
			if known && len(frame) >= total {
				break
			}
			m, err := rw.Read(one)
			if m > 0 {
				frame = append(frame, one[0])
			}
			if err != nil {
				return // the client closed (or the case is over)
			}
		}
		rp := p.received(frame)
		switch rp.kind {
		case "v":
			if _, err := rw.Write(p.frame(frame, rp)); err != nil {
				return
			}
		case "c":
			rw.Close() // tls: close_notify, then FIN
			return
		default:
			// nothing is answered
		}
	}
}

func (p *lifePeer) serveUDP() {
	defer p.wg.Done()
	buf := make([]byte, 4096)
	for {
		n, addr, err := p.pc.ReadFrom(buf)
		if err != nil {
			return
		}
		rp := p.received(buf[:n])
		if total, known := hangFrameLen(p.framing, buf[:n]); rp.kind == "v" && known && total == n {
			p.pc.WriteTo(p.frame(buf[:n], rp), addr)
		}
	}
}

func (p *lifePeer) stop() {
	if p.ln != nil {
		p.ln.Close()
	}
	if p.pc != nil {
		p.pc.Close()
	}
	p.mu.Lock()
	for _, c := range p.conns {
		c.Close()
	}
	p.mu.Unlock()
	done := make(chan struct{})
	go func() { p.wg.Wait(); close(done) }()
	select {
	case <-done:
	case <-time.After(10 * time.Second):
	}
}

// the result of a request call as the property sees it: success with its
// values, a modbus exception, refused locally, or some other error
func lifeProject(res string) string {
	switch {
	case strings.HasPrefix(res, "ok:"), strings.HasPrefix(res, "err:exc:"), res == "err:params",
		res == "err:timeout", res == "panic", strings.HasPrefix(res, "harness-error"):
		return res
	case strings.HasPrefix(res, "err:"):
		return "err"
	}
	return res
}

func execStableLife(in []string) string {
	scheme := in[0]
	unit, e, w := uint8(unhx(in[1])), atoi(in[2]), atoi(in[3])
	framing := "m"
	if strings.HasPrefix(scheme, "rtu") {
		framing = "r"
	}
	cert, pool := c16Creds()
	p := &lifePeer{framing: framing, unit: unit, frames: map[int][]byte{}, idx: -1}
	var target string
	if strings.HasSuffix(scheme, "udp") {
		pc, err := net.ListenPacket("udp", "127.0.0.1:0")
		if err != nil {
			return "harness-error:" + err.Error()
		}
		p.pc = pc
		target = pc.LocalAddr().String()
		p.wg.Add(1)
		go p.serveUDP()
	} else {
		ln, err := net.Listen("tcp", "127.0.0.1:0")
		if err != nil {
			return "harness-error:" + err.Error()
		}
		p.ln = ln
		target = ln.Addr().String()
		if scheme == "tcp+tls" {
			p.tlsConf = &tls.Config{Certificates: []tls.Certificate{*cert}, ClientAuth: tls.RequireAnyClientCert,
				MinVersion: tls.VersionTLS12}
		}
		p.wg.Add(1)
		go p.serveTCP()
	}
	defer p.stop()

	mc, err := modbus.NewClient(&modbus.ClientConfiguration{URL: scheme + "://" + target,
		Timeout: 8 * time.Second, Logger: quiet, TLSClientCert: cert, TLSRootCAs: pool, Speed: 10000000})
	if err != nil {
		return "harness-error:newclient"
	}
	mc.SetUnitId(unit)
	mc.SetEncoding(modbus.Endianness(e), modbus.WordOrder(w))
	if err = mc.Open(); err != nil {
		return "harness-error:open"
	}
	defer mc.Close()

	var outs []string
	var kept []*keptResult
	results := map[int]interface{}{}
	verdict := "stable"
	n := 0
	// every earlier result must read as when it was returned
	recheck := func() {
		for _, k := range kept {
			if verdict == "stable" && k.get() != k.snap {
				verdict = "changed:" + itoa(n) + ":" + itoa(k.step)
			}
		}
	}
	for _, step := range kthGroups(in[4:]) {
		switch step[0] {
		case "call":
			if len(step) < 6 {
				return "harness-error:bad-step"
			}
			p.mu.Lock()
			p.idx = n
			p.cur = lifeReply{kind: step[1], fc: byte(unhx(step[2])), payload: unhex(step[3])}
			p.mu.Unlock()
			res, ret, get := callKeep(mc, step[4:], results)
			res = lifeProject(res)
			fr := "-"
			if strings.HasPrefix(res, "ok:") || strings.HasPrefix(res, "err:exc:") {
				p.mu.Lock()
				fr = hx(p.frames[n])
				p.mu.Unlock()
			}
			outs = append(outs, res+" "+fr)
			recheck()
			if ret != nil {
				results[n] = ret
				kept = append(kept, &keptResult{step: n, get: get, snap: get(), val: ret})
			}
		case "close":
			mc.Close()
			outs = append(outs, "close")
			recheck()
		case "open":
			if err := mc.Open(); err != nil {
				outs = append(outs, "open:err")
			} else {
				outs = append(outs, "open:ok")
			}
			recheck()
		default:
			outs = append(outs, "harness-error:bad-step")
		}
		n++
	}
	return strings.Join(outs, ";") + "|" + verdict
}

// ---------------------------------------------------------------- generator

var lifeSchemes = []string{"tcp", "tcp+tls", "rtuovertcp", "udp", "rtuoverudp"}

// known exception codes (the others are "some error" at the property level)
var lifeExcCodes = []int{1, 2, 3, 4, 5, 6, 8, 10, 11}

type lifeGot struct {
	step int
	kind int // index into stableReads
	n    int // elements
}

type lifeGen struct {
	r      *Rng
	o      *Out
	scheme string
	e      int
	toks   []string
	step   int
	have   []lifeGot
	open   bool // the handle is open and the device has not ended the connection
	valid  bool // the next call is answered with its valid reply
}

func (g *lifeGen) emit(t ...string) {
	g.toks = append(g.toks, ";")
	g.toks = append(g.toks, t...)
	g.step++
}

// a slice-returning read of kind k (index into stableReads)
func (g *lifeGen) read(k int, short bool) {
	r := g.r
	sr := stableReads[k]
	q := r.Pick(1, 2, 3, sr.lim, 1+r.Intn(sr.lim), 1+r.Intn(12))
	if sr.per == 0 {
		// long bit vectors are costly for the (unary) extracted model: mostly short ones
		q = r.Pick(1, 2, 7, 8, 9, 16, 17, 1+r.Intn(40), 1+r.Intn(300))
	}
	if short {
		q = 1 + r.Intn(12)
	}
	if q > sr.lim {
		q = sr.lim
	}
	regs := q
	if sr.per > 0 {
		regs = q * sr.per
	} else if sr.per < 0 {
		regs = (q + 1) / 2
	}
	a := r.Pick(0, 1, 0x1000, 0x10000-regs, r.Intn(0x10000-regs+1))
	op := []string{sr.name, hxi(a), hxi(q)}
	if sr.per != 0 {
		op = append(op, itoa(r.Intn(2)))
	}
	g.o.Stat("stablelife:read:" + sr.name)
	if g.call(op) {
		g.have = append(g.have, lifeGot{step: g.step - 1, kind: k, n: q})
	}
}

// a write whose argument is the slice returned by an earlier step
func (g *lifeGen) writeEarlier() {
	r := g.r
	h := g.have[r.Intn(len(g.have))]
	sr := stableReads[h.kind]
	name := sr.writer[r.Intn(len(sr.writer))]
	a := r.Pick(0, 5, 0x100, r.Intn(0x8000))
	be := func(v int) []byte { return []byte{byte(v >> 8), byte(v)} }
	q, fc, lim := h.n, byte(15), 1968
	if sr.per < 0 {
		q, fc, lim = (h.n+1)/2, 16, 123
	} else if sr.per > 0 {
		q, fc, lim = h.n*sr.per, 16, 123
	}
	g.o.Stat("stablelife:write-earlier-result")
	op := []string{name, hxi(a), "@" + itoa(h.step)}
	if q >= 1 && q <= lim && a+q-1 <= 0xffff {
		g.callWith(op, fc, append(be(a), be(q)...))
	} else {
		g.emit(append([]string{"call", "n", "0", "-"}, op...)...)
	}
}

// call: a request call with the valid reply of the device (or an exception, or
// the device closing instead); returns whether the call will return its values
func (g *lifeGen) call(op []string) bool {
	fc, payload, ok := buildReply(g.r, op, g.e)
	if !ok {
		g.emit(append([]string{"call", "n", "0", "-"}, op...)...)
		return false
	}
	return g.callWith(op, fc, payload)
}

func (g *lifeGen) callWith(op []string, fc byte, payload []byte) bool {
	r := g.r
	kind := "v"
	x := r.Intn(16)
	if g.valid {
		x, g.valid = 2, false
	}
	switch {
	case x == 0:
		fc, payload = fc|0x80, []byte{byte(lifeExcCodes[r.Intn(len(lifeExcCodes))])}
		g.o.Stat("stablelife:reply:exception")
	case x == 1 && !strings.HasSuffix(g.scheme, "udp"):
		kind = "c"
		g.o.Stat("stablelife:reply:device-closes")
	default:
		g.o.Stat("stablelife:reply:valid")
	}
	g.emit(append([]string{"call", kind, hxi(int(fc)), hx(payload)}, op...)...)
	answered := g.open && kind == "v" && fc&0x80 == 0
	if kind == "c" {
		g.open = false
	}
	return answered
}

func (g *lifeGen) close() {
	g.emit("close")
	g.open = false
	g.o.Stat("stablelife:close")
}

func (g *lifeGen) reopen() {
	g.emit("open")
	g.open = true
	g.o.Stat("stablelife:open")
}

func (g *lifeGen) other() {
	op := randOp(g.r, opValid)
	for len(op) == 3 && len(op[2]) > 600 { // keep the lines short
		op = randOp(g.r, opValid)
	}
	g.o.Stat("stablelife:other")
	g.call(op)
}

func scnStableLife(o *Out, r *Rng, thorough bool) {
	var ins []string
	start := func(scheme string) *lifeGen {
		unit, e, w := randCfg(r)
		o.Stat("stablelife:" + scheme)
		return &lifeGen{r: r, o: o, scheme: scheme, e: e, open: true,
			toks: []string{scheme, hxi(unit), itoa(e), itoa(w)}}
	}
	finish := func(g *lifeGen) { ins = append(ins, strings.Join(g.toks, " ")) }

	// the grid: every transport x every slice-returning read x every shape of
	// "calls that are not requests" directly after it; then the result is used
	// again (as an argument) and another read of the same kind follows
	shapes := [][]string{{"close"}, {"close", "open"}, {"open"}, {"close", "close", "open"}, {"close", "open", "close"}}
	for _, scheme := range lifeSchemes {
		for k := range stableReads {
			for si, shape := range shapes {
				g := start(scheme)
				if r.Bool() {
					g.read(r.Intn(len(stableReads)), true)
				}
				// the read itself is answered with its valid reply
				g.valid = true
				g.read(k, si%2 == 0)
				for _, s := range shape {
					if s == "close" {
						g.close()
					} else {
						g.reopen()
					}
				}
				if len(g.have) > 0 {
					g.writeEarlier()
				}
				g.read(k, true)
				if r.Bool() {
					g.close()
				}
				o.Stat("stablelife:grid")
				finish(g)
			}
		}
	}
	// seeded histories: 3..10 steps, request calls of every kind with Close /
	// Open anywhere among them
	n := 40
	if thorough {
		n = 1500
	}
	for _, scheme := range lifeSchemes {
		for i := 0; i < n; i++ {
			g := start(scheme)
			steps := 3 + r.Intn(8)
			for s := 0; s < steps; s++ {
				switch x := r.Intn(20); {
				case x < 8:
					g.read(r.Intn(len(stableReads)), r.Intn(3) > 0)
				case x < 11 && len(g.have) > 0:
					g.writeEarlier()
				case x < 13:
					g.other()
				case x < 17:
					g.close()
				default:
					g.reopen()
				}
			}
			o.Stat("stablelife:random")
			finish(g)
		}
	}
	outs := o.RunMany("stablelife", ins)
	for _, out := range outs {
		if strings.HasSuffix(out, "|stable") {
			o.Stat("stablelife:verdict:stable")
		} else {
			o.Stat("stablelife:verdict:other")
		}
	}
}
