package main

import (
	"fmt"
	"io"
	"log"
	"math"
	"strconv"
	"strings"
	"sync"
	"time"

	"github.com/simonvetter/modbus"
	"verifharness/internal/sconn"
)

var quiet = log.New(io.Discard, "", 0)

// ---------------------------------------------------------------- tokens

func expandRep(s string) (n int, v string, ok bool) {
	if strings.HasPrefix(s, "rep:") {
		p := strings.Split(s, ":")
		if len(p) == 3 {
			n, _ = strconv.Atoi(p[1])
			return n, p[2], true
		}
	}
	return
}

func boolsTok(s string) []bool {
	if n, v, ok := expandRep(s); ok {
		l := make([]bool, n)
		for i := range l {
			l[i] = v == "1"
		}
		return l
	}
	return unbits(s)
}

func numsTok(s string) []uint64 {
	if n, v, ok := expandRep(s); ok {
		l := make([]uint64, n)
		for i := range l {
			l[i] = unhx(v)
		}
		return l
	}
	if s == "-" || s == "" {
		return []uint64{}
	}
	p := strings.Split(s, ",")
	l := make([]uint64, len(p))
	for i := range p {
		l[i] = unhx(p[i])
	}
	return l
}

func bytesTok(s string) []byte {
	if n, v, ok := expandRep(s); ok {
		l := make([]byte, n)
		for i := range l {
			l[i] = byte(unhx(v))
		}
		return l
	}
	return unhex(s)
}

func chunksTok(s string) [][]byte {
	if s == "-" || s == "" {
		return nil
	}
	var cs [][]byte
	for _, t := range strings.Split(s, ",") {
		cs = append(cs, unhex(t))
	}
	return cs
}

func errClass(err error) string {
	switch err {
	case nil:
		return "nil"
	case modbus.ErrRequestTimedOut:
		return "timeout"
	case modbus.ErrUnexpectedParameters:
		return "params"
	case modbus.ErrProtocolError:
		return "protocol"
	case modbus.ErrBadCRC:
		return "badcrc"
	case modbus.ErrShortFrame:
		return "short"
	case modbus.ErrBadUnitId:
		return "badunit"
	case modbus.ErrConfigurationError:
		return "config"
	case modbus.ErrIllegalFunction:
		return "exc:1"
	case modbus.ErrIllegalDataAddress:
		return "exc:2"
	case modbus.ErrIllegalDataValue:
		return "exc:3"
	case modbus.ErrServerDeviceFailure:
		return "exc:4"
	case modbus.ErrAcknowledge:
		return "exc:5"
	case modbus.ErrServerDeviceBusy:
		return "exc:6"
	case modbus.ErrMemoryParityError:
		return "exc:8"
	case modbus.ErrGWPathUnavailable:
		return "exc:10"
	case modbus.ErrGWTargetFailedToRespond:
		return "exc:11"
	case modbus.ErrUnknownProtocolId:
		return "unknownproto"
	}
	var code int
	if n, _ := fmt.Sscanf(err.Error(), "unknown exception code (%d)", &code); n == 1 {
		return "excunk:" + itoa(code)
	}
	return "io"
}

func u16s(vs []uint64) []uint16 {
	l := make([]uint16, len(vs))
	for i := range vs {
		l[i] = uint16(vs[i])
	}
	return l
}
func u32s(vs []uint64) []uint32 {
	l := make([]uint32, len(vs))
	for i := range vs {
		l[i] = uint32(vs[i])
	}
	return l
}
func f32s(vs []uint64) []float32 {
	l := make([]float32, len(vs))
	for i := range vs {
		l[i] = math.Float32frombits(uint32(vs[i]))
	}
	return l
}
func f64s(vs []uint64) []float64 {
	l := make([]float64, len(vs))
	for i := range vs {
		l[i] = math.Float64frombits(vs[i])
	}
	return l
}

func resStr(val string, err error) string {
	if err != nil {
		return "err:" + errClass(err)
	}
	return "ok:" + val
}

func nums16(v []uint16) string {
	u := make([]uint64, len(v))
	for i := range v {
		u[i] = uint64(v[i])
	}
	return "n:" + csvu(u)
}
func nums32(v []uint32) string {
	u := make([]uint64, len(v))
	for i := range v {
		u[i] = uint64(v[i])
	}
	return "n:" + csvu(u)
}
func numsf32(v []float32) string {
	u := make([]uint64, len(v))
	for i := range v {
		u[i] = uint64(math.Float32bits(v[i]))
	}
	return "n:" + csvu(u)
}
func numsf64(v []float64) string {
	u := make([]uint64, len(v))
	for i := range v {
		u[i] = math.Float64bits(v[i])
	}
	return "n:" + csvu(u)
}

// callOp performs one public client call described by tokens and returns the
// projected result: ok:<values> | err:<class> | panic
func callOp(mc *modbus.ModbusClient, t []string) (out string) {
	defer func() {
		if r := recover(); r != nil {
			out = "panic"
		}
	}()
	a := func(i int) uint16 { return uint16(unhx(t[i])) }
	rt := func(i int) modbus.RegType { return modbus.RegType(unhx(t[i])) }
	switch t[0] {
	case "ReadCoils":
		v, err := mc.ReadCoils(a(1), a(2))
		return resStr("b:"+bits(v), err)
	case "ReadCoil":
		v, err := mc.ReadCoil(a(1))
		return resStr("b:"+bits([]bool{v}), err)
	case "ReadDiscreteInputs":
		v, err := mc.ReadDiscreteInputs(a(1), a(2))
		return resStr("b:"+bits(v), err)
	case "ReadDiscreteInput":
		v, err := mc.ReadDiscreteInput(a(1))
		return resStr("b:"+bits([]bool{v}), err)
	case "ReadRegisters":
		v, err := mc.ReadRegisters(a(1), a(2), rt(3))
		return resStr(nums16(v), err)
	case "ReadRegister":
		v, err := mc.ReadRegister(a(1), rt(2))
		return resStr(nums16([]uint16{v}), err)
	case "ReadUint32s":
		v, err := mc.ReadUint32s(a(1), a(2), rt(3))
		return resStr(nums32(v), err)
	case "ReadUint32":
		v, err := mc.ReadUint32(a(1), rt(2))
		return resStr(nums32([]uint32{v}), err)
	case "ReadFloat32s":
		v, err := mc.ReadFloat32s(a(1), a(2), rt(3))
		return resStr(numsf32(v), err)
	case "ReadFloat32":
		v, err := mc.ReadFloat32(a(1), rt(2))
		return resStr(numsf32([]float32{v}), err)
	case "ReadUint64s":
		v, err := mc.ReadUint64s(a(1), a(2), rt(3))
		return resStr("n:"+csvu(v), err)
	case "ReadUint64":
		v, err := mc.ReadUint64(a(1), rt(2))
		return resStr("n:"+csvu([]uint64{v}), err)
	case "ReadFloat64s":
		v, err := mc.ReadFloat64s(a(1), a(2), rt(3))
		return resStr(numsf64(v), err)
	case "ReadFloat64":
		v, err := mc.ReadFloat64(a(1), rt(2))
		return resStr(numsf64([]float64{v}), err)
	case "ReadBytes":
		v, err := mc.ReadBytes(a(1), a(2), rt(3))
		return resStr("y:"+hx(v), err)
	case "ReadRawBytes":
		v, err := mc.ReadRawBytes(a(1), a(2), rt(3))
		return resStr("y:"+hx(v), err)
	case "WriteCoil":
		return resStr("u", mc.WriteCoil(a(1), t[2] == "1"))
	case "WriteCoils":
		return resStr("u", mc.WriteCoils(a(1), boolsTok(t[2])))
	case "WriteRegister":
		return resStr("u", mc.WriteRegister(a(1), a(2)))
	case "WriteRegisters":
		return resStr("u", mc.WriteRegisters(a(1), u16s(numsTok(t[2]))))
	case "WriteUint32s":
		return resStr("u", mc.WriteUint32s(a(1), u32s(numsTok(t[2]))))
	case "WriteUint32":
		return resStr("u", mc.WriteUint32(a(1), uint32(unhx(t[2]))))
	case "WriteFloat32s":
		return resStr("u", mc.WriteFloat32s(a(1), f32s(numsTok(t[2]))))
	case "WriteFloat32":
		return resStr("u", mc.WriteFloat32(a(1), math.Float32frombits(uint32(unhx(t[2])))))
	case "WriteUint64s":
		return resStr("u", mc.WriteUint64s(a(1), numsTok(t[2])))
	case "WriteUint64":
		return resStr("u", mc.WriteUint64(a(1), unhx(t[2])))
	case "WriteFloat64s":
		return resStr("u", mc.WriteFloat64s(a(1), f64s(numsTok(t[2]))))
	case "WriteFloat64":
		return resStr("u", mc.WriteFloat64(a(1), math.Float64frombits(unhx(t[2]))))
	case "WriteBytes":
		return resStr("u", mc.WriteBytes(a(1), bytesTok(t[2])))
	case "WriteRawBytes":
		return resStr("u", mc.WriteRawBytes(a(1), bytesTok(t[2])))
	}
	return "harness-error:bad-op"
}

func newClientOn(fr string, c *sconn.Conn, unit uint8, e, w int) *modbus.ModbusClient {
	url := "tcp://sconn"
	if fr == "r" {
		url = "rtuovertcp://sconn"
	}
	mc, err := modbus.VerifNewClientOnConn(&modbus.ClientConfiguration{
		URL: url, Timeout: time.Second, Speed: 10000000, Logger: quiet}, c)
	if err != nil {
		panic(err)
	}
	mc.SetUnitId(unit)
	mc.SetEncoding(modbus.Endianness(e), modbus.WordOrder(w))
	// the configured encoding is the last ACCEPTED one: two calls that must be
	// refused (each carries the other value of one selector next to an invalid
	// value of the other) leave it as it is
	mc.SetEncoding(modbus.Endianness(3-e), modbus.WordOrder(0))
	mc.SetEncoding(modbus.Endianness(9), modbus.WordOrder(3-w))
	return mc
}

func writesStr(ws [][]byte) string {
	if len(ws) == 0 {
		return "-"
	}
	p := make([]string, len(ws))
	for i := range ws {
		p[i] = hx(ws[i])
	}
	return strings.Join(p, ",")
}

func init() {
	// cc: fr unit e w end chunks op... -> result writes consumed
	executors["cc"] = func(in []string) string {
		c := sconn.New(true)
		c.Feed(chunksTok(in[5])...)
		if in[4] == "c" {
			c.PeerClose()
		} else if in[4] == "r" {
			c.PeerReset()
		}
		mc := newClientOn(in[0], c, uint8(unhx(in[1])), atoi(in[2]), atoi(in[3]))
		total := c.Pending()
		res := callOp(mc, in[6:])
		return res + " " + writesStr(c.WriteLog()) + " " + itoa(total-c.Pending())
	}
	// ch: client history on ONE client and ONE connection (unread peer bytes stay queued
	// for the next call):  fr unit e w  { ; call end chunks op... | ; setunit u | ; setenc e w }*
	// -> per step "result writes consumed" joined by ";"
	executors["ch"] = func(in []string) string {
		c := sconn.New(true)
		mc := newClientOn(in[0], c, uint8(unhx(in[1])), atoi(in[2]), atoi(in[3]))
		var outs []string
		var step []string
		flush := func() {
			if len(step) == 0 {
				return
			}
			switch step[0] {
			case "call":
				c.Feed(chunksTok(step[2])...)
				if step[1] == "c" {
					c.PeerClose()
				} else if step[1] == "r" {
					c.PeerReset()
				}
				before := c.Pending()
				nw := len(c.WriteLog())
				res := callOp(mc, step[3:])
				outs = append(outs, res+" "+writesStr(c.WriteLog()[nw:])+" "+itoa(before-c.Pending()))
			case "callwf":
				c.FailWrites = 1
				nw := len(c.WriteLog())
				res := callOp(mc, step[1:])
				c.FailWrites = 0
				outs = append(outs, res+" "+writesStr(c.WriteLog()[nw:])+" 0")
			case "setunit":
				mc.SetUnitId(uint8(unhx(step[1])))
				outs = append(outs, "ok")
			case "setenc":
				outs = append(outs, resStr("u", mc.SetEncoding(modbus.Endianness(unhx(step[1])), modbus.WordOrder(unhx(step[2])))))
			}
			step = nil
		}
		for _, t := range in[4:] {
			if t == ";" {
				flush()
			} else {
				step = append(step, t)
			}
		}
		flush()
		return strings.Join(outs, ";")
	}
	// srv: end chunks script -> events
	executors["srv"] = func(in []string) string { return runServerSession(in[0], chunksTok(in[1]), in[2]) }
}

// ---------------------------------------------------------------- server

func patBool(addr, i int) bool { return ((addr+i)*7+(i/3))%3 == 0 }
func patReg(addr, i int) uint16 { return uint16((addr*31 + i*17 + 5) % 65536) }

type scriptHandler struct {
	mu     sync.Mutex
	script []string
	n      int
	events *[]string
}

func (h *scriptHandler) next() string {
	b := "ok"
	if h.n < len(h.script) {
		b = h.script[h.n]
	}
	h.n++
	return b
}

func behErr(b string) error {
	switch b {
	case "eproto":
		return modbus.ErrProtocolError
	case "eother":
		return fmt.Errorf("some other error")
	case "e1":
		return modbus.ErrIllegalFunction
	case "e2":
		return modbus.ErrIllegalDataAddress
	case "e3":
		return modbus.ErrIllegalDataValue
	case "e4":
		return modbus.ErrServerDeviceFailure
	case "e5":
		return modbus.ErrAcknowledge
	case "e6":
		return modbus.ErrServerDeviceBusy
	case "e8":
		return modbus.ErrMemoryParityError
	case "e10":
		return modbus.ErrGWPathUnavailable
	case "e11":
		return modbus.ErrGWTargetFailedToRespond
	}
	return nil
}

func count(b string, qty int) int {
	switch b {
	case "short":
		if qty > 0 {
			return qty - 1
		}
		return 0
	case "long":
		return qty + 1
	case "nil", "eother":
		return 0
	}
	if b != "ok" && b != "eproto" {
		return 0
	}
	return qty
}

func (h *scriptHandler) bools(kind string, unit uint8, addr, qty uint16, w bool, args []bool) ([]bool, error) {
	h.mu.Lock()
	defer h.mu.Unlock()
	wr := "0"
	if w {
		wr = "1"
	}
	*h.events = append(*h.events, fmt.Sprintf("C:%s:%d:%d:%d:%s:%s", kind, unit, addr, qty, wr, bits(args)))
	b := h.next()
	n := count(b, int(qty))
	var res []bool
	if b != "nil" && b != "eother" {
		res = make([]bool, n)
		for i := range res {
			res[i] = patBool(int(addr), i)
		}
	}
	return res, behErr(b)
}

func (h *scriptHandler) regs(kind string, unit uint8, addr, qty uint16, w bool, args []uint16) ([]uint16, error) {
	h.mu.Lock()
	defer h.mu.Unlock()
	wr := "0"
	if w {
		wr = "1"
	}
	u := make([]uint64, len(args))
	for i := range args {
		u[i] = uint64(args[i])
	}
	*h.events = append(*h.events, fmt.Sprintf("C:%s:%d:%d:%d:%s:%s", kind, unit, addr, qty, wr, csvu(u)))
	b := h.next()
	n := count(b, int(qty))
	var res []uint16
	if b != "nil" && b != "eother" {
		res = make([]uint16, n)
		for i := range res {
			res[i] = patReg(int(addr), i)
		}
	}
	return res, behErr(b)
}

func (h *scriptHandler) HandleCoils(r *modbus.CoilsRequest) ([]bool, error) {
	return h.bools("c", r.UnitId, r.Addr, r.Quantity, r.IsWrite, r.Args)
}
func (h *scriptHandler) HandleDiscreteInputs(r *modbus.DiscreteInputsRequest) ([]bool, error) {
	return h.bools("d", r.UnitId, r.Addr, r.Quantity, false, nil)
}
func (h *scriptHandler) HandleHoldingRegisters(r *modbus.HoldingRegistersRequest) ([]uint16, error) {
	return h.regs("h", r.UnitId, r.Addr, r.Quantity, r.IsWrite, r.Args)
}
func (h *scriptHandler) HandleInputRegisters(r *modbus.InputRegistersRequest) ([]uint16, error) {
	return h.regs("i", r.UnitId, r.Addr, r.Quantity, false, nil)
}

func runServerSession(end string, chunks [][]byte, script string) (out string) {
	var events []string
	h := &scriptHandler{events: &events}
	if script != "-" && script != "" {
		h.script = strings.Split(script, ",")
	}
	srv, err := modbus.NewServer(&modbus.ServerConfiguration{URL: "tcp://127.0.0.1:0", Timeout: time.Second, Logger: quiet}, h)
	if err != nil {
		return "harness-error:" + err.Error()
	}
	c := sconn.New(true)
	c.Feed(chunks...)
	if end == "c" {
		c.PeerClose()
	} else if end == "r" {
		c.PeerReset()
	}
	c.OnWrite = func(_ *sconn.Conn, b []byte) {
		h.mu.Lock()
		events = append(events, "R:"+hx(b))
		h.mu.Unlock()
	}
	func() {
		defer func() {
			if r := recover(); r != nil {
				events = append(events, "PANIC")
			}
		}()
		srv.VerifServeConn(c)
	}()
	if c.IsClosed() {
		events = append(events, "X")
	}
	return strings.Join(events, ";")
}
