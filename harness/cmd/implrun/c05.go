package main

// C05 - replies are matched to requests by transaction id.
//
// Histories of calls on ONE client attached to ONE scripted connection (MBAP
// framing): unread peer bytes stay queued for the next call, the transport's
// transaction counter runs on. Per request the scripted peer answers on time,
// late (the reply is delivered at the beginning of a later call), twice, not at
// all, with a foreign-protocol frame, with a frame carrying another
// transaction id, or with an exception - in random combination.
//
// Tagging: every protocol-id-0 frame is built "as the reply to request number
// i": transaction id (i+1) mod 2^16 (the first request of a fresh client has
// id 1) and a register value that encodes i (32-bit reads: i itself; 16-bit
// reads: i mod 2^16). Foreign-protocol frames carry a value whose low 16 bits
// differ from (transaction id - 1). A misattributed reply is therefore visible
// in the value the call returns.

import (
	"github.com/simonvetter/modbus"
	"verifharness/internal/sconn"
	"strings"
	"time"
)

func init() {
	register("C05", scnTxnHistories, scnTxnWrap, scnTxnIds)
	// txh: same wire format and observables as "ch"; the model side runs the
	// extracted Model/TxnHistory.v and evaluates the tag predicate
	executors["txnids"] = execTxnIds
	executors["txh"] = func(in []string) string {
		done := make(chan string, 1)
		go func() {
			defer func() {
				if r := recover(); r != nil {
					done <- "panic"
				}
			}()
			done <- executors["ch"](in)
		}()
		select {
		case s := <-done:
			return s
		case <-time.After(300 * time.Second):
			return "harness-error:hang"
		}
	}
}

// tagData lays out the register image of value v for a read of `regs`
// registers (1 or 2) under the client's byte order e and word order w
// (1 = big endian / high word first, 2 = little endian / low word first).
// Written from the documented encodings, independent of the library.
func tagData(v uint32, regs, e, w int) []byte {
	word := func(x uint16) []byte {
		if e == 1 {
			return []byte{byte(x >> 8), byte(x)}
		}
		return []byte{byte(x), byte(x >> 8)}
	}
	if regs == 1 {
		return word(uint16(v))
	}
	hi, lo := word(uint16(v>>16)), word(uint16(v))
	if w == 1 {
		return append(hi, lo...)
	}
	return append(lo, hi...)
}

type txnReq struct {
	regs int // 1: ReadRegister, 2: ReadUint32
	rt   int // 0 holding (fc 3), 1 input (fc 4)
	addr int
}

func (q txnReq) op() string {
	if q.regs == 1 {
		return "ReadRegister " + hxi(q.addr) + " " + itoa(q.rt)
	}
	return "ReadUint32 " + hxi(q.addr) + " " + itoa(q.rt)
}

// replyTo builds the frame a device would send as the reply to request number
// i (shape taken from request q), tagged with i; proto 0.
func replyTo(i uint32, q txnReq, unit, e, w int) []byte {
	data := tagData(i, q.regs, e, w)
	payload := append([]byte{byte(len(data))}, data...)
	return mbapFrame(uint16(i+1), 0, -1, byte(unit), byte(3+q.rt), payload)
}

// one scripted history; returns the case line (without the scenario name)
func genTxnHistory(o *Out, r *Rng, n int) string {
	unit, e, w := randCfg(r)
	reqs := make([]txnReq, n)
	mixed := r.Intn(3) == 0
	base := txnReq{regs: 1 + r.Intn(2), rt: r.Intn(2), addr: r.Intn(0xfffe)}
	for i := range reqs {
		reqs[i] = base
		if mixed {
			reqs[i] = txnReq{regs: 1 + r.Intn(2), rt: r.Intn(2), addr: r.Intn(0xfffe)}
		}
	}
	// frames scheduled per call: late ones (queued first) and the others
	late := make([][][]byte, n)
	now := make([][][]byte, n)
	schedule := func(at int, f []byte, isLate bool) {
		if at >= n {
			o.Stat("beh:late-beyond-end")
			return
		}
		if isLate {
			late[at] = append(late[at], f)
		} else {
			now[at] = append(now[at], f)
		}
	}
	delay := func() int {
		if r.Intn(4) == 0 {
			return 1 + r.Intn(8)
		}
		return 1 + r.Intn(2)
	}
	for i := 0; i < n; i++ {
		q := reqs[i]
		own := replyTo(uint32(i), q, unit, e, w)
		switch k := r.Intn(20); {
		case k < 7:
			schedule(i, own, false)
			o.Stat("beh:on-time")
		case k < 11:
			schedule(i+delay(), own, true)
			o.Stat("beh:late")
		case k < 14:
			schedule(i, own, false)
			if r.Bool() {
				schedule(i, own, false)
				o.Stat("beh:twice-same-call")
			} else {
				schedule(i+delay(), own, true)
				o.Stat("beh:twice-late-duplicate")
			}
		case k < 17:
			o.Stat("beh:never")
		case k < 18:
			// late twice
			schedule(i+delay(), own, true)
			schedule(i+delay(), own, true)
			o.Stat("beh:late-twice")
		case k < 19:
			// an exception reply with the right id
			f := mbapFrame(uint16(i+1), 0, -1, byte(unit), byte(3+q.rt)|0x80, []byte{byte(r.Pick(1, 2, 3, 4, 6, 11))})
			schedule(i, f, false)
			o.Stat("beh:exception")
		default:
			// the reply to a request d ahead arrives early, then the own reply
			d := 1 + r.Intn(3)
			schedule(i, replyTo(uint32(i+d), q, unit, e, w), false)
			schedule(i, own, false)
			o.Stat("beh:early-reply-then-own")
		}
		// noise, independent of the above
		if r.Intn(4) == 0 {
			// foreign protocol id: the tempting one carries this request's id and the
			// shape of its reply; the value breaks the tag relation
			txn := uint16(i + 1)
			if r.Intn(3) == 0 {
				txn = uint16(r.Intn(65536))
			}
			data := tagData(uint32(txn-1)^0x8000, q.regs, e, w)
			payload := append([]byte{byte(len(data))}, data...)
			if r.Intn(4) == 0 {
				// any content
				payload = r.Bytes(r.Intn(40))
			}
			f := mbapFrame(txn, uint16(1+r.Intn(0xffff)), -1, byte(unit), byte(3+q.rt), payload)
			schedule(i+r.Pick(0, 0, 0, 1, 2), f, r.Bool())
			o.Stat("beh:foreign-proto")
		}
		if r.Intn(4) == 0 {
			// a frame with a random other transaction id: built as the reply to a
			// request number that is not congruent to i
			d := uint32(1 + r.Intn(65535))
			if r.Bool() {
				d = uint32(r.Pick(1, 2, 3, 65535, 65534, 32768))
			}
			other := uint32(i) + d + 65536*uint32(r.Intn(3))
			schedule(i, replyTo(other, q, unit, e, w), false)
			o.Stat("beh:other-txn")
		}
	}
	// the peer may end the connection (close or reset) at some call; the
	// condition persists for the rest of the history
	endAt, endKind := -1, "c"
	if r.Intn(12) == 0 {
		endAt = r.Intn(n)
		if r.Bool() {
			endKind = "r"
		}
	}
	var sb strings.Builder
	sb.WriteString("m " + hxi(unit) + " " + itoa(e) + " " + itoa(w))
	for i := 0; i < n; i++ {
		fs := now[i]
		// order within a call: late frames first (they were sent earlier), the rest
		// shuffled; sometimes everything shuffled (reordering in flight)
		for k := len(fs) - 1; k > 0; k-- {
			m := r.Intn(k + 1)
			fs[k], fs[m] = fs[m], fs[k]
		}
		all := append(append([][]byte{}, late[i]...), fs...)
		if r.Intn(5) == 0 {
			for k := len(all) - 1; k > 0; k-- {
				m := r.Intn(k + 1)
				all[k], all[m] = all[m], all[k]
			}
		}
		// delivery granularity: frame by frame, one segment, or arbitrary cuts
		var chunks [][]byte
		switch r.Intn(4) {
		case 0:
			var cat []byte
			for _, f := range all {
				cat = append(cat, f...)
			}
			if len(cat) > 0 {
				chunks = [][]byte{cat}
			}
		case 1:
			var cat []byte
			for _, f := range all {
				cat = append(cat, f...)
			}
			for len(cat) > 0 {
				k := 1 + r.Intn(len(cat))
				if k > 11 && r.Bool() {
					k = 1 + r.Intn(11)
				}
				chunks = append(chunks, cat[:k])
				cat = cat[k:]
			}
		default:
			chunks = all
		}
		end := "s"
		if i == endAt {
			end = endKind
			o.Stat("beh:peer-ends-" + endKind)
		}
		sb.WriteString(" ; call " + end + " " + writesStr(chunks) + " " + reqs[i].op())
	}
	return sb.String()
}

func txnOutcomeStats(o *Out, outs []string) {
	for _, out := range outs {
		for _, s := range strings.Split(out, ";") {
			f := strings.SplitN(s, " ", 2)
			switch {
			case strings.HasPrefix(f[0], "ok:"):
				o.Stat("outcome:value")
			case f[0] == "err:timeout":
				o.Stat("outcome:timeout")
			default:
				o.Stat("outcome:" + strings.SplitN(f[0], ":", 3)[0] + "-other")
			}
		}
	}
}

func scnTxnHistories(o *Out, r *Rng, thorough bool) {
	count, maxLen := 700, 60
	if thorough {
		count, maxLen = 6000, 200
	}
	var ins []string
	for c := 0; c < count; c++ {
		n := 2 + r.Intn(maxLen-1)
		if r.Intn(4) == 0 {
			n = 2 + r.Intn(6)
		}
		ins = append(ins, genTxnHistory(o, r, n))
		o.Stat("history")
	}
	// many skippable frames within ONE call (late replies piling up, duplicates,
	// foreign-protocol frames), with and without the own reply behind them
	for _, k := range []int{7, 8, 9, 15, 16, 17, 40, 100} {
		for variant := 0; variant < 3; variant++ {
			q := txnReq{regs: 1, rt: 0, addr: 0}
			var chunks [][]byte
			for j := 0; j < k; j++ {
				switch (j + variant) % 3 {
				case 0:
					chunks = append(chunks, replyTo(uint32(1000+j), q, 1, 1, 1)) // other transaction id
				case 1:
					f := replyTo(0, q, 1, 1, 1)
					f[2], f[3] = 0x12, byte(j) // foreign protocol id
					chunks = append(chunks, f)
				default:
					chunks = append(chunks, replyTo(uint32(65535-j), q, 1, 1, 1))
				}
			}
			own := ""
			if variant != 2 {
				chunks = append(chunks, replyTo(0, q, 1, 1, 1))
				own = "+own"
			}
			ins = append(ins, "m 1 1 1 ; call s "+writesStr(chunks)+" ReadRegister 0 0 ; call s "+
				writesStr([][]byte{replyTo(1, q, 1, 1, 1)})+" ReadRegister 0 0")
			o.Stat("flood:" + itoa(k) + own)
		}
	}
	// a request whose Write fails (the peer saw part of it), then the next request,
	// during which the peer answers the FAILED request first: the ids must differ
	var wf []string
	for k := 0; k < 6; k++ {
		q := txnReq{regs: 1, rt: 0, addr: 0}
		pre := ""
		for j := 0; j < k; j++ {
			pre += " ; call s " + writesStr([][]byte{replyTo(uint32(j), q, 1, 1, 1)}) + " ReadRegister 0 0"
		}
		wf = append(wf, "m 1 1 1"+pre+" ; callwf ReadRegister 0 0 ; call s "+
			writesStr([][]byte{replyTo(uint32(k), q, 1, 1, 1)})+" ReadRegister 0 0 ; call s "+
			writesStr([][]byte{replyTo(uint32(k+2), q, 1, 1, 1)})+" ReadRegister 0 0")
		o.Stat("write-failure")
	}
	o.RunMany("ch", wf)
	txnOutcomeStats(o, o.RunMany("txh", ins))
	// the same histories against the hand-threaded "ch" model handler
	o.RunMany("ch", ins)
}

// thorough: one history across the 16-bit wrap of the counter. Requests 100,
// 200 and 250 are never answered in time; their replies are injected - each
// right before the on-time reply of the then outstanding request - at distance
// 1 (request 101), 65535 (request 65735) and 65536 (request 65786). At
// distance 65536 the ids coincide (the property speaks of "the following
// 65535 requests"): the stale frame is returned there, and the reply it
// displaced is passed over by the next request.
// txnids: n requests on one client, every one answered at once; output = the
// transaction ids of the last 8 requests as seen by the peer (the counter's
// behaviour across the 16-bit wrap, cheaply, in every tier)
func execTxnIds(in []string) string {
	n := atoi(in[0])
	c := sconn.New(true)
	var ids []string
	c.OnWrite = func(c *sconn.Conn, b []byte) {
		if len(b) < 8 {
			return
		}
		ids = append(ids, hxu(uint64(b[0])<<8|uint64(b[1])))
		if len(ids) > 8 {
			ids = ids[1:]
		}
		c.Feed([]byte{b[0], b[1], 0, 0, 0, 5, b[6], 3, 2, 0, 1})
	}
	mc := newClientOn("m", c, 1, 1, 1)
	for i := 0; i < n; i++ {
		if _, err := mc.ReadRegister(0, modbus.HOLDING_REGISTER); err != nil {
			return "err:" + itoa(i) + ":" + errClass(err)
		}
	}
	return strings.Join(ids, ",")
}

func scnTxnIds(o *Out, r *Rng, thorough bool) {
	o.Run("txnids", "65540")
	o.Run("txnids", "131080")
}

func scnTxnWrap(o *Out, r *Rng, thorough bool) {
	if !thorough {
		return
	}
	const n = 65536 + 400
	q := txnReq{regs: 2, rt: 0, addr: 0}
	unit, e, w := 1, 1, 1
	silent := map[int]bool{100: true, 200: true, 250: true}
	inject := map[int]int{101: 100, 200 + 65535: 200, 250 + 65536: 250}
	var sb strings.Builder
	sb.Grow(n * 56)
	sb.WriteString("m 1 1 1")
	for i := 0; i < n; i++ {
		var chunks [][]byte
		if j, ok := inject[i]; ok {
			chunks = append(chunks, replyTo(uint32(j), q, unit, e, w))
			o.Stat("wrap:stale-injected")
		}
		if !silent[i] {
			chunks = append(chunks, replyTo(uint32(i), q, unit, e, w))
		}
		sb.WriteString(" ; call s " + writesStr(chunks) + " ReadUint32 0 0")
	}
	out := o.Run("txh", sb.String())
	steps := strings.Split(out, ";")
	if len(steps) == n {
		for _, i := range []int{100, 101, 200, 200 + 65535, 200 + 65536, 250, 250 + 65536, 250 + 65537} {
			o.Stat("wrap:req" + itoa(i) + ":" + strings.SplitN(steps[i], " ", 2)[0])
		}
	}
	o.Stat("wrap:requests-" + itoa(n))
}
