package main

// C20, scenario "clirep": command lists that are executed MORE THAN ONCE.
// The help text: "repeat - Restart execution of the given commands", e.g.
// "rh:uint32:100 sleep:1s repeat reads ... forever in a loop". Every pass must
// perform the operations the arguments describe: the same requests as the
// first pass (addresses, counts, types and values as given on the command
// line; unit id as left by the last sid), reads showing the device's CURRENT
// contents (writes of earlier passes included), printed addresses as
// documented.
//
// The real binary is run against the reference device emulator of c20.go. A
// looping process never ends, so it is observed for a number of COMPLETE
// passes and then killed:
//   1. the commands in front of the first `repeat` are run once on their own
//      (a process that ends by itself) against a fresh emulator: this measures
//      how many requests (R) and output lines (L) one pass consists of, on the
//      real binary, without consulting the model;
//   2. the full command line is started against another fresh emulator and
//      left running until the emulator has received the FIRST request of pass
//      n+1 (request n*R+1; for lists that put nothing on the wire: output line
//      n*L+1); all output of passes 1..n has been written by then (stdout of
//      the CLI is unbuffered). The process is killed, and the observation is
//      cut to exactly n passes: the first n*R frames, the emulator's memory as
//      it was right after frame n*R (snapshot taken by the emulator itself),
//      the first n*L output lines. Nothing of a half-finished pass enters the
//      comparison.
// A command line the CLI refuses, or one without `repeat`, ends by itself and
// is reported like scenario "cli".
//
// tokens: E[=hex] W[=hex] U[=hex] F[=float table] D[=duration table] P=passes C=hex...
// duration table: lithex.1|0 per sleep literal (1: time.ParseDuration accepts it)

import (
	"bytes"
	"errors"
	"fmt"
	"io"
	"os"
	"os/exec"
	"strings"
	"sync"
	"sync/atomic"
	"time"
)

func init() {
	register("C20", scnCliRepeat)
	executors["clirep"] = runCliRepeat
}

// ------------------------------------------------------------ observing a process

// lineSink collects the output lines of a running process (empty lines and
// lines of the library's logger left out, as in reduceOutput).
type lineSink struct {
	mu      sync.Mutex
	lines   []string
	pending []byte
	dropped bool
	done    chan struct{}
}

const lineSinkCap = 400000

func newLineSink(r io.Reader) *lineSink {
	s := &lineSink{done: make(chan struct{})}
	go func() {
		defer close(s.done)
		buf := make([]byte, 32768)
		for {
			n, err := r.Read(buf)
			if n > 0 {
				s.feed(buf[:n])
			}
			if err != nil {
				return
			}
		}
	}()
	return s
}

func (s *lineSink) feed(b []byte) {
	s.mu.Lock()
	defer s.mu.Unlock()
	for len(b) > 0 {
		i := bytes.IndexByte(b, '\n')
		if i < 0 {
			if len(s.pending) < 1<<20 {
				s.pending = append(s.pending, b...)
			}
			return
		}
		l := string(append(s.pending, b[:i]...))
		s.pending = s.pending[:0]
		b = b[i+1:]
		if l == "" || reLogger.MatchString(l) {
			continue
		}
		if len(s.lines) >= lineSinkCap {
			s.dropped = true
			continue
		}
		s.lines = append(s.lines, l)
	}
}

func (s *lineSink) count() int {
	s.mu.Lock()
	defer s.mu.Unlock()
	return len(s.lines)
}

func (s *lineSink) snapshot() []string {
	s.mu.Lock()
	defer s.mu.Unlock()
	return append([]string(nil), s.lines...)
}

func (e *emu) counts() (frames, conns int) {
	e.mu.Lock()
	defer e.mu.Unlock()
	return len(e.frames), e.conns
}

// cliProc: a started CLI process, its output lines and its end
type cliProc struct {
	cmd  *exec.Cmd
	sink *lineSink
	se   bytes.Buffer
}

func startCli(bin string, e *emu, opts, cmds []string) (*cliProc, error) {
	args := append([]string{"--target", fmt.Sprintf("tcp://127.0.0.1:%d", e.port()), "--timeout", "2s"}, opts...)
	args = append(args, cmds...)
	p := &cliProc{cmd: exec.Command(bin, args...)}
	p.cmd.Stdin = nil
	p.cmd.Stderr = &p.se
	so, err := p.cmd.StdoutPipe()
	if err != nil {
		return nil, err
	}
	if err := p.cmd.Start(); err != nil {
		return nil, err
	}
	p.sink = newLineSink(so)
	return p, nil
}

// end waits for the process (its stdout has been read to the end) and returns
// the exit status: a number, "crash", or "killed"
func (p *cliProc) end() string {
	<-p.sink.done
	err := p.cmd.Wait()
	exit := "0"
	if err != nil {
		var ee *exec.ExitError
		if errors.As(err, &ee) && ee.ExitCode() >= 0 {
			exit = itoa(ee.ExitCode())
		} else {
			exit = "killed"
		}
	}
	if strings.Contains(p.se.String(), "panic:") || strings.Contains(p.se.String(), "goroutine ") {
		exit = "crash"
	}
	return exit
}

// ------------------------------------------------------------ executor "clirep"

// the commands one pass executes and prints for: everything in front of the
// first `repeat`, without the sleeps
func passCmds(cmds []string) (pre []string, loops bool) {
	for _, c := range cmds {
		if c == "repeat" {
			return pre, true
		}
		if strings.SplitN(c, ":", 2)[0] == "sleep" {
			continue
		}
		pre = append(pre, c)
	}
	return pre, false
}

func runCliRepeat(in []string) (out string) {
	defer func() {
		if r := recover(); r != nil {
			out = "panic"
		}
	}()
	var opts, cmds []string
	little, lowFirst := false, false
	passes := 3
	for _, t := range in {
		k, v, has := t, "", false
		if i := strings.IndexByte(t, '='); i >= 0 {
			k, v, has = t[:i], t[i+1:], true
		}
		switch k {
		case "F", "D":
			continue
		case "P":
			passes = atoi(v)
			continue
		}
		val := string(unhex(v))
		switch k {
		case "E":
			if has {
				opts = append(opts, "--endianness", val)
				little = val == "little"
			}
		case "W":
			if has {
				opts = append(opts, "--word-order", val)
				lowFirst = val == "lf" || val == "lowfirst"
			}
		case "U":
			if has {
				opts = append(opts, "--unit-id", val)
			}
		case "C":
			cmds = append(cmds, val)
		default:
			return "harness-error:token"
		}
	}
	if passes < 1 || passes > 16 {
		return "harness-error:passes"
	}
	bin, release, err := cliAcquire()
	if err != nil {
		return "harness-error:" + strings.ReplaceAll(err.Error(), "\n", " ")
	}
	defer release()
	// as in runCli: a run that hit a time limit (loaded machine) is repeated,
	// alone, up to two times
	res, slow := runCliRepeatOnce(bin, opts, cmds, passes, little, lowFirst)
	for attempt := 0; slow && attempt < 2; attempt++ {
		atomic.AddInt64(&cliRepRetries, 1)
		if os.Getenv("VERIF_DEBUG_CLIREP") != "" {
			fmt.Fprintf(os.Stderr, "clirep retry %d: %s | %.300s\n", attempt, strings.Join(cmds, " "), res)
		}
		cliRetryMu.Lock()
		res, slow = runCliRepeatOnce(bin, opts, cmds, passes, little, lowFirst)
		cliRetryMu.Unlock()
	}
	return res
}

const cliRepWatchdog = 20 * time.Second

var cliRepRetries int64 // runs repeated because a time limit was hit (statistics)

func sawTimeout(lines []string) bool {
	for _, l := range lines {
		if strings.Contains(l, "timed out") || strings.Contains(l, "i/o timeout") {
			return true
		}
	}
	return false
}

// one pass on its own: requests and output lines of a single execution of
// the commands (0, 0 when the CLI refuses them)
func measurePass(bin string, opts, pre []string) (frames, lines int, slow bool) {
	if len(pre) == 0 {
		return 0, 0, false
	}
	e, err := newEmu()
	if err != nil {
		return 0, 0, true
	}
	p, err := startCli(bin, e, opts, pre)
	if err != nil {
		e.finish()
		return 0, 0, true
	}
	timer := time.AfterFunc(cliRepWatchdog, func() { p.cmd.Process.Kill() })
	exit := p.end()
	timer.Stop()
	e.finish()
	if exit == "killed" {
		return 0, 0, true
	}
	ls := p.sink.snapshot()
	if exit != "0" {
		return 0, 0, false
	}
	e.mu.Lock()
	defer e.mu.Unlock()
	return len(e.frames), len(ls), sawTimeout(ls) || len(e.notes) > 0
}

func runCliRepeatOnce(bin string, opts, cmds []string, passes int, little, lowFirst bool) (out string, slow bool) {
	pre, loops := passCmds(cmds)
	R, L := 0, 0
	if loops {
		var s bool
		R, L, s = measurePass(bin, opts, pre)
		if s {
			return "timeout:measure", true
		}
	}
	e, err := newEmu()
	if err != nil {
		return "harness-error:listen", true
	}
	e.snapAt = passes * R
	p, err := startCli(bin, e, opts, cmds)
	if err != nil {
		e.finish()
		return "harness-error:start", true
	}
	// watch: the process ends by itself, or the first request (line) of pass
	// passes+1 has been seen, or nothing observable can happen any more
	stopped := false // we ended it after the passes asked for
	hung := false
	start := time.Now()
	var connSeen time.Time
	tick := time.NewTicker(500 * time.Microsecond)
watch:
	for {
		select {
		case <-p.sink.done:
			break watch
		case <-tick.C:
		}
		if time.Since(start) > cliRepWatchdog {
			hung = true
			break watch
		}
		if !loops {
			continue
		}
		frames, conns := e.counts()
		switch {
		case R > 0:
			stopped = frames >= passes*R+1
		case L > 0:
			stopped = frames == 0 && p.sink.count() >= passes*L+1
			if frames > 0 {
				// a list that was silent on its own now sends requests: let the
				// comparison show it
				stopped = true
			}
		default:
			// nothing to see per pass (only sid / sleep in front of repeat): the
			// connection, then a little while for anything unexpected
			if conns > 0 && connSeen.IsZero() {
				connSeen = time.Now()
			}
			stopped = !connSeen.IsZero() && time.Since(connSeen) > 60*time.Millisecond
		}
		if stopped {
			break watch
		}
	}
	tick.Stop()
	e.mu.Lock()
	nNotes := len(e.notes) // irregularities up to here; what the kill itself causes does not count
	e.mu.Unlock()
	select {
	case <-p.sink.done:
		if !hung {
			stopped = false // it ended by itself after all
		}
	default:
		p.cmd.Process.Kill()
	}
	exit := p.end()
	e.finish()
	if hung {
		return "timeout", true
	}
	lines := p.sink.snapshot()
	e.mu.Lock()
	defer e.mu.Unlock()

	if !stopped {
		// ended by itself: reported like scenario "cli"
		if exit == "killed" {
			return "harness-error:killed-by-someone-else", true
		}
		tx := "-"
		if len(e.frames) > 0 {
			tx = strings.Join(e.frames, ",")
		}
		outItems := "-"
		if exit == "0" && len(pre) > 0 {
			outItems = reduceOutput(strings.Join(lines, "\n"), pre, e.reads, little, lowFirst)
		}
		res := fmt.Sprintf("exit=%s conns=%d tx=%s diff=%s out=%s", exit, e.conns, tx, e.diff(), outItems)
		slow = sawTimeout(lines)
		if len(e.notes) > 0 {
			res += " notes=" + strings.Join(e.notes, ",")
			slow = true
		}
		return res, slow
	}

	// still running after the passes asked for: cut to complete passes
	nf, nl := passes*R, passes*L
	if len(e.frames) < nf || len(lines) < nl {
		// cannot happen when the watch loop saw what it waited for
		return fmt.Sprintf("exit=running short frames=%d/%d lines=%d/%d", len(e.frames), nf, len(lines), nl), true
	}
	tx, diff, reads := "-", "-", e.reads[:0]
	if nf > 0 {
		tx = strings.Join(e.frames[:nf], ",")
		diff, reads = e.snapDiff, e.reads[:e.snapReads]
	} else if len(e.frames) == 0 {
		diff = e.diff()
	} else {
		// requests from a list that sent none when run once
		tx, diff, reads = "UNEXPECTED:"+strings.Join(e.frames, ","), e.diff(), e.reads
	}
	var all []string
	for i := 0; i < passes; i++ {
		all = append(all, pre...)
	}
	outItems := "-"
	if len(all) > 0 {
		outItems = reduceOutput(strings.Join(lines[:nl], "\n"), all, reads, little, lowFirst)
	}
	res := fmt.Sprintf("exit=running passes=%d conns=%d tx=%s diff=%s out=%s", passes, e.conns, tx, diff, outItems)
	slow = sawTimeout(lines[:nl])
	if nNotes > 0 {
		res += " notes=" + strings.Join(e.notes[:nNotes], ",")
		slow = true
	}
	return res, slow
}

// ------------------------------------------------------------ generator

var sleepLits = []string{"1ms", "2ms", "0", "0s", "500us", "1.5ms", "1ms1us", "0.001s", "3ms", "-1s", "+1ms", "1000000ns", "0h0m0s", ".5ms"}
var sleepBad = []string{"", "abc", "1", "1 ms", "ms", "1mss", "1,5ms", "1ms ", "--1ms", "1e3ms", "0x1ms", "1_0ms", "."}

type repGen struct {
	g    *cliGen
	durs []string
	base int
}

func (rg *repGen) sleep(lit string) string {
	_, err := time.ParseDuration(lit)
	ok := "1"
	if err != nil {
		ok = "0"
		rg.g.bad = true
	}
	rg.durs = append(rg.durs, hx2([]byte(lit))+"."+ok)
	return "sleep:" + lit
}

// a read or write of a few values near the case's base address: the commands
// of one list (and of successive passes) meet on the same cells
func (rg *repGen) near() string {
	g, r := rg.g, rg.g.r
	a := (rg.base + r.Intn(12)) % 65536
	switch r.Intn(10) {
	case 0:
		return pick(r, "rc", "readCoils") + ":" + g.lit(a) + "+" + g.lit(r.Intn(9))
	case 1:
		return pick(r, "rdi", "readDiscreteInputs") + ":" + g.lit(a) + "+" + g.lit(r.Intn(9))
	case 2:
		return pick(r, "wc", "writeCoil") + ":" + g.lit(a) + ":" + pick(r, "true", "false")
	case 3, 4, 5:
		t := cliTypes[r.Intn(len(cliTypes))]
		name := pick(r, "rh", "rh", "readHoldingRegisters", "ri", "readInputRegisters")
		q := r.Intn(5)
		if t == "bytes" {
			q = r.Intn(40)
		}
		if q == 0 && r.Bool() {
			return name + ":" + t + ":" + g.lit(a)
		}
		return name + ":" + t + ":" + g.lit(a) + "+" + g.lit(q)
	case 6:
		n := 1 + r.Intn(9)
		return pick(r, "wr", "writeRegister") + ":bytes:" + g.lit(a) + ":" + hx2(r.Bytes(n))
	case 7:
		t := pick(r, "float32", "float64")
		return "wr:" + t + ":" + g.lit(a) + ":" + g.floatLit(map[string]int{"float32": 32, "float64": 64}[t])
	default:
		t := pick(r, "uint16", "int16", "uint32", "int32", "uint64", "int64")
		return pick(r, "wr", "writeRegister") + ":" + t + ":" + g.lit(a) + ":" + g.intValue(t)
	}
}

func scnCliRepeat(o *Out, r *Rng, thorough bool) {
	if err := cliShareStart(); err != nil {
		o.Case("clirep", "E W U F D P=3", "harness-error:"+strings.ReplaceAll(err.Error(), "\n", " "))
		return
	}
	defer cliShareStop()
	n := 110
	if thorough {
		n = 1500
	}
	enc := func(k, v string) string { return k + "=" + hx2([]byte(v)) }
	durTable := func(lits ...string) string {
		if len(lits) == 0 {
			return "D"
		}
		var ents []string
		for _, l := range lits {
			ok := "1"
			if _, err := time.ParseDuration(l); err != nil {
				ok = "0"
			}
			ents = append(ents, hx2([]byte(l))+"."+ok)
		}
		return "D=" + strings.Join(ents, ",")
	}
	line := func(opts []string, passes int, durs []string, cmds ...string) string {
		toks := append([]string{}, opts...)
		toks = append(toks, "F", durTable(durs...), "P="+itoa(passes))
		for _, c := range cmds {
			toks = append(toks, enc("C", c))
		}
		return strings.Join(toks, " ")
	}
	dflt := []string{"E", "W", "U"}
	var ins []string
	// the help text's own examples (sleep shortened), and the edges of the two commands
	ins = append(ins,
		line(dflt, 3, []string{"1ms"}, "rh:uint32:100", "sleep:1ms", "repeat"),
		line(dflt, 3, []string{"1ms"}, "suid:2", "rh:uint16:0+7", "wr:uint16:0x2:0x0605", "suid:3", "ri:int16:0+1", "sleep:1ms", "repeat"),
		line([]string{"E", "W", enc("U", "7")}, 3, nil, "rh:uint32:0x0010+1", "ri:uint16:0x0020+2", "rc:0x0030+3", "repeat"),
		line([]string{enc("E", "little"), enc("W", "lf"), "U"}, 4, nil, "rh:uint64:0xfff8+1", "rh:float32:0x200+2", "ri:float64:0x300", "rdi:0xfffe+1", "rh:bytes:0x40+20", "repeat"),
		line(dflt, 3, nil, "rh:uint16:7", "sid:9", "wr:uint16:7:0x1234", "repeat", "wc:1:true"),
		line(dflt, 3, nil, "rh:int32:0x50+1", "wr:int32:0x50:-2", "wr:int32:0x52:0x7fffffff", "rc:9+2", "wc:10:true", "repeat"),
		line(dflt, 3, nil, "wr:uint16:5:1", "wr:uint16:5:2", "rh:uint16:5", "repeat"),
		line(dflt, 2, nil, "rc:0+1999", "rh:uint16:0xff83+124", "repeat"),
		line(dflt, 3, nil, "rc:0+65535", "repeat"),
		line(dflt, 3, nil, "rh:uint32:0+62", "rh:uint16:0xffff+1", "wr:uint32:0xffff:1", "repeat"),
		line(dflt, 3, nil, "rh:uint32:0+62", "rh:uint16:0xffff+1", "ri:uint16:3", "repeat"),
		line(dflt, 3, nil, "repeat"),
		line(dflt, 3, nil, "sid:5", "repeat"),
		line(dflt, 3, []string{"1ms"}, "sleep:1ms", "repeat"),
		line(dflt, 3, nil, "rh:uint16:1", "repeat", "repeat"),
		line(dflt, 3, nil, "rh:uint16:1", "repeat", "wc:1:maybe"),
		line(dflt, 3, nil, "rh:uint16:1", "repeat:1"),
		line(dflt, 3, nil, "rh:uint16:1", "repeat:"),
		line(dflt, 3, nil, "rh:uint16:1", "sleep", "repeat"),
		line(dflt, 3, []string{"1ms", "2ms"}, "rh:uint16:1", "sleep:1ms:2ms", "repeat"),
		line(dflt, 3, []string{"1"}, "rh:uint16:1", "sleep:1", "repeat"),
		line(dflt, 3, []string{""}, "rh:uint16:1", "sleep:", "repeat"),
		line(dflt, 3, []string{"1ms"}, "sleep:1ms"),
		line(dflt, 3, []string{"2ms"}, "rh:uint16:1", "sleep:2ms", "wc:3:true"),
		line([]string{"E", "W", enc("U", "256")}, 3, nil, "rc:1", "repeat"),
		line([]string{enc("E", "Big"), "W", "U"}, 3, nil, "rc:1", "repeat"),
	)
	for range ins {
		o.Stat("rep:fixed")
	}
	for i := 0; i < n; i++ {
		g := &cliGen{r: r}
		rg := &repGen{g: g, base: pickAddr(r)}
		if r.Intn(3) == 0 {
			rg.base = 65536 - r.Intn(24)
		}
		var toks []string
		switch r.Intn(4) {
		case 0:
			toks = append(toks, "E")
		case 1:
			toks = append(toks, enc("E", "big"))
		default:
			toks = append(toks, enc("E", "little"))
		}
		switch r.Intn(4) {
		case 0:
			toks = append(toks, "W")
		case 1:
			toks = append(toks, enc("W", pick(r, "highfirst", "hf")))
		default:
			toks = append(toks, enc("W", pick(r, "lowfirst", "lf")))
		}
		switch r.Intn(12) {
		case 0:
			toks = append(toks, "U")
		case 1:
			toks = append(toks, enc("U", pick(r, "256", "0x100", "one", "")))
			o.Stat("rep:opt-unit-refused")
		default:
			toks = append(toks, enc("U", g.lit(r.Pick(0, 1, 2, 17, 247, 255, r.Intn(256)))))
		}
		// the commands of one pass
		ncmd := 1 + r.Intn(5)
		malformedAt := -1
		if r.Intn(8) == 0 {
			malformedAt = r.Intn(ncmd)
		}
		var cmds []string
		one := func(k int) string {
			switch {
			case k == malformedAt:
				return g.malformed()
			case r.Intn(8) == 0:
				return pick(r, "sid", "suid", "setUnitId") + ":" + g.lit(r.Pick(0, 1, 2, 17, 247, 255, r.Intn(256)))
			case r.Intn(3) == 0:
				return g.command()
			default:
				return rg.near()
			}
		}
		for k := 0; k < ncmd; k++ {
			cmds = append(cmds, one(k))
			if r.Intn(4) == 0 {
				if r.Intn(16) == 0 {
					cmds = append(cmds, rg.sleep(sleepBad[r.Intn(len(sleepBad))]))
				} else {
					cmds = append(cmds, rg.sleep(sleepLits[r.Intn(len(sleepLits))]))
				}
			}
		}
		// where the list starts over
		switch r.Intn(20) {
		case 0:
			o.Stat("rep:no-repeat")
		case 1:
			cmds = append(cmds, pick(r, "repeat:", "repeat:1", "repeat:repeat", "Repeat", "repeat ", "repeat+1"))
			g.bad = true
			o.Stat("rep:malformed-repeat")
		case 2, 3:
			// in the middle: what follows is parsed but never executed
			cmds = append(cmds, "repeat")
			malformedAt = -1
			for k := 0; k < 1+r.Intn(2); k++ {
				if r.Intn(4) == 0 {
					cmds = append(cmds, g.malformed())
				} else {
					cmds = append(cmds, one(-2))
				}
			}
			if r.Bool() {
				cmds = append(cmds, "repeat")
			}
			o.Stat("rep:repeat-in-the-middle")
		default:
			cmds = append(cmds, "repeat")
			o.Stat("rep:repeat-last")
		}
		if len(g.floats) > 0 {
			toks = append(toks, "F="+strings.Join(g.floats, ","))
		} else {
			toks = append(toks, "F")
		}
		if len(rg.durs) > 0 {
			toks = append(toks, "D="+strings.Join(rg.durs, ","))
			o.Stat("rep:with-sleep")
		} else {
			toks = append(toks, "D")
		}
		toks = append(toks, "P="+itoa(r.Pick(3, 3, 3, 2, 4, 5)))
		for _, c := range cmds {
			if strings.HasPrefix(c, "-") {
				c = "x" + c
			}
			toks = append(toks, enc("C", c))
			o.Stat("rep:cmd:" + strings.SplitN(c, ":", 2)[0])
		}
		if g.bad {
			o.Stat("rep:line-with-refused-command")
		} else {
			o.Stat("rep:line-accepted")
		}
		ins = append(ins, strings.Join(toks, " "))
	}
	t0 := time.Now()
	outs := o.RunMany("clirep", ins)
	if os.Getenv("VERIF_DEBUG_CLIREP") != "" {
		fmt.Fprintf(os.Stderr, "clirep: %d cases in %v, %d retries\n", len(ins), time.Since(t0), atomic.LoadInt64(&cliRepRetries))
	}
	for k := int64(0); k < atomic.LoadInt64(&cliRepRetries); k++ {
		o.Stat("rep:run-repeated-after-time-limit")
	}
	for _, out := range outs {
		f := strings.Fields(out)
		if len(f) > 0 {
			o.Stat("rep:res:" + f[0])
		}
		if strings.HasPrefix(out, "exit=running") {
			if strings.Contains(out, " tx=- ") {
				o.Stat("rep:res:running-silent")
			}
			if !strings.Contains(out, " diff=- ") {
				o.Stat("rep:res:running-with-writes")
			}
		}
	}
}
