package main

// C13: a connection cut at every byte offset of a request / reply.
//   cutsrv  : real per-connection server path on a scripted connection fed with frame[:k]
//   cutcc   : real client on a scripted connection fed with stream[:k]
//   cutreal : real server / real client over loopback TCP, peer closes / resets / stalls

import (
	"fmt"
	"io"
	"net"
	"strings"
	"sync"
	"time"

	"github.com/simonvetter/modbus"
	"verifharness/internal/sconn"
)

func init() {
	register("C13", scnCutServer, scnCutClient, scnCutReal)
	// cutsrv: end k frame script -> events of the session on frame[:k]
	executors["cutsrv"] = func(in []string) string {
		f := unhex(in[2])
		k := atoi(in[1])
		if k > len(f) {
			return "harness-error:offset"
		}
		return runServerSession(in[0], [][]byte{f[:k]}, in[3])
	}
	// cutcc: fr unit e w end k stream op... -> result writes consumed (the call sees stream[:k])
	executors["cutcc"] = func(in []string) (out string) {
		defer func() {
			if r := recover(); r != nil {
				out = "panic"
			}
		}()
		s := unhex(in[6])
		k := atoi(in[5])
		if k > len(s) {
			return "harness-error:offset"
		}
		c := sconn.New(true)
		c.Feed(s[:k])
		if in[4] == "c" {
			c.PeerClose()
		} else if in[4] == "r" {
			c.PeerReset()
		}
		mc := newClientOn(in[0], c, uint8(unhx(in[1])), atoi(in[2]), atoi(in[3]))
		total := c.Pending()
		res := callOp(mc, in[7:])
		return res + " " + writesStr(c.WriteLog()) + " " + itoa(total-c.Pending())
	}
	executors["cutreal"] = runCutReal
}

var cutEnds = []string{"c", "r", "s"}

// validRequest builds a request PDU of the given supported function code that
// the server must dispatch (within limits, consistent byte count, in range).
func validRequest(r *Rng, fc byte, representative bool) []byte {
	be := func(v int) []byte { return []byte{byte(v >> 8), byte(v)} }
	lim := map[byte]int{1: 2000, 2: 2000, 3: 125, 4: 125, 5: 1, 6: 1, 15: 1968, 16: 123}[fc]
	q := 1
	if lim > 1 {
		q = r.Pick(1, 2, 8, 9, lim, 1+r.Intn(lim), 1+r.Intn(40))
		if fc == 15 || fc == 16 {
			// keep most write frames short: every offset of every frame is visited
			q = r.Pick(1, 2, 8, 9, 16, 17, 1+r.Intn(40), 1+r.Intn(lim), lim)
		}
	}
	a := pickAddr(r)
	if representative {
		a, q = 16, 1
		if lim > 1 {
			q = 3
		}
	}
	if a+q-1 > 0xffff {
		a = 0x10000 - q
	}
	switch fc {
	case 1, 2, 3, 4:
		return append(be(a), be(q)...)
	case 5:
		v := []byte{0xff, 0}
		if r.Bool() {
			v = []byte{0, 0}
		}
		return append(be(a), v...)
	case 6:
		return append(be(a), be(r.Intn(65536))...)
	case 15:
		n := (q + 7) / 8
		p := append(append(be(a), be(q)...), byte(n))
		return append(p, r.Bytes(n)...)
	default:
		n := 2 * q
		p := append(append(be(a), be(q)...), byte(n))
		return append(p, r.Bytes(n)...)
	}
}

// (a) every cut offset of request frames of every supported function code (and
// of some the server answers without a handler) x {close, reset, stall}
func scnCutServer(o *Out, r *Rng, thorough bool) {
	per := 10
	if thorough {
		per = 60
	}
	var ins []string
	add := func(frame []byte, beh string, label string) {
		for k := 0; k <= len(frame); k++ {
			for _, end := range cutEnds {
				ins = append(ins, end+" "+itoa(k)+" "+hx(frame)+" "+beh)
			}
		}
		o.Stat("cutsrv-frame:" + label)
	}
	for _, fc := range []byte{1, 2, 3, 4, 5, 6, 15, 16} {
		for i := 0; i <= per; i++ {
			payload := validRequest(r, fc, i == 0)
			unit := byte(r.Pick(0, 1, 17, 247, 255, r.Intn(256)))
			beh := behaviours[r.Intn(len(behaviours))]
			if i == 0 {
				beh = "ok"
			}
			add(mbapFrame(uint16(r.U64()), 0, -1, unit, fc, payload), beh, "fc"+itoa(int(fc)))
		}
	}
	// frames that are complete but not dispatched: unsupported codes, out of range, bad values
	for _, fc := range []byte{0, 7, 8, 0x16, 0x17, 0x2b, 0x80, 0x83, 0xff} {
		add(mbapFrame(uint16(r.U64()), 0, -1, 1, fc, r.Bytes(r.Intn(8))), "ok", "unsupported")
	}
	add(mbapFrame(7, 0, -1, 1, 3, []byte{0xff, 0xff, 0, 2}), "ok", "out-of-range")
	add(mbapFrame(8, 0, -1, 1, 5, []byte{0, 1, 0x12, 0}), "ok", "bad-coil")
	add(mbapFrame(9, 0, -1, 1, 3, []byte{0, 1, 0, 0}), "ok", "zero-qty")
	// the largest frames
	add(mbapFrame(10, 0, -1, 1, 16, validRequestQty(r, 16, 123)), "ok", "max-fc16")
	add(mbapFrame(11, 0, -1, 1, 15, validRequestQty(r, 15, 1968)), "ok", "max-fc15")
	o.RunMany("cutsrv", ins)
}

func validRequestQty(r *Rng, fc byte, q int) []byte {
	be := func(v int) []byte { return []byte{byte(v >> 8), byte(v)} }
	n := 2 * q
	if fc == 15 {
		n = (q + 7) / 8
	}
	p := append(append(be(0), be(q)...), byte(n))
	return append(p, r.Bytes(n)...)
}

func cutClientCase(fr string, unit, e, w int, end string, k int, stream []byte, op []string) string {
	return strings.Join(append([]string{fr, hxi(unit), itoa(e), itoa(w), end, itoa(k), hx(stream)}, op...), " ")
}

// (b) every cut offset of valid replies (normal and exception; MBAP also behind
// frames that are skipped) x {stall, close, reset}
func scnCutClient(o *Out, r *Rng, thorough bool) {
	per := 15
	if thorough {
		per = 150
	}
	var ins []string
	for _, fr := range []string{"m", "r"} {
		n := 0
		for n < per {
			unit, e, w := randCfg(r)
			op := randOp(r, opValid)
			fc, payload, ok := buildReply(r, op, e)
			if !ok {
				continue
			}
			n++
			p := reply{txn: 1, proto: 0, length: -1, unit: byte(unit), fc: fc, payload: payload}
			label := "valid"
			switch {
			case n%5 == 0:
				// a valid exception reply
				p.fc, p.payload = fc|0x80, []byte{byte(r.Pick(1, 2, 3, 4, 5, 6, 8, 10, 11, r.Intn(256)))}
				if r.Bool() {
					p.unit = 255
				}
				label = "exception"
			}
			stream := p.bytes(fr, r)
			if fr == "m" && n%4 == 0 {
				var pre []byte
				for j := 0; j < 1+r.Intn(2); j++ {
					f := p
					if r.Bool() {
						f.txn = uint16(2 + r.Intn(65000))
					} else {
						f.proto = uint16(1 + r.Intn(65000))
					}
					f.payload = r.Bytes(r.Intn(12))
					pre = append(pre, f.bytes(fr, r)...)
				}
				stream = append(pre, stream...)
				label += "+foreign-first"
			}
			o.Stat("cutcc:" + fr + ":" + label)
			o.Stat("cutcc-op:" + op[0])
			for k := 0; k <= len(stream); k++ {
				for _, end := range cutEnds {
					ins = append(ins, cutClientCase(fr, unit, e, w, end, k, stream, op))
				}
			}
		}
	}
	o.RunMany("cutcc", ins)
}

// (c) real sockets
func scnCutReal(o *Out, r *Rng, thorough bool) {
	var ins []string
	// server side: raw TCP clients against a started server
	frames := [][]byte{
		mbapFrame(0x0102, 0, -1, 1, 3, []byte{0, 16, 0, 2}),
		mbapFrame(0xfffe, 0, -1, 9, 16, []byte{0, 1, 0, 2, 4, 0xab, 0xcd, 0x12, 0x34}),
		mbapFrame(7, 0, -1, 255, 15, []byte{0xff, 0xf0, 0, 10, 2, 0x55, 0x01}),
	}
	if thorough {
		for _, fc := range []byte{1, 2, 4, 5, 6} {
			frames = append(frames, mbapFrame(uint16(r.U64()), 0, -1, byte(r.Intn(256)), fc, validRequest(r, fc, false)))
		}
	}
	for _, f := range frames {
		for k := 0; k <= len(f); k++ {
			for _, end := range cutEnds {
				ins = append(ins, "srv "+end+" "+itoa(k)+" "+hx(f))
			}
		}
		o.Stat("cutreal:srv-frame")
	}
	// client side: a real client against a fake device
	ops := [][]string{{"ReadRegisters", "10", "2", "0"}, {"WriteCoil", "7", "1"}, {"ReadCoils", "fff0", "9"}}
	if thorough {
		ops = append(ops, []string{"WriteRegisters", "5", "1,2,3"}, []string{"ReadUint32", "8", "1"}, []string{"WriteCoils", "0", "10110"})
	}
	for _, fr := range []string{"m", "r"} {
		for _, op := range ops {
			fc, payload, ok := buildReply(r, op, 1)
			if !ok {
				continue
			}
			unit := r.Pick(1, 17, 247)
			l := len(payload) + 8
			if fr == "r" {
				l = len(payload) + 4
			}
			for k := 0; k <= l; k++ {
				for _, end := range cutEnds {
					ins = append(ins, strings.Join(append([]string{"cli", fr, end, itoa(k), hxi(unit), "1", "1",
						hxi(int(fc)), hx(payload)}, op...), " "))
				}
			}
			o.Stat("cutreal:cli-op:" + fr)
		}
	}
	o.RunMany("cutreal", ins)
}

func runCutReal(in []string) (out string) {
	defer func() {
		if r := recover(); r != nil {
			out = fmt.Sprintf("panic:%v", r)
		}
	}()
	done := make(chan string, 1)
	go func() {
		defer func() {
			if r := recover(); r != nil {
				done <- fmt.Sprintf("panic:%v", r)
			}
		}()
		if in[0] == "srv" {
			done <- cutRealServer(in[1], atoi(in[2]), unhex(in[3]))
		} else {
			done <- cutRealClient(in[1], in[2], atoi(in[3]), int(unhx(in[4])), atoi(in[5]), atoi(in[6]),
				byte(unhx(in[7])), unhex(in[8]), in[9:])
		}
	}()
	select {
	case s := <-done:
		return s
	case <-time.After(20 * time.Second):
		return "harness-error:hung"
	}
}

const cutTimeout = 300 * time.Millisecond

// abort closes a TCP connection the way a crashed peer does: RST instead of FIN
func abortConn(c net.Conn) {
	if t, ok := c.(*net.TCPConn); ok {
		t.SetLinger(0)
	}
	c.Close()
}

// srv end k frame -> calls=<handler invocations> count=<active list> up=<started> fresh=<probe on a new connection>
func cutRealServer(end string, k int, frame []byte) string {
	if k > len(frame) {
		return "harness-error:offset"
	}
	h := &countHandler{}
	srv, err := modbus.NewServer(&modbus.ServerConfiguration{URL: "tcp://127.0.0.1:0", MaxClients: 1,
		Timeout: cutTimeout, Logger: quiet}, h)
	if err != nil {
		return "harness-error:" + err.Error()
	}
	if err := srv.Start(); err != nil {
		return "harness-error:start:" + err.Error()
	}
	defer srv.Stop()
	a := srv.VerifListenAddr()
	if a == nil {
		return "harness-error:no-addr"
	}
	addr := a.String()
	c, err := net.DialTimeout("tcp", addr, 2*time.Second)
	if err != nil {
		return "harness-error:dial"
	}
	defer c.Close()
	waitCount(srv, 1, 2*time.Second)
	if _, n, _ := srv.VerifServerSnapshot(); n != 1 {
		return "harness-error:not-enrolled"
	}
	calls := func() int { h.mu.Lock(); defer h.mu.Unlock(); return h.calls }
	c.SetDeadline(time.Now().Add(5 * time.Second))
	if k > 0 {
		if _, err := c.Write(frame[:k]); err != nil {
			return "harness-error:write"
		}
	}
	if k == len(frame) {
		// cut AFTER the request was fully received: give the server the time to take it
		// off the socket (a reset may discard what the receiver has not read yet)
		dl := time.Now().Add(cutTimeout / 2)
		for time.Now().Before(dl) && calls() == 0 {
			time.Sleep(time.Millisecond)
		}
	} else if k > 0 {
		time.Sleep(3 * time.Millisecond)
	}
	switch end {
	case "c":
		c.Close()
	case "r":
		abortConn(c)
	default:
		// stall: keep the connection open and silent until the server gives up
	}
	waitCount(srv, 0, cutTimeout+3*time.Second)
	st, n, _ := srv.VerifServerSnapshot()
	nc := calls()
	up := "0"
	if st {
		up = "1"
	}
	// the only slot must be free again and the server still serving
	fresh := "closed"
	if c2, err := net.DialTimeout("tcp", addr, 2*time.Second); err == nil {
		fresh = probe(c2)
		c2.Close()
	}
	return fmt.Sprintf("calls=%d count=%d up=%s fresh=%s", nc, n, up, fresh)
}

// readDeviceRequest reads one request frame as a device would (MBAP: by the
// length field; RTU: by the function code).
func readDeviceRequest(c net.Conn, fr string) ([]byte, error) {
	c.SetReadDeadline(time.Now().Add(3 * time.Second))
	if fr == "m" {
		hdr := make([]byte, 7)
		if _, err := io.ReadFull(c, hdr); err != nil {
			return nil, err
		}
		n := int(hdr[4])<<8 | int(hdr[5])
		if n < 1 || n > 300 {
			return hdr, fmt.Errorf("bad length")
		}
		body := make([]byte, n-1)
		if _, err := io.ReadFull(c, body); err != nil {
			return hdr, err
		}
		return append(hdr, body...), nil
	}
	hdr := make([]byte, 7)
	if _, err := io.ReadFull(c, hdr); err != nil {
		return nil, err
	}
	rest := 1
	if hdr[1] == 15 || hdr[1] == 16 {
		rest = int(hdr[6]) + 2
	}
	body := make([]byte, rest)
	if _, err := io.ReadFull(c, body); err != nil {
		return hdr, err
	}
	return append(hdr, body...), nil
}

func deviceReply(fr string, req []byte, unit, fc byte, payload []byte) []byte {
	if fr == "m" {
		return mbapFrame(uint16(req[0])<<8|uint16(req[1]), 0, -1, unit, fc, payload)
	}
	return rtuFrame(unit, fc, payload)
}

func projectRes(s string) string {
	if strings.HasPrefix(s, "ok:") || s == "err:timeout" || s == "panic" {
		return s
	}
	if strings.HasPrefix(s, "err:") {
		return "err"
	}
	return s
}

// cli fr end k unit e w fc payload op... ->
//   <first call> closed=<call between Close and Open> fresh=<call after Open> w2=<request of the fresh call>
func cutRealClient(fr, end string, k int, unit, e, w int, fc byte, payload []byte, op []string) string {
	ln, err := net.Listen("tcp", "127.0.0.1:0")
	if err != nil {
		return "harness-error:listen"
	}
	defer ln.Close()
	firstDone := make(chan struct{})
	var mu sync.Mutex
	var req2 []byte
	devErr := ""
	fail := func(s string) { mu.Lock(); devErr = s; mu.Unlock() }
	var conns []net.Conn
	var wg sync.WaitGroup
	wg.Add(1)
	go func() {
		defer wg.Done()
		defer func() {
			if r := recover(); r != nil {
				fail("device-panic")
			}
		}()
		ln.(*net.TCPListener).SetDeadline(time.Now().Add(5 * time.Second))
		c1, err := ln.Accept()
		if err != nil {
			fail("accept1")
			return
		}
		mu.Lock()
		conns = append(conns, c1)
		mu.Unlock()
		req1, err := readDeviceRequest(c1, fr)
		if err != nil {
			fail("read1")
			return
		}
		rep := deviceReply(fr, req1, byte(unit), fc, payload)
		if k > len(rep) {
			fail("offset")
			return
		}
		c1.SetWriteDeadline(time.Now().Add(2 * time.Second))
		if k > 0 {
			if _, err := c1.Write(rep[:k]); err != nil {
				fail("write1")
				return
			}
		}
		if k == len(rep) {
			// not a cut: the peer goes away after the client has taken the whole reply
			select {
			case <-firstDone:
			case <-time.After(2 * time.Second):
			}
		} else if k > 0 {
			time.Sleep(3 * time.Millisecond)
		}
		switch end {
		case "c":
			c1.Close()
		case "r":
			abortConn(c1)
		default:
			// stall: silent until the end of the case
		}
		ln.(*net.TCPListener).SetDeadline(time.Now().Add(5 * time.Second))
		c2, err := ln.Accept()
		if err != nil {
			fail("accept2")
			return
		}
		mu.Lock()
		conns = append(conns, c2)
		mu.Unlock()
		r2, err := readDeviceRequest(c2, fr)
		if err != nil {
			fail("read2")
			return
		}
		mu.Lock()
		req2 = r2
		mu.Unlock()
		c2.SetWriteDeadline(time.Now().Add(2 * time.Second))
		if _, err := c2.Write(deviceReply(fr, r2, byte(unit), fc, payload)); err != nil {
			fail("write2")
		}
	}()

	url := "tcp://" + ln.Addr().String()
	if fr == "r" {
		url = "rtuovertcp://" + ln.Addr().String()
	}
	mc, err := modbus.NewClient(&modbus.ClientConfiguration{URL: url, Timeout: cutTimeout, Speed: 10000000, Logger: quiet})
	if err != nil {
		return "harness-error:newclient"
	}
	mc.SetUnitId(uint8(unit))
	mc.SetEncoding(modbus.Endianness(e), modbus.WordOrder(w))
	if err := mc.Open(); err != nil {
		return "harness-error:open1"
	}
	r1 := callOp(mc, op)
	close(firstDone)
	mc.Close()
	r2 := callOp(mc, op)
	r3 := "harness-error:open2"
	if err := mc.Open(); err == nil {
		r3 = callOp(mc, op)
		mc.Close()
	}
	wg.Wait()
	mu.Lock()
	defer mu.Unlock()
	for _, c := range conns {
		c.Close()
	}
	if devErr != "" {
		return "harness-error:device:" + devErr + " " + r1 + " " + r3
	}
	return projectRes(r1) + " closed=" + projectRes(r2) + " fresh=" + r3 + " w2=" + hx(req2)
}
