package main

// C11 - concurrent server sessions are isolated from each other.
//
// Scenario "iso": a real server (loopback TCP, one goroutine per connection),
// 2-8 raw TCP clients using IDENTICAL transaction ids and distinct addresses;
// a global script interleaves (connection, chunk) sends, whole frames and
// frames split in two with other connections' traffic in between. Observed:
// per connection the response frames it received and the handler invocations
// attributed (by ClientAddr) to it.
//
// Scenario "hol": one connection stalls mid-frame, another one's handler call
// is blocked, a third one must be served without delay meanwhile.

import (
	"fmt"
	"io"
	"net"
	"strings"
	"sync"
	"time"

	"github.com/simonvetter/modbus"
)

func init() {
	register("C11", scnIso, scnHol)
	executors["iso"] = runIso
	executors["hol"] = runHol
}

const holMagic = 0xBEEF

type isoRec struct {
	client string
	role   string
	kind   string
	write  bool
	unit   uint8
	addr   uint16
	qty    uint16
}

// isoHandler answers with data derived from the request only and records who
// asked. Requests to the magic address block until released (scenario hol).
type isoHandler struct {
	mu      sync.Mutex
	log     []isoRec
	block   chan struct{}
	entered chan struct{}
}

func (h *isoHandler) note(rec isoRec) error {
	h.mu.Lock()
	h.log = append(h.log, rec)
	h.mu.Unlock()
	if h.block != nil && rec.addr == holMagic {
		select {
		case h.entered <- struct{}{}:
		default:
		}
		select {
		case <-h.block:
		case <-time.After(5 * time.Second):
		}
	}
	if rec.addr%11 == 5 {
		return modbus.ErrServerDeviceBusy
	}
	return nil
}

func (h *isoHandler) HandleCoils(r *modbus.CoilsRequest) ([]bool, error) {
	if err := h.note(isoRec{r.ClientAddr, r.ClientRole, "c", r.IsWrite, r.UnitId, r.Addr, r.Quantity}); err != nil {
		return nil, err
	}
	if r.IsWrite {
		return nil, nil
	}
	res := make([]bool, r.Quantity)
	for i := range res {
		res[i] = patBool(int(r.Addr), i)
	}
	return res, nil
}

func (h *isoHandler) HandleDiscreteInputs(r *modbus.DiscreteInputsRequest) ([]bool, error) {
	if err := h.note(isoRec{r.ClientAddr, r.ClientRole, "d", false, r.UnitId, r.Addr, r.Quantity}); err != nil {
		return nil, err
	}
	res := make([]bool, r.Quantity)
	for i := range res {
		res[i] = patBool(int(r.Addr), i)
	}
	return res, nil
}

func (h *isoHandler) HandleHoldingRegisters(r *modbus.HoldingRegistersRequest) ([]uint16, error) {
	if err := h.note(isoRec{r.ClientAddr, r.ClientRole, "h", r.IsWrite, r.UnitId, r.Addr, r.Quantity}); err != nil {
		return nil, err
	}
	if r.IsWrite {
		return nil, nil
	}
	res := make([]uint16, r.Quantity)
	for i := range res {
		res[i] = patReg(int(r.Addr), i)
	}
	return res, nil
}

func (h *isoHandler) HandleInputRegisters(r *modbus.InputRegistersRequest) ([]uint16, error) {
	if err := h.note(isoRec{r.ClientAddr, r.ClientRole, "i", false, r.UnitId, r.Addr, r.Quantity}); err != nil {
		return nil, err
	}
	res := make([]uint16, r.Quantity)
	for i := range res {
		res[i] = patReg(int(r.Addr), i)
	}
	return res, nil
}

// readEvent reads one response frame from a raw client connection:
// "R:<hex>", "X" (closed by the server) or "T" (nothing within the deadline)
func readEvent(c net.Conn, d time.Duration) string {
	c.SetReadDeadline(time.Now().Add(d))
	hdr := make([]byte, 7)
	if _, err := io.ReadFull(c, hdr); err != nil {
		if ne, ok := err.(net.Error); ok && ne.Timeout() {
			return "T"
		}
		return "X"
	}
	n := int(hdr[4])<<8 | int(hdr[5])
	if n < 1 || n > 300 {
		return "R:" + hx(hdr) + "?"
	}
	body := make([]byte, n-1)
	if _, err := io.ReadFull(c, body); err != nil {
		if ne, ok := err.(net.Error); ok && ne.Timeout() {
			return "T"
		}
		return "R:" + hx(hdr) + "?X"
	}
	return "R:" + hx(append(hdr, body...))
}

type isoClients struct {
	srv   *modbus.ModbusServer
	h     *isoHandler
	conns []net.Conn
	index map[string]int // local address of a client socket -> connection index
}

func (ic *isoClients) close() {
	for _, c := range ic.conns {
		if c != nil {
			c.Close()
		}
	}
	ic.srv.Stop()
}

func startIso(n int, h *isoHandler) (*isoClients, string) {
	srv, err := modbus.NewServer(&modbus.ServerConfiguration{URL: "tcp://127.0.0.1:0", MaxClients: 16,
		Timeout: 8 * time.Second, Logger: quiet}, h)
	if err != nil {
		return nil, "harness-error:" + err.Error()
	}
	if err := srv.Start(); err != nil {
		return nil, "harness-error:start:" + err.Error()
	}
	a := srv.VerifListenAddr()
	if a == nil {
		srv.Stop()
		return nil, "harness-error:noaddr"
	}
	ic := &isoClients{srv: srv, h: h, index: map[string]int{}}
	for i := 0; i < n; i++ {
		c, err := net.DialTimeout("tcp", a.String(), 2*time.Second)
		if err != nil {
			ic.close()
			return nil, "harness-error:dial"
		}
		ic.conns = append(ic.conns, c)
		ic.index[c.LocalAddr().String()] = i
	}
	return ic, ""
}

// per connection: events | handler invocations attributed to its address
func (ic *isoClients) render(events [][]string) string {
	n := len(ic.conns)
	calls := make([][]string, n)
	var stray []string
	ic.h.mu.Lock()
	for _, rec := range ic.h.log {
		w := "0"
		if rec.write {
			w = "1"
		}
		s := fmt.Sprintf("H:%s%s:%d:%d:%d", rec.kind, w, rec.unit, rec.addr, rec.qty)
		if rec.role != "" {
			s += "!role=" + rec.role
		}
		if i, ok := ic.index[rec.client]; ok {
			calls[i] = append(calls[i], s)
		} else {
			stray = append(stray, "?"+rec.client+"/"+s)
		}
	}
	ic.h.mu.Unlock()
	join := func(l []string) string {
		if len(l) == 0 {
			return "-"
		}
		return strings.Join(l, ",")
	}
	parts := make([]string, n)
	for i := 0; i < n; i++ {
		parts[i] = "c" + itoa(i) + ":" + join(events[i]) + "|" + join(calls[i])
	}
	out := strings.Join(parts, ";")
	if len(stray) > 0 {
		out += ";stray:" + strings.Join(stray, ",")
	}
	return out
}

// iso: mode n step...   step = <conn>:<hex chunk>:<events expected once it is delivered>
func runIso(in []string) (out string) {
	defer func() {
		if r := recover(); r != nil {
			out = "panic"
		}
	}()
	if len(in) < 3 {
		return "harness-error:input"
	}
	mode := in[0]
	n := atoi(in[1])
	ic, e := startIso(n, &isoHandler{})
	if ic == nil {
		return e
	}
	defer ic.close()
	events := make([][]string, n)
	dead := make([]bool, n)
	pending := make([]int, n)
	read := func(i int) {
		if dead[i] {
			return
		}
		ev := readEvent(ic.conns[i], 2*time.Second)
		events[i] = append(events[i], ev)
		if ev == "X" || ev == "T" || strings.HasSuffix(ev, "?") || strings.HasSuffix(ev, "?X") {
			dead[i] = true
		}
	}
	for _, st := range in[2:] {
		p := strings.Split(st, ":")
		if len(p) != 3 {
			return "harness-error:step"
		}
		i := atoi(p[0])
		if i < 0 || i >= n {
			return "harness-error:conn"
		}
		k := atoi(p[2])
		ic.conns[i].SetWriteDeadline(time.Now().Add(2 * time.Second))
		ic.conns[i].Write(unhex(p[1])) // writing to a connection the server closed may fail: ignored
		if mode == "seq" {
			for ; k > 0; k-- {
				read(i)
			}
		} else {
			pending[i] += k
		}
	}
	for i := 0; i < n; i++ {
		for ; pending[i] > 0; pending[i]-- {
			read(i)
		}
	}
	return ic.render(events)
}

// hol: <first part of A's frame> <rest of A's frame> <B's frame (magic address)> <C's frames, comma separated>
func runHol(in []string) (out string) {
	defer func() {
		if r := recover(); r != nil {
			out = "panic"
		}
	}()
	if len(in) != 4 {
		return "harness-error:input"
	}
	// a scheduling hiccup of the machine is not a finding: a real head-of-line
	// block lasts as long as the stall (1 s) and fails every attempt
	for attempt := 0; ; attempt++ {
		out = holOnce(in)
		if attempt >= 2 || !(strings.HasPrefix(out, "slow:") || out == "noresp") {
			return out
		}
	}
}

func holOnce(in []string) string {
	h := &isoHandler{block: make(chan struct{}), entered: make(chan struct{}, 4)}
	ic, e := startIso(3, h)
	if ic == nil {
		return e
	}
	released := false
	release := func() {
		if !released {
			released = true
			close(h.block)
		}
	}
	defer ic.close()
	defer release()
	a, b, c := ic.conns[0], ic.conns[1], ic.conns[2]
	start := time.Now()
	// A stalls mid-frame
	a.SetWriteDeadline(time.Now().Add(time.Second))
	a.Write(unhex(in[0]))
	// B's handler call blocks
	b.SetWriteDeadline(time.Now().Add(time.Second))
	b.Write(unhex(in[2]))
	select {
	case <-h.entered:
	case <-time.After(2 * time.Second):
		return "harness-error:handler-not-entered"
	}
	events := make([][]string, 3)
	worst := time.Duration(0)
	for _, f := range chunksTok(in[3]) {
		t0 := time.Now()
		c.SetWriteDeadline(time.Now().Add(time.Second))
		c.Write(f)
		ev := readEvent(c, 300*time.Millisecond)
		d := time.Since(t0)
		if ev == "T" {
			return "noresp"
		}
		if d > worst {
			worst = d
		}
		events[2] = append(events[2], ev)
		time.Sleep(180 * time.Millisecond)
	}
	if worst > 300*time.Millisecond {
		return fmt.Sprintf("slow:%d", worst.Milliseconds())
	}
	// the other two must still be held: nothing may have arrived for them
	if ev := readEvent(b, 20*time.Millisecond); ev != "T" {
		return "harness-error:b-not-blocked:" + ev
	}
	if ev := readEvent(a, 20*time.Millisecond); ev != "T" {
		return "harness-error:a-not-stalled:" + ev
	}
	if rest := time.Second - time.Since(start); rest > 0 {
		time.Sleep(rest)
	}
	// release them: both are served now
	release()
	events[1] = append(events[1], readEvent(b, 2*time.Second))
	a.SetWriteDeadline(time.Now().Add(time.Second))
	a.Write(unhex(in[1]))
	events[0] = append(events[0], readEvent(a, 2*time.Second))
	return "ok " + ic.render(events)
}

// ---------------------------------------------------------------- generators

func be2(v int) []byte { return []byte{byte(v >> 8), byte(v)} }

// isoFrame: a request frame of connection ci (addresses are distinct per
// connection); closing = the server must close the connection on it
func isoFrame(r *Rng, ci, fi int, txn uint16, allowClose bool) (frame []byte, closing bool, label string) {
	unit := byte(r.Pick(0, 1, 17, 255, r.Intn(256)))
	addr := ci*4000 + fi*37 + r.Intn(30)
	q := 1 + r.Intn(8)
	x := r.Intn(100)
	switch {
	case allowClose && x < 6:
		// read with quantity 0: protocol error, link closed
		return mbapFrame(txn, 0, -1, unit, 3, append(be2(addr), 0, 0)), true, "close-qty0"
	case allowClose && x < 10:
		// MBAP header announcing an illegal length
		return []byte{byte(txn >> 8), byte(txn), 0, 0, 0, byte(r.Pick(0, 1)), unit}, true, "close-badlen"
	case allowClose && x < 13:
		// foreign protocol id
		return mbapFrame(txn, 7, -1, unit, 3, append(be2(addr), be2(q)...)), true, "close-proto"
	case x < 25:
		return mbapFrame(txn, 0, -1, unit, 1, append(be2(addr), be2(q)...)), false, "fc1"
	case x < 33:
		return mbapFrame(txn, 0, -1, unit, 2, append(be2(addr), be2(q)...)), false, "fc2"
	case x < 50:
		return mbapFrame(txn, 0, -1, unit, 3, append(be2(addr), be2(q)...)), false, "fc3"
	case x < 58:
		return mbapFrame(txn, 0, -1, unit, 4, append(be2(addr), be2(q)...)), false, "fc4"
	case x < 64:
		v := []byte{0xff, 0}
		if r.Bool() {
			v = []byte{0, 0}
		}
		return mbapFrame(txn, 0, -1, unit, 5, append(be2(addr), v...)), false, "fc5"
	case x < 72:
		return mbapFrame(txn, 0, -1, unit, 6, append(be2(addr), be2(r.Intn(65536))...)), false, "fc6"
	case x < 79:
		n := (q + 7) / 8
		pl := append(append(be2(addr), be2(q)...), byte(n))
		return mbapFrame(txn, 0, -1, unit, 15, append(pl, r.Bytes(n)...)), false, "fc15"
	case x < 86:
		pl := append(append(be2(addr), be2(q)...), byte(2*q))
		return mbapFrame(txn, 0, -1, unit, 16, append(pl, r.Bytes(2*q)...)), false, "fc16"
	case x < 92:
		return mbapFrame(txn, 0, -1, unit, byte(r.Pick(0, 7, 0x2b, 0x80, 0xff)), r.Bytes(r.Intn(5))), false, "fc-unsupported"
	default:
		// past 0xffff: exception 2 without a handler call
		return mbapFrame(txn, 0, -1, unit, 3, append(be2(0xffff), be2(2)...)), false, "range"
	}
}

type isoChunk struct {
	data []byte
	k    int
}

func genIso(o *Out, r *Rng) string {
	n := 2 + r.Intn(7)
	mode := "seq"
	if r.Intn(3) == 0 {
		mode = "burst"
	}
	o.Stat("iso:mode:" + mode)
	o.Stat("iso:conns:" + itoa(n))
	sameTxn := uint16(r.Pick(0, 1, 7, 0xffff, r.Intn(65536)))
	perFrame := r.Bool() // transaction id = frame number on every connection, or one constant
	queues := make([][]isoChunk, n)
	for ci := 0; ci < n; ci++ {
		nf := 1 + r.Intn(4)
		var q []isoChunk
		for fi := 0; fi < nf; fi++ {
			txn := sameTxn
			if perFrame {
				txn = uint16(fi + 1)
			}
			last := fi == nf-1
			f, closing, label := isoFrame(r, ci, fi, txn, last)
			o.Stat("iso:frame:" + label)
			switch {
			case len(f) > 2 && r.Intn(2) == 0:
				cut := 1 + r.Intn(len(f)-1)
				q = append(q, isoChunk{f[:cut], 0}, isoChunk{f[cut:], 1})
				o.Stat("iso:split")
			case !closing && !last && r.Intn(4) == 0:
				// this frame and the next one in one segment
				txn2 := sameTxn
				if perFrame {
					txn2 = uint16(fi + 2)
				}
				f2, closing2, label2 := isoFrame(r, ci, fi+1, txn2, fi+1 == nf-1)
				o.Stat("iso:frame:" + label2)
				o.Stat("iso:coalesced")
				q = append(q, isoChunk{append(append([]byte{}, f...), f2...), 2})
				fi++
				closing = closing2
			default:
				q = append(q, isoChunk{f, 1})
			}
			if closing && mode == "seq" && r.Bool() {
				// bytes sent after the server closed the connection: ignored
				q = append(q, isoChunk{r.Bytes(1 + r.Intn(12)), 0})
				o.Stat("iso:after-close")
			}
		}
		queues[ci] = q
	}
	toks := []string{mode, itoa(n)}
	for {
		var live []int
		for ci := range queues {
			if len(queues[ci]) > 0 {
				live = append(live, ci)
			}
		}
		if len(live) == 0 {
			break
		}
		ci := live[r.Intn(len(live))]
		ch := queues[ci][0]
		queues[ci] = queues[ci][1:]
		toks = append(toks, itoa(ci)+":"+hx(ch.data)+":"+itoa(ch.k))
	}
	return strings.Join(toks, " ")
}

func scnIso(o *Out, r *Rng, thorough bool) {
	n := 40
	if thorough {
		n = 1500
	}
	ins := []string{
		// identical transaction ids, frames split around the other connection's traffic
		"seq 2 0:0007000000:0 1:000700000006020300140001:1 0:06010300:0 1:0007000000:0 0:0a0001:1 1:06020300150001:1",
		"burst 3 0:000100000006010100000008:1 1:0001000000060101:0 2:0001000000060101:0 1:0fa00008:1 2:1f400008:1",
	}
	for i := 0; i < n; i++ {
		ins = append(ins, genIso(o, r))
	}
	o.RunMany("iso", ins)
}

func scnHol(o *Out, r *Rng, thorough bool) {
	n := 3
	if thorough {
		n = 12
	}
	for i := 0; i < n; i++ {
		txn := uint16(r.Pick(1, 7, r.Intn(65536)))
		fa := mbapFrame(txn, 0, -1, byte(r.Intn(256)), 3, append(be2(100+r.Intn(50)), be2(1+r.Intn(4))...))
		cut := 1 + r.Intn(len(fa)-1)
		fb := mbapFrame(txn, 0, -1, byte(r.Intn(256)), byte(r.Pick(3, 4)), append(be2(holMagic), be2(1+r.Intn(4))...))
		var fcs [][]byte
		for k := 0; k < 5; k++ {
			f, _, _ := isoFrame(r, 2, k, txn, false)
			fcs = append(fcs, f)
		}
		o.Run("hol", hx(fa[:cut])+" "+hx(fa[cut:])+" "+hx(fb)+" "+writesStr(fcs))
	}
}
