package main

import (
	"strconv"
	"strings"
	"time"

	"verifharness/internal/concdrv"
)

// C08, scenario "concslow": goroutines share one client while the device is
// slow, so that callers queue for the client about as long as - or longer
// than - the request timeout, or while it answers after the timeout.
//   input : <timeout_ms> <stagger_ms> <latencies> <seed(hex)> <thread> <thread> ...
//           latencies = l,l,...: the n-th request on the wire is answered after
//           l[n mod len] percent of the timeout; goroutine t starts t*stagger
//           after the others; thread = call,call,... (Close only as a last call)
//   output: "<verdict> <wire events>"; verdict "ok" or the first anomaly
//           (two-outstanding, interleaved-write, concurrent-read, garbled-request:..,
//           misdelivered:.., error:.. (anything but a time-out), panic, hang);
//           wire events q<id>/e<id>/x<id> (see internal/concdrv/slow.go), id = 16t+k.
// No verdict depends on how fast the machine is (see slow.go).

func init() {
	register("C08", scnConcSlow)
	executors["concslow"] = runConcSlow
}

func runConcSlow(in []string) (out string) {
	defer func() {
		if recover() != nil {
			out = "panic -"
		}
	}()
	if len(in) < 5 {
		return "harness-error:bad-input -"
	}
	var lat []int
	for _, l := range strings.Split(in[2], ",") {
		lat = append(lat, atoi(l))
	}
	seed, _ := strconv.ParseUint(in[3], 16, 64)
	var threads [][]string
	for _, t := range in[4:] {
		threads = append(threads, strings.Split(t, ","))
	}
	return concdrv.RunSlow(threads, time.Duration(atoi(in[0]))*time.Millisecond,
		time.Duration(atoi(in[1]))*time.Millisecond, lat, seed)
}

func scnConcSlow(o *Out, r *Rng, thorough bool) {
	calls := concdrv.Calls()
	reqs := concdrv.ReadWriteCalls
	pickReq := func() string {
		c := reqs[r.Intn(len(reqs))]
		o.Stat("slow-call:" + c)
		return c
	}
	var ins []string
	add := func(timeout, stagger int, lat string, ths []string) {
		o.Stat("slow-goroutines:" + itoa(len(ths)))
		o.Stat("slow-latencies:" + lat)
		o.Stat("slow-timeout-ms:" + itoa(timeout))
		ins = append(ins, itoa(timeout)+" "+itoa(stagger)+" "+lat+" "+hxu(r.U64()>>16)+" "+strings.Join(ths, " "))
	}
	// (a) every public call in turn is the one that has queued for the client
	// longer than the timeout: g goroutines start almost together, each
	// exchange takes 35..60 % of the timeout, and the call under test is the
	// first call of one of the goroutines that start behind at least four
	// others; every goroutine goes on with another request afterwards, so
	// that the client is in demand when the long wait ends.
	rounds := 1
	if thorough {
		rounds = 4
	}
	for round := 0; round < rounds; round++ {
		for _, m := range calls {
			g := 6 + r.Intn(3)
			who := 4 + r.Intn(g-4)
			var ths []string
			for t := 0; t < g; t++ {
				first := pickReq()
				if t == who {
					first = m
					o.Stat("slow-queued:" + m)
				}
				ths = append(ths, first+","+pickReq())
			}
			timeout := 300
			if thorough {
				timeout = r.Pick(200, 300, 500)
			}
			add(timeout, r.Pick(1, 3, 8), []string{"45", "40,55", "35,60,45", "50"}[r.Intn(4)], ths)
		}
	}
	// (b) seeded random sets: any calls (settings included, Close optionally
	// last), latencies from quick to later than the timeout (the caller gives up,
	// the stale reply arrives during a later exchange)
	n := 24
	if thorough {
		n = 200
	}
	for c := 0; c < n; c++ {
		g := 3 + r.Intn(5)
		maxLen := 2
		if thorough {
			maxLen = 3
		}
		closer := -1
		if r.Intn(5) == 0 {
			closer = r.Intn(g)
		}
		var ths []string
		for t := 0; t < g; t++ {
			var l []string
			for k := 1 + r.Intn(maxLen); k > 0; k-- {
				name := calls[r.Intn(len(calls))]
				l = append(l, name)
				o.Stat("slow-call:" + name)
			}
			if t == closer {
				l = append(l, "Close")
				o.Stat("slow-call:Close")
			}
			ths = append(ths, strings.Join(l, ","))
		}
		lat := []string{"30", "45,70", "10,90", "60,130,20", "120", "5,5,150,40", "99,101"}[r.Intn(7)]
		add(r.Pick(150, 200, 300), r.Pick(0, 1, 5, 20, 60), lat, ths)
	}
	o.RunMany("concslow", ins)
}
