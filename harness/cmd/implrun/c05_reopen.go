package main

// C05 across Close() + Open() - scenario "txr".
//
// The property speaks of one client and whatever the network does to the
// frames ("however frames are delayed, duplicated or reordered"). An
// application that sees a request time out reopens the client and goes on:
// the late reply to the timed-out request is then still in flight. It was sent
// to where that request came from - the OLD socket - and must never be
// returned as the result of a request made after the reopen.
//
//   txr  scheme tmo_ms unit e w { ; call <dur> op... | ; rel <list> | ; reopen }*
//          -> per step, joined by ";":  call   "<result> <request frame seen by the device | ->"
//                                       rel    "rel"
//                                       reopen "ro:<error class of Open()>"
//
// REAL transports: modbus.NewClient + Open() against a fake device on
// loopback (scheme tcp: a listener, one connection per Open(); scheme udp: one
// datagram socket). Nothing goes through the test hooks. The device numbers
// the requests in the order they arrive (0, 1, 2, ...; the client makes one
// call at a time) and remembers, for every request, the bytes and WHERE IT CAME
// FROM (tcp: the connection; udp: the source address of the datagram). The
// reply to request h echoes its transaction id, unit id and function code and
// carries register data that names h (tagData), and is always sent to where
// request h came from - also when the client has closed that socket in the
// meantime (tcp: Write on the old connection, errors ignored; udp: WriteTo the
// old source address).
//
//   call <dur>  one public call; <dur> lists the replies the device sends when
//               the request of THIS call arrives, in that order: request numbers
//               <= the number of this request ("-": none; the own number among
//               them or not; an earlier number is a late reply or a duplicate)
//   rel <list>  the device sends these replies now, while no call is outstanding
//   reopen      Close() then Open() on the same ModbusClient
//
// Everything is driven by events (arrival of a request, end of a call), not
// by the clock: "late" means "sent at a later step". The only real-time
// element is the client's own timeout, which a call that gets no matching
// reply has to wait for; a reply sent on arrival of the request has the whole
// timeout to get there.
//
// The expectation comes from the extracted Model/TxnReopen.v (ocaml/
// scn_txnreopen.ml): a reopen is a new transport on a new, empty stream; what
// is addressed to an older socket is not delivered (Properties/C05c.v).

import (
	"io"
	"net"
	"strings"
	"sync"
	"time"

	"github.com/simonvetter/modbus"
)

func init() {
	register("C05", scnTxnReopen)
	executors["txr"] = execTxnReopen
}

type txrReq struct {
	frame []byte
	send  func([]byte) // to where this request came from
}

type txrDev struct {
	mu   sync.Mutex
	reqs []txrReq
	dur  [][]int // per request number: the replies to send when it arrives
	e, w int
	seen chan struct{}
}

// the reply to request number h, from the bytes of that request
func (d *txrDev) reply(h int) []byte {
	f := d.reqs[h].frame
	if len(f) < 12 {
		return nil
	}
	regs := int(f[10])<<8 | int(f[11])
	if regs != 1 && regs != 2 {
		return nil
	}
	data := tagData(uint32(h), regs, d.e, d.w)
	payload := append([]byte{byte(len(data))}, data...)
	return mbapFrame(uint16(f[0])<<8|uint16(f[1]), 0, -1, f[6], f[7], payload)
}

// caller holds d.mu
func (d *txrDev) sendReply(h int) {
	if h < 0 || h >= len(d.reqs) {
		return
	}
	if f := d.reply(h); f != nil {
		d.reqs[h].send(f)
	}
}

func (d *txrDev) arrive(frame []byte, send func([]byte)) {
	d.mu.Lock()
	g := len(d.reqs)
	d.reqs = append(d.reqs, txrReq{frame, send})
	if g < len(d.dur) {
		for _, h := range d.dur[g] {
			d.sendReply(h)
		}
	}
	d.mu.Unlock()
	select {
	case d.seen <- struct{}{}:
	default:
	}
}

func (d *txrDev) count() int {
	d.mu.Lock()
	defer d.mu.Unlock()
	return len(d.reqs)
}

func txrList(s string) []int {
	if s == "-" || s == "" {
		return nil
	}
	var l []int
	for _, t := range strings.Split(s, ",") {
		l = append(l, atoi(t))
	}
	return l
}

func execTxnReopen(in []string) (out string) {
	defer func() {
		if r := recover(); r != nil {
			out = "panic"
		}
	}()
	if len(in) < 5 {
		return "harness-error:bad-input"
	}
	scheme := in[0]
	tmo := time.Duration(atoi(in[1])) * time.Millisecond
	unit, e, w := uint8(unhx(in[2])), atoi(in[3]), atoi(in[4])
	if tmo <= 0 {
		return "harness-error:bad-timeout"
	}
	var steps [][]string
	var cur []string
	for _, t := range in[5:] {
		if t == ";" {
			if len(cur) > 0 {
				steps = append(steps, cur)
			}
			cur = nil
		} else {
			cur = append(cur, t)
		}
	}
	if len(cur) > 0 {
		steps = append(steps, cur)
	}
	dev := &txrDev{e: e, w: w, seen: make(chan struct{}, 1)}
	for _, s := range steps {
		if s[0] == "call" {
			if len(s) < 3 {
				return "harness-error:bad-step"
			}
			dev.dur = append(dev.dur, txrList(s[1]))
		}
	}

	// ---- the device
	var addr string
	var devDone sync.WaitGroup
	var shutdown func()
	switch scheme {
	case "udp":
		pc, err := net.ListenUDP("udp", &net.UDPAddr{IP: net.IPv4(127, 0, 0, 1)})
		if err != nil {
			return "harness-error:listen"
		}
		addr = pc.LocalAddr().String()
		devDone.Add(1)
		go func() {
			defer devDone.Done()
			buf := make([]byte, 600)
			for {
				n, src, err := pc.ReadFromUDP(buf)
				if err != nil {
					return
				}
				from := src
				dev.arrive(append([]byte{}, buf[:n]...), func(b []byte) { pc.WriteToUDP(b, from) })
			}
		}()
		shutdown = func() { pc.Close() }
	case "tcp":
		ln, err := net.Listen("tcp", "127.0.0.1:0")
		if err != nil {
			return "harness-error:listen"
		}
		addr = ln.Addr().String()
		var cmu sync.Mutex
		var conns []net.Conn
		devDone.Add(1)
		go func() {
			defer devDone.Done()
			for {
				conn, err := ln.Accept()
				if err != nil {
					return
				}
				cmu.Lock()
				conns = append(conns, conn)
				cmu.Unlock()
				devDone.Add(1)
				go func() {
					defer devDone.Done()
					for {
						hdr := make([]byte, 6)
						if _, err := io.ReadFull(conn, hdr); err != nil {
							return
						}
						l := int(hdr[4])<<8 | int(hdr[5])
						if l < 2 || l > 254 {
							return
						}
						body := make([]byte, l)
						if _, err := io.ReadFull(conn, body); err != nil {
							return
						}
						// the connection stays open on the device side until the end of the
						// case: late replies are written to it whatever the client did
						dev.arrive(append(hdr, body...), func(b []byte) {
							conn.SetWriteDeadline(time.Now().Add(time.Second))
							conn.Write(b)
						})
					}
				}()
			}
		}()
		shutdown = func() {
			ln.Close()
			cmu.Lock()
			for _, c := range conns {
				c.Close()
			}
			cmu.Unlock()
		}
	default:
		return "harness-error:bad-scheme"
	}
	defer devDone.Wait()
	defer shutdown()

	// ---- the client: public API only
	mc, err := modbus.NewClient(&modbus.ClientConfiguration{URL: scheme + "://" + addr, Timeout: tmo, Logger: quiet})
	if err != nil {
		return "harness-error:client"
	}
	if err = mc.Open(); err != nil {
		return "harness-error:open"
	}
	defer mc.Close()
	mc.SetUnitId(unit)
	mc.SetEncoding(modbus.Endianness(e), modbus.WordOrder(w))

	var outs []string
	for _, s := range steps {
		switch s[0] {
		case "call":
			g := dev.count()
			done := make(chan string, 1)
			op := s[2:]
			go func() { done <- callOp(mc, op) }()
			var res string
			wd := time.NewTimer(6*tmo + 3*time.Second)
			select {
			case res = <-done:
				wd.Stop()
			case <-wd.C:
				mc.Close()
				select {
				case <-done:
				case <-time.After(2 * time.Second):
				}
				return strings.Join(append(outs, "hang"), ";")
			}
			// the request of this call as the device saw it (it may still be on its
			// way when a call returns early with an error)
			lim := time.Now().Add(5 * time.Second)
			for dev.count() <= g && time.Now().Before(lim) {
				select {
				case <-dev.seen:
				case <-time.After(20 * time.Millisecond):
				}
			}
			req := "-"
			dev.mu.Lock()
			if len(dev.reqs) > g {
				req = hx(dev.reqs[g].frame)
			}
			dev.mu.Unlock()
			outs = append(outs, res+" "+req)
		case "rel":
			if len(s) < 2 {
				return "harness-error:bad-step"
			}
			dev.mu.Lock()
			for _, h := range txrList(s[1]) {
				dev.sendReply(h)
			}
			dev.mu.Unlock()
			// loopback delivery is immediate; leave the kernel a moment anyway
			time.Sleep(2 * time.Millisecond)
			outs = append(outs, "rel")
		case "reopen":
			mc.Close()
			outs = append(outs, "ro:"+errClass(mc.Open()))
		default:
			return "harness-error:bad-step"
		}
	}
	return strings.Join(outs, ";")
}

// ------------------------------------------------------------------ generator

// one history: calls with 0..2 reopens between consecutive calls. Per request
// the device answers on arrival, late (at a later step: before or after the
// reopen that follows, right before a later call, or while a later call is
// outstanding - before or after that call's own reply), on arrival AND again
// later (duplicate), or never. Late replies are aimed, half of the time, at the
// request of a LATER transport that has the same number within its transport -
// the one a restarting counter gives the same transaction id - and otherwise
// at one of the next four requests.
func genTxnReopen(o *Out, r *Rng, scheme string, n int, tmoMs int) string {
	unit, e, w := randCfg(r)
	// transport (epoch) and number within the transport of every request
	reopens := make([]int, n) // reopens right before call j
	epoch := make([]int, n)
	idx := make([]int, n)
	pReopen := r.Pick(0, 2, 3, 3, 5) // out of 6
	for j := 1; j < n; j++ {
		if r.Intn(6) < pReopen {
			reopens[j] = 1
			if r.Intn(8) == 0 {
				reopens[j] = 2
			}
		}
		epoch[j] = epoch[j-1] + reopens[j]
		if reopens[j] > 0 {
			idx[j] = 0
		} else {
			idx[j] = idx[j-1] + 1
		}
	}
	relA := make([][]int, n+1) // sent before the reopens that precede call j (j = n: after the last call)
	relB := make([][]int, n)   // sent right before call j, after the reopens
	durF := make([][]int, n)   // sent when request j arrives, before its own reply
	durL := make([][]int, n)   // ... after its own reply
	own := make([]bool, n)
	later := func(g int) {
		// where the late copy of the reply to request g goes
		j := -1
		if r.Bool() {
			for k := g + 1; k < n; k++ {
				if epoch[k] > epoch[g] && idx[k] == idx[g] {
					j = k
					o.Stat("txr:late:same-number-next-transport")
					break
				}
			}
		}
		if j < 0 {
			// one of the next four requests; sometimes (always for the last request)
			// after the last call
			j = n
			if room := n - 1 - g; room > 0 && r.Intn(8) != 0 {
				if room > 4 {
					room = 4
				}
				j = g + 1 + r.Intn(room)
			}
		}
		if j == n {
			relA[n] = append(relA[n], g)
			o.Stat("txr:late:after-last-call")
			return
		}
		if epoch[j] > epoch[g] {
			o.Stat("txr:late:across-reopen")
		} else {
			o.Stat("txr:late:same-transport")
		}
		switch r.Intn(6) {
		case 0:
			relA[j] = append(relA[j], g)
		case 1, 2:
			relB[j] = append(relB[j], g)
		case 3, 4:
			durF[j] = append(durF[j], g)
		default:
			durL[j] = append(durL[j], g)
		}
	}
	for g := 0; g < n; g++ {
		switch k := r.Intn(20); {
		case k < 8:
			own[g] = true
			o.Stat("txr:beh:on-time")
		case k < 15:
			later(g)
			o.Stat("txr:beh:late")
		case k < 17:
			own[g] = true
			later(g)
			o.Stat("txr:beh:on-time+late-duplicate")
		case k < 18:
			later(g)
			later(g)
			o.Stat("txr:beh:late-twice")
		default:
			o.Stat("txr:beh:never")
		}
	}
	csv := func(l []int) string {
		if len(l) == 0 {
			return "-"
		}
		p := make([]string, len(l))
		for i := range l {
			p[i] = itoa(l[i])
		}
		return strings.Join(p, ",")
	}
	var sb strings.Builder
	sb.WriteString(scheme + " " + itoa(tmoMs) + " " + hxi(unit) + " " + itoa(e) + " " + itoa(w))
	for j := 0; j < n; j++ {
		if len(relA[j]) > 0 {
			sb.WriteString(" ; rel " + csv(relA[j]))
		}
		for k := 0; k < reopens[j]; k++ {
			sb.WriteString(" ; reopen")
			o.Stat("txr:reopen")
		}
		if len(relB[j]) > 0 {
			sb.WriteString(" ; rel " + csv(relB[j]))
		}
		dur := append([]int{}, durF[j]...)
		if own[j] {
			dur = append(dur, j)
		}
		dur = append(dur, durL[j]...)
		q := txnReq{regs: 1 + r.Intn(2), rt: r.Intn(2), addr: r.Intn(0xfffe)}
		sb.WriteString(" ; call " + csv(dur) + " " + q.op())
	}
	if len(relA[n]) > 0 {
		sb.WriteString(" ; rel " + csv(relA[n]))
	}
	return sb.String()
}

func scnTxnReopen(o *Out, r *Rng, thorough bool) {
	count, maxLen, tmo := 36, 7, 200
	if thorough {
		count, maxLen = 400, 14
	}
	var ins []string
	for _, scheme := range []string{"udp", "tcp"} {
		for c := 0; c < count; c++ {
			n := 2 + r.Intn(maxLen-1)
			ins = append(ins, genTxnReopen(o, r, scheme, n, tmo))
			o.Stat("txr:scheme:" + scheme)
		}
		// the plainest one: the first request gets no reply in time, the application
		// reopens, the reply arrives (before / during the next request)
		ins = append(ins,
			scheme+" "+itoa(tmo)+" 1 1 1 ; call - ReadRegister 10 0 ; reopen ; rel 0 ; call 1 ReadRegister 20 0",
			scheme+" "+itoa(tmo)+" 1 1 1 ; call - ReadRegister 10 0 ; reopen ; call 0,1 ReadRegister 20 0",
			scheme+" "+itoa(tmo)+" 1 1 1 ; call - ReadUint32 10 0 ; rel 0 ; reopen ; call 1,0 ReadUint32 20 0 ; call 2 ReadUint32 30 0")
		o.Stat("txr:plain")
	}
	for _, out := range o.RunMany("txr", ins) {
		for _, s := range strings.Split(out, ";") {
			f := strings.SplitN(s, " ", 2)
			switch {
			case strings.HasPrefix(f[0], "ok:"):
				o.Stat("txr:outcome:value")
			case f[0] == "err:timeout":
				o.Stat("txr:outcome:timeout")
			case f[0] == "rel", f[0] == "ro:nil":
			default:
				o.Stat("txr:outcome:other:" + f[0])
			}
		}
	}
}
