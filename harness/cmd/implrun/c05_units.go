package main

// C05 with unit-id changes between requests - scenarios "txu", "txuids", "txur".
//
// "Consecutive requests use distinct transaction ids, so a late reply to a
// timed-out request cannot satisfy any of the following 65535 requests": all
// requests made on the connection, whatever unit each one is addressed to.
// One client on one MBAP connection is routinely used for several units (the
// serial devices behind a gateway): the application calls SetUnitId between
// requests. The histories of c05.go keep one unit id per history; here the
// unit id changes between the calls of a history, and the late reply of the
// unit a timed-out request was addressed to arrives while a request to
// ANOTHER unit is outstanding.
//
//   txu   m unit e w { ; call end chunks op... | ; setunit u }*
//           same wire format, executor and observables as "ch"/"txh" (scripted
//           connection, virtual time); per step "result writes consumed" | "ok"
//   txuids  n units     n requests on one client, request i addressed to
//           units[i mod len(units)] (SetUnitId before every request), every one
//           answered at once; output: "txnid/unit" of the last 8 requests as
//           seen by the peer (the counter across the 16-bit wrap, cheaply)
//   txur  scheme tmo_ms unit e w { ; call <dur> op... | ; rel <list> | ; setunit u }*
//           REAL transports (modbus.NewClient + Open() over tcp / udp against a
//           fake gateway on loopback, no hooks), event-driven like "txr": the
//           gateway numbers the requests in order of arrival and answers
//           request h with a frame echoing h's transaction id, UNIT ID and
//           function code and carrying data that names h
//
// Tagging as in c05.go: a protocol-id-0 frame built "as the reply to request
// number i" (i counts ALL requests of the connection) carries transaction id
// (i+1) mod 2^16, the unit id request i was addressed to, and a register value
// encoding i. Expected behaviour: extracted Model/TxnUnits.v (histu_run:
// SetUnitId changes the unit id of the following requests and nothing else;
// the counter belongs to the connection), Properties/C05u.v.

import (
	"io"
	"net"
	"strings"
	"sync"
	"time"

	"github.com/simonvetter/modbus"
	"verifharness/internal/sconn"
)

func init() {
	register("C05", scnTxnUnits, scnTxnUnitIds, scnTxnUnitsReal)
	executors["txuids"] = execTxnUnitIds
	executors["txur"] = execTxnUnitsReal
	executors["txu"] = func(in []string) string {
		done := make(chan string, 1)
		go func() {
			defer func() {
				if r := recover(); r != nil {
					done <- "panic"
				}
			}()
			done <- executors["ch"](in)
		}()
		select {
		case s := <-done:
			return s
		case <-time.After(300 * time.Second):
			return "harness-error:hang"
		}
	}
}

// the units of one history: 2..4 distinct unit ids (a gateway's devices)
func unitPool(r *Rng) []int {
	k := 2 + r.Intn(3)
	var pool []int
	for len(pool) < k {
		u := r.Pick(0, 1, 2, 3, 17, 247, 255, r.Intn(256), r.Intn(256))
		dup := false
		for _, v := range pool {
			dup = dup || v == u
		}
		if !dup {
			pool = append(pool, u)
		}
	}
	return pool
}

// unit of every request of a history of n requests: the unit changes before a
// request with probability pch/6 (6: before every request)
func unitSeq(r *Rng, pool []int, n, pch int) []int {
	us := make([]int, n)
	cur := pool[0]
	for i := range us {
		if i > 0 && r.Intn(6) < pch {
			for {
				v := pool[r.Intn(len(pool))]
				if v != cur {
					cur = v
					break
				}
			}
		}
		us[i] = cur
	}
	return us
}

// the first request after i that goes to another unit than request i (-1: none)
func nextOtherUnit(us []int, i int) int {
	for j := i + 1; j < len(us); j++ {
		if us[j] != us[i] {
			return j
		}
	}
	return -1
}

// one scripted history with unit changes; returns the case line (without the
// scenario name). Per request the peer behaves as in genTxnHistory; every reply
// carries the unit id of the request it answers.
func genTxnUnitsHistory(o *Out, r *Rng, n int) string {
	_, e, w := randCfg(r)
	pool := unitPool(r)
	us := unitSeq(r, pool, n, r.Pick(1, 2, 3, 6, 6))
	reqs := make([]txnReq, n)
	mixed := r.Intn(3) == 0
	base := txnReq{regs: 1 + r.Intn(2), rt: r.Intn(2), addr: r.Intn(0xfffe)}
	for i := range reqs {
		reqs[i] = base
		if mixed {
			reqs[i] = txnReq{regs: 1 + r.Intn(2), rt: r.Intn(2), addr: r.Intn(0xfffe)}
		}
	}
	late := make([][][]byte, n)
	now := make([][][]byte, n)
	schedule := func(at int, f []byte, isLate bool) {
		if at >= n {
			o.Stat("txu:beh:late-beyond-end")
			return
		}
		if isLate {
			late[at] = append(late[at], f)
		} else {
			now[at] = append(now[at], f)
		}
	}
	// when the late reply to request i arrives: half of the time during the next
	// request addressed to another unit, else 1..8 requests later
	lateAt := func(i int) int {
		if j := nextOtherUnit(us, i); j >= 0 && r.Bool() {
			o.Stat("txu:late:during-next-request-to-another-unit")
			return j
		}
		d := 1 + r.Intn(2)
		if r.Intn(4) == 0 {
			d = 1 + r.Intn(8)
		}
		if i+d < n {
			if us[i+d] != us[i] {
				o.Stat("txu:late:during-request-to-another-unit")
			} else {
				o.Stat("txu:late:during-request-to-same-unit")
			}
		}
		return i + d
	}
	for i := 0; i < n; i++ {
		q := reqs[i]
		own := replyTo(uint32(i), q, us[i], e, w)
		switch k := r.Intn(20); {
		case k < 6:
			schedule(i, own, false)
			o.Stat("txu:beh:on-time")
		case k < 11:
			schedule(lateAt(i), own, true)
			o.Stat("txu:beh:late")
		case k < 14:
			schedule(i, own, false)
			if r.Bool() {
				schedule(i, own, false)
				o.Stat("txu:beh:twice-same-call")
			} else {
				schedule(lateAt(i), own, true)
				o.Stat("txu:beh:twice-late-duplicate")
			}
		case k < 16:
			o.Stat("txu:beh:never")
		case k < 17:
			schedule(lateAt(i), own, true)
			schedule(lateAt(i), own, true)
			o.Stat("txu:beh:late-twice")
		case k < 18:
			f := mbapFrame(uint16(i+1), 0, -1, byte(us[i]), byte(3+q.rt)|0x80, []byte{byte(r.Pick(1, 2, 3, 4, 6, 11))})
			if r.Bool() {
				schedule(i, f, false)
				o.Stat("txu:beh:exception")
			} else {
				// the gateway gives up on the unit late: its exception arrives during a later request
				schedule(lateAt(i), f, true)
				o.Stat("txu:beh:late-exception")
			}
		case k < 19:
			// the reply to a request d ahead arrives early, then the own reply
			d := 1 + r.Intn(3)
			u := us[i]
			if i+d < n {
				u = us[i+d]
			}
			schedule(i, replyTo(uint32(i+d), q, u, e, w), false)
			schedule(i, own, false)
			o.Stat("txu:beh:early-reply-then-own")
		default:
			// the own transaction id on a frame of ANOTHER unit of the gateway, alone
			// or in front of the own reply (the first frame with the id decides)
			v := pool[r.Intn(len(pool))]
			schedule(i, replyTo(uint32(i), q, v, e, w), false)
			if r.Bool() {
				schedule(i, own, false)
			}
			o.Stat("txu:beh:own-id-random-unit")
		}
		if r.Intn(5) == 0 {
			txn := uint16(i + 1)
			if r.Intn(3) == 0 {
				txn = uint16(r.Intn(65536))
			}
			data := tagData(uint32(txn-1)^0x8000, q.regs, e, w)
			payload := append([]byte{byte(len(data))}, data...)
			f := mbapFrame(txn, uint16(1+r.Intn(0xffff)), -1, byte(us[i]), byte(3+q.rt), payload)
			schedule(i+r.Pick(0, 0, 0, 1, 2), f, r.Bool())
			o.Stat("txu:beh:foreign-proto")
		}
		if r.Intn(5) == 0 {
			d := uint32(1 + r.Intn(65535))
			if r.Bool() {
				d = uint32(r.Pick(1, 2, 3, 65535, 65534, 32768))
			}
			other := uint32(i) + d + 65536*uint32(r.Intn(3))
			schedule(i, replyTo(other, q, pool[r.Intn(len(pool))], e, w), false)
			o.Stat("txu:beh:other-txn")
		}
	}
	endAt, endKind := -1, "c"
	if r.Intn(16) == 0 {
		endAt = r.Intn(n)
		if r.Bool() {
			endKind = "r"
		}
	}
	var sb strings.Builder
	// the client starts on some unit of the pool (not necessarily that of the
	// first request)
	cur := pool[r.Intn(len(pool))]
	sb.WriteString("m " + hxi(cur) + " " + itoa(e) + " " + itoa(w))
	for i := 0; i < n; i++ {
		if us[i] != cur {
			if r.Intn(8) == 0 {
				// a unit change that no request follows
				sb.WriteString(" ; setunit " + hxi(pool[r.Intn(len(pool))]))
				o.Stat("txu:setunit:overridden")
			}
			sb.WriteString(" ; setunit " + hxi(us[i]))
			cur = us[i]
			o.Stat("txu:setunit")
		} else if r.Intn(10) == 0 {
			sb.WriteString(" ; setunit " + hxi(cur))
			o.Stat("txu:setunit:same-unit")
		}
		fs := now[i]
		for k := len(fs) - 1; k > 0; k-- {
			m := r.Intn(k + 1)
			fs[k], fs[m] = fs[m], fs[k]
		}
		all := append(append([][]byte{}, late[i]...), fs...)
		if r.Intn(5) == 0 {
			for k := len(all) - 1; k > 0; k-- {
				m := r.Intn(k + 1)
				all[k], all[m] = all[m], all[k]
			}
		}
		var chunks [][]byte
		switch r.Intn(4) {
		case 0:
			var cat []byte
			for _, f := range all {
				cat = append(cat, f...)
			}
			if len(cat) > 0 {
				chunks = [][]byte{cat}
			}
		case 1:
			var cat []byte
			for _, f := range all {
				cat = append(cat, f...)
			}
			for len(cat) > 0 {
				k := 1 + r.Intn(len(cat))
				if k > 11 && r.Bool() {
					k = 1 + r.Intn(11)
				}
				chunks = append(chunks, cat[:k])
				cat = cat[k:]
			}
		default:
			chunks = all
		}
		end := "s"
		if i == endAt {
			end = endKind
			o.Stat("txu:beh:peer-ends-" + endKind)
		}
		sb.WriteString(" ; call " + end + " " + writesStr(chunks) + " " + reqs[i].op())
	}
	return sb.String()
}

func scnTxnUnits(o *Out, r *Rng, thorough bool) {
	count, maxLen := 400, 40
	if thorough {
		count, maxLen = 4000, 200
	}
	var ins []string
	for c := 0; c < count; c++ {
		n := 2 + r.Intn(maxLen-1)
		if r.Intn(3) == 0 {
			n = 2 + r.Intn(6)
		}
		ins = append(ins, genTxnUnitsHistory(o, r, n))
		o.Stat("txu:history")
	}
	// the plainest ones: a request to one unit gets no reply in time, the
	// application turns to another unit, the late reply arrives first
	q := txnReq{regs: 1, rt: 0, addr: 0}
	for _, p := range [][2]int{{1, 2}, {2, 1}, {17, 255}, {0, 247}} {
		a, b := p[0], p[1]
		ins = append(ins,
			"m "+hxi(a)+" 1 1 ; call s - ReadRegister 0 0 ; setunit "+hxi(b)+" ; call s "+
				writesStr([][]byte{replyTo(0, q, a, 1, 1), replyTo(1, q, b, 1, 1)})+" ReadRegister 0 0",
			"m "+hxi(a)+" 1 1 ; call s - ReadRegister 0 0 ; setunit "+hxi(b)+" ; call s "+
				writesStr([][]byte{replyTo(0, q, a, 1, 1)})+" ReadRegister 0 0 ; setunit "+hxi(a)+" ; call s "+
				writesStr([][]byte{replyTo(1, q, b, 1, 1), replyTo(2, q, a, 1, 1)})+" ReadRegister 0 0",
			// an answered and a silent request to one unit, an answered one to the other;
			// the late reply arrives during the second request to the other unit
			"m "+hxi(a)+" 1 1 ; call s "+writesStr([][]byte{replyTo(0, q, a, 1, 1)})+" ReadRegister 0 0"+
				" ; call s - ReadRegister 0 0 ; setunit "+hxi(b)+
				" ; call s "+writesStr([][]byte{replyTo(2, q, b, 1, 1)})+" ReadRegister 0 0"+
				" ; call s "+writesStr([][]byte{replyTo(1, q, a, 1, 1), replyTo(3, q, b, 1, 1)})+" ReadRegister 0 0")
		o.Stat("txu:plain")
	}
	for _, out := range o.RunMany("txu", ins) {
		for _, s := range strings.Split(out, ";") {
			f := strings.SplitN(s, " ", 2)
			switch {
			case strings.HasPrefix(f[0], "ok:"):
				o.Stat("txu:outcome:value")
			case f[0] == "err:timeout":
				o.Stat("txu:outcome:timeout")
			case f[0] == "ok":
			default:
				o.Stat("txu:outcome:" + strings.SplitN(f[0], ":", 3)[0] + "-other")
			}
		}
	}
	// the same histories against the hand-threaded "ch" model handler
	o.RunMany("ch", ins)
}

// ------------------------------------------------------------------ txuids

func execTxnUnitIds(in []string) string {
	if len(in) < 2 {
		return "harness-error:bad-input"
	}
	n := atoi(in[0])
	var units []uint8
	for _, t := range strings.Split(in[1], ",") {
		units = append(units, uint8(unhx(t)))
	}
	if len(units) == 0 {
		return "harness-error:bad-input"
	}
	c := sconn.New(true)
	var ids []string
	c.OnWrite = func(c *sconn.Conn, b []byte) {
		if len(b) < 8 {
			return
		}
		ids = append(ids, hxu(uint64(b[0])<<8|uint64(b[1]))+"/"+hxu(uint64(b[6])))
		if len(ids) > 8 {
			ids = ids[1:]
		}
		c.Feed([]byte{b[0], b[1], 0, 0, 0, 5, b[6], 3, 2, 0, 1})
	}
	mc := newClientOn("m", c, units[0], 1, 1)
	for i := 0; i < n; i++ {
		mc.SetUnitId(units[i%len(units)])
		if _, err := mc.ReadRegister(0, modbus.HOLDING_REGISTER); err != nil {
			return "err:" + itoa(i) + ":" + errClass(err)
		}
	}
	return strings.Join(ids, ",")
}

func scnTxnUnitIds(o *Out, r *Rng, thorough bool) {
	o.Run("txuids", "5 1,2")
	o.Run("txuids", "65540 1,2,3")
	a, b := r.Intn(256), r.Intn(256)
	o.Run("txuids", "65545 "+hxi(a)+","+hxi(b)+","+hxi(a)+","+hxi(r.Intn(256))+",ff")
}

// ------------------------------------------------------------------ txur

type txurDev struct {
	mu   sync.Mutex
	reqs []txrReq
	dur  [][]int
	e, w int
	seen chan struct{}
}

// the reply of the addressed unit to request number h, from the bytes of that
// request: same transaction id, unit id and function code, data naming h
func (d *txurDev) reply(h int) []byte {
	f := d.reqs[h].frame
	if len(f) < 12 {
		return nil
	}
	regs := int(f[10])<<8 | int(f[11])
	if regs != 1 && regs != 2 {
		return nil
	}
	data := tagData(uint32(h), regs, d.e, d.w)
	payload := append([]byte{byte(len(data))}, data...)
	return mbapFrame(uint16(f[0])<<8|uint16(f[1]), 0, -1, f[6], f[7], payload)
}

// caller holds d.mu; replies go to the (one) socket the requests came from
func (d *txurDev) sendReply(h int) {
	if h < 0 || h >= len(d.reqs) {
		return
	}
	if f := d.reply(h); f != nil {
		d.reqs[h].send(f)
	}
}

func (d *txurDev) arrive(frame []byte, send func([]byte)) {
	d.mu.Lock()
	g := len(d.reqs)
	d.reqs = append(d.reqs, txrReq{frame, send})
	if g < len(d.dur) {
		for _, h := range d.dur[g] {
			d.sendReply(h)
		}
	}
	d.mu.Unlock()
	select {
	case d.seen <- struct{}{}:
	default:
	}
}

func (d *txurDev) count() int {
	d.mu.Lock()
	defer d.mu.Unlock()
	return len(d.reqs)
}

// the gateway's socket: when the machine is short of a resource for a moment
// (ports, buffers: other jobs run real sockets too) try again for up to 30 s
// before reporting a harness error
func txurRetry(f func() error) (err error) {
	for i := 0; i < 60; i++ {
		if err = f(); err == nil {
			return
		}
		time.Sleep(500 * time.Millisecond)
	}
	return
}

func execTxnUnitsReal(in []string) (out string) {
	defer func() {
		if r := recover(); r != nil {
			out = "panic"
		}
	}()
	if len(in) < 5 {
		return "harness-error:bad-input"
	}
	scheme := in[0]
	tmo := time.Duration(atoi(in[1])) * time.Millisecond
	unit, e, w := uint8(unhx(in[2])), atoi(in[3]), atoi(in[4])
	if tmo <= 0 {
		return "harness-error:bad-timeout"
	}
	var steps [][]string
	var cur []string
	for _, t := range in[5:] {
		if t == ";" {
			if len(cur) > 0 {
				steps = append(steps, cur)
			}
			cur = nil
		} else {
			cur = append(cur, t)
		}
	}
	if len(cur) > 0 {
		steps = append(steps, cur)
	}
	dev := &txurDev{e: e, w: w, seen: make(chan struct{}, 1)}
	for _, s := range steps {
		if s[0] == "call" {
			if len(s) < 3 {
				return "harness-error:bad-step"
			}
			dev.dur = append(dev.dur, txrList(s[1]))
		}
	}

	// ---- the gateway
	var addr string
	var devDone sync.WaitGroup
	var shutdown func()
	switch scheme {
	case "udp":
		var pc *net.UDPConn
		err := txurRetry(func() (err error) {
			pc, err = net.ListenUDP("udp", &net.UDPAddr{IP: net.IPv4(127, 0, 0, 1)})
			return
		})
		if err != nil {
			return "harness-error:listen:" + err.Error()
		}
		addr = pc.LocalAddr().String()
		devDone.Add(1)
		go func() {
			defer devDone.Done()
			buf := make([]byte, 600)
			for {
				n, src, err := pc.ReadFromUDP(buf)
				if err != nil {
					return
				}
				from := src
				dev.arrive(append([]byte{}, buf[:n]...), func(b []byte) { pc.WriteToUDP(b, from) })
			}
		}()
		shutdown = func() { pc.Close() }
	case "tcp":
		var ln net.Listener
		err := txurRetry(func() (err error) {
			ln, err = net.Listen("tcp", "127.0.0.1:0")
			return
		})
		if err != nil {
			return "harness-error:listen:" + err.Error()
		}
		addr = ln.Addr().String()
		var cmu sync.Mutex
		var conns []net.Conn
		devDone.Add(1)
		go func() {
			defer devDone.Done()
			for {
				conn, err := ln.Accept()
				if err != nil {
					return
				}
				cmu.Lock()
				conns = append(conns, conn)
				cmu.Unlock()
				devDone.Add(1)
				go func() {
					defer devDone.Done()
					for {
						hdr := make([]byte, 6)
						if _, err := io.ReadFull(conn, hdr); err != nil {
							return
						}
						l := int(hdr[4])<<8 | int(hdr[5])
						if l < 2 || l > 254 {
							return
						}
						body := make([]byte, l)
						if _, err := io.ReadFull(conn, body); err != nil {
							return
						}
						dev.arrive(append(hdr, body...), func(b []byte) {
							conn.SetWriteDeadline(time.Now().Add(time.Second))
							conn.Write(b)
						})
					}
				}()
			}
		}()
		shutdown = func() {
			ln.Close()
			cmu.Lock()
			for _, c := range conns {
				c.Close()
			}
			cmu.Unlock()
		}
	default:
		return "harness-error:bad-scheme"
	}
	defer devDone.Wait()
	defer shutdown()

	// ---- the client: public API only
	mc, err := modbus.NewClient(&modbus.ClientConfiguration{URL: scheme + "://" + addr, Timeout: tmo, Logger: quiet})
	if err != nil {
		return "harness-error:client"
	}
	if err = mc.Open(); err != nil {
		return "harness-error:open:" + err.Error()
	}
	defer mc.Close()
	mc.SetUnitId(unit)
	mc.SetEncoding(modbus.Endianness(e), modbus.WordOrder(w))

	var outs []string
	for _, s := range steps {
		switch s[0] {
		case "call":
			g := dev.count()
			done := make(chan string, 1)
			op := s[2:]
			go func() { done <- callOp(mc, op) }()
			var res string
			wd := time.NewTimer(6*tmo + 5*time.Second)
			select {
			case res = <-done:
				wd.Stop()
			case <-wd.C:
				mc.Close()
				select {
				case <-done:
				case <-time.After(2 * time.Second):
				}
				return strings.Join(append(outs, "hang"), ";")
			}
			// the request of this call as the gateway saw it
			lim := time.Now().Add(5 * time.Second)
			for dev.count() <= g && time.Now().Before(lim) {
				select {
				case <-dev.seen:
				case <-time.After(20 * time.Millisecond):
				}
			}
			req := "-"
			dev.mu.Lock()
			if len(dev.reqs) > g {
				req = hx(dev.reqs[g].frame)
			}
			dev.mu.Unlock()
			outs = append(outs, res+" "+req)
		case "rel":
			if len(s) < 2 {
				return "harness-error:bad-step"
			}
			dev.mu.Lock()
			for _, h := range txrList(s[1]) {
				dev.sendReply(h)
			}
			dev.mu.Unlock()
			time.Sleep(2 * time.Millisecond)
			outs = append(outs, "rel")
		case "setunit":
			if len(s) < 2 {
				return "harness-error:bad-step"
			}
			mc.SetUnitId(uint8(unhx(s[1])))
			outs = append(outs, "ok")
		default:
			return "harness-error:bad-step"
		}
	}
	return strings.Join(outs, ";")
}

// one history on a real transport: per request the addressed unit answers on
// arrival, late (between two later calls, or while a later call is outstanding
// - before or after that call's own reply; half of the time the next call to
// another unit), on arrival and again later, or never
func genTxnUnitsReal(o *Out, r *Rng, scheme string, n, tmoMs int) string {
	_, e, w := randCfg(r)
	pool := unitPool(r)
	us := unitSeq(r, pool, n, r.Pick(2, 3, 6, 6))
	rel := make([][]int, n+1)
	durF := make([][]int, n)
	durL := make([][]int, n)
	own := make([]bool, n)
	later := func(g int) {
		j := -1
		if k := nextOtherUnit(us, g); k >= 0 && r.Bool() {
			j = k
			o.Stat("txur:late:next-request-to-another-unit")
		} else {
			j = n
			if room := n - 1 - g; room > 0 && r.Intn(8) != 0 {
				if room > 3 {
					room = 3
				}
				j = g + 1 + r.Intn(room)
			}
			if j == n {
				o.Stat("txur:late:after-last-call")
			} else if us[j] != us[g] {
				o.Stat("txur:late:request-to-another-unit")
			} else {
				o.Stat("txur:late:request-to-same-unit")
			}
		}
		if j == n {
			rel[n] = append(rel[n], g)
			return
		}
		switch r.Intn(5) {
		case 0:
			rel[j] = append(rel[j], g)
		case 1, 2, 3:
			durF[j] = append(durF[j], g)
		default:
			durL[j] = append(durL[j], g)
		}
	}
	for g := 0; g < n; g++ {
		switch k := r.Intn(20); {
		case k < 8:
			own[g] = true
			o.Stat("txur:beh:on-time")
		case k < 15:
			later(g)
			o.Stat("txur:beh:late")
		case k < 17:
			own[g] = true
			later(g)
			o.Stat("txur:beh:on-time+late-duplicate")
		case k < 18:
			later(g)
			later(g)
			o.Stat("txur:beh:late-twice")
		default:
			o.Stat("txur:beh:never")
		}
	}
	csv := func(l []int) string {
		if len(l) == 0 {
			return "-"
		}
		p := make([]string, len(l))
		for i := range l {
			p[i] = itoa(l[i])
		}
		return strings.Join(p, ",")
	}
	var sb strings.Builder
	cur := pool[r.Intn(len(pool))]
	sb.WriteString(scheme + " " + itoa(tmoMs) + " " + hxi(cur) + " " + itoa(e) + " " + itoa(w))
	for j := 0; j < n; j++ {
		setu := ""
		if us[j] != cur {
			setu = " ; setunit " + hxi(us[j])
			cur = us[j]
			o.Stat("txur:setunit")
		}
		// the late replies released between the calls: before or after the unit change
		if setu != "" && r.Bool() {
			sb.WriteString(setu)
			setu = ""
		}
		if len(rel[j]) > 0 {
			sb.WriteString(" ; rel " + csv(rel[j]))
		}
		sb.WriteString(setu)
		dur := append([]int{}, durF[j]...)
		if own[j] {
			dur = append(dur, j)
		}
		dur = append(dur, durL[j]...)
		q := txnReq{regs: 1 + r.Intn(2), rt: r.Intn(2), addr: r.Intn(0xfffe)}
		sb.WriteString(" ; call " + csv(dur) + " " + q.op())
	}
	if len(rel[n]) > 0 {
		sb.WriteString(" ; rel " + csv(rel[n]))
	}
	return sb.String()
}

func scnTxnUnitsReal(o *Out, r *Rng, thorough bool) {
	count, maxLen, tmo := 20, 6, 250
	if thorough {
		count, maxLen = 300, 12
	}
	var ins []string
	for _, scheme := range []string{"udp", "tcp"} {
		for c := 0; c < count; c++ {
			n := 2 + r.Intn(maxLen-1)
			ins = append(ins, genTxnUnitsReal(o, r, scheme, n, tmo))
			o.Stat("txur:scheme:" + scheme)
		}
		// the plainest one: the first request (unit 1) gets no reply in time, the
		// application turns to unit 2, unit 1's reply arrives (before / during the
		// next request)
		ins = append(ins,
			scheme+" "+itoa(tmo)+" 1 1 1 ; call - ReadRegister 10 0 ; setunit 2 ; rel 0 ; call 1 ReadRegister 20 0",
			scheme+" "+itoa(tmo)+" 1 1 1 ; call - ReadRegister 10 0 ; setunit 2 ; call 0,1 ReadRegister 20 0",
			scheme+" "+itoa(tmo)+" 1 1 1 ; call 0 ReadUint32 10 0 ; call - ReadUint32 10 0 ; setunit 2 ; call 2 ReadUint32 20 0 ; call 1,3 ReadUint32 30 0")
		o.Stat("txur:plain")
	}
	for _, out := range o.RunMany("txur", ins) {
		for _, s := range strings.Split(out, ";") {
			f := strings.SplitN(s, " ", 2)
			switch {
			case strings.HasPrefix(f[0], "ok:"):
				o.Stat("txur:outcome:value")
			case f[0] == "err:timeout":
				o.Stat("txur:outcome:timeout")
			case f[0] == "rel", f[0] == "ok":
			default:
				o.Stat("txur:outcome:other:" + f[0])
			}
		}
	}
}
