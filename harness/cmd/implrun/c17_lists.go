package main

import (
	"strings"
	"time"

	"github.com/simonvetter/modbus"
	"verifharness/internal/sconn"
)

// encl: LISTS of 16-, 32- and 64-bit integers and 32/64-bit floats converted to
// register bytes and back, under every (byte order, word order) pair.
//
// The library has no list encoder for 32/64-bit values as a function of its
// own: the conversion of a list happens in the public typed writers
// (WriteRegisters, WriteUint32s, WriteFloat32s, WriteUint64s, WriteFloat64s;
// WriteUint32/WriteFloat32/WriteUint64/WriteFloat64 for a single value), and the
// conversion back in the typed readers. The executor therefore runs the real
// writer on a client whose encoding was selected with SetEncoding, takes the
// register bytes out of the request the client put on the (in-memory)
// connection, hands exactly these bytes back as the reply to the matching typed
// read, and reports
//
//	<register bytes> <result of the typed read>
//
// so that the model side can require: register bytes = the documented layout
// of every value, in order (position i*width holds value i whatever the other
// elements are), and the values read back = the values written.
//
// input tokens: writer e w regtype addr values
func init() {
	register("C17", scnEncLists)

	executors["encl"] = func(in []string) string {
		op := in[0]
		width, ok := enclWidth[op] // 16-bit registers per value
		if !ok || len(in) != 6 {
			return "harness-error:bad-input"
		}
		e, w := atoi(in[1]), atoi(in[2])
		rt := in[3]
		addr := uint16(unhx(in[4]))
		n := len(numsTok(in[5]))
		regs := n * width
		const unit = 1

		c := sconn.New(true)
		mc, err := modbus.VerifNewClientOnConn(&modbus.ClientConfiguration{
			URL: "tcp://sconn", Timeout: time.Second, Logger: quiet}, c)
		if err != nil {
			return "harness-error:client"
		}
		mc.SetUnitId(unit)
		if err := mc.SetEncoding(modbus.Endianness(e), modbus.WordOrder(w)); err != nil {
			return "!setencoding:" + errClass(err)
		}

		// the device acknowledges the write (fc 16: address, quantity)
		ack := []byte{byte(addr >> 8), byte(addr), byte(regs >> 8), byte(regs)}
		c.Feed(mbapFrame(1, 0, -1, unit, 0x10, ack))
		wres := callOp(mc, []string{op, in[4], in[5]})
		var req []byte
		for _, b := range c.WriteLog() {
			req = append(req, b...)
		}
		if wres != "ok:u" {
			return "!write:" + wres + ":" + hx(req)
		}
		// MBAP header (7), fc, address, quantity, byte count, register bytes
		if len(req) != 13+2*regs || req[7] != 0x10 ||
			int(req[4])<<8|int(req[5]) != len(req)-6 ||
			req[8] != ack[0] || req[9] != ack[1] || req[10] != ack[2] || req[11] != ack[3] ||
			int(req[12]) != 2*regs {
			return "!request:" + hx(req)
		}
		regBytes := append([]byte(nil), req[13:]...)

		// the device returns the registers it was given
		fc := byte(3)
		if rt == "1" {
			fc = 4
		}
		c.Feed(mbapFrame(2, 0, -1, unit, fc, append([]byte{byte(2 * regs)}, regBytes...)))
		rop := strings.Replace(op, "Write", "Read", 1)
		var rres string
		if strings.HasSuffix(op, "s") {
			rres = callOp(mc, []string{rop, in[4], hxi(n), rt})
		} else {
			rres = callOp(mc, []string{rop, in[4], rt})
		}
		return hx(regBytes) + " " + rres
	}
}

// typed writers and the number of 16-bit registers one value takes
var enclWidth = map[string]int{
	"WriteRegisters": 1,
	"WriteUint32s":   2, "WriteFloat32s": 2, "WriteUint32": 2, "WriteFloat32": 2,
	"WriteUint64s": 4, "WriteFloat64s": 4, "WriteUint64": 4, "WriteFloat64": 4,
}

// a list of n values of the given width: seeded random values mixed with the
// fixed patterns (NaN payloads, -0, inf, values whose words or bytes coincide)
// or, for kind 1, the fixed patterns in rotation starting at a random place
func enclValues(r *Rng, n int, bitsN uint, kind int) string {
	if kind == 0 {
		return randNums(r, n, bitsN)
	}
	mask := ^uint64(0)
	if bitsN < 64 {
		mask = uint64(1)<<bitsN - 1
	}
	p := make([]string, n)
	k := r.Intn(len(interesting64))
	for i := range p {
		p[i] = hxu(interesting64[(k+i)%len(interesting64)] & mask)
	}
	return strings.Join(p, ",")
}

func scnEncLists(o *Out, r *Rng, thorough bool) {
	type wr struct {
		op    string
		bitsN uint
		max   int // longest list one write request can carry (123 registers)
	}
	plural := []wr{
		{"WriteRegisters", 16, 123},
		{"WriteUint32s", 32, 61}, {"WriteFloat32s", 32, 61},
		{"WriteUint64s", 64, 30}, {"WriteFloat64s", 64, 30},
	}
	single := []wr{{"WriteUint32", 32, 1}, {"WriteFloat32", 32, 1}, {"WriteUint64", 64, 1}, {"WriteFloat64", 64, 1}}
	reps := 1
	if thorough {
		reps = 12
	}
	var ins []string
	add := func(x wr, e, w, n, kind int) {
		regs := n * int(x.bitsN/16)
		// any start address whose last register is still addressable
		addr := r.Pick(0, 1, 0x10000-regs, r.Intn(0x10000-regs+1))
		ins = append(ins, x.op+" "+itoa(e)+" "+itoa(w)+" "+itoa(r.Intn(2))+" "+hxi(addr)+" "+enclValues(r, n, x.bitsN, kind))
		o.Stat("encl:e" + itoa(e) + "w" + itoa(w))
		switch {
		case n == 1:
			o.Stat("encl:len1")
		case n == x.max:
			o.Stat("encl:len-max")
		default:
			o.Stat("encl:len2..max-1")
		}
	}
	for e := 1; e <= 2; e++ {
		for w := 1; w <= 2; w++ {
			for _, x := range plural {
				// every list length one request can carry
				for n := 1; n <= x.max; n++ {
					for k := 0; k < reps; k++ {
						add(x, e, w, n, 0)
					}
					add(x, e, w, n, 1)
				}
			}
			for _, x := range single {
				for k := 0; k < 40*reps; k++ {
					add(x, e, w, 1, k%2)
				}
			}
		}
	}
	o.RunMany("encl", ins)
}
