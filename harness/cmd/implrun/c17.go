package main

import (
	"math"
	"strconv"

	"github.com/simonvetter/modbus"
)

func init() {
	register("C17", scnEnc16, scnEnc32, scnEnc64, scnBools)

	executors["enc16"] = func(in []string) string {
		return hx(modbus.VerifUint16ToBytes(modbus.Endianness(atoi(in[0])), uint16(unhx(in[1]))))
	}
	executors["dec16"] = func(in []string) string {
		b := unhex(in[1])
		var d uint16
		if panics(func() { d = modbus.VerifBytesToUint16(modbus.Endianness(atoi(in[0])), b) }) {
			return "panic"
		}
		return hxu(uint64(d))
	}
	executors["dec16s"] = func(in []string) string {
		b := unhex(in[1])
		var d []uint16
		if panics(func() { d = modbus.VerifBytesToUint16s(modbus.Endianness(atoi(in[0])), b[:len(b):len(b)]) }) {
			return "panic"
		}
		vs := make([]uint64, len(d))
		for k := range d {
			vs[k] = uint64(d[k])
		}
		return csvu(vs)
	}
	executors["enc32"] = func(in []string) string {
		return hx(modbus.VerifUint32ToBytes(modbus.Endianness(atoi(in[0])), modbus.WordOrder(atoi(in[1])), uint32(unhx(in[2]))))
	}
	// float variants: the value is given as its bit pattern
	executors["enc32f"] = func(in []string) string {
		return hx(modbus.VerifFloat32ToBytes(modbus.Endianness(atoi(in[0])), modbus.WordOrder(atoi(in[1])),
			math.Float32frombits(uint32(unhx(in[2])))))
	}
	executors["dec32s"] = func(in []string) string {
		b := unhex(in[2])
		var d []uint32
		if panics(func() {
			d = modbus.VerifBytesToUint32s(modbus.Endianness(atoi(in[0])), modbus.WordOrder(atoi(in[1])), b[:len(b):len(b)])
		}) {
			return "panic"
		}
		vs := make([]uint64, len(d))
		for k := range d {
			vs[k] = uint64(d[k])
		}
		return csvu(vs)
	}
	executors["dec32sf"] = func(in []string) string {
		b := unhex(in[2])
		var d []float32
		if panics(func() {
			d = modbus.VerifBytesToFloat32s(modbus.Endianness(atoi(in[0])), modbus.WordOrder(atoi(in[1])), b[:len(b):len(b)])
		}) {
			return "panic"
		}
		vs := make([]uint64, len(d))
		for k := range d {
			vs[k] = uint64(math.Float32bits(d[k]))
		}
		return csvu(vs)
	}
	executors["enc64"] = func(in []string) string {
		return hx(modbus.VerifUint64ToBytes(modbus.Endianness(atoi(in[0])), modbus.WordOrder(atoi(in[1])), unhx(in[2])))
	}
	executors["enc64f"] = func(in []string) string {
		return hx(modbus.VerifFloat64ToBytes(modbus.Endianness(atoi(in[0])), modbus.WordOrder(atoi(in[1])),
			math.Float64frombits(unhx(in[2]))))
	}
	executors["dec64s"] = func(in []string) string {
		b := unhex(in[2])
		var d []uint64
		if panics(func() {
			d = modbus.VerifBytesToUint64s(modbus.Endianness(atoi(in[0])), modbus.WordOrder(atoi(in[1])), b[:len(b):len(b)])
		}) {
			return "panic"
		}
		return csvu(d)
	}
	executors["dec64sf"] = func(in []string) string {
		b := unhex(in[2])
		var d []float64
		if panics(func() {
			d = modbus.VerifBytesToFloat64s(modbus.Endianness(atoi(in[0])), modbus.WordOrder(atoi(in[1])), b[:len(b):len(b)])
		}) {
			return "panic"
		}
		vs := make([]uint64, len(d))
		for k := range d {
			vs[k] = math.Float64bits(d[k])
		}
		return csvu(vs)
	}
	executors["encb"] = func(in []string) string { return hx(modbus.VerifEncodeBools(unbits(in[0]))) }
	executors["decb"] = func(in []string) string {
		b := unhex(in[1])
		q, _ := strconv.Atoi(in[0])
		var d []bool
		if panics(func() { d = modbus.VerifDecodeBools(uint16(q), b[:len(b):len(b)]) }) {
			return "panic"
		}
		out := bits(d)
		// the result belongs to the caller: overwrite and grow it; later results must not be affected
		for i := range d {
			d[i] = !d[i]
		}
		d = append(d, true, true, true, true, true, true, true, true)
		_ = d
		return out
	}
}

var interesting64 = []uint64{
	0, 1, 0x7f, 0x80, 0xff, 0x100, 0x7fff, 0x8000, 0xffff, 0x10000,
	0x7fffffff, 0x80000000, 0xffffffff, 0x100000000,
	0x7fffffffffffffff, 0x8000000000000000, 0xffffffffffffffff,
	0x0102030405060708, 0x1122334455667788, 0xfffefdfcfbfaf9f8,
	// float32 patterns (low 32 bits): NaN payloads, inf, -0, subnormal
	0x7fc00000, 0x7f800001, 0xffc12345, 0x7f800000, 0xff800000, 0x80000000, 0x00000001,
	// float64 patterns
	0x7ff8000000000000, 0x7ff0000000000001, 0xfff8deadbeef1234, 0x7ff0000000000000,
	0xfff0000000000000, 0x0000000000000001,
}

// exhaustive over all 2^16 values x 2 byte orders, both directions
func scnEnc16(o *Out, r *Rng, thorough bool) {
	for e := 1; e <= 2; e++ {
		for v := 0; v < 65536; v++ {
			o.Run("enc16", itoa(e)+" "+hxu(uint64(v)))
			o.Run("dec16", itoa(e)+" "+hx([]byte{byte(v >> 8), byte(v)}))
		}
		// list version incl. ragged input (must panic exactly on odd length)
		for i := 0; i < 300; i++ {
			n := r.Pick(0, 1, 2, 3, 4, 5, 6, 7, 8, 250, 251)
			if o.Run("dec16s", itoa(e)+" "+hx(r.Bytes(n))) == "panic" {
				o.Stat("dec16s:panic")
			}
		}
	}
}

func values(r *Rng, bitsN uint, n int) []uint64 {
	var vs []uint64
	mask := uint64(1)<<bitsN - 1
	if bitsN == 64 {
		mask = ^uint64(0)
	}
	for _, v := range interesting64 {
		vs = append(vs, v&mask)
	}
	// walking ones / zeros
	for i := uint(0); i < bitsN; i++ {
		vs = append(vs, uint64(1)<<i, mask^(uint64(1)<<i))
	}
	// per-byte-position exhaustion over several backgrounds
	for _, bg := range []uint64{0, mask, 0xa5a5a5a5a5a5a5a5 & mask, 0x0123456789abcdef & mask} {
		for pos := uint(0); pos < bitsN/8; pos++ {
			for b := uint64(0); b < 256; b++ {
				vs = append(vs, (bg&^(0xff<<(8*pos)))|(b<<(8*pos)))
			}
		}
	}
	for i := 0; i < n; i++ {
		vs = append(vs, r.U64()&mask)
	}
	return vs
}

func bebytes(v uint64, n int) []byte {
	b := make([]byte, n)
	for i := 0; i < n; i++ {
		b[n-1-i] = byte(v >> (8 * uint(i)))
	}
	return b
}

func scnWide(o *Out, r *Rng, thorough bool, width int, tag string) {
	n := 6000
	if thorough {
		n = 400000
	}
	vs := values(r, uint(8*width), n)
	for e := 1; e <= 2; e++ {
		for w := 1; w <= 2; w++ {
			pre := itoa(e) + " " + itoa(w) + " "
			for i, v := range vs {
				o.Run("enc"+tag, pre+hxu(v))
				// decode the bytes of the value read as a big-endian string
				o.Run("dec"+tag+"s", pre+hx(bebytes(v, width)))
				// float path: every bit pattern must survive unchanged
				if i < 200 || i%8 == 0 {
					o.Run("enc"+tag+"f", pre+hxu(v))
					o.Run("dec"+tag+"sf", pre+hx(bebytes(v, width)))
				}
			}
			for i := 0; i < 200; i++ {
				k := r.Pick(0, width, 2*width, 3*width, 1, width-1, width+1, 2*width-1, 248)
				if o.Run("dec"+tag+"s", pre+hx(r.Bytes(k))) == "panic" {
					o.Stat("dec" + tag + "s:panic")
				}
			}
		}
	}
}

func scnEnc32(o *Out, r *Rng, thorough bool) { scnWide(o, r, thorough, 4, "32") }
func scnEnc64(o *Out, r *Rng, thorough bool) { scnWide(o, r, thorough, 8, "64") }

func scnBools(o *Out, r *Rng, thorough bool) {
	// all vectors up to 12 bits
	for n := 0; n <= 12; n++ {
		for v := 0; v < 1<<uint(n); v++ {
			l := make([]bool, n)
			for i := range l {
				l[i] = v>>uint(i)&1 == 1
			}
			o.Run("encb", bits(l))
		}
	}
	// every length 0..2001: all-true, all-false, single bit, random
	for n := 0; n <= 2001; n++ {
		for k := 0; k < 4; k++ {
			l := make([]bool, n)
			switch k {
			case 0:
				for i := range l {
					l[i] = true
				}
			case 2:
				if n > 0 {
					l[r.Intn(n)] = true
				}
			case 3:
				for i := range l {
					l[i] = r.Bool()
				}
			}
			o.Run("encb", bits(l))
		}
	}
	// decoding, including quantities that are not multiples of 8 and
	// quantities past the input (must panic)
	reps := 1500
	if thorough {
		reps = 40000
	}
	for i := 0; i < reps; i++ {
		nb := r.Pick(0, 1, 2, 3, 4, 31, 250, 251)
		q := nb*8 - r.Intn(9)
		if r.Intn(10) == 0 {
			q = nb*8 + 1 + r.Intn(8)
		}
		if q < 0 {
			q = 0
		}
		if o.Run("decb", itoa(q)+" "+hx(r.Bytes(nb))) == "panic" {
			o.Stat("decb:panic")
		}
	}
}
