package main

// Property C04 (end to end): one history of typed public client calls on a
// REAL client connected over a REAL socket (plain TCP or TCP+TLS) to a REAL
// server whose handler is backed by four plain tables. The observables are,
// per step, what the caller got and the handler invocations, and at the end
// the handler memory restricted to the cells that were written.

import (
	"crypto/ecdsa"
	"crypto/elliptic"
	"crypto/rand"
	"crypto/tls"
	"crypto/x509"
	"crypto/x509/pkix"
	"fmt"
	"math/big"
	"net"
	"strings"
	"sync"
	"time"

	"github.com/simonvetter/modbus"
)

func init() {
	register("C04", scnE2E)
	executors["e2e"] = runE2E
}

// ---------------------------------------------------------------- handler

type memHandler struct {
	mu         sync.Mutex
	coils      [65536]bool
	discrete   [65536]bool
	holding    [65536]uint16
	input      [65536]uint16
	dirtyCoils [65536]bool
	dirtyRegs  [65536]bool
	log        []string
	failErr    error
	failSkip   int
}

func newMemHandler() *memHandler {
	h := &memHandler{}
	for i := 0; i < 65536; i++ {
		h.discrete[i] = (i*7+i/3)%3 == 0
		h.input[i] = uint16((i*31 + 5) % 65536)
	}
	return h
}

// the failure script: true when this invocation has to fail
func (h *memHandler) scripted() error {
	if h.failErr != nil {
		if h.failSkip == 0 {
			err := h.failErr
			h.failErr = nil
			return err
		}
		h.failSkip--
	}
	return nil
}

func (h *memHandler) note(kind string, unit uint8, addr, qty uint16, w bool, args string) {
	wr := "0"
	if w {
		wr = "1"
	}
	h.log = append(h.log, fmt.Sprintf("C:%s:%d:%d:%d:%s:%s", kind, unit, addr, qty, wr, args))
}

func regArgs(args []uint16) string {
	u := make([]uint64, len(args))
	for i := range args {
		u[i] = uint64(args[i])
	}
	return csvu(u)
}

// the tables have 65536 cells: a request reaching past the last one cannot be
// served from them (the server is expected never to forward such a request)
func pastEnd(addr uint16, n int) bool { return int(addr)+n > 65536 }

func (h *memHandler) HandleCoils(r *modbus.CoilsRequest) ([]bool, error) {
	h.mu.Lock()
	defer h.mu.Unlock()
	h.note("c", r.UnitId, r.Addr, r.Quantity, r.IsWrite, bits(r.Args))
	if err := h.scripted(); err != nil {
		return nil, err
	}
	if pastEnd(r.Addr, int(r.Quantity)) || (r.IsWrite && pastEnd(r.Addr, len(r.Args))) {
		return nil, modbus.ErrIllegalDataAddress
	}
	if r.IsWrite {
		for i, v := range r.Args {
			h.coils[int(r.Addr)+i] = v
			h.dirtyCoils[int(r.Addr)+i] = true
		}
	}
	res := make([]bool, int(r.Quantity))
	copy(res, h.coils[int(r.Addr):int(r.Addr)+int(r.Quantity)])
	return res, nil
}

func (h *memHandler) HandleDiscreteInputs(r *modbus.DiscreteInputsRequest) ([]bool, error) {
	h.mu.Lock()
	defer h.mu.Unlock()
	h.note("d", r.UnitId, r.Addr, r.Quantity, false, "-")
	if err := h.scripted(); err != nil {
		return nil, err
	}
	if pastEnd(r.Addr, int(r.Quantity)) {
		return nil, modbus.ErrIllegalDataAddress
	}
	res := make([]bool, int(r.Quantity))
	copy(res, h.discrete[int(r.Addr):int(r.Addr)+int(r.Quantity)])
	return res, nil
}

func (h *memHandler) HandleHoldingRegisters(r *modbus.HoldingRegistersRequest) ([]uint16, error) {
	h.mu.Lock()
	defer h.mu.Unlock()
	h.note("h", r.UnitId, r.Addr, r.Quantity, r.IsWrite, regArgs(r.Args))
	if err := h.scripted(); err != nil {
		return nil, err
	}
	if pastEnd(r.Addr, int(r.Quantity)) || (r.IsWrite && pastEnd(r.Addr, len(r.Args))) {
		return nil, modbus.ErrIllegalDataAddress
	}
	if r.IsWrite {
		for i, v := range r.Args {
			h.holding[int(r.Addr)+i] = v
			h.dirtyRegs[int(r.Addr)+i] = true
		}
	}
	res := make([]uint16, int(r.Quantity))
	copy(res, h.holding[int(r.Addr):int(r.Addr)+int(r.Quantity)])
	return res, nil
}

func (h *memHandler) HandleInputRegisters(r *modbus.InputRegistersRequest) ([]uint16, error) {
	h.mu.Lock()
	defer h.mu.Unlock()
	h.note("i", r.UnitId, r.Addr, r.Quantity, false, "-")
	if err := h.scripted(); err != nil {
		return nil, err
	}
	if pastEnd(r.Addr, int(r.Quantity)) {
		return nil, modbus.ErrIllegalDataAddress
	}
	res := make([]uint16, int(r.Quantity))
	copy(res, h.input[int(r.Addr):int(r.Addr)+int(r.Quantity)])
	return res, nil
}

// the memory restricted to the dirty cells: "M <coilruns> <regruns>"
func (h *memHandler) dump() string {
	h.mu.Lock()
	defer h.mu.Unlock()
	var cr, rr []string
	for i := 0; i < 65536; {
		if !h.dirtyCoils[i] {
			i++
			continue
		}
		j := i
		for j < 65536 && h.dirtyCoils[j] {
			j++
		}
		cr = append(cr, hxi(i)+":"+bits(h.coils[i:j]))
		i = j
	}
	for i := 0; i < 65536; {
		if !h.dirtyRegs[i] {
			i++
			continue
		}
		j := i
		for j < 65536 && h.dirtyRegs[j] {
			j++
		}
		u := make([]uint64, j-i)
		for k := i; k < j; k++ {
			u[k-i] = uint64(h.holding[k])
		}
		rr = append(rr, hxi(i)+":"+csvu(u))
		i = j
	}
	cs, rs := "-", "-"
	if len(cr) > 0 {
		cs = strings.Join(cr, "/")
	}
	if len(rr) > 0 {
		rs = strings.Join(rr, "/")
	}
	return "M " + cs + " " + rs
}

// ---------------------------------------------------------------- TLS material

type e2eTLS struct {
	serverCert *tls.Certificate
	clientCert *tls.Certificate
	pool       *x509.CertPool
	err        error
}

var (
	e2eTLSOnce sync.Once
	e2eTLSMat  e2eTLS
)

func e2eTLSMaterial() *e2eTLS {
	e2eTLSOnce.Do(func() {
		m := &e2eTLSMat
		notBefore := time.Now().Add(-time.Hour)
		notAfter := time.Now().Add(240 * time.Hour)

		caKey, err := ecdsa.GenerateKey(elliptic.P256(), rand.Reader)
		if err != nil {
			m.err = err
			return
		}
		caTpl := &x509.Certificate{
			SerialNumber:          big.NewInt(1),
			Subject:               pkix.Name{CommonName: "verif e2e CA"},
			NotBefore:             notBefore,
			NotAfter:              notAfter,
			IsCA:                  true,
			BasicConstraintsValid: true,
			KeyUsage:              x509.KeyUsageCertSign | x509.KeyUsageDigitalSignature,
		}
		caDer, err := x509.CreateCertificate(rand.Reader, caTpl, caTpl, &caKey.PublicKey, caKey)
		if err != nil {
			m.err = err
			return
		}
		caCert, err := x509.ParseCertificate(caDer)
		if err != nil {
			m.err = err
			return
		}
		m.pool = x509.NewCertPool()
		m.pool.AddCert(caCert)

		leaf := func(serial int64, cn string, tpl *x509.Certificate) (*tls.Certificate, error) {
			key, err := ecdsa.GenerateKey(elliptic.P256(), rand.Reader)
			if err != nil {
				return nil, err
			}
			tpl.SerialNumber = big.NewInt(serial)
			tpl.Subject = pkix.Name{CommonName: cn}
			tpl.NotBefore = notBefore
			tpl.NotAfter = notAfter
			tpl.KeyUsage = x509.KeyUsageDigitalSignature
			tpl.BasicConstraintsValid = true
			der, err := x509.CreateCertificate(rand.Reader, tpl, caCert, &key.PublicKey, caKey)
			if err != nil {
				return nil, err
			}
			return &tls.Certificate{Certificate: [][]byte{der}, PrivateKey: key}, nil
		}
		m.serverCert, err = leaf(2, "verif e2e server", &x509.Certificate{
			IPAddresses: []net.IP{net.IPv4(127, 0, 0, 1)},
			DNSNames:    []string{"localhost"},
			ExtKeyUsage: []x509.ExtKeyUsage{x509.ExtKeyUsageServerAuth},
		})
		if err != nil {
			m.err = err
			return
		}
		m.clientCert, err = leaf(3, "verif e2e client", &x509.Certificate{
			ExtKeyUsage: []x509.ExtKeyUsage{x509.ExtKeyUsageClientAuth},
		})
		if err != nil {
			m.err = err
			return
		}
	})
	return &e2eTLSMat
}

// ---------------------------------------------------------------- executor

// e2e: scheme e w { ; [fail k errname] (op... | setunit u | setenc e w) }*
//   -> per step "result calls" joined by ";" then ";M coilruns regruns"
func runE2E(in []string) string {
	done := make(chan string, 1)
	go func() {
		defer func() {
			if r := recover(); r != nil {
				done <- "panic"
			}
		}()
		done <- runE2EHistory(in)
	}()
	select {
	case s := <-done:
		return s
	case <-time.After(60 * time.Second):
		return "harness-error:timeout"
	}
}

func runE2EHistory(in []string) string {
	if len(in) < 3 {
		return "harness-error:bad-input"
	}
	useTLS := in[0] == "tls"
	if !useTLS && in[0] != "tcp" {
		return "harness-error:bad-scheme"
	}
	h := newMemHandler()

	sconf := &modbus.ServerConfiguration{URL: "tcp://127.0.0.1:0", Timeout: 10 * time.Second, MaxClients: 2, Logger: quiet}
	var mat *e2eTLS
	if useTLS {
		mat = e2eTLSMaterial()
		if mat.err != nil {
			return "harness-error:tls-material:" + mat.err.Error()
		}
		sconf.URL = "tcp+tls://127.0.0.1:0"
		sconf.TLSServerCert = mat.serverCert
		sconf.TLSClientCAs = mat.pool
	}
	srv, err := modbus.NewServer(sconf, h)
	if err != nil {
		return "harness-error:newserver:" + err.Error()
	}
	if err := srv.Start(); err != nil {
		return "harness-error:start:" + err.Error()
	}
	defer srv.Stop()
	la := srv.VerifListenAddr()
	if la == nil {
		return "harness-error:no-listen-addr"
	}
	addr := la.String()

	cconf := &modbus.ClientConfiguration{URL: "tcp://" + addr, Timeout: 3 * time.Second, Logger: quiet}
	if useTLS {
		cconf.URL = "tcp+tls://" + addr
		cconf.TLSClientCert = mat.clientCert
		cconf.TLSRootCAs = mat.pool
	}
	mc, err := modbus.NewClient(cconf)
	if err != nil {
		return "harness-error:newclient:" + err.Error()
	}
	if err := mc.Open(); err != nil {
		return "harness-error:open:" + err.Error()
	}
	defer mc.Close()
	if err := mc.SetEncoding(modbus.Endianness(unhx(in[1])), modbus.WordOrder(unhx(in[2]))); err != nil {
		return "harness-error:initial-encoding"
	}

	// split into steps: every step is introduced by ";"
	var steps [][]string
	for _, t := range in[3:] {
		if t == ";" {
			steps = append(steps, []string{})
		} else if len(steps) == 0 {
			return "harness-error:bad-input"
		} else {
			steps[len(steps)-1] = append(steps[len(steps)-1], t)
		}
	}

	var outs []string
	for _, st := range steps {
		var ferr error
		fskip := 0
		if len(st) >= 3 && st[0] == "fail" {
			fskip = atoi(st[1])
			ferr = behErr(st[2])
			st = st[3:]
		}
		h.mu.Lock()
		h.failErr, h.failSkip = ferr, fskip
		n0 := len(h.log)
		h.mu.Unlock()

		var res string
		switch {
		case len(st) == 2 && st[0] == "setunit":
			mc.SetUnitId(uint8(unhx(st[1])))
			res = "ok:u"
		case len(st) == 3 && st[0] == "setenc":
			res = resStr("u", mc.SetEncoding(modbus.Endianness(unhx(st[1])), modbus.WordOrder(unhx(st[2]))))
		default:
			res = callOp(mc, st)
		}

		h.mu.Lock()
		h.failErr, h.failSkip = nil, 0
		calls := "-"
		if len(h.log) > n0 {
			calls = strings.Join(h.log[n0:], "+")
		}
		h.mu.Unlock()
		outs = append(outs, res+" "+calls)
	}
	outs = append(outs, h.dump())
	return strings.Join(outs, ";")
}

// ---------------------------------------------------------------- generator

var e2eErrNames = []string{"e1", "e2", "e3", "e4", "e5", "e6", "e8", "e10", "e11", "eproto", "eother"}

// a write generated earlier in the history (valid ones only)
type e2eWrite struct {
	coil   bool
	addr   int
	count  int // coils or registers
	width  int // registers per value: 1, 2, 4; 0 = byte string
	nbytes int
	raw    bool
	float  bool
}

func e2eWriteInfo(t []string) (w e2eWrite, ok bool) {
	if len(t) < 3 || !strings.HasPrefix(t[0], "Write") {
		return
	}
	w.addr = int(unhx(t[1]))
	w.float = strings.Contains(t[0], "Float")
	lim := 123
	switch t[0] {
	case "WriteCoil":
		w.coil, w.count, lim = true, 1, 1968
	case "WriteCoils":
		w.coil, w.count, lim = true, len(boolsTok(t[2])), 1968
	case "WriteRegister":
		w.count, w.width = 1, 1
	case "WriteRegisters":
		w.count, w.width = len(numsTok(t[2])), 1
	case "WriteUint32", "WriteFloat32":
		w.count, w.width = 2, 2
	case "WriteUint32s", "WriteFloat32s":
		w.count, w.width = 2*len(numsTok(t[2])), 2
	case "WriteUint64", "WriteFloat64":
		w.count, w.width = 4, 4
	case "WriteUint64s", "WriteFloat64s":
		w.count, w.width = 4*len(numsTok(t[2])), 4
	case "WriteBytes", "WriteRawBytes":
		w.nbytes = len(bytesTok(t[2]))
		w.count, w.width, w.raw = (w.nbytes+1)/2, 0, t[0] == "WriteRawBytes"
	default:
		return
	}
	ok = w.count >= 1 && w.count <= lim && w.addr+w.count-1 <= 0xffff
	return
}

func e2eVal(r *Rng, bitsN uint) uint64 {
	mask := ^uint64(0)
	if bitsN < 64 {
		mask = uint64(1)<<bitsN - 1
	}
	if r.Intn(5) < 2 {
		return interesting64[r.Intn(len(interesting64))] & mask
	}
	return r.U64() & mask
}

func e2eVals(r *Rng, n int, bitsN uint) string {
	p := make([]string, n)
	for i := range p {
		p[i] = hxu(e2eVal(r, bitsN))
	}
	return strings.Join(p, ",")
}

// a typed call close to the hot address, within 0..0xffff
func e2eFocused(r *Rng, hot int) []string {
	off := r.Intn(9)
	at := func(n int) string {
		a := hot + off
		if r.Intn(8) == 0 {
			a = 0xfffc + r.Intn(4)
		}
		if a+n-1 > 0xffff {
			a = 0x10000 - n
		}
		return hxi(a)
	}
	rt := func() string { return itoa(r.Pick(0, 0, 0, 1)) }
	uf := func(u, f string) string {
		if r.Bool() {
			return u
		}
		return f
	}
	switch r.Intn(30) {
	case 0:
		return []string{"WriteCoil", at(1), itoa(r.Intn(2))}
	case 1, 2, 3:
		n := 1 + r.Intn(40)
		return []string{"WriteCoils", at(n), randBits(r, n)}
	case 4:
		return []string{"WriteRegister", at(1), hxu(e2eVal(r, 16))}
	case 5, 6:
		n := 1 + r.Intn(8)
		return []string{"WriteRegisters", at(n), e2eVals(r, n, 16)}
	case 7, 8:
		return []string{uf("WriteUint32", "WriteFloat32"), at(2), hxu(e2eVal(r, 32))}
	case 9, 10:
		n := 1 + r.Intn(4)
		return []string{uf("WriteUint32s", "WriteFloat32s"), at(2 * n), e2eVals(r, n, 32)}
	case 11, 12:
		return []string{uf("WriteUint64", "WriteFloat64"), at(4), hxu(e2eVal(r, 64))}
	case 13, 14:
		n := 1 + r.Intn(3)
		return []string{uf("WriteUint64s", "WriteFloat64s"), at(4 * n), e2eVals(r, n, 64)}
	case 15, 16, 17:
		n := 1 + r.Intn(17)
		return []string{uf("WriteBytes", "WriteRawBytes"), at((n + 1) / 2), hx(r.Bytes(n))}
	case 18:
		n := 1 + r.Intn(40)
		return []string{"ReadCoils", at(n), hxi(n)}
	case 19:
		return []string{"ReadCoil", at(1)}
	case 20:
		n := 1 + r.Intn(40)
		return []string{"ReadDiscreteInputs", at(n), hxi(n)}
	case 21:
		return []string{"ReadDiscreteInput", at(1)}
	case 22:
		n := 1 + r.Intn(8)
		return []string{"ReadRegisters", at(n), hxi(n), rt()}
	case 23:
		return []string{"ReadRegister", at(1), rt()}
	case 24:
		return []string{uf("ReadUint32", "ReadFloat32"), at(2), rt()}
	case 25:
		n := 1 + r.Intn(4)
		return []string{uf("ReadUint32s", "ReadFloat32s"), at(2 * n), hxi(n), rt()}
	case 26:
		return []string{uf("ReadUint64", "ReadFloat64"), at(4), rt()}
	case 27:
		n := 1 + r.Intn(3)
		return []string{uf("ReadUint64s", "ReadFloat64s"), at(4 * n), hxi(n), rt()}
	default:
		n := 1 + r.Intn(17)
		return []string{uf("ReadBytes", "ReadRawBytes"), at((n + 1) / 2), hxi(n), rt()}
	}
}

// read an earlier write back: with the matching typed read, or deliberately
// with another width / as bytes / as single registers
func e2eReadBack(r *Rng, w e2eWrite) []string {
	a, n := w.addr, w.count
	uf := func(u, f string, float bool) string {
		if float {
			return f
		}
		return u
	}
	if w.coil {
		switch r.Intn(4) {
		case 0, 1:
			return []string{"ReadCoils", hxi(a), hxi(n)}
		case 2:
			return []string{"ReadCoil", hxi(a + r.Intn(n))}
		}
		a2, n2 := a, n+2
		if a2 > 0 {
			a2--
		}
		if n2 > 2000 {
			n2 = 2000
		}
		if a2+n2-1 > 0xffff {
			n2 = 0x10000 - a2
		}
		return []string{"ReadCoils", hxi(a2), hxi(n2)}
	}
	regs := func() []string { return []string{"ReadRegisters", hxi(a), hxi(n), "0"} }
	if r.Bool() {
		// the matching typed read
		switch w.width {
		case 1:
			if n == 1 && r.Bool() {
				return []string{"ReadRegister", hxi(a), "0"}
			}
			return regs()
		case 2:
			if n == 2 && r.Bool() {
				return []string{uf("ReadUint32", "ReadFloat32", w.float), hxi(a), "0"}
			}
			return []string{uf("ReadUint32s", "ReadFloat32s", w.float), hxi(a), hxi(n / 2), "0"}
		case 4:
			if n == 4 && r.Bool() {
				return []string{uf("ReadUint64", "ReadFloat64", w.float), hxi(a), "0"}
			}
			return []string{uf("ReadUint64s", "ReadFloat64s", w.float), hxi(a), hxi(n / 4), "0"}
		default:
			if w.raw {
				return []string{"ReadRawBytes", hxi(a), hxi(w.nbytes), "0"}
			}
			return []string{"ReadBytes", hxi(a), hxi(w.nbytes), "0"}
		}
	}
	// another view of the same registers
	switch r.Intn(11) {
	case 0:
		return regs()
	case 1:
		return []string{"ReadBytes", hxi(a), hxi(2 * n), "0"}
	case 2:
		return []string{"ReadRawBytes", hxi(a), hxi(2 * n), "0"}
	case 3:
		return []string{"ReadBytes", hxi(a), hxi(2*n - 1), "0"}
	case 4:
		return []string{"ReadRegister", hxi(a + r.Intn(n)), "0"}
	case 5:
		if n >= 2 {
			return []string{uf("ReadUint32s", "ReadFloat32s", r.Bool()), hxi(a), hxi(n / 2), "0"}
		}
	case 6:
		if n >= 4 {
			return []string{uf("ReadUint64s", "ReadFloat64s", r.Bool()), hxi(a), hxi(n / 4), "0"}
		}
	case 7:
		// misaligned with respect to the write
		if a+2 <= 0xffff {
			return []string{uf("ReadUint32", "ReadFloat32", r.Bool()), hxi(a + 1), "0"}
		}
	case 8:
		if a+4 <= 0xffff {
			return []string{uf("ReadUint64", "ReadFloat64", r.Bool()), hxi(a + 1), "0"}
		}
	case 9:
		// the input registers at the same addresses are a different table
		return []string{"ReadRegisters", hxi(a), hxi(n), "1"}
	case 10:
		if n >= 2 {
			return []string{"ReadRawBytes", hxi(a), hxi(2*n - 1), "0"}
		}
	}
	return regs()
}

func e2eLenBucket(n int) string {
	switch {
	case n <= 1:
		return "len:01"
	case n <= 3:
		return "len:02-03"
	case n <= 10:
		return "len:04-10"
	case n <= 20:
		return "len:11-20"
	case n <= 40:
		return "len:21-40"
	}
	return "len:41-60"
}

func e2eHistory(o *Out, r *Rng, scheme string) string {
	toks := []string{scheme, itoa(1 + r.Intn(2)), itoa(1 + r.Intn(2))}
	n := r.Pick(1, 2, 3, 5, 10, 20, 40, 60, 1+r.Intn(60))
	o.Stat("scheme:" + scheme)
	o.Stat(e2eLenBucket(n))
	hot := r.Pick(0, 1, 0x7ffe, 0xff00, 0xfff0, 0xfffc, 0xfffd, 0xfffe, 0xffff, r.Intn(65536))
	var writes []e2eWrite

	setenc := func(valid bool) {
		e, w := 1+r.Intn(2), 1+r.Intn(2)
		if !valid {
			bad := func() int { return r.Pick(0, 3, 255) }
			switch r.Intn(3) {
			case 0:
				e = bad()
			case 1:
				w = bad()
			default:
				e, w = bad(), bad()
			}
			o.Stat("step:setenc:invalid")
		}
		o.Stat("step:setenc")
		toks = append(toks, ";", "setenc", hxi(e), hxi(w))
	}

	for k := 0; k < n; k++ {
		x := r.Intn(100)
		if x < 7 {
			o.Stat("step:setunit")
			toks = append(toks, ";", "setunit", hxi(r.Pick(0, 1, 17, 247, 255, r.Intn(256))))
			continue
		}
		if x < 14 {
			setenc(r.Intn(5) != 0)
			continue
		}
		var op []string
		y := r.Intn(100)
		switch {
		case y < 30:
			op = randOp(r, opValid)
			o.Stat("gen:valid")
		case y < 38:
			op = randOp(r, opAny)
			o.Stat("gen:any")
		case y < 68 || len(writes) == 0:
			op = e2eFocused(r, hot)
			o.Stat("gen:focused")
		default:
			if r.Intn(6) == 0 && k+1 < n {
				// change the encoding between the write and its read-back
				setenc(true)
				k++
			}
			op = e2eReadBack(r, writes[r.Intn(len(writes))])
			o.Stat("gen:readback")
		}
		o.Stat("op:" + op[0])
		toks = append(toks, ";")
		if r.Intn(10) == 0 {
			fk := 0
			if r.Intn(4) == 0 {
				fk = 1
			}
			o.Stat("step:fail")
			o.Stat("step:fail:k" + itoa(fk))
			toks = append(toks, "fail", itoa(fk), e2eErrNames[r.Intn(len(e2eErrNames))])
		}
		toks = append(toks, op...)
		if w, ok := e2eWriteInfo(op); ok {
			writes = append(writes, w)
		}
	}
	return strings.Join(toks, " ")
}

func scnE2E(o *Out, r *Rng, thorough bool) {
	n, every := 300, 5 // 240 tcp + 60 tls
	if thorough {
		n, every = 6000, 6 // 5000 tcp + 1000 tls
	}
	ins := make([]string, 0, n)
	for i := 0; i < n; i++ {
		scheme := "tcp"
		if i%every == every-1 {
			scheme = "tls"
		}
		ins = append(ins, e2eHistory(o, r, scheme))
	}
	outs := o.RunMany("e2e", ins)
	for _, out := range outs {
		if strings.HasPrefix(out, "harness-error") || out == "panic" {
			o.Stat("case:" + out)
			continue
		}
		parts := strings.Split(out, ";")
		for _, p := range parts[:len(parts)-1] {
			res := p
			if i := strings.IndexByte(p, ' '); i >= 0 {
				res = p[:i]
			}
			switch {
			case strings.HasPrefix(res, "ok:"):
				o.Stat("res:ok")
			case strings.HasPrefix(res, "err:"):
				o.Stat("res:" + res)
			default:
				o.Stat("res:" + res)
			}
		}
	}
}
