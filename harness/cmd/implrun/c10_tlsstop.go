package main

// C10 on tcp+tls servers - Stop / Start with client connections in every
// phase of becoming a session.
//
// The property: when Stop returns EVERY client connection has been closed, no
// request sent afterwards reaches a handler, no server goroutine outlives
// Stop, Start after Stop serves again on the same address, repeated Start /
// Stop are no-ops. On a tcp+tls server a client connection is, for a while,
// not a session yet: the scenario runs lifecycle traces with peers that are
//
//   silent        TCP connected, handshake not started            (N)
//   hello         a real ClientHello sent, then stalled            (H)
//   established   handshake complete, idle between requests        (L, R)
//   mid-request   handshake complete, first bytes of a request sent (M)
//   taken         accepted by the accept goroutine, which is held between
//                 Accept and the admission step                    (T ... E)
//
// when Stop (P) runs, and probes every one of them afterwards.
//
// scenario "tlsstop": maxc op...
//   a real modbus.NewServer("tcp+tls://<fixed loopback address>", MaxClients
//   = maxc, Timeout = 30 s) with a counting handler and the certificates of
//   c14.go. One output token per operation, then "calls=<handler invocations
//   of the whole trace>". <snap> = started/len(active list)/a<live accept
//   goroutines>/h<live session goroutines (handleTCPClient, incl. startTLS)>.
//
//   S                 Start                  -> "ok:<snap>" | "err:<snap>"
//   P                 Stop; after it returned every connection the harness
//                     holds open (except a taken one) is read until the peer
//                     sees EOF / reset, with a generous grace period
//                     -> "<snap>:<id><c|o>,..." (c closed, o still open; "-" none)
//                        prefixed by "err:" if Stop returned an error; "panic"
//   N<i>              peer i opens a TCP connection and says nothing
//                     -> "refused" (dial failed) | "<snap>:s" (enrolled) |
//                        "<snap>:c" (turned away and closed) | "<snap>:o" (turned away, left open)
//   T<i>              as N, but the accept goroutine is held right after Accept
//                     -> "taken" | "refused"
//   E                 the held accept goroutine runs its admission step
//                     -> "<snap>:s|c|o" as for N
//   H<i>:<cred>:<ver> peer i sends its ClientHello and stalls      -> "hello"
//   L<i>:<cred>:<ver> peer i runs (the rest of) the handshake with a credential
//                     the server must accept                      -> "ok" | "refused"
//   M<i>:<k>          session i sends the first k bytes of a request and stalls
//                     -> "part" | "closed"
//   R<i>              session i sends (the rest of) a request
//                     -> "resp+<handler calls during the op>" | "closed+<k>" | "noresp+<k>"
//   D<i>              peer i disconnects                           -> "<snap>"
//
// The expected tokens are computed by the extracted model of
// Model/TlsLife.v (ocaml/scn_tlsstop.ml); theorems in Properties/C10d.v.

import (
	"bytes"
	"crypto/tls"
	"fmt"
	"io"
	"net"
	"os"
	"runtime"
	"runtime/debug"
	"sort"
	"strings"
	"sync"
	"time"

	"github.com/simonvetter/modbus"
)

func init() {
	register("C10", scnTLSStop)
	executors["tlsstop"] = runTLSStop
}

// grace periods: one-sided (the unchanged library needs a few milliseconds);
// they only turn "never" into a failing case
const (
	tlGrace     = 3 * time.Second  // a peer must see EOF / reset this long after Stop returned at the latest
	tlSettle    = 3 * time.Second  // goroutines and the active list must have settled by then
	tlHandshake = 10 * time.Second // watchdog of one handshake / request
)

// gatedConn is the peer's side of a connection. Reads made by the TLS client
// wait for the gate (a peer that has sent its ClientHello and does not go on),
// and take what the harness has already read from the socket while it looked
// for EOF, so that looking does not lose bytes.
type gatedConn struct {
	net.Conn
	mu     sync.Mutex
	buf    []byte
	gate   chan struct{}
	opened bool
	wrote  chan struct{} // signalled after every Write
}

func newGatedConn(c net.Conn) *gatedConn {
	return &gatedConn{Conn: c, gate: make(chan struct{}), wrote: make(chan struct{}, 64)}
}

func (g *gatedConn) open() {
	g.mu.Lock()
	if !g.opened {
		g.opened = true
		close(g.gate)
	}
	g.mu.Unlock()
}

func (g *gatedConn) Read(p []byte) (int, error) {
	<-g.gate
	g.mu.Lock()
	if len(g.buf) > 0 {
		n := copy(p, g.buf)
		g.buf = g.buf[n:]
		g.mu.Unlock()
		return n, nil
	}
	g.mu.Unlock()
	return g.Conn.Read(p)
}

func (g *gatedConn) Write(p []byte) (int, error) {
	n, err := g.Conn.Write(p)
	select {
	case g.wrote <- struct{}{}:
	default:
	}
	return n, err
}

// sawClose reads from the socket (keeping what arrives) until it fails;
// true: the server closed the connection (EOF / reset) within d
func (g *gatedConn) sawClose(d time.Duration) bool {
	g.Conn.SetReadDeadline(time.Now().Add(d))
	defer g.Conn.SetReadDeadline(time.Time{})
	b := make([]byte, 4096)
	for {
		n, err := g.Conn.Read(b)
		g.mu.Lock()
		g.buf = append(g.buf, b[:n]...)
		full := len(g.buf) > 1<<20
		g.mu.Unlock()
		if err != nil {
			return !os.IsTimeout(err)
		}
		if full {
			return false
		}
	}
}

type tlPeer struct {
	g       *gatedConn
	tc      *tls.Conn
	hsDone  chan error // result of the handshake goroutine, when one was started
	served  bool       // the admission step put it on the active list (and no Stop since)
	session bool       // its handshake completed
	dead    bool       // the peer has seen EOF / reset
	pending int        // bytes of a request already sent
}

// tlGoroutines counts the live accept and session goroutines of the library
// (steered scenarios run one at a time: the buffer is reused, the collector is off during a trace)
var tlStackBuf = make([]byte, 1<<21)

func tlGoroutines() (acc, sess int) {
	n := runtime.Stack(tlStackBuf, true)
	s := tlStackBuf[:n]
	return bytes.Count(s, []byte("(*ModbusServer).acceptTCPClients(")), bytes.Count(s, []byte("(*ModbusServer).handleTCPClient("))
}

func runTLSStop(in []string) (out string) {
	steerMu.Lock()
	defer steerMu.Unlock()
	defer func() {
		if r := recover(); r != nil {
			out = fmt.Sprintf("panic:%v", r)
		}
	}()
	// see runSlots: keep finalizers from closing sockets behind the server's back
	defer debug.SetGCPercent(debug.SetGCPercent(-1))

	// steering: hold the accept goroutine after Accept on request, signal every admission step
	var ymu sync.Mutex
	holdTaken := false
	takenCh := make(chan struct{}, 8)
	releaseAcc := make(chan struct{}, 1)
	enrolled := make(chan struct{}, 256)
	modbus.VerifSetYield(func(point string) {
		switch point {
		case "accept:taken":
			ymu.Lock()
			hold := holdTaken
			holdTaken = false
			ymu.Unlock()
			if hold {
				takenCh <- struct{}{}
				<-releaseAcc
			}
		case "accept:enrolled":
			select {
			case enrolled <- struct{}{}:
			default:
			}
		}
	})
	defer modbus.VerifSetYield(nil)

	maxc := atoi(in[0])
	addr, err := fixedAddr()
	if err != nil {
		return "harness-error:" + err.Error()
	}
	pki := c14GetPKI("ec")
	h := &countHandler{}
	srv, err := modbus.NewServer(&modbus.ServerConfiguration{
		URL:           "tcp+tls://" + addr,
		MaxClients:    uint(maxc),
		TLSServerCert: pki.srvValid,
		TLSClientCAs:  pki.caPool,
		Timeout:       30 * time.Second,
		Logger:        quiet,
	}, h)
	if err != nil {
		return "harness-error:newserver:" + err.Error()
	}
	stop := func() (res string) {
		defer func() {
			if r := recover(); r != nil {
				res = "panic"
			}
		}()
		if err := srv.Stop(); err != nil {
			return "err:"
		}
		return ""
	}

	peers := map[int]*tlPeer{}
	heldAcc := -1
	heldZombie := false // the held accept goroutine belongs to a generation that was stopped
	defer func() {
		if heldAcc >= 0 {
			releaseAcc <- struct{}{}
		}
		stop()
		for _, p := range peers {
			p.g.Conn.Close()
			p.g.open()
		}
		for _, p := range peers {
			if p.hsDone != nil {
				waitErr(p.hsDone, time.Second)
			}
		}
	}()

	calls := func() int { h.mu.Lock(); defer h.mu.Unlock(); return h.calls }
	// once a watchdog has expired the case has failed: do not pay for the others
	settle, grace := tlSettle, tlGrace
	// snapshot once the server has settled: one session goroutine per member of
	// the active list, the accept goroutines the lifecycle leaves (and the
	// wanted list length when the harness is waiting for a removal)
	snapshot := func(wantN int) string {
		end := time.Now().Add(settle)
		for {
			st, n, _ := srv.VerifServerSnapshot()
			a, hs := tlGoroutines()
			wantA := 0
			if st {
				wantA++
			}
			if heldZombie {
				wantA++
			}
			if (hs == n && a == wantA && (wantN < 0 || n == wantN)) || !time.Now().Before(end) {
				if !(hs == n && a == wantA && (wantN < 0 || n == wantN)) {
					settle, grace = 100*time.Millisecond, 100*time.Millisecond
				}
				s := "0"
				if st {
					s = "1"
				}
				return fmt.Sprintf("%s/%d/a%d/h%d", s, n, a, hs)
			}
			time.Sleep(2 * time.Millisecond)
		}
	}
	count := func() int { _, n, _ := srv.VerifServerSnapshot(); return n }
	sawClose := func(p *tlPeer) string {
		if p.g.sawClose(grace) {
			p.dead = true
			return "c"
		}
		grace = 100 * time.Millisecond
		return "o"
	}
	dial := func(i int) bool {
		c, err := net.DialTimeout("tcp", addr, 2*time.Second)
		if err != nil {
			return false
		}
		peers[i] = &tlPeer{g: newGatedConn(c)}
		return true
	}
	// the admission step has run for peer i: enrolled, or turned away (and then it must be closed)
	admitted := func(i int, before int) string {
		p := peers[i]
		if count() > before {
			p.served = true
			return snapshot(before+1) + ":s"
		}
		return snapshot(before) + ":" + sawClose(p)
	}
	startHandshake := func(p *tlPeer, credName, ver string) bool {
		cred := pki.clients[credName]
		if cred == nil || !tsAcceptable(pki, cred, ver) {
			return false
		}
		p.tc = tls.Client(p.g, tsClientConf(pki, cred.cert, ver))
		p.hsDone = make(chan error, 1)
		go func(tc *tls.Conn, done chan error) { done <- tc.Handshake() }(p.tc, p.hsDone)
		return true
	}

	var outs []string
	for _, op := range in[1:] {
		f := strings.Split(op, ":")
		kind := f[0][0]
		i := 0
		if len(f[0]) > 1 {
			i = atoi(f[0][1:])
		}
		p := peers[i]
		calls0 := calls()
		switch kind {
		case 'S':
			res := "ok:"
			if err := srv.Start(); err != nil {
				res = "err:"
			}
			outs = append(outs, res+snapshot(-1))
		case 'P':
			wasStarted, _, _ := srv.VerifServerSnapshot()
			res := stop()
			if res == "panic" {
				outs = append(outs, res)
				break
			}
			if wasStarted && heldAcc >= 0 {
				heldZombie = true
			}
			// every connection the harness still holds, in every phase: closed?
			var ids []int
			for id := range peers {
				if id != heldAcc {
					ids = append(ids, id)
				}
			}
			sort.Ints(ids)
			flags := make([]string, len(ids))
			var wg sync.WaitGroup
			g0 := grace
			for k, id := range ids {
				wg.Add(1)
				go func(k int, q *tlPeer) {
					defer wg.Done()
					if q.g.sawClose(g0) {
						flags[k] = itoa(ids[k]) + "c"
					} else {
						flags[k] = itoa(ids[k]) + "o"
					}
				}(k, peers[id])
			}
			wg.Wait()
			for k, id := range ids {
				peers[id].served = false
				if strings.HasSuffix(flags[k], "o") {
					grace = 100 * time.Millisecond
				} else {
					peers[id].dead = true
				}
			}
			fl := "-"
			if len(flags) > 0 {
				fl = strings.Join(flags, ",")
			}
			outs = append(outs, res+snapshot(0)+":"+fl)
		case 'N':
			before := count()
			if !dial(i) {
				outs = append(outs, "refused")
				break
			}
			waitSig(enrolled, settle)
			outs = append(outs, admitted(i, before))
		case 'T':
			ymu.Lock()
			holdTaken = true
			ymu.Unlock()
			if !dial(i) {
				ymu.Lock()
				holdTaken = false
				ymu.Unlock()
				outs = append(outs, "refused")
				break
			}
			if !waitSig(takenCh, 3*time.Second) {
				return "harness-error:no-taken-yield"
			}
			heldAcc = i
			outs = append(outs, "taken")
		case 'E':
			if heldAcc < 0 {
				outs = append(outs, snapshot(-1)+":-")
				break
			}
			before := count()
			j := heldAcc
			releaseAcc <- struct{}{}
			waitSig(enrolled, settle)
			heldAcc, heldZombie = -1, false
			outs = append(outs, admitted(j, before))
		case 'H':
			if p != nil && p.tc == nil && len(f) == 3 {
				if !startHandshake(p, f[1], f[2]) {
					return "harness-error:not-a-legitimate-credential:" + op
				}
				// the ClientHello has left (or the socket refused it)
				select {
				case <-p.g.wrote:
				case err := <-p.hsDone:
					p.hsDone <- err
				case <-time.After(tlHandshake):
					return "harness-error:clienthello-not-written"
				}
			}
			outs = append(outs, "hello")
		case 'L':
			res := "refused"
			if p != nil && !p.session && i != heldAcc {
				if p.tc == nil {
					if len(f) != 3 || !startHandshake(p, f[1], f[2]) {
						return "harness-error:not-a-legitimate-credential:" + op
					}
				}
				// a refusal shows as a closed socket, not as a timeout: the deadline
				// only turns a hang into a failing case
				p.g.Conn.SetDeadline(time.Now().Add(tlHandshake))
				p.g.open()
				if herr, ok := waitErr(p.hsDone, tlHandshake+time.Second); ok {
					p.hsDone <- herr
					// a TLS 1.3 client that has the server's flight completes its side
					// of the handshake without hearing from the server again: on a
					// connection the peer has already seen closed that is not a session
					if herr == nil && !p.dead {
						res = "ok"
						p.session = true
					}
				}
				p.g.Conn.SetDeadline(time.Time{})
			}
			outs = append(outs, res)
		case 'M':
			res := "closed"
			if p != nil && p.session && p.served {
				k := atoi(f[1])
				if k < 1 || k >= len(probeReq) {
					return "harness-error:bad-op:" + op
				}
				if p.pending == 0 {
					p.tc.SetWriteDeadline(time.Now().Add(tlHandshake))
					p.tc.Write(probeReq[:k])
					p.tc.SetWriteDeadline(time.Time{})
					p.pending = k
				}
				res = "part"
			}
			outs = append(outs, res)
		case 'R':
			res := "closed"
			if p != nil && p.session {
				res = tlRequest(p)
			}
			outs = append(outs, res+"+"+itoa(calls()-calls0))
		case 'D':
			before := count()
			if p != nil {
				if p.session {
					p.tc.SetWriteDeadline(time.Now().Add(time.Second))
					p.tc.Close() // close_notify, then the socket
				}
				p.g.Conn.Close()
				p.g.open()
				if p.hsDone != nil {
					waitErr(p.hsDone, time.Second)
				}
				want := -1
				if p.served {
					want = before - 1
				}
				delete(peers, i)
				outs = append(outs, snapshot(want))
				break
			}
			outs = append(outs, snapshot(-1))
		default:
			return "harness-error:bad-op:" + op
		}
	}
	outs = append(outs, "calls="+itoa(calls()))
	return strings.Join(outs, " ")
}

func waitErr(ch chan error, d time.Duration) (error, bool) {
	select {
	case e := <-ch:
		return e, true
	case <-time.After(d):
		return nil, false
	}
}

// tlRequest sends (the rest of) one request through the tunnel and waits for the response
func tlRequest(p *tlPeer) string {
	p.tc.SetDeadline(time.Now().Add(5 * time.Second))
	defer p.tc.SetDeadline(time.Time{})
	rest := probeReq[p.pending:]
	p.pending = 0
	if _, err := p.tc.Write(rest); err != nil {
		p.session = false
		return "closed"
	}
	buf := make([]byte, 11)
	if _, err := io.ReadFull(p.tc, buf); err != nil {
		p.session = false
		if os.IsTimeout(err) {
			return "noresp"
		}
		return "closed"
	}
	if string(buf[:len(tsProbeResp)]) != string(tsProbeResp) {
		return "badresp"
	}
	return "resp"
}

// ---------------------------------------------------------------- generator

type tlGenPeer struct {
	id    int
	phase int  // 0 silent, 1 hello, 2 established, 3 mid-request
	alive bool // on the active list of the running server (as far as the trace tells)
	cred  string
	ver   string
}

var tlPhaseName = []string{"silent", "hello", "established", "midrequest"}

// genTLSStopTrace: a random lifecycle trace over Start, Stop, and peers moving
// through the phases of a TLS session. Every Stop of a started server is
// followed (at once or later) by probes of the connections it met; the trace
// ends with a Stop and a probe of every connection still held.
func genTLSStopTrace(o *Out, r *Rng, maxc, n int, legit []string) []string {
	var ops []string
	started := false
	next := 1
	var held *tlGenPeer
	var open []*tlGenPeer
	vers := []string{"12", "13"}
	newPeer := func() *tlGenPeer {
		p := &tlGenPeer{id: next, cred: legit[r.Intn(len(legit))], ver: vers[r.Intn(2)]}
		next++
		open = append(open, p)
		return p
	}
	enrolled := func() (k int) {
		for _, p := range open {
			if p.alive {
				k++
			}
		}
		return
	}
	pick := func(ok func(p *tlGenPeer) bool) *tlGenPeer {
		var c []*tlGenPeer
		for _, p := range open {
			if p != held && ok(p) {
				c = append(c, p)
			}
		}
		if len(c) == 0 {
			return nil
		}
		return c[r.Intn(len(c))]
	}
	rm := func(p *tlGenPeer) {
		for k := range open {
			if open[k] == p {
				open = append(open[:k], open[k+1:]...)
				return
			}
		}
	}
	// mostly peers the server is holding, now and then one it has closed already
	cand := func(ok func(p *tlGenPeer) bool) *tlGenPeer {
		if r.Intn(6) > 0 {
			if p := pick(func(p *tlGenPeer) bool { return p.alive && ok(p) }); p != nil {
				return p
			}
		}
		return pick(ok)
	}
	tok := func(k string, p *tlGenPeer) string { return k + itoa(p.id) + ":" + p.cred + ":" + p.ver }
	hello := func(p *tlGenPeer) {
		ops = append(ops, tok("H", p))
		p.phase = 1
	}
	shake := func(p *tlGenPeer) {
		ops = append(ops, tok("L", p))
		if p.alive {
			p.phase = 2
		}
	}
	request := func(p *tlGenPeer) {
		ops = append(ops, "R"+itoa(p.id))
		if p.alive {
			p.phase = 2
		}
	}
	probeOne := func(p *tlGenPeer) {
		if p == held {
			return
		}
		if p.phase < 2 {
			shake(p)
		} else {
			request(p)
		}
	}
	admit := func(p *tlGenPeer) { p.alive = started && enrolled() < maxc }
	stopOp := func() {
		if started {
			met := 0
			for _, p := range open {
				if p == held {
					o.Stat("tlsstop:stop-meets:taken")
					met++
				} else if p.alive {
					o.Stat("tlsstop:stop-meets:" + tlPhaseName[p.phase])
					met++
				}
				p.alive = false
			}
			if met == 0 {
				o.Stat("tlsstop:stop-meets:nobody")
			}
		} else {
			o.Stat("tlsstop:stop-while-stopped")
		}
		ops = append(ops, "P")
		started = false
	}
	for len(ops) < n {
		x := r.Intn(100)
		if started {
			switch {
			case x < 20 && held == nil:
				p := newPeer()
				ops = append(ops, "N"+itoa(p.id))
				admit(p)
			case x < 26 && held == nil:
				p := newPeer()
				ops = append(ops, "T"+itoa(p.id))
				held = p
			case x < 34 && held != nil:
				ops = append(ops, "E")
				admit(held)
				held = nil
			case x < 46:
				p := cand(func(p *tlGenPeer) bool { return p.phase == 0 })
				if p == nil && held != nil && held.phase == 0 {
					p = held // a ClientHello on the connection the accept goroutine is holding
				}
				if p != nil {
					hello(p)
				}
			case x < 60:
				if p := cand(func(p *tlGenPeer) bool { return p.phase < 2 }); p != nil {
					shake(p)
				}
			case x < 68:
				if p := pick(func(p *tlGenPeer) bool { return p.alive && p.phase == 2 }); p != nil {
					ops = append(ops, "M"+itoa(p.id)+":"+itoa(1+r.Intn(len(probeReq)-1)))
					p.phase = 3
				}
			case x < 76:
				if p := cand(func(p *tlGenPeer) bool { return p.phase >= 2 }); p != nil {
					request(p)
				}
			case x < 81:
				if p := pick(func(p *tlGenPeer) bool { return true }); p != nil {
					ops = append(ops, "D"+itoa(p.id))
					rm(p)
				}
			case x < 96:
				stopOp()
				// probe some of the connections Stop met right away
				for _, p := range open {
					if r.Intn(3) > 0 {
						probeOne(p)
					}
				}
			default:
				ops = append(ops, "S") // Start on a started server
				o.Stat("tlsstop:start-while-started")
			}
			continue
		}
		switch {
		case x < 30:
			ops = append(ops, "S")
			started = true
			if r.Bool() && held == nil {
				// serves again on the same address
				p := newPeer()
				ops = append(ops, "N"+itoa(p.id))
				admit(p)
				shake(p)
				request(p)
				o.Stat("tlsstop:served-after-start")
			}
		case x < 38:
			stopOp()
		case x < 48 && held == nil:
			ops = append(ops, "N"+itoa(next)) // a stopped server refuses
			next++
		case x < 62:
			if p := pick(func(p *tlGenPeer) bool { return true }); p != nil {
				probeOne(p)
			}
		case x < 68:
			if p := pick(func(p *tlGenPeer) bool { return p.phase == 0 }); p != nil {
				hello(p) // a ClientHello into a connection Stop has closed
			}
		case x < 76:
			if p := pick(func(p *tlGenPeer) bool { return true }); p != nil {
				ops = append(ops, "D"+itoa(p.id))
				rm(p)
			}
		case x < 90 && held != nil:
			ops = append(ops, "E") // the connection that was being accepted while Stop ran
			admit(held)
			held = nil
		}
	}
	if held != nil {
		ops = append(ops, "E")
		admit(held)
		held = nil
	}
	stopOp()
	for _, p := range open {
		probeOne(p)
	}
	return ops
}

func scnTLSStop(o *Out, r *Rng, thorough bool) {
	pki := c14GetPKI("ec")
	legit, _ := tsCreds(pki)
	if len(legit) == 0 {
		o.Case("tlsstop", "-", "harness-error:no-credentials")
		return
	}
	fixed := []string{
		// one connection in each phase when Stop runs; probes; restart on the same address; Stop again
		"4 S N1 N2 H2:valid:13 N3 L3:valid:13 R3 N4 L4:valid:12 M4:7 P L1:valid:13 L2:valid:13 R3 R4 N5 S N6 L6:valid:13 R6 P R6",
		// each phase on its own
		"1 S N1 P L1:valid:13 S N2 L2:valid:13 R2 P",
		"1 S N1 H1:valid:12 P L1:valid:12 S N2 L2:valid:12 R2 P",
		"1 S N1 H1:valid:13 P L1:valid:13",
		"1 S N1 L1:valid:13 P R1",
		"1 S N1 L1:valid:12 R1 M1:3 P R1",
		// a connection being accepted while Stop runs, next to peers in their handshake
		"2 S N1 T2 P E L2:valid:13 L1:valid:13 S N3 L3:valid:13 R3 P R3",
		"3 S N1 H1:valid:12 N2 L2:valid:13 T3 H3:valid:13 P E L3:valid:13 L1:valid:12 R2",
		"2 S T1 H1:valid:13 P S E L1:valid:13 R1 P R1",
		// peers turned away at the limit next to peers in their handshake
		"1 S N1 N2 H1:valid:13 P L1:valid:13 L2:valid:13 S N3 L3:valid:12 R3 P",
		// repeated Start / Stop
		"2 S S N1 L1:valid:13 P P R1 S S N2 H2:valid:12 P P L2:valid:12 P",
		"2 P S N1 P S N2 H2:valid:13 P S N3 L3:valid:12 P S N4 L4:valid:13 M4:11 P L1:valid:13 L2:valid:13 R3 R4",
	}
	for _, f := range fixed {
		o.Run("tlsstop", f)
	}
	n := 20
	if thorough {
		n = 400
	}
	for i := 0; i < n; i++ {
		maxc := 1 + r.Intn(4)
		ops := genTLSStopTrace(o, r, maxc, 8+r.Intn(22), legit)
		o.Run("tlsstop", itoa(maxc)+" "+strings.Join(ops, " "))
		o.Stat("tlsstop:maxc:" + itoa(maxc))
	}
}
