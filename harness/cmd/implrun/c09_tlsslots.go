package main

// C09 on tcp+tls servers - slot accounting with peers that take a slot but
// never become a session.
//
// scenario "tlsslots": maxc timeout_ms op...
//   a real modbus.NewServer("tcp+tls://127.0.0.1:0", MaxClients = maxc,
//   Timeout = timeout_ms) with a counting handler, certificates of c14.go
//   (keyset "ec", the server trusts the verif CA). The trace is executed one
//   operation at a time; after every operation the length of the active list
//   (VerifServerSnapshot) is reported, so the output is one token per
//   operation, followed by "calls=<handler invocations of the whole trace>".
//
//   L<i>:<cred>:<ver>  a legitimate TLS client (a credential the server must
//                      accept, TLS 1.2 / 1.3) connects and runs the handshake
//                      -> "<n>:ok" | "<n>:refused"
//   R<i>               client i sends one request through its tunnel
//                      -> "resp+<handler calls during the op>" | "closed+<k>"
//   D<i>               client i disconnects                        -> "<n>"
//   B<i>               client i sends an MBAP header with an illegal length
//                      (protocol error)                            -> "<n>"
//   I                  every established session stays idle until the server
//                      closes it; each closure must not come earlier than the
//                      timeout after the last activity of that session
//                      -> "<n>:idle:ok" | "<n>:idle:<faults>"
//   N<i>               a peer opens a TCP connection and says nothing yet
//                      (it occupies a slot if one is free)         -> "<n>"
//   F<i>:<how>         peer i fails to become a session:
//       x              closes at once
//       c              sends a valid Modbus/TCP request in the clear
//       g:<hex>        sends garbage, then closes
//       m:<k>:<ver>    real ClientHello, then k bytes of its second flight, then closes
//       t:<cred>:<ver> complete TLS attempt with a credential / protocol version
//                      the server must refuse (no certificate, untrusted,
//                      expired, wrong usage, missing intermediate, TLS < 1.2),
//                      then a request through whatever tunnel it believes to have
//                      -> "<n>", with ":resp" appended if a Modbus response came
//                      back, ":dangling" if the server left the socket open,
//                      ":calls+k" if a handler ran during the operation
//
// The expected tokens are computed by the extracted Slots model
// (ocaml/scn_tlsslots.ml): N / L = Arrive, Take, Enrol; F = End, Remove of a
// connection that was enrolled and never had a Req.

import (
	"bytes"
	"crypto/tls"
	"crypto/x509"
	"errors"
	"fmt"
	"io"
	"net"
	"os"
	"strings"
	"sync"
	"time"

	"github.com/simonvetter/modbus"
)

func init() {
	register("C09", scnTLSSlots)
	executors["tlsslots"] = runTLSSlots
}

const tsWatchdog = 3 * time.Second

// the Modbus response to probeReq
var tsProbeResp = []byte{0, 9, 0, 0, 0, 5, 1, 3, 2}

type tsPeer struct {
	raw     net.Conn
	tc      *tls.Conn
	served  bool      // the admission step put it on the active list
	session bool      // its handshake completed: a session
	last    time.Time // no later than the instant the server last armed its deadline
}

// cutConn lets the first Write through (the ClientHello); the second Write
// sends only its first k bytes, then the socket is closed.
type cutConn struct {
	net.Conn
	writes int
	k      int
}

func (c *cutConn) Write(p []byte) (int, error) {
	c.writes++
	if c.writes == 1 {
		return c.Conn.Write(p)
	}
	if c.writes == 2 {
		k := c.k
		if k > len(p) {
			k = len(p)
		}
		if k > 0 {
			c.Conn.Write(p[:k])
		}
		c.Conn.Close()
	}
	return 0, errors.New("cut")
}

// readUntilClosed reads until the connection fails; timedOut: the deadline
// passed and the server had not closed the connection
func tsReadUntilClosed(c net.Conn, d time.Duration) (data []byte, timedOut bool) {
	c.SetReadDeadline(time.Now().Add(d))
	buf := make([]byte, 512)
	for {
		n, err := c.Read(buf)
		data = append(data, buf[:n]...)
		if err != nil {
			var ne net.Error
			if os.IsTimeout(err) || (errors.As(err, &ne) && ne.Timeout()) {
				return data, true
			}
			return data, false
		}
		if len(data) > 1<<16 {
			return data, false
		}
	}
}

// probe of c09.go with a watchdog that a loaded machine does not trip
func tsProbe(c net.Conn) string {
	c.SetDeadline(time.Now().Add(5 * time.Second))
	if _, err := c.Write(probeReq); err != nil {
		return "closed"
	}
	buf := make([]byte, 11)
	if _, err := io.ReadFull(c, buf); err != nil {
		if os.IsTimeout(err) {
			return "noresp"
		}
		return "closed"
	}
	if !bytes.HasPrefix(buf, tsProbeResp) {
		return "badresp"
	}
	return "resp"
}

func tsClientConf(pki *c14PKI, cert *tls.Certificate, ver string) *tls.Config {
	v := c14Version(ver)
	conf := &tls.Config{RootCAs: pki.caPool, ServerName: "127.0.0.1", MinVersion: v, MaxVersion: v}
	if cert != nil {
		// present the certificate whatever CAs the server names as acceptable
		conf.GetClientCertificate = func(*tls.CertificateRequestInfo) (*tls.Certificate, error) {
			return cert, nil
		}
	}
	return conf
}

// would the server (trusting the verif CA) accept this credential at this version
func tsAcceptable(pki *c14PKI, cred *c14Cred, ver string) bool {
	return c14Verifies(&c14Cred{name: cred.name, cert: cred.cert, pool: pki.caPool}, x509.ExtKeyUsageClientAuth, "") &&
		c14Version(ver) >= tls.VersionTLS12
}

// A trace with a short idle timeout relies on the harness being quicker than
// the timeout between two operations; when the harness itself was too slow
// (measured on its own clock, before looking at the server) the attempt is
// discarded and the trace is run again.
func runTLSSlots(in []string) string {
	var out string
	for attempt := 0; attempt < 3; attempt++ {
		var slow bool
		out, slow = runTLSSlotsOnce(in)
		if !slow {
			break
		}
	}
	return out
}

func runTLSSlotsOnce(in []string) (out string, slow bool) {
	steerMu.Lock()
	defer steerMu.Unlock()
	defer func() {
		if r := recover(); r != nil {
			out = fmt.Sprintf("panic:%v", r)
		}
	}()
	enrolled := make(chan struct{}, 256)
	modbus.VerifSetYield(func(point string) {
		if point == "accept:enrolled" {
			select {
			case enrolled <- struct{}{}:
			default:
			}
		}
	})
	defer modbus.VerifSetYield(nil)

	maxc := atoi(in[0])
	timeout := time.Duration(atoi(in[1])) * time.Millisecond
	pki := c14GetPKI("ec")
	h := &countHandler{}
	srv, err := modbus.NewServer(&modbus.ServerConfiguration{
		URL:           "tcp+tls://127.0.0.1:0",
		MaxClients:    uint(maxc),
		TLSServerCert: pki.srvValid,
		TLSClientCAs:  pki.caPool,
		Timeout:       timeout,
		Logger:        quiet,
	}, h)
	if err != nil {
		return "harness-error:newserver:" + err.Error(), false
	}
	if err = srv.Start(); err != nil {
		return "harness-error:start:" + err.Error(), false
	}
	defer srv.Stop()
	a := srv.VerifListenAddr()
	if a == nil {
		return "harness-error:no-listener", false
	}
	addr := a.String()

	peers := map[int]*tsPeer{}
	defer func() {
		for _, p := range peers {
			if p.raw != nil {
				p.raw.Close()
			}
		}
	}()
	count := func() int { _, n, _ := srv.VerifServerSnapshot(); return n }
	calls := func() int { h.mu.Lock(); defer h.mu.Unlock(); return h.calls }
	// once a watchdog has expired the case has failed: do not pay for the others
	wd := tsWatchdog
	waitFor := func(want int) {
		end := time.Now().Add(wd)
		for time.Now().Before(end) {
			if count() == want {
				return
			}
			time.Sleep(time.Millisecond)
		}
		wd = 100 * time.Millisecond
	}
	dial := func(i int) (*tsPeer, error) {
		before := count()
		c, err := net.DialTimeout("tcp", addr, tsWatchdog)
		if err != nil {
			return nil, err
		}
		if !waitSig(enrolled, wd) {
			wd = 100 * time.Millisecond
		}
		p := &tsPeer{raw: c, served: count() > before}
		peers[i] = p
		return p, nil
	}
	flags := func(n int, resp, dangling bool, calls0 int) string {
		s := itoa(n)
		if resp {
			s += ":resp"
		}
		if dangling {
			s += ":dangling"
		}
		if k := calls() - calls0; k != 0 {
			s += ":calls+" + itoa(k)
		}
		return s
	}

	var outs []string
	for _, op := range in[2:] {
		f := strings.Split(op, ":")
		kind := f[0][0]
		i := 0
		if len(f[0]) > 1 {
			i = atoi(f[0][1:])
		}
		p := peers[i]
		if kind != 'I' && timeout < 10*time.Second {
			for _, q := range peers {
				if q.session && time.Since(q.last) > timeout/2 {
					return "harness-error:slow", true
				}
			}
		}
		before, calls0 := count(), calls()
		switch kind {
		case 'L':
			cred := pki.clients[f[1]]
			if cred == nil || !tsAcceptable(pki, cred, f[2]) {
				return "harness-error:not-a-legitimate-credential:" + op, false
			}
			p, err = dial(i)
			if err != nil {
				return "harness-error:dial:" + err.Error(), false
			}
			p.tc = tls.Client(p.raw, tsClientConf(pki, cred.cert, f[2]))
			p.last = time.Now()
			// a refusal shows as a closed socket, not as a timeout: the deadline is
			// only there to turn a hang into a failing case
			p.raw.SetDeadline(time.Now().Add(10 * time.Second))
			herr := p.tc.Handshake()
			p.raw.SetDeadline(time.Time{})
			res := "refused"
			if herr == nil {
				res = "ok"
				p.session = true
			}
			outs = append(outs, itoa(count())+":"+res)
		case 'R':
			res := "closed"
			if p != nil && p.session {
				p.last = time.Now()
				res = tsProbe(p.tc)
				p.tc.SetDeadline(time.Time{})
				if res != "resp" {
					p.session = false
				}
			}
			outs = append(outs, res+"+"+itoa(calls()-calls0))
		case 'D', 'B':
			dangling := false
			if p != nil && p.tc != nil {
				if kind == 'B' && p.session {
					p.tc.SetWriteDeadline(time.Now().Add(tsWatchdog))
					p.tc.Write([]byte{0, 1, 0, 0, 0, 0, 1})
					if p.served {
						waitFor(before - 1)
					}
					_, dangling = tsReadUntilClosed(p.tc, 1500*time.Millisecond)
				}
				if kind == 'D' && p.session {
					p.tc.Close() // close_notify, then the socket
				}
				p.raw.Close()
				if p.served {
					waitFor(before - 1)
				}
				p.session, p.served = false, false
			}
			outs = append(outs, flags(count(), false, dangling, calls0))
		case 'I':
			var wg sync.WaitGroup
			var mu sync.Mutex
			var faults []string
			n := 0
			for id, q := range peers {
				if !q.session {
					continue
				}
				n++
				wg.Add(1)
				go func(id int, q *tsPeer) {
					defer wg.Done()
					q.tc.SetDeadline(time.Now().Add(timeout + tsWatchdog))
					buf := make([]byte, 1)
					_, err := q.tc.Read(buf)
					d := time.Since(q.last)
					fault := ""
					switch {
					case err == nil:
						fault = "data"
					case d < timeout-2*time.Millisecond:
						fault = "early"
					case os.IsTimeout(err):
						fault = "late"
					}
					if fault != "" {
						mu.Lock()
						faults = append(faults, fault)
						mu.Unlock()
					}
				}(id, q)
			}
			wg.Wait()
			waitFor(before - n)
			for _, q := range peers {
				if q.session {
					q.raw.Close()
					q.session, q.served = false, false
				}
			}
			res := "ok"
			if len(faults) > 0 {
				res = strings.Join(faults, ",")
			}
			outs = append(outs, itoa(count())+":idle:"+res)
		case 'N':
			if _, err = dial(i); err != nil {
				return "harness-error:dial:" + err.Error(), false
			}
			outs = append(outs, itoa(count()))
		case 'F':
			resp, dangling := false, false
			if p != nil && p.raw != nil && !p.session {
				switch f[1] {
				case "x":
				case "c":
					p.raw.SetWriteDeadline(time.Now().Add(tsWatchdog))
					p.raw.Write(probeReq)
					var data []byte
					data, dangling = tsReadUntilClosed(p.raw, 1500*time.Millisecond)
					resp = bytes.Contains(data, tsProbeResp)
				case "g":
					p.raw.SetWriteDeadline(time.Now().Add(tsWatchdog))
					p.raw.Write(unhex(f[2]))
				case "m":
					p.raw.SetDeadline(time.Now().Add(tsWatchdog))
					tc := tls.Client(&cutConn{Conn: p.raw, k: atoi(f[2])}, tsClientConf(pki, pki.cliValid, f[3]))
					if tc.Handshake() == nil {
						return "harness-error:cut-handshake-completed", false
					}
				case "t":
					cred := pki.clients[f[2]]
					if cred == nil || tsAcceptable(pki, cred, f[3]) {
						return "harness-error:not-a-refused-credential:" + op, false
					}
					p.raw.SetDeadline(time.Now().Add(tsWatchdog))
					tc := tls.Client(p.raw, tsClientConf(pki, cred.cert, f[3]))
					var c net.Conn = tc
					if tc.Handshake() != nil {
						// the tunnel is not there: try the request in the clear on the same socket
						c = p.raw
					}
					c.SetWriteDeadline(time.Now().Add(tsWatchdog))
					c.Write(probeReq)
					var data []byte
					data, dangling = tsReadUntilClosed(c, 1500*time.Millisecond)
					resp = bytes.Contains(data, tsProbeResp)
				default:
					return "harness-error:bad-op:" + op, false
				}
				p.raw.Close()
				if p.served {
					waitFor(before - 1)
				}
				p.served = false
			}
			outs = append(outs, flags(count(), resp, dangling, calls0))
		default:
			return "harness-error:bad-op:" + op, false
		}
	}
	outs = append(outs, "calls="+itoa(calls()))
	return strings.Join(outs, " "), false
}

// ---------------------------------------------------------------- generator

// credentials by what the server must do with them (decided by the x509
// oracle of c14.go, independently of any connection)
func tsCreds(pki *c14PKI) (legit, refused []string) {
	for _, name := range pki.cliOrder {
		if tsAcceptable(pki, pki.clients[name], "13") {
			legit = append(legit, name)
		} else {
			refused = append(refused, name)
		}
	}
	return
}

func tsFail(o *Out, r *Rng, legit, refused []string) string {
	switch r.Intn(9) {
	case 0:
		o.Stat("tlsslots:fail:close")
		return "x"
	case 1, 2:
		o.Stat("tlsslots:fail:cleartext")
		return "c"
	case 3:
		o.Stat("tlsslots:fail:garbage")
		g := r.Bytes(1 + r.Intn(40))
		if r.Intn(3) == 0 {
			// a record header announcing a handshake message, then junk
			g = append([]byte{0x16, 3, 1, 0, byte(len(g))}, g...)
		}
		return "g:" + hx(g)
	case 4, 5:
		o.Stat("tlsslots:fail:cut")
		return "m:" + itoa(r.Pick(0, 0, 1, 5, 6, 40, 200)) + ":" + []string{"12", "13"}[r.Intn(2)]
	case 6:
		o.Stat("tlsslots:fail:nocert")
		return "t:none:" + []string{"12", "13"}[r.Intn(2)]
	case 7:
		if r.Intn(3) == 0 {
			o.Stat("tlsslots:fail:oldversion")
			return "t:" + legit[r.Intn(len(legit))] + ":" + []string{"10", "11"}[r.Intn(2)]
		}
	}
	o.Stat("tlsslots:fail:untrusted")
	return "t:" + refused[r.Intn(len(refused))] + ":" + []string{"12", "13"}[r.Intn(2)]
}

// a random trace; it ends with every connection gone and one more legitimate
// client, which must be served
func tsTrace(o *Out, r *Rng, maxc, n int, idle bool, legit, refused []string) []string {
	var ops []string
	next := 1
	var sess, raw []int // L clients not yet disconnected; N peers that have not failed yet
	pick := func(l *[]int) int {
		k := r.Intn(len(*l))
		i := (*l)[k]
		*l = append((*l)[:k], (*l)[k+1:]...)
		return i
	}
	newL := func() {
		ops = append(ops, "L"+itoa(next)+":"+legit[r.Intn(len(legit))]+":"+[]string{"12", "13"}[r.Intn(2)])
		sess = append(sess, next)
		next++
	}
	idles := 0
	for len(ops) < n {
		x := r.Intn(100)
		switch {
		case x < 20:
			newL()
		case x < 45:
			ops = append(ops, "N"+itoa(next))
			raw = append(raw, next)
			next++
		case x < 68 && len(raw) > 0:
			ops = append(ops, "F"+itoa(pick(&raw))+":"+tsFail(o, r, legit, refused))
		case x < 78 && len(sess) > 0:
			ops = append(ops, "R"+itoa(sess[r.Intn(len(sess))]))
		case x < 88 && len(sess) > 0:
			ops = append(ops, "D"+itoa(pick(&sess)))
		case x < 94 && len(sess) > 0:
			ops = append(ops, "B"+itoa(pick(&sess)))
		case idle && idles < 1 && len(sess) > 0:
			ops = append(ops, "I")
			idles++
			sess = nil
		}
	}
	if idle && idles < 2 && len(sess) > 0 {
		ops = append(ops, "I")
		sess = nil
	}
	for len(sess)+len(raw) > 0 {
		if len(raw) > 0 && (len(sess) == 0 || r.Bool()) {
			ops = append(ops, "F"+itoa(pick(&raw))+":"+tsFail(o, r, legit, refused))
		} else if r.Intn(3) == 0 {
			ops = append(ops, "B"+itoa(pick(&sess)))
		} else {
			ops = append(ops, "D"+itoa(pick(&sess)))
		}
	}
	last := next
	newL()
	ops = append(ops, "R"+itoa(last))
	return ops
}

func scnTLSSlots(o *Out, r *Rng, thorough bool) {
	pki := c14GetPKI("ec")
	legit, refused := tsCreds(pki)
	if len(legit) == 0 || len(refused) == 0 {
		o.Case("tlsslots", "-", "harness-error:no-credentials")
		return
	}
	fixed := []string{
		// every way of not becoming a session, MaxClients times over, then a legitimate client
		"1 30000 N1 F1:x L2:valid:13 R2",
		"1 30000 N1 F1:c L2:valid:12 R2",
		"1 30000 N1 F1:g:0102030405060708 L2:valid:13 R2",
		"1 30000 N1 F1:m:0:13 N2 F2:m:6:12 L3:valid:13 R3",
		"1 30000 N1 F1:t:none:13 N2 F2:t:none:12 L3:valid:12 R3",
		"1 30000 N1 F1:t:selfsigned:13 N2 F2:t:foreign:12 N3 F3:t:expired:13 L4:inter:13 R4",
		"2 30000 L1:valid:13 R1 N2 F2:c N3 F3:x R1 L4:valid:13 R4 R1",
		"3 30000 N1 N2 N3 F2:g:160301000501020304 F1:t:valid:11 F3:m:1:13 L4:valid:13 L5:valid:12 L6:inter:13 R4 R5 R6",
		// a peer that has not failed yet holds its slot: arrival at the limit, then reclaim
		"1 30000 N1 L2:valid:13 R2 F1:c D2 L3:valid:13 R3",
		"2 30000 N1 L2:valid:13 N3 L4:valid:12 R2 R4 F1:t:wrongeku:12 L5:valid:13 R5 F3:x D2 B5 L6:valid:13 R6",
		"2 30000 L1:valid:13 L2:valid:12 N3 F3:c R1 B1 N4 L5:valid:13 F4:t:none:13 L6:valid:13 R6 R2 D2 D6 D5 L7:valid:12 R7",
		// idle expiry of established sessions next to peers that never become one
		"2 400 L1:valid:13 R1 N2 I F2:c L3:valid:13 R3",
		"2 500 N1 L2:valid:12 I L3:valid:13 F1:x R3 L4:valid:13 R4 I N5 F5:t:none:13 L6:valid:13 R6",
	}
	for _, f := range fixed {
		o.Run("tlsslots", f)
	}
	n, nidle := 24, 1
	if thorough {
		n, nidle = 500, 12
	}
	for i := 0; i < n+nidle; i++ {
		maxc := 1 + r.Intn(3)
		idle := i >= n
		tmo := 30000
		if idle {
			tmo = 400 + r.Intn(300)
		}
		ops := tsTrace(o, r, maxc, 4+r.Intn(14), idle, legit, refused)
		o.Run("tlsslots", itoa(maxc)+" "+itoa(tmo)+" "+strings.Join(ops, " "))
		o.Stat("tlsslots:maxc:" + itoa(maxc))
		if idle {
			o.Stat("tlsslots:idle")
		}
	}
}
