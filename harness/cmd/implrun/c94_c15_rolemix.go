package main

// C15 (continued) - "plain TCP sessions always have an empty role", and the
// handlers of a TLS session see the role of the client leaf certificate of
// THAT session: histories of sessions in ONE process that runs a tcp+tls
// server and a plain tcp server side by side (the usual gateway: 802 + 502).
//
// scenario "tlsrolemix": keyset family sess...
//   sess = <kind>;<member>;<role exts>;<ver>;<verifies>;<leaf exts>;<life>;<early>;<late>
//   TWO real modbus servers for the whole case, both started before the first
//   session and stopped after the last one: a tcp+tls server (client CA and
//   certificate families of scenario "tlsroleseq", c91_c15_roleseq.go) and a
//   plain tcp server, each with its own handler object. An ordered history
//   of sessions:
//     kind t  a TLS client of the tcp+tls server presenting the certificate
//             (keyset, family, member, role exts), at TLS version <ver>;
//             <verifies> and <leaf exts> as in "tlsroleseq" (computed when
//             the case is generated, read by the model side only)
//     kind p  a plain Modbus/TCP client of the plain tcp server (the
//             certificate fields are "0;-;0;0;-")
//   <life> = the number of later sessions the session stays open for: 0 = it
//   is closed, and gone from its server's list of clients, before the next
//   session connects (the sessions follow each other); k = it is closed right
//   before session i+k+1 connects (the sessions overlap); sessions still open
//   after the last connect are closed in order. <early> = the requests sent
//   (and answered) right after the connection is up, <late> = the requests
//   sent right before the session is closed, i.e. after the sessions in
//   between came (and possibly went); requests joined by ".", "-" = none.
//   The requests of session i carry unit id i+1; an invocation is attributed
//   to session i by its unit id, must have reached the handler of the server
//   the session connected to, and must carry that connection's ClientAddr.
//   output: per session "<role>+<role>.../<responses>" (one role per handler
//   invocation, hex, "-" = empty role, "none" = no invocation), joined by ","
//
// Nothing here is timed: every step waits for its own completion (a response,
// a session gone from the server's list) under a generous deadline, and a
// case in which a session that had to be served missed a deadline (or the
// machine had no port left for a listener or a client) is run again on fresh
// servers, twice at most.
//
// This file sorts after c92_c15_resume.go on purpose: the registration is
// appended, the random streams of the existing C15 generators keep their indices.

import (
	"crypto/tls"
	"fmt"
	"net"
	"strings"
	"time"

	"github.com/simonvetter/modbus"
)

type c15MixConn struct {
	isTLS  bool
	cert   *tls.Certificate
	ver    uint16
	expect bool // the session has to be served
	life   int
	early  [][]byte
	late   [][]byte
	raw    net.Conn
	tc     *tls.Conn
	local  string
	resps  int
	closed bool
}

func c15MixReqs(tok string) [][]byte {
	if tok == "-" || tok == "" {
		return nil
	}
	var qs [][]byte
	for _, r := range strings.Split(tok, ".") {
		qs = append(qs, unhex(r))
	}
	return qs
}

// send the requests one by one, each answered before the next
func (c *c15MixConn) exchange(reqs [][]byte) {
	if c.raw == nil {
		return
	}
	for _, q := range reqs {
		var w net.Conn = c.raw // plain session, or: the tunnel is not there and the request goes in the clear
		if c.tc != nil {
			w = c.tc
		}
		w.SetDeadline(time.Now().Add(c15SeqTimeout))
		if _, err := w.Write(q); err == nil && c15SeqReadResponse(w, q) {
			c.resps++
		}
	}
}

func c15RunRoleMix(in []string) string {
	out, complete := c15RunRoleMixOnce(in)
	for attempt := 1; !complete && attempt <= 2; attempt++ {
		// a session that had to be served missed a deadline, or the machine had no port left for a
		// listener or a client (loaded machine, shared with other jobs): once more, on fresh servers
		time.Sleep(time.Duration(attempt) * 2 * time.Second)
		out, complete = c15RunRoleMixOnce(in)
	}
	return out
}

func c15RunRoleMixOnce(in []string) (out string, complete bool) {
	defer func() {
		if r := recover(); r != nil {
			out, complete = fmt.Sprintf("panic:%v", r), true
		}
	}()
	if len(in) < 3 {
		return "harness-error:bad-input", true
	}
	keyset, family := in[0], in[1]
	if _, ok := c15SeqFamilies[family]; !ok {
		return "harness-error:bad-family", true
	}
	srvPKI := c14GetPKI(keyset) // the server's own certificate and the CA the clients trust
	pki := c15SeqGetPKI(keyset)
	var conns []*c15MixConn
	for _, tok := range in[2:] {
		f := strings.Split(tok, ";")
		if len(f) != 9 {
			return "harness-error:bad-session-token", true
		}
		c := &c15MixConn{}
		switch f[0] {
		case "t":
			member := 0
			if _, err := fmt.Sscanf(f[1], "%d", &member); err != nil || member < 0 || member > 9 {
				return "harness-error:bad-member", true
			}
			lc := pki.leaf(family, member, f[2])
			c.isTLS, c.cert, c.ver = true, lc.cert, c14Version(f[3])
			c.expect = lc.verifies && (f[3] == "12" || f[3] == "13")
		case "p":
			c.expect = true
		default:
			return "harness-error:bad-kind", true
		}
		if _, err := fmt.Sscanf(f[6], "%d", &c.life); err != nil || c.life < 0 {
			return "harness-error:bad-life", true
		}
		c.early, c.late = c15MixReqs(f[7]), c15MixReqs(f[8])
		conns = append(conns, c)
	}
	if len(conns) > 200 {
		return "harness-error:too-many-sessions", true
	}

	// the two servers of the process
	hTLS, hPlain := &c14RoleHandler{}, &c14RoleHandler{}
	srvTLS, err := modbus.NewServer(&modbus.ServerConfiguration{
		URL:           "tcp+tls://127.0.0.1:0",
		TLSServerCert: srvPKI.srvValid,
		TLSClientCAs:  pki.pool,
		MaxClients:    uint(len(conns) + 2),
		Timeout:       60 * time.Second,
		Logger:        quiet,
	}, hTLS)
	if err != nil {
		return "harness-error:newserver-tls:" + err.Error(), true
	}
	srvPlain, err := modbus.NewServer(&modbus.ServerConfiguration{
		URL:        "tcp://127.0.0.1:0",
		MaxClients: uint(len(conns) + 2),
		Timeout:    60 * time.Second,
		Logger:     quiet,
	}, hPlain)
	if err != nil {
		return "harness-error:newserver-plain:" + err.Error(), true
	}
	// a listener that cannot be had is the machine's business (no port left), not the library's: not complete
	if err = srvTLS.Start(); err != nil {
		return "harness-error:start-tls:" + err.Error(), false
	}
	defer srvTLS.Stop()
	if err = srvPlain.Start(); err != nil {
		return "harness-error:start-plain:" + err.Error(), false
	}
	defer srvPlain.Stop()
	addrTLS, addrPlain := srvTLS.VerifListenAddr(), srvPlain.VerifListenAddr()
	if addrTLS == nil || addrPlain == nil {
		return "harness-error:no-listener", true
	}

	// the sessions the servers have in their lists when everything is as it has to be
	openTLS, openPlain := 0, 0
	dialFailed := false // the harness could not connect (no port left on the machine): not complete
	shut := func(c *c15MixConn) {
		if c.closed {
			return
		}
		c.closed = true
		if c.raw == nil {
			return
		}
		c.exchange(c.late)
		c.raw.Close()
		if c.expect {
			if c.isTLS {
				openTLS--
			} else {
				openPlain--
			}
		}
	}
	settle := func() {
		waitCount(srvTLS, openTLS, c15SeqTimeout)
		waitCount(srvPlain, openPlain, c15SeqTimeout)
	}

	for i, c := range conns {
		// the sessions whose life is over go first, the oldest first
		gone := false
		for j := 0; j < i; j++ {
			if !conns[j].closed && j+conns[j].life < i {
				shut(conns[j])
				gone = true
			}
		}
		if gone {
			settle()
		}
		addr := addrPlain
		if c.isTLS {
			addr = addrTLS
		}
		raw, err := net.DialTimeout("tcp", addr.String(), c15SeqTimeout)
		if err != nil {
			c.closed = true
			dialFailed = true
			continue
		}
		c.raw = raw
		c.local = raw.LocalAddr().String()
		if c.isTLS {
			cert := c.cert
			conf := &tls.Config{RootCAs: srvPKI.caPool, ServerName: "127.0.0.1", MinVersion: c.ver, MaxVersion: c.ver,
				// present the certificate whatever CAs the server names as acceptable
				GetClientCertificate: func(*tls.CertificateRequestInfo) (*tls.Certificate, error) { return cert, nil }}
			tc := tls.Client(raw, conf)
			raw.SetDeadline(time.Now().Add(c15SeqTimeout))
			if tc.Handshake() == nil {
				c.tc = tc
			}
		}
		if c.expect {
			if c.isTLS {
				openTLS++
			} else {
				openPlain++
			}
		}
		c.exchange(c.early)
		if !c.expect {
			// a session the server has to refuse: nothing more to do on it, and it does not stay around
			c.exchange(c.late)
			c.closed = true
			raw.Close()
			settle()
		}
	}
	for _, c := range conns {
		shut(c)
	}
	settle()

	per := make([][]string, len(conns))
	stray := 0
	collect := func(h *c14RoleHandler, tlsSide bool) {
		h.mu.Lock()
		defer h.mu.Unlock()
		for _, rec := range h.recs {
			i := int(rec.unit) - 1
			if i < 0 || i >= len(conns) || conns[i].isTLS != tlsSide {
				stray++ // no such session on this server
				continue
			}
			r := hx([]byte(rec.role))
			if rec.addr != conns[i].local {
				r = "?" + r // the invocation does not carry the address of the connection the request came from
			}
			per[i] = append(per[i], r)
		}
	}
	collect(hTLS, true)
	collect(hPlain, false)
	complete = !dialFailed
	var parts []string
	for i, c := range conns {
		roles := "none"
		if len(per[i]) > 0 {
			roles = strings.Join(per[i], "+")
		}
		parts = append(parts, fmt.Sprintf("%s/%d", roles, c.resps))
		if n := len(c.early) + len(c.late); c.expect && (c.resps != n || len(per[i]) != n) {
			complete = false
		}
	}
	out = strings.Join(parts, ",")
	if stray > 0 {
		out += fmt.Sprintf(",stray=%d", stray)
	}
	return out, complete
}

// ------------------------------------------------------------ generator

// one step of a history: the class of the session ("p" = plain tcp, otherwise
// a role extension class of c15SeqClasses) and how long it stays
type c15MixStep struct {
	class string
	life  int
	late  bool // it has requests left for the end of its life
}

// histories that follow from the property text: TLS sessions with (different)
// roles, TLS sessions whose certificate states no role in one of the ways the
// property lists, and plain sessions, following each other and overlapping
func c15MixHistories(r *Rng, thorough bool) (names []string, hists [][]c15MixStep) {
	add := func(name string, h []c15MixStep) {
		names = append(names, name)
		hists = append(hists, h)
	}
	roleCls := func() string { return []string{"r1", "r2"}[r.Intn(2)] }
	anyTLS := func() string {
		if r.Intn(3) != 0 {
			return roleCls()
		}
		return c15SeqClasses[r.Intn(len(c15SeqClasses))]
	}
	reps := 2
	if thorough {
		reps = 4
	}
	for rep := 0; rep < reps; rep++ {
		// one after the other: a TLS session, then a plain one, again and again
		{
			var h []c15MixStep
			for k := 10 + r.Intn(6); k > 0; k-- {
				h = append(h, c15MixStep{class: anyTLS()}, c15MixStep{class: "p"})
			}
			add("alternate", h)
		}
		// plain sessions before the first TLS session of the process' servers, then as above with runs
		{
			var h []c15MixStep
			for k := 1 + r.Intn(3); k > 0; k-- {
				h = append(h, c15MixStep{class: "p"})
			}
			for k := 6 + r.Intn(4); k > 0; k-- {
				for m := 1 + r.Intn(3); m > 0; m-- {
					h = append(h, c15MixStep{class: anyTLS()})
				}
				for m := 1 + r.Intn(3); m > 0; m-- {
					h = append(h, c15MixStep{class: "p"})
				}
			}
			add("runs", h)
		}
		// a group of TLS sessions open at the same time, closed together; then a group of plain ones; repeated
		{
			var h []c15MixStep
			group := func(n int, cls func() string) {
				for m := 0; m < n; m++ {
					h = append(h, c15MixStep{class: cls(), life: n - 1 - m, late: r.Intn(3) == 0})
				}
			}
			for k := 2 + r.Intn(2); k > 0; k-- {
				group(4+r.Intn(6), anyTLS)
				group(4+r.Intn(6), func() string { return "p" })
			}
			add("groups", h)
		}
		// a TLS session with a role stays while plain sessions come and go, and speaks again at the end
		{
			var h []c15MixStep
			for k := 2 + r.Intn(2); k > 0; k-- {
				n := 4 + r.Intn(5)
				h = append(h, c15MixStep{class: roleCls(), life: n, late: true})
				for m := 0; m < n; m++ {
					h = append(h, c15MixStep{class: "p", late: r.Intn(4) == 0})
				}
				h = append(h, c15MixStep{class: anyTLS()}, c15MixStep{class: "p"})
			}
			add("tls-stays", h)
		}
		// a plain session stays while TLS sessions come and go, and speaks again at the end
		{
			var h []c15MixStep
			for k := 2 + r.Intn(2); k > 0; k-- {
				n := 4 + r.Intn(5)
				h = append(h, c15MixStep{class: "p", life: n, late: true})
				for m := 0; m < n; m++ {
					h = append(h, c15MixStep{class: anyTLS(), late: r.Intn(4) == 0})
				}
				h = append(h, c15MixStep{class: "p"})
			}
			add("plain-stays", h)
		}
		// a window of sessions of both kinds open at any time: each stays for a few of the next ones
		{
			var h []c15MixStep
			for k := 20 + r.Intn(12); k > 0; k-- {
				cls := "p"
				if r.Bool() {
					cls = anyTLS()
				}
				h = append(h, c15MixStep{class: cls, life: r.Intn(5), late: r.Bool()})
			}
			add("window", h)
		}
	}
	nRandom := 10
	if thorough {
		nRandom = 60
	}
	for i := 0; i < nRandom; i++ {
		n := 12 + r.Intn(20)
		pPlain := 1 + r.Intn(3) // plain sessions: 1/4 .. 3/4 of the history
		h := make([]c15MixStep, n)
		for j := range h {
			cls := "p"
			if r.Intn(4) >= pPlain {
				cls = anyTLS()
			}
			life := 0
			switch r.Intn(6) {
			case 0:
				life = 1 + r.Intn(3)
			case 1:
				life = r.Intn(n)
			}
			h[j] = c15MixStep{class: cls, life: life, late: r.Intn(3) == 0}
		}
		add("random", h)
	}
	return
}

func scnC15RoleMix(o *Out, r *Rng, thorough bool) {
	keysets := []string{"ec"}
	if thorough {
		keysets = []string{"ec", "rsa"}
	}
	var ins []string
	var descr [][]string
	var steps [][]c15MixStep
	for _, ks := range keysets {
		pki := c15SeqGetPKI(ks)
		names, hists := c15MixHistories(r, thorough)
		for hi, hist := range hists {
			fam := c15SeqFamOrder[r.Intn(len(c15SeqFamOrder))]
			v := newC15SeqVariants(r)
			toks := []string{ks, fam}
			reqs := func(i, n int) string {
				if n == 0 {
					return "-"
				}
				var qs []string
				for ; n > 0; n-- {
					q := c14Request(r)
					q[6] = byte(i + 1) // the unit id names the session
					qs = append(qs, hx(q))
				}
				return strings.Join(qs, ".")
			}
			for i, st := range hist {
				early, late := 1+r.Intn(2), 0
				if st.late {
					late = 1 + r.Intn(2)
				}
				if st.class == "p" {
					toks = append(toks, strings.Join([]string{"p", "0", "-", "0", "0", "-", itoa(st.life), reqs(i, early), reqs(i, late)}, ";"))
					continue
				}
				member := i % 3
				if r.Intn(3) == 0 {
					member = r.Intn(3)
				}
				exts := v.exts(st.class)
				ver := itoa(r.Pick(12, 13))
				if r.Intn(24) == 0 {
					ver = "11" // an old version: this session is refused, the later ones are not affected
				}
				lc := pki.leaf(fam, member, exts)
				toks = append(toks, strings.Join([]string{"t", itoa(member), exts, ver, b01(lc.verifies), lc.exts,
					itoa(st.life), reqs(i, early), reqs(i, late)}, ";"))
			}
			ins = append(ins, strings.Join(toks, " "))
			descr = append(descr, []string{names[hi], fam})
			steps = append(steps, hist)
		}
	}
	kind := func(cls string) string {
		switch cls {
		case "p":
			return "plain"
		case "r1", "r2":
			return "tls-role"
		}
		return "tls-norole"
	}
	for i, out := range o.RunMany("tlsrolemix", ins) {
		d, hist := descr[i], steps[i]
		o.Stat("tlsrolemix:history=" + d[0])
		o.Stat("tlsrolemix:family=" + d[1])
		o.Stat("tlsrolemix:sessions=" + itoa(len(hist)/8*8) + ".." + itoa(len(hist)/8*8+7))
		for j, st := range hist {
			if j > 0 {
				how := ">" // the earlier session is gone when this one connects
				if hist[j-1].life > 0 {
					how = "|" // still open
				}
				o.Stat("tlsrolemix:step:" + kind(hist[j-1].class) + how + kind(st.class))
			}
			// the plain sessions that come when a TLS session with a role has been there before
			if st.class == "p" {
				before := "no-tls-role-before"
				for k := 0; k < j; k++ {
					if kind(hist[k].class) == "tls-role" {
						before = "tls-role-gone-before"
						if k+hist[k].life >= j {
							before = "tls-role-open"
							break
						}
					}
				}
				o.Stat("tlsrolemix:plain:" + before)
			}
			if st.late {
				o.Stat("tlsrolemix:late-requests:" + kind(st.class))
			}
		}
		for j, s := range strings.Split(out, ",") {
			if j >= len(hist) {
				o.Stat("tlsrolemix:session:stray")
				continue
			}
			k := "tls"
			if hist[j].class == "p" {
				k = "plain"
			}
			switch {
			case strings.HasPrefix(s, "none/"):
				o.Stat("tlsrolemix:session:" + k + ":refused")
			case strings.HasPrefix(s, "-/") || strings.HasPrefix(s, "-+"):
				o.Stat("tlsrolemix:session:" + k + ":empty-role")
			default:
				o.Stat("tlsrolemix:session:" + k + ":role")
			}
		}
	}
}

func init() {
	register("C15", scnC15RoleMix)
	executors["tlsrolemix"] = c15RunRoleMix
}
