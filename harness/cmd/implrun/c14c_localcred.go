package main

// C14 (continued) - the credential matrix over the LOCAL end's own certificate.
//
// The property is about the PEER's certificate verifying (validity period
// included) against the configured pool; the local certificate (TLSServerCert
// / TLSClientCert) may itself be expired, not yet valid or about to expire:
// that is irrelevant to whether the peer verifies. The matrices of c14.go run
// with a perfect local certificate only; here the local certificate varies
// too.
//
// Local credentials (validity period relative to the start of the run):
//   valid       -1 h .. +36 h        (control)
//   endsoon     -10 d .. +2 h        (about to expire)
//   expired     -10 d .. -48 h
//   notyet      +48 h .. +10 d
//   expiredlong -400 d .. -300 d
// For every local credential with validity period [a, b], peer credentials
// issued by a long-lived CA (-10 y .. +10 y; the pool of the modbus side):
//   valid       -1 h .. +36 h
//   expbefore   ends 24 h before b   (b-24h-30d .. b-24h)
//   expafter    ends 24 h after b    (b+24h-30d .. b+24h)
//   nbbefore    starts 24 h before a (a-24h .. a-24h+30d)
//   nbafter     starts 24 h after a  (a+24h .. a+24h+30d)
// and the same four as pinned self-signed leaves (pool = that leaf):
//   pinexpbefore pinexpafter pinnbbefore pinnbafter
// No boundary of any validity period is closer than one hour to the run.
// Whether a peer credential is valid NOW depends on where the local period
// lies; nothing here decides it: the oracle token `verifies` is
// x509.Certificate.Verify at the real current time (c14Verifies), computed
// without any connection; expected = verifies && version >= TLS 1.2.
//
// scenario "tlssrvl": cred(keyset:local:peer) ver hascert verifies expected now lnb lna bytes exts
//   a real modbus.NewServer("tcp+tls://127.0.0.1:0") whose TLSServerCert is the
//   <local> server credential, with a counting handler; a harness TLS client
//   presenting <peer> at exactly <ver> that does NOT verify the server
//   certificate (InsecureSkipVerify on the harness side only: the library's
//   decision is what is observed) sends <bytes> and reads the response.
//   now / lnb / lna: the time of the run and the validity period of the local
//   leaf, seconds since the epoch, hex (for the model side).
//   output "calls=<handler invocations> resp=<0/1> role=<hex|->"
// scenario "tlsclil": cred(keyset:local:peer) ver hascert verifies expected now lnb lna host name
//   a real modbus.NewClient("tcp+tls://<host>:<port>") whose TLSClientCert is
//   the <local> client credential + Open + ReadRegister against a harness TLS
//   server presenting <peer> at exactly <ver> (ClientAuth = RequestClientCert:
//   it verifies nothing) that counts the application bytes it receives.
//   output "open=<ok|err> bytes=<n>"

import (
	"crypto"
	"crypto/rand"
	"crypto/rsa"
	"crypto/tls"
	"crypto/x509"
	"crypto/x509/pkix"
	"fmt"
	"math/big"
	"net"
	"strings"
	"sync"
	"time"

	"github.com/simonvetter/modbus"
)

type c14lLocal struct {
	name     string
	srv, cli *tls.Certificate // the modbus server's / client's own key pair
	nb, na   time.Time        // validity period of both leaves
}

type c14lPKI struct {
	now        time.Time
	locals     map[string]*c14lLocal
	localOrder []string
	peerOrder  []string
	clients    map[string]*c14Cred // "<local>:<peer>": presented to the modbus server
	servers    map[string]*c14Cred // "<local>:<peer>": presented to the modbus client
}

var (
	c14lMu  sync.Mutex
	c14lSet = map[string]*c14lPKI{}
)

// one certificate for an existing key, signed by parent (self-signed when parent is nil)
func c14lIssue(serial int64, cn string, key crypto.Signer, nb, na time.Time, isCA bool, eku []x509.ExtKeyUsage,
	ips []net.IP, role []byte, parent *c14Signer) *c14Signer {
	tmpl := &x509.Certificate{
		SerialNumber:          big.NewInt(serial),
		Subject:               pkix.Name{CommonName: cn, Organization: []string{"verif-c14-local"}},
		NotBefore:             nb,
		NotAfter:              na,
		KeyUsage:              x509.KeyUsageDigitalSignature,
		ExtKeyUsage:           eku,
		BasicConstraintsValid: true,
		IsCA:                  isCA,
		IPAddresses:           ips,
	}
	if isCA {
		tmpl.KeyUsage |= x509.KeyUsageCertSign
	}
	if _, ok := key.(*rsa.PrivateKey); ok {
		tmpl.KeyUsage |= x509.KeyUsageKeyEncipherment
	}
	if role != nil {
		tmpl.ExtraExtensions = []pkix.Extension{{Id: oidKinds["r"], Value: role}}
	}
	signer := &c14Signer{cert: tmpl, key: key}
	if parent != nil {
		signer = parent
	}
	der, err := x509.CreateCertificate(rand.Reader, tmpl, signer.cert, key.Public(), signer.key)
	if err != nil {
		panic(err)
	}
	cert, err := x509.ParseCertificate(der)
	if err != nil {
		panic(err)
	}
	return &c14Signer{cert: cert, key: key}
}

// Every keyset has its own fresh keys: one per role (CA, local server, local
// client, peer client, peer server); the certificates of a role differ by
// their validity period only (a key pair re-certified over time).
func c14lGetPKI(keyset string) *c14lPKI {
	c14lMu.Lock()
	defer c14lMu.Unlock()
	if p, ok := c14lSet[keyset]; ok {
		return p
	}
	rsaKeys := strings.HasPrefix(keyset, "rsa")
	const hour = time.Hour
	const day = 24 * time.Hour
	now := time.Now()
	p := &c14lPKI{now: now, locals: map[string]*c14lLocal{}, clients: map[string]*c14Cred{}, servers: map[string]*c14Cred{}}
	cliEKU := []x509.ExtKeyUsage{x509.ExtKeyUsageClientAuth}
	srvEKU := []x509.ExtKeyUsage{x509.ExtKeyUsageServerAuth}
	lo := []net.IP{net.ParseIP("127.0.0.1")}
	utf8 := func(str string) []byte { return append([]byte{0x0c, byte(len(str))}, str...) }
	serial := int64(5000)
	next := func() int64 { serial++; return serial }

	caKey, lsKey, lcKey, pcKey, psKey := c14NewKey(rsaKeys), c14NewKey(rsaKeys), c14NewKey(rsaKeys), c14NewKey(rsaKeys), c14NewKey(rsaKeys)
	ca := c14lIssue(next(), "verif long-lived CA", caKey, now.Add(-3650*day), now.Add(3650*day), true, nil, nil, nil, nil)
	caPool := c14Pool(ca)

	type window struct{ a, b time.Duration }
	locals := []struct {
		name string
		w    window
	}{
		{"valid", window{-hour, 36 * hour}},
		{"endsoon", window{-10 * day, 2 * hour}},
		{"expired", window{-10 * day, -48 * hour}},
		{"notyet", window{48 * hour, 10 * day}},
		{"expiredlong", window{-400 * day, -300 * day}},
	}
	p.peerOrder = []string{"valid", "expbefore", "expafter", "nbbefore", "nbafter",
		"pinexpbefore", "pinexpafter", "pinnbbefore", "pinnbafter"}
	for _, l := range locals {
		nb, na := now.Add(l.w.a), now.Add(l.w.b)
		p.locals[l.name] = &c14lLocal{
			name: l.name,
			srv:  c14TLSCert(c14lIssue(next(), "modbus server "+l.name, lsKey, nb, na, false, srvEKU, lo, nil, ca)),
			cli:  c14TLSCert(c14lIssue(next(), "modbus client "+l.name, lcKey, nb, na, false, cliEKU, nil, nil, ca)),
			nb:   nb, na: na,
		}
		p.localOrder = append(p.localOrder, l.name)
		peers := map[string]window{
			"valid":     {-hour, 36 * hour},
			"expbefore": {l.w.b - day - 30*day, l.w.b - day},
			"expafter":  {l.w.b + day - 30*day, l.w.b + day},
			"nbbefore":  {l.w.a - day, l.w.a - day + 30*day},
			"nbafter":   {l.w.a + day, l.w.a + day + 30*day},
		}
		for _, pn := range p.peerOrder {
			pinned := strings.HasPrefix(pn, "pin")
			w := peers[strings.TrimPrefix(pn, "pin")]
			pnb, pna := now.Add(w.a), now.Add(w.b)
			for _, b := range []time.Duration{w.a, w.b} {
				if b > -hour/2 && b < hour/2 {
					panic("c14l: a validity period boundary too close to the run")
				}
			}
			var role []byte
			if pn == "valid" || pn == "expafter" || pn == "pinnbbefore" {
				role = utf8("operator")
			}
			parent := ca
			if pinned {
				parent = nil
			}
			cc := c14lIssue(next(), "client "+pn+" for "+l.name, pcKey, pnb, pna, false, cliEKU, nil, role, parent)
			sc := c14lIssue(next(), "server "+pn+" for "+l.name, psKey, pnb, pna, false, srvEKU, lo, nil, parent)
			cpool, spool := caPool, caPool
			if pinned {
				cpool, spool = c14Pool(cc), c14Pool(sc)
			}
			id := l.name + ":" + pn
			p.clients[id] = &c14Cred{name: id, cert: c14TLSCert(cc), pool: cpool}
			p.servers[id] = &c14Cred{name: id, cert: c14TLSCert(sc), pool: spool}
		}
	}
	c14lSet[keyset] = p
	return p
}

// "keyset:local:peer"
func c14lSplit(tok string) (keyset, local, id string) {
	f := strings.SplitN(tok, ":", 3)
	if len(f) != 3 {
		panic("bad credential token " + tok)
	}
	return f[0], f[1], f[1] + ":" + f[2]
}

// ------------------------------------------------------------ tlssrvl

// A case in which the peer is expected to be served is given a second attempt
// when the first one did not get through (a deadline missed on a loaded
// machine); a case in which the peer must be refused is never repeated.
func c14lRunSrv(in []string) string {
	if len(in) != 10 {
		return "harness-error:bad-input"
	}
	out := c14lRunSrvOnce(in)
	if in[4] == "1" && !strings.HasPrefix(out, "calls=1 resp=1") {
		out = c14lRunSrvOnce(in)
	}
	return out
}

func c14lRunSrvOnce(in []string) (out string) {
	defer func() {
		if r := recover(); r != nil {
			out = fmt.Sprintf("panic:%v", r)
		}
	}()
	keyset, local, id := c14lSplit(in[0])
	v := c14Version(in[1])
	payload := unhex(in[8])
	pki := c14lGetPKI(keyset)
	own, cred := pki.locals[local], pki.clients[id]
	if own == nil || cred == nil {
		return "harness-error:unknown-credential"
	}

	h := &c14Handler{}
	srv, err := modbus.NewServer(&modbus.ServerConfiguration{
		URL:           "tcp+tls://127.0.0.1:0",
		TLSServerCert: own.srv,
		TLSClientCAs:  cred.pool,
		Timeout:       5 * time.Second,
		Logger:        quiet,
	}, h)
	if err != nil {
		return "harness-error:newserver:" + err.Error()
	}
	if err = srv.Start(); err != nil {
		return "harness-error:start:" + err.Error()
	}
	defer srv.Stop()
	addr := srv.VerifListenAddr()
	if addr == nil {
		return "harness-error:no-listener"
	}

	raw, err := net.DialTimeout("tcp", addr.String(), c14OpTimeout)
	if err != nil {
		return "harness-error:dial:" + err.Error()
	}
	resp := false
	// the harness peer does not care whether the server's certificate verifies
	conf := &tls.Config{InsecureSkipVerify: true, ServerName: "127.0.0.1", MinVersion: v, MaxVersion: v,
		// present the certificate whatever CAs the server names as acceptable
		GetClientCertificate: func(*tls.CertificateRequestInfo) (*tls.Certificate, error) { return cred.cert, nil }}
	tc := tls.Client(raw, conf)
	raw.SetDeadline(time.Now().Add(c14OpTimeout))
	if herr := tc.Handshake(); herr == nil {
		tc.SetDeadline(time.Now().Add(c14OpTimeout))
		if _, werr := tc.Write(payload); werr == nil {
			resp = c14ReadResponse(tc, payload)
		}
	} else {
		// the tunnel is not there: try the request in the clear on the same socket
		raw.SetDeadline(time.Now().Add(c14OpTimeout))
		if _, werr := raw.Write(payload); werr == nil {
			resp = c14ReadResponse(raw, payload)
		}
	}
	raw.Close()
	// the session is over once the server has dropped the connection from its list
	waitCount(srv, 0, c14OpTimeout)
	h.mu.Lock()
	defer h.mu.Unlock()
	role := "-"
	for i, r := range h.roles {
		if i == 0 {
			role = hx([]byte(r))
		} else if hx([]byte(r)) != role {
			role = "mixed"
		}
	}
	return fmt.Sprintf("calls=%d resp=%s role=%s", len(h.roles), b01(resp), role)
}

// ------------------------------------------------------------ tlsclil

func c14lRunCli(in []string) string {
	if len(in) != 10 {
		return "harness-error:bad-input"
	}
	out := c14lRunCliOnce(in)
	if in[4] == "1" && !strings.HasPrefix(out, "open=ok bytes=12") {
		out = c14lRunCliOnce(in)
	}
	return out
}

func c14lRunCliOnce(in []string) (out string) {
	defer func() {
		if r := recover(); r != nil {
			out = fmt.Sprintf("panic:%v", r)
		}
	}()
	keyset, local, id := c14lSplit(in[0])
	v := c14Version(in[1])
	host := string(unhex(in[8]))
	pki := c14lGetPKI(keyset)
	own, cred := pki.locals[local], pki.servers[id]
	if own == nil || cred == nil {
		return "harness-error:unknown-credential"
	}

	ln, err := net.Listen("tcp", "127.0.0.1:0")
	if err != nil {
		return "harness-error:listen:" + err.Error()
	}
	defer ln.Close()
	ln.(*net.TCPListener).SetDeadline(time.Now().Add(2 * c14OpTimeout))

	got := make(chan int, 1)
	go func() {
		n := 0
		defer func() {
			recover()
			got <- n
		}()
		c, err := ln.Accept()
		if err != nil {
			return
		}
		defer c.Close()
		// the client certificate is asked for and looked at by nobody
		conf := &tls.Config{MinVersion: v, MaxVersion: v, ClientAuth: tls.RequestClientCert,
			Certificates: []tls.Certificate{*cred.cert}}
		ts := tls.Server(c, conf)
		c.SetDeadline(time.Now().Add(c14OpTimeout))
		if err := ts.Handshake(); err != nil {
			return
		}
		// application bytes inside the tunnel; answer the first complete request
		buf := make([]byte, 512)
		var rx []byte
		answered := false
		end := time.Now().Add(c14OpTimeout)
		for {
			ts.SetReadDeadline(end)
			k, err := ts.Read(buf)
			n += k
			rx = append(rx, buf[:k]...)
			if !answered && len(rx) >= 12 {
				answered = true
				ts.SetWriteDeadline(time.Now().Add(c14OpTimeout))
				ts.Write([]byte{rx[0], rx[1], 0, 0, 0, 5, rx[6], rx[7], 2, 0, 0x2a})
			}
			if err != nil {
				return
			}
		}
	}()

	port := ln.Addr().(*net.TCPAddr).Port
	mc, err := modbus.NewClient(&modbus.ClientConfiguration{
		URL:           fmt.Sprintf("tcp+tls://%s:%d", host, port),
		TLSClientCert: own.cli,
		TLSRootCAs:    cred.pool,
		Timeout:       time.Second,
		Logger:        quiet,
	})
	if err != nil {
		return "harness-error:newclient:" + err.Error()
	}
	open := "ok"
	if oerr := mc.Open(); oerr != nil {
		open = "err"
	}
	// the call is made whatever Open returned (a caller ignoring the error must
	// not get a request out either); it panics on a client that is not open
	func() {
		defer func() { recover() }()
		mc.ReadRegister(0, modbus.HOLDING_REGISTER)
	}()
	func() {
		defer func() { recover() }()
		mc.Close()
	}()
	select {
	case n := <-got:
		return fmt.Sprintf("open=%s bytes=%d", open, n)
	case <-time.After(3 * c14OpTimeout):
		return "harness-error:fake-server-stuck"
	}
}

// ------------------------------------------------------------ generators

func c14lVersions(thorough bool) []string {
	if thorough {
		return c14Versions
	}
	return []string{"12", "13"}
}

func c14lTimes(pki *c14lPKI, own *c14lLocal) []string {
	return []string{hxu(uint64(pki.now.Unix())), hxu(uint64(own.nb.Unix())), hxu(uint64(own.na.Unix()))}
}

func scnC14LocalServer(o *Out, r *Rng, thorough bool) {
	var ins []string
	for _, ks := range c14Keysets(thorough) {
		pki := c14lGetPKI(ks)
		for _, ln := range pki.localOrder {
			own := pki.locals[ln]
			for _, pn := range pki.peerOrder {
				cred := pki.clients[ln+":"+pn]
				ver := c14Verifies(cred, x509.ExtKeyUsageClientAuth, "")
				for _, v := range c14lVersions(thorough) {
					exp := ver && (v == "12" || v == "13")
					toks := []string{ks + ":" + ln + ":" + pn, v, "1", b01(ver), b01(exp)}
					toks = append(toks, c14lTimes(pki, own)...)
					toks = append(toks, hx(c14Request(r)), c14LeafExts(cred))
					ins = append(ins, strings.Join(toks, " "))
				}
			}
		}
	}
	for i, out := range o.RunMany("tlssrvl", ins) {
		f := strings.Fields(ins[i])
		o.Stat("tlssrvl:" + f[0] + ":v" + f[1] + ":verifies=" + f[3] + ":" + strings.ReplaceAll(out, " ", ","))
	}
}

func scnC14LocalClient(o *Out, r *Rng, thorough bool) {
	var ins []string
	const host = "127.0.0.1"
	for _, ks := range c14Keysets(thorough) {
		pki := c14lGetPKI(ks)
		for _, ln := range pki.localOrder {
			own := pki.locals[ln]
			for _, pn := range pki.peerOrder {
				cred := pki.servers[ln+":"+pn]
				ver := c14Verifies(cred, x509.ExtKeyUsageServerAuth, host)
				for _, v := range c14lVersions(thorough) {
					exp := ver && (v == "12" || v == "13")
					toks := []string{ks + ":" + ln + ":" + pn, v, "1", b01(ver), b01(exp)}
					toks = append(toks, c14lTimes(pki, own)...)
					toks = append(toks, hx([]byte(host)), hx([]byte(host)))
					ins = append(ins, strings.Join(toks, " "))
				}
			}
		}
	}
	for i, out := range o.RunMany("tlsclil", ins) {
		f := strings.Fields(ins[i])
		o.Stat("tlsclil:" + f[0] + ":v" + f[1] + ":verifies=" + f[3] + ":" + strings.ReplaceAll(out, " ", ","))
	}
}

// (this file sorts after c14b.go on purpose: the registrations are appended,
// the random streams of the existing C14 generators keep their indices)
func init() {
	register("C14", scnC14LocalServer, scnC14LocalClient)
	executors["tlssrvl"] = c14lRunSrv
	executors["tlsclil"] = c14lRunCli
}
