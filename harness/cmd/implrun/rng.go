package main

import (
	"encoding/hex"
	"strconv"
	"strings"
)

// Rng is splitmix64; every random choice of a run derives from VERIF_SEED.
type Rng struct{ s uint64 }

func NewRng(seed uint64, stream uint64) *Rng {
	r := &Rng{s: seed*0x9e3779b97f4a7c15 + stream*0xbf58476d1ce4e5b9 + 0x1234567}
	r.U64()
	return r
}

func (r *Rng) U64() uint64 {
	r.s += 0x9e3779b97f4a7c15
	z := r.s
	z = (z ^ (z >> 30)) * 0xbf58476d1ce4e5b9
	z = (z ^ (z >> 27)) * 0x94d049bb133111eb
	return z ^ (z >> 31)
}

func (r *Rng) Intn(n int) int {
	if n <= 0 {
		return 0
	}
	return int(r.U64() % uint64(n))
}

func (r *Rng) Bool() bool { return r.U64()&1 == 1 }

func (r *Rng) Bytes(n int) []byte {
	b := make([]byte, n)
	for i := range b {
		b[i] = byte(r.U64())
	}
	return b
}

func (r *Rng) Pick(xs ...int) int { return xs[r.Intn(len(xs))] }

// token helpers
func hx(b []byte) string {
	if len(b) == 0 {
		return "-"
	}
	return hex.EncodeToString(b)
}

func hxu(v uint64) string { return strconv.FormatUint(v, 16) }

func bits(l []bool) string {
	if len(l) == 0 {
		return "-"
	}
	var sb strings.Builder
	for _, b := range l {
		if b {
			sb.WriteByte('1')
		} else {
			sb.WriteByte('0')
		}
	}
	return sb.String()
}

func csvu(vs []uint64) string {
	if len(vs) == 0 {
		return "-"
	}
	ss := make([]string, len(vs))
	for i, v := range vs {
		ss[i] = hxu(v)
	}
	return strings.Join(ss, ",")
}

func itoa(i int) string { return strconv.Itoa(i) }

// recoverPanic runs f and reports whether it panicked.
func panics(f func()) (p bool) {
	defer func() {
		if recover() != nil {
			p = true
		}
	}()
	f()
	return
}

func atoi(s string) int { i, _ := strconv.Atoi(s); return i }

func unhx(s string) uint64 { v, _ := strconv.ParseUint(s, 16, 64); return v }

func unhex(s string) []byte {
	if s == "-" || s == "" {
		return []byte{}
	}
	b, err := hex.DecodeString(s)
	if err != nil {
		panic("bad hex token " + s)
	}
	return b
}

func unbits(s string) []bool {
	if s == "-" || s == "" {
		return []bool{}
	}
	l := make([]bool, len(s))
	for i := range s {
		l[i] = s[i] == '1'
	}
	return l
}
