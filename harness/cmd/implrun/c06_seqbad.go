package main

import (
	"net"
	"os"
	"strings"
	"time"

	"verifharness/internal/sconn"

	"github.com/simonvetter/modbus"
)

// C06, second and third clause, over SESSIONS and over every RTU-framed
// transport: "a received RTU reply that differs from a valid one by any
// single-bit, double-bit or up-to-16-bit burst error, or whose CRC does not
// match for any other reason, is never reported as success, and after such a
// rejection the next exchange with a well-behaved device succeeds" - wherever
// in a session on one client the corrupted reply occurs, and whatever carries
// the RTU frames (a byte stream: rtuovertcp; one datagram per reply: rtuoverudp).
//
// rtuseqbad: link unit e w { ; call <valid> <wire> op... | ; setunit u | ; setenc e w }*
//   link  s    scripted in-memory connection (transport of scheme rtuovertcp)
//         tcp  NewClient + Open() of rtuovertcp://127.0.0.1:port (loopback device)
//         udp  NewClient + Open() of rtuoverudp://127.0.0.1:port (loopback device)
//   The peer is a well-behaved device behind a line that sometimes damages a
//   reply: to every frame that ends with its own CRC-16 (independent bit-serial
//   implementation, gen.go crcRef) it produces <valid>, a valid reply to the call
//   with its own fresh data; what reaches the client is <wire> (one write / one
//   datagram): <valid> itself, or <valid> with a single-bit, double-bit, burst
//   (<= 16 bits) or CRC-field error, or cut short.
// -> per step, joined by ";":  "<result> <frames the device received during the call>" | ok | ok:u

func init() {
	register("C06", scnRtuSeqBad)
	executors["rtuseqbad"] = execRtuSeqBad
}

// the client's request timeout on the loopback links: what a call costs whose
// reply was damaged so that the client waits for bytes that never come. The
// loopback device answers within microseconds; the slack is for a loaded machine.
const rtuSeqBadTimeout = 1500 * time.Millisecond

func execRtuSeqBad(in []string) (out string) {
	defer func() {
		if r := recover(); r != nil {
			out = "panic"
		}
	}()
	link := in[0]
	dev := &rtuSeqDevice{}
	var mc *modbus.ModbusClient
	stop := make(chan struct{})
	defer close(stop)
	stopped := func() bool {
		select {
		case <-stop:
			return true
		default:
			return false
		}
	}
	switch link {
	case "s":
		c := sconn.New(true)
		c.OnWrite = func(c *sconn.Conn, b []byte) {
			if ans := dev.receive(b); ans != nil {
				c.Feed(ans)
			}
		}
		var err error
		mc, err = modbus.VerifNewClientOnConn(&modbus.ClientConfiguration{
			URL: "rtuovertcp://sconn", Timeout: time.Second, Speed: 10000000, Logger: quiet}, c)
		if err != nil {
			return "harness-error"
		}
	case "tcp":
		l, err := net.Listen("tcp", "127.0.0.1:0")
		if err != nil {
			return "harness-error:" + err.Error()
		}
		defer l.Close()
		go func() {
			c, err := l.Accept()
			if err != nil {
				return
			}
			defer c.Close()
			var acc []byte
			buf := make([]byte, 4096)
			for !stopped() {
				c.SetReadDeadline(time.Now().Add(20 * time.Millisecond))
				n, err := c.Read(buf)
				acc = append(acc, buf[:n]...)
				for {
					k := rtuRequestLen(acc)
					if k == 0 || k > len(acc) {
						break
					}
					if ans := dev.receive(acc[:k]); ans != nil {
						c.Write(ans) // the whole reply in one write
					}
					acc = acc[k:]
				}
				if err != nil && !os.IsTimeout(err) {
					return
				}
			}
		}()
		mc, err = modbus.NewClient(&modbus.ClientConfiguration{
			URL: "rtuovertcp://" + l.Addr().String(), Timeout: rtuSeqBadTimeout, Speed: 115200, Logger: quiet})
		if err != nil {
			return "harness-error:newclient"
		}
		if err = mc.Open(); err != nil {
			return "harness-error:open"
		}
		defer mc.Close()
	case "udp":
		pc, err := net.ListenPacket("udp", "127.0.0.1:0")
		if err != nil {
			return "harness-error:" + err.Error()
		}
		defer pc.Close()
		go func() {
			buf := make([]byte, 4096)
			for !stopped() {
				pc.SetReadDeadline(time.Now().Add(20 * time.Millisecond))
				n, from, err := pc.ReadFrom(buf)
				if n > 0 {
					// one datagram carries one frame, in both directions
					if ans := dev.receive(buf[:n]); ans != nil {
						pc.WriteTo(ans, from)
					}
				}
				if err != nil && !os.IsTimeout(err) {
					return
				}
			}
		}()
		mc, err = modbus.NewClient(&modbus.ClientConfiguration{
			URL: "rtuoverudp://" + pc.LocalAddr().String(), Timeout: rtuSeqBadTimeout, Speed: 115200, Logger: quiet})
		if err != nil {
			return "harness-error:newclient"
		}
		if err = mc.Open(); err != nil {
			return "harness-error:open"
		}
		defer mc.Close()
	default:
		return "harness-error:bad-link"
	}
	mc.SetUnitId(uint8(unhx(in[1])))
	if err := mc.SetEncoding(modbus.Endianness(atoi(in[2])), modbus.WordOrder(atoi(in[3]))); err != nil {
		return "harness-error:setenc"
	}

	var outs []string
	var step []string
	flush := func() {
		if len(step) == 0 {
			return
		}
		switch {
		case step[0] == "call" && len(step) >= 4:
			// step[1] (the reply the device produced) is for the model side only:
			// the client sees what the line delivers
			dev.setReply(unhex(step[2]))
			before := dev.count()
			res := callOp(mc, step[3:])
			if link != "s" && res != "err:params" && res != "panic" {
				// a request that was written has reached the loopback device when the
				// call returns; should it not have, give it time to show up (the
				// device logs frames whether or not it answers them)
				for i := 0; i < 600 && dev.count() == before; i++ {
					time.Sleep(5 * time.Millisecond)
				}
			}
			dev.setReply(nil)
			outs = append(outs, res+" "+writesStr(dev.since(before)))
		case step[0] == "setunit" && len(step) == 2:
			mc.SetUnitId(uint8(unhx(step[1])))
			outs = append(outs, "ok")
		case step[0] == "setenc" && len(step) == 3:
			outs = append(outs, resStr("u", mc.SetEncoding(modbus.Endianness(unhx(step[1])), modbus.WordOrder(unhx(step[2])))))
		default:
			outs = append(outs, "harness-error:bad-step")
		}
		step = nil
	}
	for _, t := range in[4:] {
		if t == ";" {
			flush()
		} else {
			step = append(step, t)
		}
	}
	flush()
	return strings.Join(outs, ";")
}

// ---------------------------------------------------------------- generator

// The length an RTU receiver infers for the reply that starts with b from its
// function code and third byte (Modbus over serial line: byte-counted replies
// to the read functions, fixed-size echoes of the write functions, 5-byte
// exception replies), 0 for a function code without a defined reply layout.
// Used to keep the generated corruption inside the property (see below) and
// to record what kind of rejection it provokes; never to decide a verdict.
func rtuInferredLen(b []byte) int {
	if len(b) < 3 {
		return 0
	}
	switch fc := b[1]; {
	case fc >= 1 && fc <= 4:
		return 3 + int(b[2]) + 2
	case fc == 5, fc == 6, fc == 15, fc == 16:
		return 8
	case fc == 22:
		return 10
	case fc >= 0x80:
		switch fc & 0x7f {
		case 1, 2, 3, 4, 5, 6, 15, 16, 22:
			return 5
		}
	}
	return 0
}

// a damaged version of the valid reply v, and what was done to it
func rtuSeqBadCorrupt(r *Rng, v []byte) ([]byte, string) {
	bitsN := len(v) * 8
	switch k := r.Intn(10); {
	case k < 4:
		return flipBit(v, r.Intn(bitsN)), "single"
	case k < 6:
		a, b := r.Intn(bitsN), r.Intn(bitsN-1)
		if b >= a {
			b++
		}
		return flipBit(flipBit(v, a), b), "double"
	case k < 8:
		// burst: first and last flipped bit at most 15 apart, random pattern in between
		start := r.Intn(bitsN)
		c := flipBit(v, start)
		span := r.Intn(16)
		for j := 1; j <= span && start+j < bitsN; j++ {
			if j == span || r.Bool() {
				c = flipBit(c, start+j)
			}
		}
		return c, "burst"
	case k < 9:
		// any other CRC field
		c := append([]byte(nil), v...)
		for c[len(c)-2] == v[len(v)-2] && c[len(c)-1] == v[len(v)-1] {
			c[len(c)-2], c[len(c)-1] = byte(r.U64()), byte(r.U64())
		}
		return c, "crcfield"
	}
	// the end of the reply is lost
	return append([]byte(nil), v[:1+r.Intn(len(v)-1)]...), "cut-short"
}

// a call whose result shows the data of the reply (polling is what sessions
// mostly consist of), or a small write
func rtuSeqBadOp(r *Rng) []string {
	for {
		var op []string
		switch r.Intn(10) {
		case 0, 1:
			op = rtuSeqSmallWrite(r, r.Pick(1, 2, 4, 16))
		case 2:
			op = randOp(r, opValid)
		default:
			q := r.Pick(1, 1, 2, 2, 3, 4, 8, 16, 60, 125)
			a := pickAddr(r)
			if a+q-1 > 0xffff {
				a = 0x10000 - q
			}
			switch r.Intn(4) {
			case 0:
				op = []string{"ReadCoils", hxi(a), hxi(q)}
			case 1:
				op = []string{"ReadDiscreteInputs", hxi(a), hxi(q)}
			default:
				op = []string{"ReadRegisters", hxi(a), hxi(q), itoa(r.Intn(2))}
			}
		}
		if _, _, ok := buildReply(r, op, 1); ok {
			return op
		}
	}
}

// sessions on one RTU client in which the line damages some replies; every
// damaged reply is followed, sooner or later, by at least two exchanges that
// arrive intact, and every reply of the session carries data of its own
func scnRtuSeqBad(o *Out, r *Rng, thorough bool) {
	nS, nTCP, nUDP, waits := 300, 8, 14, 1
	if thorough {
		nS, nTCP, nUDP, waits = 5000, 60, 120, 2
	}
	var ins []string
	session := func(link string) {
		unit, e, w := randCfg(r)
		toks := []string{link, hxi(unit), itoa(e), itoa(w)}
		// which replies are damaged: 0..2 intact exchanges, then 1..3 times
		// (1, sometimes 2 damaged replies in a row; 2..3 intact exchanges)
		var damaged []bool
		for i := r.Intn(3); i > 0; i-- {
			damaged = append(damaged, false)
		}
		for g := 1 + r.Intn(3); g > 0; g-- {
			damaged = append(damaged, true)
			if r.Intn(4) == 0 {
				damaged = append(damaged, true)
			}
			damaged = append(damaged, false, false)
			if r.Bool() {
				damaged = append(damaged, false)
			}
		}
		// on the loopback links a reply the client keeps waiting for costs one
		// request timeout of wall-clock time: at most `waits` of them per session
		waitsLeft := waits
		var prev []string
		var prevValid []byte
		for _, bad := range damaged {
			var op []string
			switch k := r.Intn(10); {
			case prev == nil || k < 3:
				op = rtuSeqBadOp(r)
				o.Stat("rtuseqbad:step-fresh-call")
			case k < 8:
				// the same call again (a poll loop; a retry after the failure)
				op = prev
				o.Stat("rtuseqbad:step-same-call")
			case k == 8 && strings.HasPrefix(prev[0], "Write"):
				op = rtuSeqSameShape(r, prev, r.Intn(4))
				o.Stat("rtuseqbad:step-same-shape-other-data")
			default:
				if r.Bool() {
					unit = r.Pick(unit^1, unit^0x80, r.Intn(256))
					toks = append(toks, ";", "setunit", hxi(unit))
				} else {
					if r.Bool() {
						e = 3 - e
					} else {
						w = 3 - w
					}
					toks = append(toks, ";", "setenc", itoa(e), itoa(w))
				}
				op = prev
				o.Stat("rtuseqbad:step-reconfigured")
			}
			// the device's reply: data of its own, different from the reply before
			var valid []byte
			for try := 0; try < 8; try++ {
				fc, payload, ok := buildReply(r, op, e)
				if !ok {
					// (not reached: the calls above are all within protocol limits)
					op = []string{"ReadRegisters", "0", "2", "0"}
					continue
				}
				valid = rtuFrame(byte(unit), fc, payload)
				if string(valid) != string(prevValid) {
					break
				}
			}
			wire := valid
			if bad {
				for {
					c, label := rtuSeqBadCorrupt(r, valid)
					n := rtuInferredLen(c)
					if n > 0 && n <= len(c) && rtuTrailerOK(c[:n]) {
						// a leading part of the damaged reply is itself a frame with a
						// matching CRC: the documented gap F8 of the recovery clause
						// (scenario rtuflip has that family); not drawn here
						o.Stat("rtuseqbad:redrawn-f8-family")
						continue
					}
					class := "rejected-at-once"
					if n > len(c) || len(c) < 3 {
						class = "waited-for"
					}
					if class == "waited-for" && link != "s" {
						if waitsLeft == 0 {
							continue
						}
						waitsLeft--
					}
					wire = c
					o.Stat("rtuseqbad:damage-" + label)
					o.Stat("rtuseqbad:damaged-reply-" + class)
					o.Stat("rtuseqbad:damaged-reply-link-" + link)
					break
				}
			} else {
				o.Stat("rtuseqbad:intact-reply")
			}
			toks = append(toks, ";", "call", hx(valid), hx(wire))
			toks = append(toks, op...)
			prev, prevValid = op, valid
		}
		ins = append(ins, strings.Join(toks, " "))
		o.Stat("rtuseqbad:link-" + link)
	}
	for i := 0; i < nS; i++ {
		session("s")
	}
	for i := 0; i < nTCP; i++ {
		session("tcp")
	}
	for i := 0; i < nUDP; i++ {
		session("udp")
	}
	o.RunMany("rtuseqbad", ins)
}
