package main

// C18: calls never modify caller data, returned data stays stable.
//
// Scenario "alias": an argument slice of a prescribed geometry (backing array,
// offset, len, cap) is passed twice to a write call; the WHOLE backing array
// is looked at afterwards, and the two transmitted frames are compared.
// Scenario "stable": a history of calls on one client; every returned slice is
// kept (with its spare capacity) and re-compared with its first snapshot after
// every later call; earlier results may be passed as arguments to later writes.

import (
	"bytes"
	"math"
	"strings"
	"time"

	"github.com/simonvetter/modbus"
	"verifharness/internal/sconn"
)

func init() {
	register("C18", scnAlias, scnStable)
	executors["alias"] = func(in []string) string { return guarded(func() string { return execAlias(in) }) }
	executors["stable"] = func(in []string) string { return guarded(func() string { return execStable(in) }) }
}

// guarded runs f with a panic guard and a wall-clock limit.
func guarded(f func() string) string {
	ch := make(chan string, 1)
	go func() {
		defer func() {
			if r := recover(); r != nil {
				ch <- "panic"
			}
		}()
		ch <- f()
	}()
	select {
	case s := <-ch:
		return s
	case <-time.After(20 * time.Second):
		return "harness-timeout"
	}
}

// frames equal up to the MBAP transaction id (which counts calls, not data)
func sameFrames(fr string, a, b [][]byte) bool {
	if len(a) != len(b) {
		return false
	}
	for i := range a {
		x, y := a[i], b[i]
		if fr == "m" {
			if len(x) < 2 || len(y) < 2 {
				return false
			}
			x, y = x[2:], y[2:]
		}
		if !bytes.Equal(x, y) {
			return false
		}
	}
	return true
}

func errStr(err error) string {
	if err == nil {
		return "ok:u"
	}
	return "err:" + errClass(err)
}

// alias: fr unit e w op addr backing off len cap
//   -> backing-after same(0/1) frames-of-call-1 result-1 result-2
func execAlias(in []string) string {
	fr := in[0]
	unit := uint8(unhx(in[1]))
	e, w := atoi(in[2]), atoi(in[3])
	name := in[4]
	addr := uint16(unhx(in[5]))
	off, ln, cp := atoi(in[7]), atoi(in[8]), atoi(in[9])
	c := sconn.New(true) // virtual: the silent peer times out at once, after the request went out
	mc := newClientOn(fr, c, unit, e, w)

	var call func() error
	var after func() string
	switch name {
	case "WriteBytes", "WriteRawBytes":
		src := bytesTok(in[6])
		arr := make([]byte, len(src))
		copy(arr, src)
		s := arr[off : off+ln : off+cp]
		if name == "WriteBytes" {
			call = func() error { return mc.WriteBytes(addr, s) }
		} else {
			call = func() error { return mc.WriteRawBytes(addr, s) }
		}
		after = func() string { return hx(arr) }
	case "WriteCoils":
		src := boolsTok(in[6])
		arr := make([]bool, len(src))
		copy(arr, src)
		s := arr[off : off+ln : off+cp]
		call = func() error { return mc.WriteCoils(addr, s) }
		after = func() string { return bits(arr) }
	case "WriteRegisters":
		arr := u16s(numsTok(in[6]))
		s := arr[off : off+ln : off+cp]
		call = func() error { return mc.WriteRegisters(addr, s) }
		after = func() string { return nums16(arr)[2:] }
	case "WriteUint32s":
		arr := u32s(numsTok(in[6]))
		s := arr[off : off+ln : off+cp]
		call = func() error { return mc.WriteUint32s(addr, s) }
		after = func() string { return nums32(arr)[2:] }
	case "WriteFloat32s":
		arr := f32s(numsTok(in[6]))
		s := arr[off : off+ln : off+cp]
		call = func() error { return mc.WriteFloat32s(addr, s) }
		after = func() string { return numsf32(arr)[2:] }
	case "WriteUint64s":
		arr := append([]uint64(nil), numsTok(in[6])...)
		arr = arr[:len(arr):len(arr)]
		s := arr[off : off+ln : off+cp]
		call = func() error { return mc.WriteUint64s(addr, s) }
		after = func() string { return csvu(arr) }
	case "WriteFloat64s":
		arr := f64s(numsTok(in[6]))
		s := arr[off : off+ln : off+cp]
		call = func() error { return mc.WriteFloat64s(addr, s) }
		after = func() string { return numsf64(arr)[2:] }
	default:
		return "harness-error:bad-op"
	}
	// the caller's storage as another goroutine would see it while the request
	// is on the wire (the call has not returned yet)
	before := after()
	mid := ""
	c.OnWrite = func(*sconn.Conn, []byte) {
		if m := after(); m != before && mid == "" {
			mid = "during-call:" + m
		}
	}
	r1 := errStr(call())
	w1 := c.WriteLog()
	r2 := errStr(call())
	wall := c.WriteLog()
	w2 := wall[len(w1):]
	same := "0"
	if sameFrames(fr, w1, w2) {
		same = "1"
	}
	final := after()
	if mid != "" {
		final = mid
	}
	return final + " " + same + " " + writesStr(w1) + " " + r1 + " " + r2
}

// one kept result: how to print its current content (whole capacity)
type keptResult struct {
	step int
	get  func() string
	snap string
	val  interface{}
}

func argIndex(tok string) (int, bool) {
	if strings.HasPrefix(tok, "@") {
		return atoi(tok[1:]), true
	}
	return 0, false
}

// callKeep performs one call; slice results are returned for keeping; a list
// argument written @k is the slice returned by step k itself (not a copy).
func callKeep(mc *modbus.ModbusClient, t []string, results map[int]interface{}) (out string, ret interface{}, get func() string) {
	defer func() {
		if r := recover(); r != nil {
			out, ret, get = "panic", nil, nil
		}
	}()
	a := func(i int) uint16 { return uint16(unhx(t[i])) }
	rt := func(i int) modbus.RegType { return modbus.RegType(unhx(t[i])) }
	switch t[0] {
	case "ReadCoils", "ReadDiscreteInputs":
		var v []bool
		var err error
		if t[0] == "ReadCoils" {
			v, err = mc.ReadCoils(a(1), a(2))
		} else {
			v, err = mc.ReadDiscreteInputs(a(1), a(2))
		}
		if err != nil {
			return resStr("", err), nil, nil
		}
		return resStr("b:"+bits(v), nil), v, func() string { return bits(v[:cap(v)]) }
	case "ReadRegisters":
		v, err := mc.ReadRegisters(a(1), a(2), rt(3))
		if err != nil {
			return resStr("", err), nil, nil
		}
		return resStr(nums16(v), nil), v, func() string { return nums16(v[:cap(v)]) }
	case "ReadUint32s":
		v, err := mc.ReadUint32s(a(1), a(2), rt(3))
		if err != nil {
			return resStr("", err), nil, nil
		}
		return resStr(nums32(v), nil), v, func() string { return nums32(v[:cap(v)]) }
	case "ReadFloat32s":
		v, err := mc.ReadFloat32s(a(1), a(2), rt(3))
		if err != nil {
			return resStr("", err), nil, nil
		}
		return resStr(numsf32(v), nil), v, func() string { return numsf32(v[:cap(v)]) }
	case "ReadUint64s":
		v, err := mc.ReadUint64s(a(1), a(2), rt(3))
		if err != nil {
			return resStr("", err), nil, nil
		}
		return resStr("n:"+csvu(v), nil), v, func() string { return csvu(v[:cap(v)]) }
	case "ReadFloat64s":
		v, err := mc.ReadFloat64s(a(1), a(2), rt(3))
		if err != nil {
			return resStr("", err), nil, nil
		}
		return resStr(numsf64(v), nil), v, func() string { return numsf64(v[:cap(v)]) }
	case "ReadBytes", "ReadRawBytes":
		var v []byte
		var err error
		if t[0] == "ReadBytes" {
			v, err = mc.ReadBytes(a(1), a(2), rt(3))
		} else {
			v, err = mc.ReadRawBytes(a(1), a(2), rt(3))
		}
		if err != nil {
			return resStr("", err), nil, nil
		}
		return resStr("y:"+hx(v), nil), v, func() string { return hx(v[:cap(v)]) }
	}
	// writes taking an earlier result as argument
	if len(t) == 3 {
		if k, ok := argIndex(t[2]); ok {
			switch v := results[k].(type) {
			case []byte:
				if t[0] == "WriteBytes" {
					return resStr("u", mc.WriteBytes(a(1), v)), nil, nil
				} else if t[0] == "WriteRawBytes" {
					return resStr("u", mc.WriteRawBytes(a(1), v)), nil, nil
				}
			case []bool:
				if t[0] == "WriteCoils" {
					return resStr("u", mc.WriteCoils(a(1), v)), nil, nil
				}
			case []uint16:
				if t[0] == "WriteRegisters" {
					return resStr("u", mc.WriteRegisters(a(1), v)), nil, nil
				}
			case []uint32:
				if t[0] == "WriteUint32s" {
					return resStr("u", mc.WriteUint32s(a(1), v)), nil, nil
				}
			case []float32:
				if t[0] == "WriteFloat32s" {
					return resStr("u", mc.WriteFloat32s(a(1), v)), nil, nil
				}
			case []uint64:
				if t[0] == "WriteUint64s" {
					return resStr("u", mc.WriteUint64s(a(1), v)), nil, nil
				}
			case []float64:
				if t[0] == "WriteFloat64s" {
					return resStr("u", mc.WriteFloat64s(a(1), v)), nil, nil
				}
			}
			return "harness-error:bad-ref", nil, nil
		}
	}
	return callOp(mc, t), nil, nil
}

// stable: fr unit e w { ; call end chunks op... }*
//   -> per step "result writes consumed" joined by ";", then "|stable" or
//      "|changed:<step of the later call>:<step of the altered result>"
func execStable(in []string) string {
	c := sconn.New(true)
	mc := newClientOn(in[0], c, uint8(unhx(in[1])), atoi(in[2]), atoi(in[3]))
	var outs []string
	var step []string
	var kept []*keptResult
	results := map[int]interface{}{}
	verdict := "stable"
	n := 0
	flush := func() {
		if len(step) == 0 {
			return
		}
		if step[0] == "call" {
			c.Feed(chunksTok(step[2])...)
			if step[1] == "c" {
				c.PeerClose()
			} else if step[1] == "r" {
				c.PeerReset()
			}
			before := c.Pending()
			nw := len(c.WriteLog())
			res, ret, get := callKeep(mc, step[3:], results)
			outs = append(outs, res+" "+writesStr(c.WriteLog()[nw:])+" "+itoa(before-c.Pending()))
			// every earlier result must read as when it was returned
			for _, k := range kept {
				if verdict == "stable" && k.get() != k.snap {
					verdict = "changed:" + itoa(n) + ":" + itoa(k.step)
				}
			}
			if ret != nil {
				results[n] = ret
				kept = append(kept, &keptResult{step: n, get: get, snap: get(), val: ret})
			}
		} else {
			outs = append(outs, "harness-error:bad-step")
		}
		n++
		step = nil
	}
	for _, t := range in[4:] {
		if t == ";" {
			flush()
		} else {
			step = append(step, t)
		}
	}
	flush()
	return strings.Join(outs, ";") + "|" + verdict
}

// ---------------------------------------------------------------- generators

type aliasKind int

const (
	akBytes aliasKind = iota
	akBools
	akU16
	akU32
	akU64
)

var aliasOps = []struct {
	name string
	kind aliasKind
}{
	{"WriteBytes", akBytes}, {"WriteRawBytes", akBytes}, {"WriteCoils", akBools},
	{"WriteRegisters", akU16}, {"WriteUint32s", akU32}, {"WriteUint64s", akU64},
	{"WriteFloat32s", akU32}, {"WriteFloat64s", akU64},
}

// backing array content: the sentinel pattern (every cell distinct from the
// pad byte 0 and from its neighbours), or random content
func backingTok(r *Rng, k aliasKind, L int, random bool) string {
	if L == 0 {
		return "-"
	}
	switch k {
	case akBytes:
		b := make([]byte, L)
		for i := range b {
			b[i] = byte(0xa0 + i%0x50)
			if random {
				b[i] = byte(r.U64())
			}
		}
		return hx(b)
	case akBools:
		var sb strings.Builder
		for i := 0; i < L; i++ {
			v := i%3 == 0 || i%7 == 2
			if random {
				v = r.Bool()
			}
			if v {
				sb.WriteByte('1')
			} else {
				sb.WriteByte('0')
			}
		}
		return sb.String()
	}
	p := make([]string, L)
	for i := range p {
		var v uint64
		switch k {
		case akU16:
			v = uint64(0xa000 + (i*0x0101)%0x5000)
			if random {
				v = r.U64() & 0xffff
			}
		case akU32:
			v = uint64(0xa0b0c0d0) + uint64(i)*0x01010101
			v &= 0xffffffff
			if random {
				v = r.U64() & 0xffffffff
				if r.Intn(5) == 0 {
					v = interesting64[r.Intn(len(interesting64))] & 0xffffffff
				}
			}
		default:
			v = 0xa1b2c3d4e5f60718 + uint64(i)*0x0101010101010101
			if random {
				v = r.U64()
				if r.Intn(5) == 0 {
					v = interesting64[r.Intn(len(interesting64))]
				}
			}
		}
		p[i] = hxu(v)
	}
	return strings.Join(p, ",")
}

func aliasCase(r *Rng, fr string, e, w int, opi int, off, ln, spare int, random bool) string {
	op := aliasOps[opi]
	tail := (off + ln + spare) % 3
	L := off + ln + spare + tail
	unit := r.Pick(1, 17, 247, 255, r.Intn(256))
	addr := r.Pick(0, 1, 5, 0x1234, 0x8000, 0xff00, r.Intn(0xff00))
	if r.Intn(16) == 0 {
		addr = r.Pick(0xffff, 0xfffe, 0xff85)
	}
	return strings.Join([]string{fr, hxi(unit), itoa(e), itoa(w), op.name, hxi(addr),
		backingTok(r, op.kind, L, random), itoa(off), itoa(ln), itoa(ln + spare)}, " ")
}

func scnAlias(o *Out, r *Rng, thorough bool) {
	var ins []string
	add := func(fr string, e, w, opi, off, ln, spare int, random bool) {
		ins = append(ins, aliasCase(r, fr, e, w, opi, off, ln, spare, random))
		o.Stat("alias:" + aliasOps[opi].name)
		if spare == 0 {
			o.Stat("alias:cap=len")
		} else {
			o.Stat("alias:spare-capacity")
		}
		if ln%2 == 1 {
			o.Stat("alias:odd-len")
		} else {
			o.Stat("alias:even-len")
		}
		o.Stat("alias:enc-" + itoa(e) + itoa(w))
	}
	// the complete small grid: len 0..9 x spare capacity 0..3 x offset 0..2,
	// every write call, every encoding, both framings
	for _, fr := range []string{"m", "r"} {
		for e := 1; e <= 2; e++ {
			for w := 1; w <= 2; w++ {
				for opi := range aliasOps {
					for ln := 0; ln <= 9; ln++ {
						for spare := 0; spare <= 3; spare++ {
							for off := 0; off <= 2; off++ {
								add(fr, e, w, opi, off, ln, spare, false)
							}
						}
					}
				}
			}
		}
	}
	// long arguments around the protocol limits, up to 300 bytes / 2000 coils
	long := map[aliasKind][]int{
		akBytes: {121, 122, 123, 124, 244, 245, 246, 247, 248, 299, 300},
		akBools: {15, 16, 17, 255, 256, 1967, 1968, 1969, 2000},
		akU16:   {61, 122, 123, 124, 150},
		akU32:   {30, 60, 61, 62, 75},
		akU64:   {15, 29, 30, 31, 40},
	}
	reps := 1
	if thorough {
		reps = 6
	}
	for rep := 0; rep < reps; rep++ {
		for _, fr := range []string{"m", "r"} {
			for e := 1; e <= 2; e++ {
				for w := 1; w <= 2; w++ {
					for opi := range aliasOps {
						for _, ln := range long[aliasOps[opi].kind] {
							add(fr, e, w, opi, r.Intn(4), ln, r.Pick(0, 1, 2, 7, 64), rep > 0 || r.Bool())
						}
					}
				}
			}
		}
	}
	// random content / geometry
	n := 2000
	if thorough {
		n = 120000
	}
	for i := 0; i < n; i++ {
		fr := "m"
		if r.Intn(3) == 0 {
			fr = "r"
		}
		add(fr, 1+r.Intn(2), 1+r.Intn(2), r.Intn(len(aliasOps)), r.Intn(6), r.Intn(40), r.Pick(0, 0, 1, 1, 2, 3, 5, 17), true)
	}
	o.RunMany("alias", ins)
}

// slice-returning reads, with the write that accepts their result
var stableReads = []struct {
	name   string
	per    int // registers per value (0: bits, -1: bytes)
	lim    int
	writer []string
}{
	{"ReadCoils", 0, 2000, []string{"WriteCoils"}},
	{"ReadDiscreteInputs", 0, 2000, []string{"WriteCoils"}},
	{"ReadRegisters", 1, 125, []string{"WriteRegisters"}},
	{"ReadUint32s", 2, 62, []string{"WriteUint32s"}},
	{"ReadFloat32s", 2, 62, []string{"WriteFloat32s"}},
	{"ReadUint64s", 4, 31, []string{"WriteUint64s"}},
	{"ReadFloat64s", 4, 31, []string{"WriteFloat64s"}},
	{"ReadBytes", -1, 250, []string{"WriteBytes", "WriteRawBytes"}},
	{"ReadRawBytes", -1, 250, []string{"WriteBytes", "WriteRawBytes"}},
}

func scnStable(o *Out, r *Rng, thorough bool) {
	n := 1000
	if thorough {
		n = 40000
	}
	var ins []string
	for i := 0; i < n; i++ {
		unit, e, w := randCfg(r)
		fr := "m"
		if r.Intn(2) == 0 {
			fr = "r"
		}
		toks := []string{fr, hxi(unit), itoa(e), itoa(w)}
		txn := 0
		synced := true // the generator still knows the transaction id / stream position
		type got struct {
			step int
			kind int // index into stableReads
			n    int // elements
		}
		var have []got
		steps := 3 + r.Intn(8)
		for s := 0; s < steps; s++ {
			var op []string
			refKind, refN := -1, 0
			switch x := r.Intn(20); {
			case x < 10: // a read returning a slice
				k := r.Intn(len(stableReads))
				sr := stableReads[k]
				q := r.Pick(1, 2, 3, sr.lim, 1+r.Intn(sr.lim), 1+r.Intn(12))
				if sr.per == 0 {
					// long bit vectors are costly for the (unary) extracted model: mostly short ones
					q = r.Pick(1, 2, 7, 8, 9, 16, 17, 1+r.Intn(40), 1+r.Intn(300))
					if r.Intn(25) == 0 {
						q = r.Pick(sr.lim, sr.lim-1, 1+r.Intn(sr.lim))
					}
				}
				if q > sr.lim {
					q = sr.lim
				}
				regs := q
				if sr.per > 0 {
					regs = q * sr.per
				} else if sr.per < 0 {
					regs = (q + 1) / 2
				}
				a := r.Pick(0, 1, 0x1000, 0x10000-regs, r.Intn(0x10000-regs+1))
				if sr.per == 0 {
					op = []string{sr.name, hxi(a), hxi(q)}
				} else {
					op = []string{sr.name, hxi(a), hxi(q), itoa(r.Intn(2))}
				}
				refKind, refN = k, q
				o.Stat("stable:read:" + sr.name)
			case x < 16 && len(have) > 0: // a write whose argument is an earlier result
				g := have[r.Intn(len(have))]
				sr := stableReads[g.kind]
				name := sr.writer[r.Intn(len(sr.writer))]
				op = []string{name, hxi(r.Pick(0, 5, 0x100, r.Intn(0x8000))), "@" + itoa(g.step)}
				o.Stat("stable:write-earlier-result")
			default:
				op = randOp(r, opValid)
				for len(op) == 3 && len(op[2]) > 600 { // keep the lines short
					op = randOp(r, opValid)
				}
				o.Stat("stable:other")
			}
			// the reply
			var chunks [][]byte
			end := "s"
			var fc byte
			var payload []byte
			ok := false
			if len(op) == 3 && strings.HasPrefix(op[2], "@") {
				// the write of an earlier result: quantity known from that result
				var g got
				for _, h := range have {
					if "@"+itoa(h.step) == op[2] {
						g = h
					}
				}
				a := int(unhx(op[1]))
				be := func(v int) []byte { return []byte{byte(v >> 8), byte(v)} }
				switch stableReads[g.kind].per {
				case 0:
					if g.n >= 1 && g.n <= 1968 && a+g.n-1 <= 0xffff {
						fc, payload, ok = 15, append(be(a), be(g.n)...), true
					}
				case -1:
					q := (g.n + 1) / 2
					if q >= 1 && q <= 123 && a+q-1 <= 0xffff {
						fc, payload, ok = 16, append(be(a), be(q)...), true
					}
				default:
					q := g.n * stableReads[g.kind].per
					if q >= 1 && q <= 123 && a+q-1 <= 0xffff {
						fc, payload, ok = 16, append(be(a), be(q)...), true
					}
				}
			} else {
				fc, payload, ok = buildReply(r, op, e)
			}
			if ok {
				txn++
				p := reply{txn: uint16(txn), proto: 0, length: -1, unit: byte(unit), fc: fc, payload: payload}
				switch x := r.Intn(24); {
				case x == 0:
					// no reply: time-out
					refKind = -1
					o.Stat("stable:reply:none")
				case x == 1:
					mutate(r, fr, &p)
					chunks = [][]byte{p.bytes(fr, r)}
					refKind = -1
					synced = false
					o.Stat("stable:reply:corrupt")
				case x == 2 && fr == "m":
					// a foreign frame first
					f := p
					f.txn += 7
					chunks = [][]byte{f.bytes(fr, r), p.bytes(fr, r)}
					o.Stat("stable:reply:foreign-first")
				default:
					chunks = [][]byte{p.bytes(fr, r)}
					o.Stat("stable:reply:valid")
				}
			} else {
				refKind = -1
			}
			toks = append(toks, ";", "call", end, writesStr(chunks))
			toks = append(toks, op...)
			if refKind >= 0 && synced {
				have = append(have, got{step: s, kind: refKind, n: refN})
			}
		}
		ins = append(ins, strings.Join(toks, " "))
	}
	outs := o.RunMany("stable", ins)
	for _, out := range outs {
		if strings.HasSuffix(out, "|stable") {
			o.Stat("stable:verdict:stable")
		} else {
			o.Stat("stable:verdict:other")
		}
	}
}

var _ = math.Float32bits
