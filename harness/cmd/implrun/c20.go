package main

// C20: the real modbus-cli binary (built from /repo/cmd/modbus-cli.go) is run
// against a reference device emulator written here, independent of the
// library: a plain MBAP server over 4 x 65536 cells that logs every frame it
// receives. Observables: exit status, connections accepted, the frames on the
// wire, the cells that differ from the initial pattern afterwards, and the
// output lines reduced to (address, hex value) items.
//
// Scenario "atoi": strconv.ParseUint/ParseInt(s, 0, bits) called directly.

import (
	"bytes"
	"context"
	"encoding/hex"
	"errors"
	"fmt"
	"io"
	"math"
	"net"
	"os"
	"os/exec"
	"path/filepath"
	"regexp"
	"strconv"
	"strings"
	"sync"
	"time"
)

func init() {
	register("C20", scnAtoi, scnCli)
	executors["cli"] = runCli
	executors["atoi"] = runAtoi
}

// ------------------------------------------------------------ the binary

var (
	cliMu     sync.Mutex
	cliShared string // path of the binary shared by a generator run
	cliDir    string
)

func cliRepo() string {
	if r := os.Getenv("VERIF_REPO"); r != "" {
		return r
	}
	return "/repo"
}

// cliBuild compiles cmd/modbus-cli.go into a fresh directory under the
// working directory of the harness.
func cliBuild() (dir string, bin string, err error) {
	wd, err := os.Getwd()
	if err != nil {
		return "", "", err
	}
	dir, err = os.MkdirTemp(wd, "c20cli-")
	if err != nil {
		return "", "", err
	}
	bin = filepath.Join(dir, "modbus-cli")
	ctx, cancel := context.WithTimeout(context.Background(), 300*time.Second)
	defer cancel()
	cmd := exec.CommandContext(ctx, "go", "build", "-o", bin, filepath.Join(cliRepo(), "cmd", "modbus-cli.go"))
	cmd.Dir = cliRepo()
	cmd.Env = append(os.Environ(), "GOFLAGS=-mod=mod", "GOPROXY=off", "GOSUMDB=off", "GOTOOLCHAIN=local")
	outp, err := cmd.CombinedOutput()
	if err != nil {
		os.RemoveAll(dir)
		return "", "", fmt.Errorf("go build: %v: %s", err, strings.TrimSpace(string(outp)))
	}
	return dir, bin, nil
}

// cliAcquire returns the binary to run and a release function. A generator
// run builds it once (cliShareStart/cliShareStop); a lone replay builds and
// removes its own.
func cliAcquire() (string, func(), error) {
	cliMu.Lock()
	if cliShared != "" {
		b := cliShared
		cliMu.Unlock()
		return b, func() {}, nil
	}
	cliMu.Unlock()
	dir, bin, err := cliBuild()
	if err != nil {
		return "", func() {}, err
	}
	return bin, func() { os.RemoveAll(dir) }, nil
}

func cliShareStart() error {
	cliMu.Lock()
	defer cliMu.Unlock()
	if cliShared != "" {
		return nil
	}
	dir, bin, err := cliBuild()
	if err != nil {
		return err
	}
	cliDir, cliShared = dir, bin
	return nil
}

func cliShareStop() {
	cliMu.Lock()
	defer cliMu.Unlock()
	if cliDir != "" {
		os.RemoveAll(cliDir)
	}
	cliDir, cliShared = "", ""
}

// ------------------------------------------------------------ the emulator

func patCoil(a int) bool   { return (a+a/3)%2 == 1 }
func patDisc(a int) bool   { return (a/2+a/7)%2 == 1 }
func patHold(a int) uint16 { return uint16((a*40503 + 4660) % 65536) }
func patInp(a int) uint16  { return uint16((a*25173 + 13849) % 65536) }

type emuRead struct {
	fc   byte
	addr int
	qty  int
	data []byte // the register / coil bytes served
}

type emu struct {
	ln     *net.TCPListener
	mu     sync.Mutex
	coils  []bool
	disc   []bool
	hold   []uint16
	inp    []uint16
	frames []string  // every frame received, raw
	reads  []emuRead // successful read responses, in order
	notes  []string  // anything irregular
	conns  int
	wg     sync.WaitGroup
	accDone chan struct{}
	// scenario clirep: when snapAt frames have been processed, remember the memory differences and the reads served so far
	snapAt    int
	snapDiff  string
	snapReads int
}

func newEmu() (*emu, error) {
	l, err := net.Listen("tcp", "127.0.0.1:0")
	if err != nil {
		return nil, err
	}
	e := &emu{ln: l.(*net.TCPListener), coils: make([]bool, 65536), disc: make([]bool, 65536),
		hold: make([]uint16, 65536), inp: make([]uint16, 65536), accDone: make(chan struct{})}
	for a := 0; a < 65536; a++ {
		e.coils[a], e.disc[a], e.hold[a], e.inp[a] = patCoil(a), patDisc(a), patHold(a), patInp(a)
	}
	go e.accept()
	return e, nil
}

func (e *emu) port() int { return e.ln.Addr().(*net.TCPAddr).Port }

func (e *emu) accept() {
	defer close(e.accDone)
	for {
		c, err := e.ln.Accept()
		if err != nil {
			return
		}
		e.mu.Lock()
		e.conns++
		e.mu.Unlock()
		e.wg.Add(1)
		go e.serve(c)
	}
}

// finish: pick up connections still queued, stop listening, wait for the sessions
func (e *emu) finish() {
	e.ln.SetDeadline(time.Now().Add(40 * time.Millisecond))
	select {
	case <-e.accDone:
	case <-time.After(3 * time.Second):
	}
	e.ln.Close()
	done := make(chan struct{})
	go func() { e.wg.Wait(); close(done) }()
	select {
	case <-done:
	case <-time.After(3 * time.Second):
		e.mu.Lock()
		e.notes = append(e.notes, "session-still-open")
		e.mu.Unlock()
	}
}

func (e *emu) note(s string) {
	e.mu.Lock()
	e.notes = append(e.notes, s)
	e.mu.Unlock()
}

func (e *emu) serve(c net.Conn) {
	defer e.wg.Done()
	defer c.Close()
	for {
		c.SetDeadline(time.Now().Add(12 * time.Second))
		hdr := make([]byte, 7)
		if n, err := io.ReadFull(c, hdr); err != nil {
			if n != 0 {
				e.note("partial-header")
			}
			return
		}
		length := int(hdr[4])<<8 | int(hdr[5])
		if length < 2 || length > 254 {
			e.mu.Lock()
			e.frames = append(e.frames, hex.EncodeToString(hdr))
			e.mu.Unlock()
			e.note("bad-length")
			return
		}
		body := make([]byte, length-1)
		if _, err := io.ReadFull(c, body); err != nil {
			e.note("partial-body")
			return
		}
		e.mu.Lock()
		e.frames = append(e.frames, hex.EncodeToString(hdr)+hex.EncodeToString(body))
		if hdr[2] != 0 || hdr[3] != 0 {
			e.notes = append(e.notes, "bad-proto")
		}
		fc, payload := e.process(body[0], body[1:])
		if e.snapAt > 0 && len(e.frames) == e.snapAt {
			e.snapDiff, e.snapReads = e.diff(), len(e.reads)
		}
		e.mu.Unlock()
		res := []byte{hdr[0], hdr[1], 0, 0, byte((len(payload) + 2) >> 8), byte(len(payload) + 2), hdr[6], fc}
		res = append(res, payload...)
		if _, err := c.Write(res); err != nil {
			e.note("write-failed")
			return
		}
	}
}

// process applies one request to the memory (caller holds the lock) and
// returns the response function code and payload. Written from the Modbus
// application protocol specification.
func (e *emu) process(fc byte, p []byte) (byte, []byte) {
	exc := func(code byte) (byte, []byte) { return fc | 0x80, []byte{code} }
	known := (fc >= 1 && fc <= 6) || fc == 15 || fc == 16
	if !known {
		return exc(1)
	}
	if len(p) < 4 {
		return exc(3)
	}
	a := int(p[0])<<8 | int(p[1])
	q := int(p[2])<<8 | int(p[3])
	rest := p[4:]
	switch fc {
	case 1, 2:
		if len(rest) != 0 || q == 0 || q > 2000 {
			return exc(3)
		}
		if a+q > 65536 {
			return exc(2)
		}
		tbl := e.coils
		if fc == 2 {
			tbl = e.disc
		}
		out := make([]byte, (q+7)/8)
		for i := 0; i < q; i++ {
			if tbl[a+i] {
				out[i/8] |= 1 << uint(i%8)
			}
		}
		e.reads = append(e.reads, emuRead{fc, a, q, out})
		return fc, append([]byte{byte(len(out))}, out...)
	case 3, 4:
		if len(rest) != 0 || q == 0 || q > 125 {
			return exc(3)
		}
		if a+q > 65536 {
			return exc(2)
		}
		tbl := e.hold
		if fc == 4 {
			tbl = e.inp
		}
		out := make([]byte, 0, 2*q)
		for i := 0; i < q; i++ {
			out = append(out, byte(tbl[a+i]>>8), byte(tbl[a+i]))
		}
		e.reads = append(e.reads, emuRead{fc, a, q, out})
		return fc, append([]byte{byte(2 * q)}, out...)
	case 5:
		if len(rest) != 0 || (q != 0xff00 && q != 0) {
			return exc(3)
		}
		e.coils[a] = q == 0xff00
		return fc, p[:4]
	case 6:
		if len(rest) != 0 {
			return exc(3)
		}
		e.hold[a] = uint16(q)
		return fc, p[:4]
	case 15:
		if len(rest) < 1 || q == 0 || q > 1968 || int(rest[0]) != (q+7)/8 || len(rest)-1 != int(rest[0]) {
			return exc(3)
		}
		if a+q > 65536 {
			return exc(2)
		}
		for i := 0; i < q; i++ {
			e.coils[a+i] = rest[1+i/8]>>uint(i%8)&1 == 1
		}
		return fc, p[:4]
	case 16:
		if len(rest) < 1 || q == 0 || q > 123 || int(rest[0]) != 2*q || len(rest)-1 != int(rest[0]) {
			return exc(3)
		}
		if a+q > 65536 {
			return exc(2)
		}
		for i := 0; i < q; i++ {
			e.hold[a+i] = uint16(rest[1+2*i])<<8 | uint16(rest[2+2*i])
		}
		return fc, p[:4]
	}
	return exc(1)
}

func (e *emu) diff() string {
	var d []string
	for a := 0; a < 65536; a++ {
		if e.coils[a] != patCoil(a) {
			d = append(d, fmt.Sprintf("c:%04x=%d", a, b2i(e.coils[a])))
		}
	}
	for a := 0; a < 65536; a++ {
		if e.disc[a] != patDisc(a) {
			d = append(d, fmt.Sprintf("d:%04x=%d", a, b2i(e.disc[a])))
		}
	}
	for a := 0; a < 65536; a++ {
		if e.hold[a] != patHold(a) {
			d = append(d, fmt.Sprintf("h:%04x=%04x", a, e.hold[a]))
		}
	}
	for a := 0; a < 65536; a++ {
		if e.inp[a] != patInp(a) {
			d = append(d, fmt.Sprintf("i:%04x=%04x", a, e.inp[a]))
		}
	}
	if len(d) == 0 {
		return "-"
	}
	return strings.Join(d, ",")
}

func b2i(b bool) int {
	if b {
		return 1
	}
	return 0
}

// ------------------------------------------------------------ output lines

var (
	reLogger = regexp.MustCompile(` \[(info|warn|error)\]: `)
	reBool   = regexp.MustCompile(`^0x([0-9a-f]{4})\t(\d+) *: (true|false)$`)
	reNum    = regexp.MustCompile(`^0x([0-9a-f]{4})\t(\d+) *: 0x([0-9a-f]+)\t(-?\d+)$`)
	reFloat  = regexp.MustCompile(`^0x([0-9a-f]{4})\t(\d+) *: (\S+)$`)
	reBytes  = regexp.MustCompile(`^0x([0-9a-f]{4})\t(\d+) *: ([0-9a-f ]+) <(.*)>$`)
)

var cliReadBoolNames = map[string]bool{"rc": true, "readCoil": true, "readCoils": true,
	"rdi": true, "readDiscreteInput": true, "readDiscreteInputs": true}
var cliReadRegNames = map[string]bool{"rh": true, "readHoldingRegister": true, "readHoldingRegisters": true,
	"ri": true, "readInputRegister": true, "readInputRegisters": true}
var cliWriteNames = map[string]bool{"wc": true, "writeCoil": true, "wr": true, "writeRegister": true}
var cliSidNames = map[string]bool{"suid": true, "setUnitId": true, "sid": true}

// independent decoding of a register image: registers in transmission order,
// each two bytes; little = low byte first; lowFirst = least significant register first
func refDecode(img []byte, little, lowFirst bool) uint64 {
	n := len(img) / 2
	regs := make([]uint64, n)
	for i := 0; i < n; i++ {
		if little {
			regs[i] = uint64(img[2*i+1])<<8 | uint64(img[2*i])
		} else {
			regs[i] = uint64(img[2*i])<<8 | uint64(img[2*i+1])
		}
	}
	var v uint64
	for i := 0; i < n; i++ {
		if lowFirst {
			v |= regs[i] << uint(16*i)
		} else {
			v |= regs[i] << uint(16*(n-1-i))
		}
	}
	return v
}

func asciiDump(b []byte) string {
	o := make([]byte, len(b))
	for i, c := range b {
		if c >= 0x20 && c <= 0x7e {
			o[i] = c
		} else {
			o[i] = '.'
		}
	}
	return string(o)
}

// reduceOutput walks the commands and the stdout lines in step. The command
// names only decide which kind of line to expect; how many lines a successful
// read prints is taken from the response the emulator served for it.
func reduceOutput(stdout string, cmds []string, reads []emuRead, little, lowFirst bool) string {
	var lines []string
	for _, l := range strings.Split(stdout, "\n") {
		if l == "" || reLogger.MatchString(l) {
			continue
		}
		lines = append(lines, l)
	}
	var items []string
	li, ri := 0, 0
	bad := func(why string) string {
		return strings.Join(append(items, "UNPARSED:"+why), ",")
	}
	for _, cmd := range cmds {
		f := strings.Split(cmd, ":")
		name := f[0]
		switch {
		case cliSidNames[name]:
			continue
		case cliWriteNames[name]:
			if li >= len(lines) {
				return bad("missing-write-line")
			}
			l := lines[li]
			li++
			switch {
			case strings.HasPrefix(l, "wrote "):
				items = append(items, "W")
			case strings.HasPrefix(l, "failed to write "):
				items = append(items, "F")
			default:
				return bad("write-line")
			}
		case cliReadBoolNames[name], cliReadRegNames[name]:
			if li >= len(lines) {
				return bad("missing-read-line")
			}
			if strings.HasPrefix(lines[li], "failed to read ") {
				li++
				items = append(items, "F")
				continue
			}
			if ri >= len(reads) {
				return bad("read-without-response")
			}
			rd := reads[ri]
			ri++
			ty := ""
			if len(f) > 1 {
				ty = f[1]
			}
			n, per := 0, 0 // lines, bytes per line
			switch {
			case cliReadBoolNames[name]:
				n = rd.qty
			case ty == "uint16" || ty == "int16":
				n, per = rd.qty, 2
			case ty == "uint32" || ty == "int32" || ty == "float32":
				n, per = rd.qty/2, 4
			case ty == "uint64" || ty == "int64" || ty == "float64":
				n, per = rd.qty/4, 8
			case ty == "bytes":
				n, per = (2*rd.qty+15)/16, 16
			default:
				return bad("type")
			}
			for i := 0; i < n; i++ {
				if li >= len(lines) {
					return bad("short-block")
				}
				l := lines[li]
				li++
				switch {
				case cliReadBoolNames[name]:
					m := reBool.FindStringSubmatch(l)
					if m == nil || fmt.Sprint(unhx(m[1])) != m[2] {
						return bad("bool-line")
					}
					items = append(items, "b:"+m[1]+"="+itoa(b2i(m[3] == "true")))
				case ty == "bytes":
					m := reBytes.FindStringSubmatch(l)
					if m == nil || fmt.Sprint(unhx(m[1])) != m[2] {
						return bad("bytes-line")
					}
					hx := strings.ReplaceAll(m[3], " ", "")
					raw, err := hex.DecodeString(hx)
					if err != nil || asciiDump(raw) != m[4] {
						return bad("bytes-ascii")
					}
					items = append(items, "x:"+m[1]+"="+hx)
				case ty == "float32" || ty == "float64":
					m := reFloat.FindStringSubmatch(l)
					if m == nil || fmt.Sprint(unhx(m[1])) != m[2] || (i+1)*per > len(rd.data) {
						return bad("float-line")
					}
					bits := refDecode(rd.data[i*per:(i+1)*per], little, lowFirst)
					var want string
					if per == 4 {
						want = fmt.Sprintf("%f", math.Float32frombits(uint32(bits)))
					} else {
						want = fmt.Sprintf("%f", math.Float64frombits(bits))
					}
					if want != m[3] {
						items = append(items, "n:"+m[1]+"=TEXT!"+m[3])
					} else {
						items = append(items, fmt.Sprintf("n:%s=%0*x", m[1], 2*per, bits))
					}
				default:
					m := reNum.FindStringSubmatch(l)
					if m == nil || fmt.Sprint(unhx(m[1])) != m[2] || len(m[3]) != 2*per {
						return bad("num-line")
					}
					v := unhx(m[3])
					var dec string
					switch ty {
					case "int16":
						dec = fmt.Sprint(int16(v))
					case "int32":
						dec = fmt.Sprint(int32(v))
					case "int64":
						dec = fmt.Sprint(int64(v))
					default:
						dec = fmt.Sprint(v)
					}
					if dec != m[4] {
						return bad("decimal-field")
					}
					items = append(items, "n:"+m[1]+"="+m[3])
				}
			}
		default:
			return bad("command")
		}
	}
	if li != len(lines) {
		return bad("extra-lines")
	}
	if ri != len(reads) {
		return bad("unprinted-response")
	}
	if len(items) == 0 {
		return "-"
	}
	return strings.Join(items, ",")
}

// ------------------------------------------------------------ executor "cli"

// tokens: E[=hex] W[=hex] U[=hex] F[=table] C=hex...   (option absent when no '=')
func runCli(in []string) (out string) {
	defer func() {
		if r := recover(); r != nil {
			out = "panic"
		}
	}()
	var opts, cmds []string
	little, lowFirst := false, false
	for _, t := range in {
		k, v, has := t, "", false
		if i := strings.IndexByte(t, '='); i >= 0 {
			k, v, has = t[:i], t[i+1:], true
		}
		val := ""
		if k != "F" {
			val = string(unhex(v))
		}
		switch k {
		case "E":
			if has {
				opts = append(opts, "--endianness", val)
				little = val == "little"
			}
		case "W":
			if has {
				opts = append(opts, "--word-order", val)
				lowFirst = val == "lf" || val == "lowfirst"
			}
		case "U":
			if has {
				opts = append(opts, "--unit-id", val)
			}
		case "F":
		case "C":
			cmds = append(cmds, val)
		default:
			return "harness-error:token"
		}
	}
	bin, release, err := cliAcquire()
	if err != nil {
		return "harness-error:" + strings.ReplaceAll(err.Error(), "\n", " ")
	}
	defer release()
	// A run that hit a time limit (possible on a heavily loaded machine: the
	// emulator always answers at once) is repeated, alone, up to two times; a
	// limit that is hit every time is reported as it is.
	res, slow := runCliOnce(bin, opts, cmds, little, lowFirst)
	for attempt := 0; slow && attempt < 2; attempt++ {
		cliRetryMu.Lock()
		res, slow = runCliOnce(bin, opts, cmds, little, lowFirst)
		cliRetryMu.Unlock()
	}
	return res
}

var cliRetryMu sync.Mutex

func runCliOnce(bin string, opts, cmds []string, little, lowFirst bool) (out string, slow bool) {
	e, err := newEmu()
	if err != nil {
		return "harness-error:listen", true
	}
	args := append([]string{"--target", fmt.Sprintf("tcp://127.0.0.1:%d", e.port()), "--timeout", "2s"}, opts...)
	args = append(args, cmds...)
	ctx, cancel := context.WithTimeout(context.Background(), 10*time.Second)
	defer cancel()
	cmd := exec.CommandContext(ctx, bin, args...)
	var so, se bytes.Buffer
	cmd.Stdout, cmd.Stderr = &so, &se
	cmd.Stdin = nil
	rerr := cmd.Run()
	e.finish()
	if ctx.Err() != nil {
		return "timeout", true
	}
	exit := "0"
	if rerr != nil {
		var ee *exec.ExitError
		if errors.As(rerr, &ee) && ee.ExitCode() >= 0 {
			exit = itoa(ee.ExitCode())
		} else {
			return "harness-error:run:" + strings.ReplaceAll(rerr.Error(), " ", "_"), true
		}
	}
	if strings.Contains(se.String(), "panic:") || strings.Contains(se.String(), "goroutine ") {
		exit = "crash"
	}
	slow = strings.Contains(so.String(), "timed out") || strings.Contains(so.String(), "i/o timeout")
	e.mu.Lock()
	defer e.mu.Unlock()
	tx := "-"
	if len(e.frames) > 0 {
		tx = strings.Join(e.frames, ",")
	}
	outItems := "-"
	if exit == "0" && len(cmds) > 0 {
		outItems = reduceOutput(so.String(), cmds, e.reads, little, lowFirst)
	}
	res := fmt.Sprintf("exit=%s conns=%d tx=%s diff=%s out=%s", exit, e.conns, tx, e.diff(), outItems)
	if len(e.notes) > 0 {
		res += " notes=" + strings.Join(e.notes, ",")
		slow = true
	}
	return res, slow
}

// ------------------------------------------------------------ executor "atoi"

// tokens: bits signed(0/1) literal-hex
func runAtoi(in []string) (out string) {
	defer func() {
		if r := recover(); r != nil {
			out = "panic"
		}
	}()
	bitsN := atoi(in[0])
	s := string(unhex(in[2]))
	kind := func(err error) string {
		var ne *strconv.NumError
		if errors.As(err, &ne) {
			switch ne.Err {
			case strconv.ErrSyntax:
				return "syntax"
			case strconv.ErrRange:
				return "range"
			}
		}
		return "err"
	}
	if in[1] == "1" {
		v, err := strconv.ParseInt(s, 0, bitsN)
		if err != nil {
			return kind(err)
		}
		if v < 0 {
			return "-" + strconv.FormatUint(uint64(-v), 16)
		}
		return strconv.FormatUint(uint64(v), 16)
	}
	v, err := strconv.ParseUint(s, 0, bitsN)
	if err != nil {
		return kind(err)
	}
	return strconv.FormatUint(v, 16)
}

// ------------------------------------------------------------ generators

var atoiBits = []int{8, 16, 32, 64}

// renderings of a magnitude as a Go integer literal
func litOf(r *Rng, v uint64) string {
	var s string
	switch r.Intn(9) {
	case 0, 1, 2:
		s = strconv.FormatUint(v, 10)
	case 3:
		s = "0x" + strconv.FormatUint(v, 16)
	case 4:
		s = "0X" + strings.ToUpper(strconv.FormatUint(v, 16))
	case 5:
		s = []string{"0o", "0O", "0"}[r.Intn(3)] + strconv.FormatUint(v, 8)
	case 6:
		s = []string{"0b", "0B"}[r.Intn(2)] + strconv.FormatUint(v, 2)
	case 7:
		// mixed-case hex with leading zeros
		h := strconv.FormatUint(v, 16)
		b := []byte(strings.Repeat("0", r.Intn(3)) + h)
		for i := range b {
			if r.Bool() && b[i] >= 'a' {
				b[i] -= 32
			}
		}
		s = "0x" + string(b)
	default:
		s = strings.Repeat("0", 1+r.Intn(2)) + strconv.FormatUint(v, 8)
	}
	if r.Intn(4) == 0 {
		s = withUnderscores(r, s)
	}
	return s
}

// legal underscore placement: between digits or right after a base prefix
func withUnderscores(r *Rng, s string) string {
	start := 1
	if len(s) >= 2 && s[0] == '0' && strings.ContainsRune("xXoObB", rune(s[1])) {
		start = 2
	}
	var sb strings.Builder
	for i := 0; i < len(s); i++ {
		if i >= start && r.Intn(3) == 0 {
			sb.WriteByte('_')
		}
		sb.WriteByte(s[i])
	}
	return sb.String()
}

// a literal spoiled in one of the ways the grammar forbids
func spoil(r *Rng, s string) string {
	switch r.Intn(14) {
	case 0:
		return s + "_"
	case 1:
		return "_" + s
	case 2:
		if len(s) > 1 {
			i := 1 + r.Intn(len(s)-1)
			return s[:i] + "__" + s[i:]
		}
		return s + "__1"
	case 3:
		return "+" + s
	case 4:
		return "-" + s
	case 5:
		return []string{"0x", "0X", "0b", "0o", "0B", "0O"}[r.Intn(6)]
	case 6:
		return ""
	case 7:
		i := r.Intn(len(s) + 1)
		return s[:i] + string([]byte{[]byte("gzZ :+-.,/@`{G8 9a\x00\xff")[r.Intn(20)]}) + s[i:]
	case 8:
		return s + strconv.Itoa(r.Intn(10))
	case 9:
		return "0b" + strconv.Itoa(2+r.Intn(8))
	case 10:
		return "0o" + strconv.Itoa(8+r.Intn(2))
	case 11:
		return "0_" + s
	case 12:
		return "0x_" + s
	default:
		return " " + s
	}
}

func boundaryMag(r *Rng, bitsN int) uint64 {
	max := uint64(1)<<uint(bitsN) - 1
	if bitsN == 64 {
		max = ^uint64(0)
	}
	half := uint64(1) << uint(bitsN-1)
	switch r.Intn(12) {
	case 0:
		return 0
	case 1:
		return 1
	case 2:
		return max
	case 3:
		return max - 1
	case 4:
		return half
	case 5:
		return half - 1
	case 6:
		return half + 1
	case 7:
		if bitsN < 64 {
			return max + 1
		}
		return max
	case 8:
		if bitsN < 64 {
			return max + 1 + uint64(r.Intn(1000))
		}
		return max
	case 9:
		return r.U64()
	default:
		return r.U64() & max
	}
}

// a literal that may exceed 64 bits
func hugeLit(r *Rng) string {
	switch r.Intn(5) {
	case 0:
		return "18446744073709551616"
	case 1:
		return "18446744073709551615"
	case 2:
		return "0x1" + strings.Repeat("0", 16)
	case 3:
		return "0x" + strings.Repeat("f", 16+r.Intn(3))
	default:
		var sb strings.Builder
		sb.WriteByte(byte('1' + r.Intn(9)))
		for i := 0; i < 18+r.Intn(8); i++ {
			sb.WriteByte(byte('0' + r.Intn(10)))
		}
		return sb.String()
	}
}

func genLiteral(r *Rng, bitsN int, signed bool) string {
	var s string
	if r.Intn(12) == 0 {
		s = hugeLit(r)
	} else {
		s = litOf(r, boundaryMag(r, bitsN))
	}
	if signed {
		switch r.Intn(4) {
		case 0:
			s = "-" + s
		case 1:
			s = "+" + s
		}
	}
	if r.Intn(4) == 0 {
		s = spoil(r, s)
	}
	return s
}

func scnAtoi(o *Out, r *Rng, thorough bool) {
	n := 30000
	if thorough {
		n = 600000
	}
	fixed := []string{"", "0", "00", "0_0", "0x", "0x_", "0x_1", "0_", "_0", "0b", "0b1", "0B_1_0", "0o7", "0o", "08", "0_7",
		"0x1_", "1__2", "1_2", "+", "-", "+_1", "-_1", "-0", "+0", "-0x80", "0x_f_F", "0xg", "1_", "0_x1", "0b_", "0b2",
		"9223372036854775807", "9223372036854775808", "-9223372036854775808", "-9223372036854775809",
		"18446744073709551615", "18446744073709551616", "99999999999999999999999z", "1__0000000000000000000000",
		"0x10000000000000000", "0xffffffffffffffff", "0X_Ff", "--1", "+-1", "0x+1", "1e3", "1.0", " 1", "1 ", "0o_17", "0O17",
		"017", "0_17", "01_7_", "0b_0", "0x0_", "٣", "1\x00"}
	var ins []string
	for _, f := range fixed {
		for _, b := range atoiBits {
			ins = append(ins, fmt.Sprintf("%d 0 %s", b, hx([]byte(f))), fmt.Sprintf("%d 1 %s", b, hx([]byte(f))))
		}
	}
	for i := 0; i < n; i++ {
		b := atoiBits[r.Intn(4)]
		signed := r.Bool()
		ins = append(ins, fmt.Sprintf("%d %d %s", b, b2i(signed), hx([]byte(genLiteral(r, b, signed)))))
	}
	outs := o.RunMany("atoi", ins)
	for _, out := range outs {
		switch out {
		case "syntax", "range":
			o.Stat("atoi:" + out)
		default:
			o.Stat("atoi:value")
		}
	}
}

type cliGen struct {
	r      *Rng
	floats []string
	bad    bool // the command line holds a malformed command
}

var cliTypes = []string{"uint16", "int16", "uint32", "int32", "float32", "uint64", "int64", "float64", "bytes"}

func typeWidth(t string) int {
	switch t {
	case "uint32", "int32", "float32":
		return 2
	case "uint64", "int64", "float64":
		return 4
	}
	return 1
}

func (g *cliGen) lit(v int) string {
	if g.r.Intn(2) == 0 {
		return strconv.Itoa(v)
	}
	return litOf(g.r, uint64(v))
}

func (g *cliGen) addr(span int) int {
	r := g.r
	a := pickAddr(r)
	switch r.Intn(4) {
	case 0:
		// ending exactly at, or one past, the end of the address space
		a = 65536 - span + r.Intn(2)
		if a < 0 {
			a = 0
		}
		if a > 65535 {
			a = 65535
		}
	case 1:
		a = r.Intn(4096)
	}
	return a
}

// additional quantity around the limit for values of w registers (or per=bytes)
func (g *cliGen) extra(limit int) int {
	r := g.r
	switch r.Intn(10) {
	case 0:
		return 0
	case 1:
		return 1
	case 2:
		return limit - 2
	case 3:
		return limit - 1 // quantity = limit
	case 4:
		return limit // quantity = limit + 1
	case 5:
		return 65535 // quantity wraps to 0
	case 6:
		return 65534
	case 7:
		return r.Intn(65536)
	}
	if limit <= 1 {
		return 0
	}
	return r.Intn(limit)
}

var floatLits = []string{"0", "-0", "1", "-1", "1.5", "-3.2", "3.14159", "1e10", "-1e-10", "1e38", "3.5e38", "1e39", "1e308", "1.8e308",
	"inf", "-Inf", "+inf", "NaN", "nan", "0x1p-2", "0x1.8p1", "1_0.5", "1e400", "-1e400", "4.9e-324", "1e-400", "1.17549435e-38",
	"1e-45", "16777217", "0.1", "123456.789", ".5", "5.", "1e", "abc", "", "1,5", "0x", "--1", "1.2.3", "infinity", "Infinit"}

func (g *cliGen) floatLit(bitsN int) string {
	r := g.r
	s := floatLits[r.Intn(len(floatLits))]
	if r.Intn(3) == 0 {
		s = strconv.FormatFloat((r.float()-0.5)*math.Pow(10, float64(r.Intn(80)-40)), 'g', -1, 64)
	}
	v, err := strconv.ParseFloat(s, bitsN)
	ent := hx2([]byte(s)) + "." + itoa(bitsN) + "."
	if err != nil {
		ent += "err"
		g.bad = true
	} else if bitsN == 32 {
		ent += hxu(uint64(math.Float32bits(float32(v))))
	} else {
		ent += hxu(math.Float64bits(v))
	}
	g.floats = append(g.floats, ent)
	return s
}

func (r *Rng) float() float64 { return float64(r.U64()>>11) / (1 << 53) }

// hex without the "-" convention (empty string -> empty)
func hx2(b []byte) string { return hex.EncodeToString(b) }

func (g *cliGen) intValue(t string) string {
	r := g.r
	bitsN := map[string]int{"uint16": 16, "int16": 16, "uint32": 32, "int32": 32, "uint64": 64, "int64": 64}[t]
	signed := t[0] == 'i'
	half := uint64(1) << uint(bitsN-1)
	max := half<<1 - 1 // wraps to 2^64-1 for 64 bits
	var s string
	switch {
	case r.Intn(20) == 0:
		s = hugeLit(r)
	case r.Intn(8) == 0:
		// anywhere, mostly beyond the bounds
		s = litOf(r, boundaryMag(r, bitsN))
		if signed && r.Bool() {
			s = "-" + s
		}
	case !signed:
		s = litOf(r, []uint64{0, 1, max, max - 1, half, half - 1, r.U64() & max, r.U64() & max, uint64(r.Intn(1000))}[r.Intn(9)])
	default:
		neg := r.Bool()
		lim := half - 1
		if neg {
			lim = half
		}
		m := []uint64{0, 1, lim, lim - 1, r.U64() % (lim + 1), r.U64() % (lim + 1), uint64(r.Intn(1000))}[r.Intn(7)]
		s = litOf(r, m)
		if neg {
			s = "-" + s
		} else if r.Intn(4) == 0 {
			s = "+" + s
		}
	}
	// would the CLI accept it? (generator-side bookkeeping for the statistics only)
	var err error
	if signed {
		_, err = strconv.ParseInt(s, 0, bitsN)
	} else {
		_, err = strconv.ParseUint(s, 0, bitsN)
	}
	if err != nil {
		g.bad = true
	}
	return s
}

func pick(r *Rng, xs ...string) string { return xs[r.Intn(len(xs))] }

// one well-formed command (values may still be out of range)
func (g *cliGen) command() string {
	r := g.r
	switch r.Intn(12) {
	case 0, 1:
		q := g.extra(2000)
		name := pick(r, "rc", "readCoil", "readCoils", "rdi", "readDiscreteInput", "readDiscreteInputs", "rc", "rdi")
		a := g.addr((q + 1) % 65536)
		if q == 0 && r.Bool() {
			return name + ":" + g.lit(a)
		}
		return name + ":" + g.lit(a) + "+" + g.lit(q)
	case 2, 3, 4, 5:
		t := cliTypes[r.Intn(len(cliTypes))]
		w := typeWidth(t)
		lim := 125 / w
		if t == "bytes" {
			lim = 250
		}
		q := g.extra(lim)
		if w > 1 && r.Intn(6) == 0 {
			// register totals that overflow 16 bits
			q = []int{65536/w - 1, 65536 / w, 65536/w + 1, 32767, 32768, 49151, 16383, 16384}[r.Intn(8)]
		}
		span := (q + 1) * w
		if t == "bytes" {
			span = (q + 2) / 2
		}
		name := pick(r, "rh", "readHoldingRegister", "readHoldingRegisters", "ri", "readInputRegister", "readInputRegisters", "rh", "ri")
		a := g.addr(span % 65536)
		if q == 0 && r.Bool() {
			return name + ":" + t + ":" + g.lit(a)
		}
		return name + ":" + t + ":" + g.lit(a) + "+" + g.lit(q)
	case 6:
		return pick(r, "wc", "writeCoil") + ":" + g.lit(g.addr(1)) + ":" + pick(r, "true", "false")
	case 7, 8, 9:
		name := pick(r, "wr", "writeRegister")
		switch r.Intn(11) {
		case 0:
			n := []int{0, 1, 2, 3, 4, 245, 246, 247, 248, 1 + r.Intn(246), 1 + r.Intn(20)}[r.Intn(11)]
			h := hx2(r.Bytes(n))
			if r.Bool() {
				h = strings.ToUpper(h)
			}
			return name + ":bytes:" + g.lit(g.addr((n+1)/2)) + ":" + h
		case 1:
			n := []int{0, 1, 2, 5, 246, 247, 1 + r.Intn(30)}[r.Intn(7)]
			b := make([]byte, n)
			for i := range b {
				b[i] = byte(0x21 + r.Intn(0x5e))
				if b[i] == ':' {
					b[i] = ';'
				}
			}
			if n > 0 && b[0] == '-' {
				b[0] = 'x'
			}
			return name + ":string:" + g.lit(g.addr((n+1)/2)) + ":" + string(b)
		case 2, 3:
			t := pick(r, "float32", "float64")
			return name + ":" + t + ":" + g.lit(g.addr(typeWidth(t))) + ":" + g.floatLit(map[string]int{"float32": 32, "float64": 64}[t])
		default:
			t := pick(r, "uint16", "int16", "uint32", "int32", "uint64", "int64")
			return name + ":" + t + ":" + g.lit(g.addr(typeWidth(t))) + ":" + g.intValue(t)
		}
	default:
		u := r.Pick(0, 1, 2, 17, 247, 255, r.Intn(256))
		return pick(r, "sid", "suid", "setUnitId") + ":" + g.lit(u)
	}
}

// a command the CLI must refuse
func (g *cliGen) malformed() string {
	r := g.r
	g.bad = true
	good := func() string {
		for {
			save := g.bad
			c := g.command()
			g.bad = save
			if !strings.Contains(c, "float") {
				return c
			}
		}
	}
	c := good()
	f := strings.Split(c, ":")
	switch r.Intn(16) {
	case 0: // missing last field
		return strings.Join(f[:len(f)-1], ":")
	case 1: // extra ':'
		return c + ":" + pick(r, "", "1", "x")
	case 2: // bad type
		return pick(r, "rh", "ri", "wr") + ":" + pick(r, "uint8", "int", "float", "UINT16", "uint16 ", "", "string", "bool", "uint128") + ":" + pick(r, "1", "0x10+1")
	case 3: // out-of-range address or count
		return pick(r, "rc:", "rh:uint16:", "ri:int32:", "rdi:") + pick(r, "65536", "0x10000", "1+65536", "70000+1", "-1", "1+-1", "0200000")
	case 4: // unknown command
		return pick(r, "rx", "read", "RC", "Rh", "w", "writeCoils", "readcoils", "rhr", "", "sids", " rc", "rc ") + ":" + pick(r, "1", "uint16:1", "1:true")
	case 5: // '+' twice
		return pick(r, "rc:", "rh:uint16:", "ri:bytes:") + pick(r, "1+2+3", "1++2", "+1+", "1+2+")
	case 6: // empty fields
		return pick(r, "rc:", "rh::1", "rh:uint16:", "wc::true", "wc:1:", "wr:uint16::1", "wr:uint16:1:", "sid:", ":", "::", "rc:+", "rc:1+", "rc:+1", "wr::1:1")
	case 7: // signs on unsigned
		return pick(r, "rc:+1", "rc:-0", "rh:uint16:+5", "wr:uint16:1:-1", "wr:uint32:1:+1", "wr:uint64:+1:1", "sid:+1", "sid:-1", "wc:+1:true")
	case 8: // "0x" alone, trailing and doubled underscores
		return pick(r, "rc:0x", "rh:uint16:0x+1", "rc:1_", "rc:_1", "rc:1__0", "wr:int16:1:0x", "wr:int16:1:-0x_", "rc:0b", "rc:0o", "sid:1_", "rc:0_", "wr:uint16:0x1_:1")
	case 9: // out-of-range values
		return pick(r, "wr:uint16:1:65536", "wr:int16:1:32768", "wr:int16:1:-32769", "wr:uint32:1:4294967296", "wr:int32:1:2147483648",
			"wr:int32:1:-2147483649", "wr:uint64:1:18446744073709551616", "wr:int64:1:9223372036854775808", "wr:int64:1:-9223372036854775809",
			"sid:256", "sid:0x100", "wr:int16:1:0x8000", "wr:int16:1:0xffff")
	case 10: // coil values
		return "wc:" + g.lit(r.Intn(65536)) + ":" + pick(r, "1", "0", "True", "TRUE", "on", "", "truee", "fals")
	case 11: // bad hex strings
		return "wr:bytes:1:" + pick(r, "abc", "0x12", "zz", "12 34", "1", "fafbfcfg", "FA-FB", "123")
	case 12: // no ':' at all
		return pick(r, "rc", "rh", "sid", "help", "0", "wc", "x")
	case 13: // arity
		return pick(r, "rc:1:2", "rdi:uint16:1", "rh:1", "ri:1+1", "wc:1", "wc:1:true:false", "wr:1:2", "wr:uint16:1", "sid:1:2", "wr:string:1:a:b", "wr:bytes:1")
	case 14: // junk inside numbers
		return pick(r, "rc:1 ", "rc: 1", "rc:1.0", "rc:1e3", "rc:0x1g", "rc:١", "rh:uint16:1+ 1", "rc:08", "rc:0b2", "rc:0o8", "wr:uint16:1:1.5", "wr:int16:1:--1", "wr:int16:1:+-1", "rc:1\t")
	default:
		return pick(r, "rh:uint16", "rh:", "wr:", "wr:uint16", "wc:", "readCoils", "readHoldingRegisters:uint16", "writeRegister:int16:1")
	}
}

func scnCli(o *Out, r *Rng, thorough bool) {
	if err := cliShareStart(); err != nil {
		o.Case("cli", "E W U F", "harness-error:"+strings.ReplaceAll(err.Error(), "\n", " "))
		return
	}
	defer cliShareStop()
	n := 300
	if thorough {
		n = 5000
	}
	enc := func(k, v string) string { return k + "=" + hx2([]byte(v)) }
	var ins []string
	fixed := [][]string{
		{"E", "W", "U", "F", enc("C", "rh:uint16:0x100+5"), enc("C", "wc:12:true")},
		{"E", "W", "U", "F", enc("C", "rh:int16:0x300+1"), enc("C", "rh:uint32:20"), enc("C", "rh:float32:500+10"),
			enc("C", "ri:uint16:0x300+1"), enc("C", "ri:int32:20")},
		{"E", "W", "U", "F", enc("C", "wr:int16:0xf100:-10"), enc("C", "wr:int32:0xff00:0xff"), enc("C", "wr:bytes:5:fafbfcfd"),
			enc("C", "rh:bytes:5+3"), enc("C", "rh:int16:0xf100"), enc("C", "rh:int32:0xff00")},
		{"E", "W", "U", "F", enc("C", "suid:2"), enc("C", "rh:uint16:0+7"), enc("C", "wr:uint16:0x2:0x0605"), enc("C", "suid:3"), enc("C", "ri:int16:0+1")},
		{"E", "W", "U", "F", enc("C", "rc:0+65535")},
		{"E", "W", "U", "F", enc("C", "rh:uint32:0xfff0+7"), enc("C", "rh:uint32:0xfff0+8"), enc("C", "rh:uint64:0xfffc"), enc("C", "rh:uint32:0+32768")},
		{enc("E", "little"), enc("W", "lf"), enc("U", "0x11"), "F", enc("C", "rh:uint64:0x10+2"), enc("C", "rh:bytes:0x10+32"), enc("C", "ri:float64:7+1")},
		{"E", "W", enc("U", "256"), "F", enc("C", "rc:1")},
		{"E", "W", enc("U", "256"), "F", enc("C", "rc:x")},
		{"E", "W", enc("U", "1_"), "F", enc("C", "rc:1")},
		{enc("E", "Big"), "W", "U", "F", enc("C", "rc:1")},
		{"E", enc("W", "low"), "U", "F", enc("C", "rc:1")},
		{"E", "W", "U", "F"},
		{"E", "W", "U", "F", enc("C", "")},
		{"E", "W", "U", "F", enc("C", "rc:1"), enc("C", "wc:1:maybe")},
		{"E", "W", "U", "F", enc("C", "sid:256"), enc("C", "rc:1")},
		{"E", "W", "U", "F", enc("C", "rc:1"), enc("C", "suid:300"), enc("C", "rc:2")},
		{"E", "W", "U", "F", enc("C", "setUnitId:0x100"), enc("C", "rh:uint16:1")},
		{"E", "W", "U", "F", enc("C", "sid:65535"), enc("C", "rc:1")},
		{"E", "W", "U", "F", enc("C", "sid:65536"), enc("C", "rc:1")},
		{"E", "W", "U", "F", enc("C", "sid:255"), enc("C", "rc:1"), enc("C", "sid:0"), enc("C", "rc:2")},
		{"E", "W", "U", "F", enc("C", "wr:string:10:hello"), enc("C", "rh:bytes:10+4"), enc("C", "wr:string:20:"), enc("C", "wr:bytes:20:")},
	}
	for _, f := range fixed {
		ins = append(ins, strings.Join(f, " "))
	}
	// float literals at the edges of the float32 / float64 ranges and between two
	// representable values (rounding must happen once, in the requested width)
	for _, t := range []struct {
		ty  string
		lit string
	}{{"float32", "3.5e38"}, {"float32", "-3.5e38"}, {"float32", "1e39"}, {"float32", "3.4028235e38"},
		{"float32", "3.4028236e38"}, {"float32", "16777217.0000000001"}, {"float32", "16777216.9999999999"},
		{"float32", "1e-46"}, {"float32", "7.0064923216240854e-46"}, {"float32", "0.1"},
		{"float64", "1.8e308"}, {"float64", "1.7976931348623157e308"}, {"float64", "4.9e-324"}, {"float64", "2.4e-324"}} {
		g := &cliGen{r: r}
		bitsN := 32
		if t.ty == "float64" {
			bitsN = 64
		}
		v, err := strconv.ParseFloat(t.lit, bitsN)
		ent := hx2([]byte(t.lit)) + "." + itoa(bitsN) + "."
		if err != nil {
			ent += "err"
		} else if bitsN == 32 {
			ent += hxu(uint64(math.Float32bits(float32(v))))
		} else {
			ent += hxu(math.Float64bits(v))
		}
		_ = g
		ins = append(ins, strings.Join([]string{"E", "W", "U", "F=" + ent, enc("C", "wr:"+t.ty+":100:"+t.lit), enc("C", "rh:"+t.ty+":100")}, " "))
		o.Stat("float-boundary")
	}
	for i := 0; i < n; i++ {
		g := &cliGen{r: r}
		var toks []string
		// options
		switch r.Intn(6) {
		case 0:
			toks = append(toks, "E")
		case 1, 2:
			toks = append(toks, enc("E", "big"))
		default:
			toks = append(toks, enc("E", "little"))
		}
		switch r.Intn(8) {
		case 0:
			toks = append(toks, "W")
		case 1, 2:
			toks = append(toks, enc("W", pick(r, "highfirst", "hf")))
		default:
			toks = append(toks, enc("W", pick(r, "lowfirst", "lf")))
		}
		if r.Intn(40) == 0 {
			if r.Bool() {
				toks[0] = enc("E", pick(r, "", "BIG", "middle", "l", "b"))
			} else {
				toks[1] = enc("W", pick(r, "", "lowFirst", "low", "h", "HF"))
			}
			o.Stat("opt:bad-encoding")
		}
		switch r.Intn(10) {
		case 0:
			toks = append(toks, "U")
		case 1:
			toks = append(toks, enc("U", pick(r, "256", "0x100", "1000", "4294967296", "18446744073709551615")))
			o.Stat("opt:unit>255")
		case 2:
			if r.Intn(3) == 0 {
				toks = append(toks, enc("U", pick(r, "-1", "1_", "0x", "", "18446744073709551616", "one")))
				o.Stat("opt:unit-unparsable")
			} else {
				toks = append(toks, enc("U", "0"))
			}
		default:
			toks = append(toks, enc("U", g.lit(r.Pick(0, 1, 2, 17, 247, 255, r.Intn(256)))))
		}
		ncmd := 1 + r.Intn(5)
		var cmds []string
		malformedAt := -1
		if r.Intn(4) == 0 {
			malformedAt = r.Intn(ncmd)
		}
		for k := 0; k < ncmd; k++ {
			if k == malformedAt {
				cmds = append(cmds, g.malformed())
			} else {
				cmds = append(cmds, g.command())
			}
		}
		if len(g.floats) > 0 {
			toks = append(toks, "F="+strings.Join(g.floats, ","))
		} else {
			toks = append(toks, "F")
		}
		for _, c := range cmds {
			if strings.HasPrefix(c, "-") {
				c = "x" + c
			}
			toks = append(toks, enc("C", c))
			o.Stat("cmd:" + strings.SplitN(c, ":", 2)[0])
		}
		if g.bad {
			o.Stat("line:with-refused-command")
		} else {
			o.Stat("line:accepted")
		}
		ins = append(ins, strings.Join(toks, " "))
	}
	outs := o.RunMany("cli", ins)
	for _, out := range outs {
		f := strings.Fields(out)
		if len(f) > 0 {
			o.Stat("res:" + f[0])
		}
		if strings.Contains(out, ",F") || strings.Contains(out, "out=F") {
			o.Stat("res:with-failed-op")
		}
	}
}
