package main

import (
	"strings"
)

func init() { register("C02", scnReplies, scnExceptions, scnFunctionCodes) }

// buildReply returns the valid reply PDU for the call under the client's
// encoding (the WriteRegister echo depends on it).
func buildReply(r *Rng, op []string, e int) (fc byte, payload []byte, ok bool) {
	fc, payload, ok = replyFor(r, op)
	if ok && op[0] == "WriteRegister" {
		a, v := int(unhx(op[1])), int(unhx(op[2]))
		if e == 1 {
			payload = []byte{byte(a >> 8), byte(a), byte(v >> 8), byte(v)}
		} else {
			payload = []byte{byte(a >> 8), byte(a), byte(v), byte(v >> 8)}
		}
	}
	return
}

type reply struct {
	txn, proto uint16
	length     int // -1: consistent
	unit, fc   byte
	payload    []byte
	badCRC     int // 0: good; 1: flip a bit of the CRC; 2: random CRC
}

func (p reply) bytes(fr string, r *Rng) []byte {
	if fr == "m" {
		return mbapFrame(p.txn, p.proto, p.length, p.unit, p.fc, p.payload)
	}
	f := rtuFrame(p.unit, p.fc, p.payload)
	switch p.badCRC {
	case 1:
		f[len(f)-1-r.Intn(2)] ^= 1 << uint(r.Intn(8))
	case 2:
		f[len(f)-1], f[len(f)-2] = byte(r.U64()), byte(r.U64())
	case 3:
		f[len(f)-1], f[len(f)-2] = f[len(f)-2], f[len(f)-1] // high byte first
	}
	return f
}

// mutate applies one field-level corruption; returns a label
func mutate(r *Rng, fr string, p *reply) string {
	for {
		switch r.Intn(16) {
		case 0:
			if fr == "m" {
				p.txn += uint16(1 + r.Intn(3))
				return "txn"
			}
		case 1:
			if fr == "m" {
				p.proto = uint16(1 + r.Intn(0xffff))
				return "proto"
			}
		case 2:
			if fr == "m" {
				p.length = 2 + len(p.payload) + r.Pick(-1, 1, -2, 2)
				if p.length < 0 {
					p.length = 0
				}
				return "len"
			}
		case 3:
			if fr == "m" {
				p.length = r.Pick(0, 1, 254, 255, 256, 65535)
				return "lenabs"
			}
		case 4:
			p.unit += byte(1 + r.Intn(254))
			return "unit"
		case 5:
			p.fc = byte(r.Intn(256))
			return "fc"
		case 6:
			p.fc |= 0x80
			return "fcexc"
		case 7:
			if len(p.payload) > 0 {
				p.payload = append([]byte(nil), p.payload...)
				p.payload[0] += byte(r.Pick(1, 255, 2, 254))
				return "b0"
			}
		case 8:
			if len(p.payload) > 1 {
				p.payload = append([]byte(nil), p.payload...)
				i := 1 + r.Intn(len(p.payload)-1)
				p.payload[i] ^= 1 << uint(r.Intn(8))
				return "data"
			}
		case 9:
			if len(p.payload) > 0 {
				p.payload = p.payload[:len(p.payload)-1]
				return "shorter"
			}
		case 10:
			p.payload = append(append([]byte(nil), p.payload...), byte(r.U64()))
			return "longer"
		case 11:
			if fr == "r" {
				p.badCRC = 1 + r.Intn(3)
				return "crc"
			}
		case 12:
			if len(p.payload) >= 2 {
				// odd byte count with matching length
				p.payload = append([]byte(nil), p.payload[:len(p.payload)-1]...)
				p.payload[0]--
				return "oddcount"
			}
		default:
			if len(p.payload) == 4 {
				p.payload = append([]byte(nil), p.payload...)
				p.payload[2+r.Intn(2)] = byte(r.Pick(0, 1, 0xff, 0xfe, r.Intn(256)))
				return "echo"
			}
		}
	}
}

func clientCase(fr string, unit, e, w int, end string, chunks [][]byte, op []string) string {
	return strings.Join(append([]string{fr, hxi(unit), itoa(e), itoa(w), end, writesStr(chunks)}, op...), " ")
}

// (a) valid replies, (b) single-field corruptions, (e) truncations and
// extensions, (f) foreign frames first, (g) random bytes
func scnReplies(o *Out, r *Rng, thorough bool) {
	n := 2500
	if thorough {
		n = 120000
	}
	var ins []string
	for i := 0; i < n; i++ {
		unit, e, w := randCfg(r)
		fr := "m"
		if r.Intn(2) == 0 {
			fr = "r"
		}
		op := randOp(r, opValid)
		fc, payload, ok := buildReply(r, op, e)
		if !ok {
			continue
		}
		valid := reply{txn: 1, proto: 0, length: -1, unit: byte(unit), fc: fc, payload: payload}
		end := "s"
		if r.Intn(4) == 0 {
			end = "c"
		}
		emit := func(label string, chunks ...[]byte) {
			ins = append(ins, clientCase(fr, unit, e, w, end, chunks, op))
			o.Stat("reply:" + label)
		}
		emit("valid", valid.bytes(fr, r))
		// valid reply followed by further bytes
		emit("valid+tail", append(valid.bytes(fr, r), r.Bytes(1+r.Intn(20))...))
		for k := 0; k < 3; k++ {
			m := valid
			label := mutate(r, fr, &m)
			emit(label, m.bytes(fr, r))
		}
		// truncation at a random offset
		vb := valid.bytes(fr, r)
		emit("trunc", vb[:r.Intn(len(vb))])
		// foreign frames before the right one
		if fr == "m" {
			var pre []byte
			for k := 0; k < 1+r.Intn(3); k++ {
				f := valid
				if r.Bool() {
					f.txn = uint16(2 + r.Intn(65000))
				} else {
					f.proto = uint16(1 + r.Intn(65000))
				}
				if r.Bool() {
					f.payload = r.Bytes(r.Intn(30))
				}
				pre = append(pre, f.bytes(fr, r)...)
			}
			emit("foreign-first", append(pre, vb...))
			emit("foreign-only", pre)
		}
		if r.Intn(4) == 0 {
			emit("random", r.Bytes(r.Pick(1, 3, 7, 8, 9, 40, 300, 1100, 1500)))
		}
	}
	o.RunMany("cc", ins)
}

// (c) all 256 exception codes from the addressed unit, from the gateway unit
// 255 and from a third unit
func scnExceptions(o *Out, r *Rng, thorough bool) {
	var ins []string
	ops := [][]string{{"ReadCoils", "10", "9"}, {"ReadDiscreteInput", "3"}, {"ReadRegisters", "0", "2", "0"},
		{"ReadUint32", "8", "1"}, {"WriteCoil", "7", "0"}, {"WriteCoils", "0", "101"}, {"WriteRegister", "1", "abcd"},
		{"WriteUint64", "4", "1122334455667788"}, {"ReadBytes", "2", "3", "0"}}
	for _, fr := range []string{"m", "r"} {
		for code := 0; code < 256; code++ {
			for _, from := range []int{0, 1, 2} {
				op := ops[(code+from)%len(ops)]
				unit := 17
				src := []int{17, 255, 18}[from]
				fc, _, _ := replyFor(r, op)
				p := reply{txn: 1, length: -1, unit: byte(src), fc: fc | 0x80, payload: []byte{byte(code)}}
				ins = append(ins, clientCase(fr, unit, 1, 1, "s", [][]byte{p.bytes(fr, r)}, op))
				o.Stat("exc")
			}
		}
		// normal reply from unit 255 must be refused
		for _, op := range ops {
			fc, payload, _ := buildReply(r, op, 1)
			p := reply{txn: 1, length: -1, unit: 255, fc: fc, payload: payload}
			ins = append(ins, clientCase(fr, 17, 1, 1, "s", [][]byte{p.bytes(fr, r)}, op))
		}
		// exception replies with a wrong payload size
		for _, n := range []int{0, 2, 3} {
			p := reply{txn: 1, length: -1, unit: 17, fc: 0x83, payload: r.Bytes(n)}
			ins = append(ins, clientCase(fr, 17, 1, 1, "s", [][]byte{p.bytes(fr, r)}, ops[2]))
		}
	}
	o.RunMany("cc", ins)
}

// (d) all 256 function codes with short bodies
func scnFunctionCodes(o *Out, r *Rng, thorough bool) {
	var ins []string
	op := []string{"ReadRegisters", "0", "1", "0"}
	for _, fr := range []string{"m", "r"} {
		for fc := 0; fc < 256; fc++ {
			for _, body := range [][]byte{{}, {2}, {2, 0xaa, 0xbb}, {0}, {3, 1, 2, 3}, {0, 0, 0, 1}, {250}, {252}, {255}} {
				p := reply{txn: 1, length: -1, unit: 1, fc: byte(fc), payload: body}
				b := p.bytes(fr, r)
				ins = append(ins, clientCase(fr, 1, 1, 1, "s", [][]byte{b}, op))
				o.Stat("fc-sweep")
			}
		}
	}
	o.RunMany("cc", ins)
}
