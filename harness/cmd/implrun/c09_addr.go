package main

// C09 - slots belong to connections, not to the addresses they come from.
//
// The property quantifies over every order of connects, disconnects and expiries;
// nothing in it says that two connections alive at the server at the same time
// come from different source addresses. A client bound to a fixed local port
// that loses its connection and dials again at once is, for the server, a NEW
// connection from the address of a session that it has not ended yet (the
// server only notices a disconnect at its next read or write: a session that is
// inside a request handler, or that waits for the lock before its removal,
// is still on the active list).
//
// scenario "slotsaddr": maxc op...
//   a real modbus.NewServer("tcp://127.0.0.1:0", MaxClients = maxc), started,
//   with a counting handler whose calls for unit id 2 block until the harness
//   releases them. Every connection i is dialled from the address label a given
//   with it: a = 0 is an ephemeral source port, a >= 1 is a FIXED source
//   ip:port (one per label and trace, net.Dialer.LocalAddr); all disconnects are
//   aborts (SO_LINGER 0: RST, no TIME_WAIT) so that the address can be dialled
//   from again at once. One output token per operation, <n> = length of the
//   active list (VerifServerSnapshot) after the operation, +k = handler calls
//   during the operation; the last token is calls=<all handler calls>.
//
//   C<i>@<a>  connection i is dialled from address a and goes through the
//             admission critical section                      -> "<n>"
//   T<i>@<a>  the same with the accept goroutine held between Accept and the
//             admission critical section (verifYield)          -> "taken"
//   E         the held accept goroutine is released             -> "<n>"
//   R<i>      i sends one request                 -> "resp+k" | "closed+k"
//   H<i>      i sends a request whose handler blocks: the session of i stays
//             inside the handler                   -> "held+k" | "closed+k"
//   U<i>      the handler of i is released: a client that is still there gets
//             its response ("resp:<n>"); for a client that aborted meanwhile
//             the server now notices and ends the session ("gone:<n>")
//   Y<i>      the same for an aborted client, its session then held before the
//             removal critical section (verifYield)             -> "<n>"
//   A<i>      i aborts. A session that is reading ends and gives its slot
//             back; a session held in a handler does not notice -> "<n>"
//   X<i>      i aborts, its session held before the removal critical section
//                                                                 -> "<n>"
//   M         the session held before its removal is released   -> "<n>"
//   B<i>      i sends an MBAP header with an illegal length (protocol error),
//             then aborts                                        -> "<n>"
//
// Expected tokens: ocaml/scn_slotsaddr.ml on the extracted Slots model, in
// which connections are identities and the address is a label the transition
// system never looks at (Model/SlotsAddr.v, Properties/C09c.v).

import (
	"fmt"
	"io"
	"net"
	"os"
	"runtime/debug"
	"strings"
	"sync"
	"syscall"
	"time"

	"github.com/simonvetter/modbus"
)

func init() {
	register("C09", scnSlotsAddr)
	executors["slotsaddr"] = runSlotsAddr
}

const saWatchdog = 5 * time.Second

// unit id of the requests whose handler call blocks
const saHoldUnit = 2

type saHandler struct {
	mu      sync.Mutex
	calls   int
	gates   map[uint16]chan struct{}
	entered chan uint16
}

func (h *saHandler) hit(unit uint8, addr uint16) {
	h.mu.Lock()
	h.calls++
	g := h.gates[addr]
	h.mu.Unlock()
	if unit == saHoldUnit && g != nil {
		h.entered <- addr
		<-g
	}
}
func (h *saHandler) HandleCoils(r *modbus.CoilsRequest) ([]bool, error) {
	h.hit(r.UnitId, r.Addr)
	return make([]bool, r.Quantity), nil
}
func (h *saHandler) HandleDiscreteInputs(r *modbus.DiscreteInputsRequest) ([]bool, error) {
	h.hit(r.UnitId, r.Addr)
	return make([]bool, r.Quantity), nil
}
func (h *saHandler) HandleHoldingRegisters(r *modbus.HoldingRegistersRequest) ([]uint16, error) {
	h.hit(r.UnitId, r.Addr)
	return make([]uint16, r.Quantity), nil
}
func (h *saHandler) HandleInputRegisters(r *modbus.InputRegistersRequest) ([]uint16, error) {
	h.hit(r.UnitId, r.Addr)
	return make([]uint16, r.Quantity), nil
}

type saConn struct {
	c       net.Conn
	served  bool          // its admission made the active list grow
	held    bool          // one of its requests is inside a blocked handler
	aborted bool          // the client side is gone
	gate    chan struct{} // releases the blocked handler
}

// saAbort closes with SO_LINGER 0: the peer gets a RST and the local address
// is free again at once (no TIME_WAIT)
func saAbort(c net.Conn) {
	if tc, ok := c.(*net.TCPConn); ok {
		tc.SetLinger(0)
	}
	c.Close()
}

func saReuseAddr(network, address string, rc syscall.RawConn) error {
	var serr error
	err := rc.Control(func(fd uintptr) {
		serr = syscall.SetsockoptInt(int(fd), syscall.SOL_SOCKET, syscall.SO_REUSEADDR, 1)
	})
	if err != nil {
		return err
	}
	return serr
}

// saFreePort asks the kernel for a port nobody is using right now
func saFreePort() int {
	l, err := net.Listen("tcp", "127.0.0.1:0")
	if err != nil {
		return 0
	}
	p := l.Addr().(*net.TCPAddr).Port
	l.Close()
	return p
}

// errSaLocal: the harness could not get hold of the local address (taken by
// another process meanwhile): nothing was learnt about the server
type errSaLocal struct{ err error }

func (e errSaLocal) Error() string { return "local-address:" + e.err.Error() }

// The fixed source ports are picked at run time; when one of them turns out to
// be unusable (another process of this machine grabbed it between two dials)
// the attempt is discarded and the trace is run again with new ports.
func runSlotsAddr(in []string) string {
	var out string
	for attempt := 0; attempt < 3; attempt++ {
		var again bool
		out, again = runSlotsAddrOnce(in)
		if !again {
			break
		}
	}
	return out
}

func runSlotsAddrOnce(in []string) (out string, again bool) {
	steerMu.Lock()
	defer steerMu.Unlock()
	defer func() {
		if r := recover(); r != nil {
			out = fmt.Sprintf("panic:%v", r)
		}
	}()
	st := newSteer()
	modbus.VerifSetYield(st.yield)
	defer modbus.VerifSetYield(nil)
	// a connection the server forgets about would otherwise be closed behind its
	// back by the finalizer of the collected net.Conn
	defer debug.SetGCPercent(debug.SetGCPercent(-1))

	maxc := atoi(in[0])
	h := &saHandler{gates: map[uint16]chan struct{}{}, entered: make(chan uint16, 64)}
	srv, err := modbus.NewServer(&modbus.ServerConfiguration{URL: "tcp://127.0.0.1:0", MaxClients: uint(maxc),
		Timeout: 60 * time.Second, Logger: quiet}, h)
	if err != nil {
		return "harness-error:newserver:" + err.Error(), false
	}
	if err = srv.Start(); err != nil {
		return "harness-error:start:" + err.Error(), false
	}
	la := srv.VerifListenAddr()
	if la == nil {
		srv.Stop()
		return "harness-error:no-listener", false
	}
	srvAddr := la.String()

	conns := map[int]*saConn{}
	heldAcc, heldEnd := -1, -1
	defer func() {
		// release whatever is still held so that every goroutine can finish
		st.mu.Lock()
		st.holdTaken, st.holdEnded = false, false
		st.mu.Unlock()
		if heldAcc >= 0 {
			st.releaseAcc <- struct{}{}
		}
		if heldEnd >= 0 {
			st.releaseEnd <- struct{}{}
		}
		for _, p := range conns {
			if p.held && p.gate != nil {
				close(p.gate)
			}
			if p.c != nil {
				saAbort(p.c)
			}
		}
		srv.Stop()
	}()

	count := func() int { _, n, _ := srv.VerifServerSnapshot(); return n }
	calls := func() int { h.mu.Lock(); defer h.mu.Unlock(); return h.calls }
	// once a watchdog has expired the case has failed: do not pay for the others
	wd := saWatchdog
	expired := func() { wd = 100 * time.Millisecond }
	waitFor := func(want int) {
		end := time.Now().Add(wd)
		for time.Now().Before(end) {
			if count() == want {
				return
			}
			time.Sleep(time.Millisecond)
		}
		expired()
	}
	sig := func(ch chan struct{}) {
		if !waitSig(ch, wd) {
			expired()
		}
	}

	ports := map[int]int{}
	dial := func(a int) (net.Conn, error) {
		if a == 0 {
			return net.DialTimeout("tcp", srvAddr, saWatchdog)
		}
		var c net.Conn
		var err error
		fresh := ports[a] == 0
		for attempt := 0; attempt < 150; attempt++ {
			if fresh && attempt%5 == 0 {
				// no connection was ever made from this label: any free port will do
				p := saFreePort()
				for _, q := range ports {
					if q == p {
						p = 0
					}
				}
				if p == 0 {
					continue
				}
				ports[a] = p
			}
			d := net.Dialer{LocalAddr: &net.TCPAddr{IP: net.IPv4(127, 0, 0, 1), Port: ports[a]},
				Timeout: saWatchdog, Control: saReuseAddr}
			c, err = d.Dial("tcp", srvAddr)
			if err == nil {
				return c, nil
			}
			time.Sleep(10 * time.Millisecond)
		}
		return nil, errSaLocal{err}
	}

	var outs []string
	for _, op := range in[1:] {
		kind := op[0]
		i, a := 0, 0
		if len(op) > 1 {
			f := strings.SplitN(op[1:], "@", 2)
			i = atoi(f[0])
			if len(f) == 2 {
				a = atoi(f[1])
			}
		}
		p := conns[i]
		before, calls0 := count(), calls()
		switch kind {
		case 'C', 'T':
			if kind == 'T' {
				st.mu.Lock()
				st.holdTaken = true
				st.mu.Unlock()
			}
			c, err := dial(a)
			if err != nil {
				st.mu.Lock()
				st.holdTaken = false
				st.mu.Unlock()
				if _, local := err.(errSaLocal); local {
					return "harness-error:" + err.Error(), true
				}
				return "harness-error:dial:" + err.Error(), false
			}
			p = &saConn{c: c}
			conns[i] = p
			if kind == 'T' {
				if !waitSig(st.takenCh, saWatchdog) {
					return "harness-error:no-taken-yield", false
				}
				heldAcc = i
				outs = append(outs, "taken")
				break
			}
			sig(st.enrolledCh)
			n := count()
			p.served = n > before
			outs = append(outs, itoa(n))
		case 'E':
			if heldAcc >= 0 {
				st.releaseAcc <- struct{}{}
				sig(st.enrolledCh)
			}
			n := count()
			if q := conns[heldAcc]; q != nil {
				q.served = n > before
			}
			heldAcc = -1
			outs = append(outs, itoa(n))
		case 'R':
			res := "closed"
			if p != nil && p.c != nil {
				res = saProbe(p.c)
			}
			outs = append(outs, res+"+"+itoa(calls()-calls0))
		case 'H':
			res := "closed"
			if p != nil && p.c != nil && !p.held {
				p.gate = make(chan struct{})
				h.mu.Lock()
				h.gates[uint16(i)] = p.gate
				h.mu.Unlock()
				p.c.SetWriteDeadline(time.Now().Add(saWatchdog))
				_, err := p.c.Write([]byte{0, 7, 0, 0, 0, 6, saHoldUnit, 3, byte(i >> 8), byte(i), 0, 1})
				if err == nil {
					select {
					case <-h.entered:
						res = "held"
						p.held = true
					case <-time.After(wd):
						expired()
					}
				}
			}
			outs = append(outs, res+"+"+itoa(calls()-calls0))
		case 'U', 'Y':
			if p == nil || !p.held {
				outs = append(outs, "notheld")
				break
			}
			if kind == 'Y' && p.aborted {
				st.mu.Lock()
				st.holdEnded = true
				st.mu.Unlock()
			}
			close(p.gate)
			p.held = false
			if !p.aborted {
				res := "closed"
				buf := make([]byte, 11)
				p.c.SetReadDeadline(time.Now().Add(wd))
				if _, err := io.ReadFull(p.c, buf); err == nil {
					res = "resp"
				} else if os.IsTimeout(err) {
					res = "noresp"
					expired()
				}
				outs = append(outs, res+":"+itoa(count()))
				break
			}
			// the server finds out now that the client is gone
			sig(st.endedCh)
			if kind == 'Y' {
				heldEnd = i
				outs = append(outs, itoa(count()))
				break
			}
			waitFor(before - 1)
			delete(conns, i)
			outs = append(outs, "gone:"+itoa(count()))
		case 'A', 'X':
			if p == nil || p.c == nil {
				outs = append(outs, itoa(count()))
				break
			}
			if kind == 'X' {
				st.mu.Lock()
				st.holdEnded = p.served && !p.held
				st.mu.Unlock()
			}
			saAbort(p.c)
			p.c = nil
			p.aborted = true
			switch {
			case p.held:
				// the session is inside the handler: nothing happens at the server
			case p.served && kind == 'X':
				sig(st.endedCh)
				heldEnd = i
			case p.served:
				sig(st.endedCh)
				waitFor(before - 1)
				delete(conns, i)
			default:
				delete(conns, i)
			}
			outs = append(outs, itoa(count()))
		case 'M':
			if heldEnd >= 0 {
				st.releaseEnd <- struct{}{}
				waitFor(before - 1)
				delete(conns, heldEnd)
			}
			heldEnd = -1
			outs = append(outs, itoa(count()))
		case 'B':
			if p != nil && p.c != nil {
				p.c.SetWriteDeadline(time.Now().Add(saWatchdog))
				p.c.Write([]byte{0, 1, 0, 0, 0, 0, 1})
				if p.served {
					sig(st.endedCh)
					waitFor(before - 1)
				}
				saAbort(p.c)
				delete(conns, i)
			}
			outs = append(outs, itoa(count()))
		default:
			return "harness-error:bad-op:" + op, false
		}
	}
	outs = append(outs, "calls="+itoa(calls()))
	return strings.Join(outs, " "), false
}

// saProbe: probe of c09.go with a watchdog that a loaded machine does not trip
func saProbe(c net.Conn) string {
	c.SetDeadline(time.Now().Add(saWatchdog))
	defer c.SetDeadline(time.Time{})
	if _, err := c.Write(probeReq); err != nil {
		return "closed"
	}
	buf := make([]byte, 11)
	if _, err := io.ReadFull(c, buf); err != nil {
		if os.IsTimeout(err) {
			return "noresp" // neither answered nor closed: the connection is left dangling
		}
		return "closed"
	}
	return "resp"
}

// ---------------------------------------------------------------- generator

// genAddrTrace draws a trace in which fixed addresses are dialled from again
// while the server's session for the previous connection from that address may
// still be alive. It follows the expected state of the server (which
// connections are on the list) only to know which operations make sense; it
// ends by releasing everything that is held, filling the server up to
// MaxClients, one connection beyond the limit, and a request on every
// connection that is still open.
func genAddrTrace(o *Out, r *Rng, maxc, n, naddr int) []string {
	type gc struct {
		addr    int
		served  bool
		held    bool
		aborted bool
	}
	var ops []string
	cs := map[int]*gc{}
	var order []int // connections whose client side is open, or that are held at the server
	next := 1
	list := 0 // expected length of the active list
	heldAcc, heldEnd := 0, 0 // connection held in the accept loop / before its removal
	busy := map[int]int{}  // address label -> connection whose client side uses it
	stale := map[int]int{} // address label -> sessions of gone clients still on the list
	rm := func(i int) {
		for k := range order {
			if order[k] == i {
				order = append(order[:k], order[k+1:]...)
				return
			}
		}
	}
	pickAddr := func() int {
		var free, reuse []int
		for a := 1; a <= naddr; a++ {
			if busy[a] == 0 {
				free = append(free, a)
				if stale[a] > 0 {
					reuse = append(reuse, a)
				}
			}
		}
		x := r.Intn(10)
		switch {
		case len(reuse) > 0 && x < 7:
			return reuse[r.Intn(len(reuse))]
		case len(free) > 0 && x < 9:
			return free[r.Intn(len(free))]
		}
		return 0
	}
	connect := func(kind string) {
		a := pickAddr()
		c := &gc{addr: a}
		if a > 0 {
			busy[a] = next
			if stale[a] > 0 {
				o.Stat("slotsaddr:dial-from-address-of-live-session")
				if kind == "C" && list < maxc {
					o.Stat("slotsaddr:admitted-next-to-live-session-of-its-address")
				}
			}
		}
		cs[next] = c
		order = append(order, next)
		ops = append(ops, kind+itoa(next)+"@"+itoa(a))
		if kind == "C" {
			c.served = list < maxc
			if c.served {
				list++
			}
		} else {
			heldAcc = next
		}
		next++
	}
	enrol := func() {
		c := cs[heldAcc]
		c.served = list < maxc
		if c.served {
			list++
		}
		heldAcc = 0
		ops = append(ops, "E")
	}
	// candidates: open at the client, not the connection held in the accept loop
	cand := func(f func(i int, c *gc) bool) []int {
		var l []int
		for _, i := range order {
			if i != heldAcc && f(i, cs[i]) {
				l = append(l, i)
			}
		}
		return l
	}
	gone := func(i int) { // the client side of i is closed
		c := cs[i]
		if c.addr > 0 && busy[c.addr] == i {
			busy[c.addr] = 0
		}
	}
	removed := func() { // the session held before its removal goes through it
		stale[cs[heldEnd].addr]--
		list--
		rm(heldEnd)
		heldEnd = 0
		ops = append(ops, "M")
	}
	for len(ops) < n {
		x := r.Intn(100)
		switch {
		case x < 26 && heldAcc == 0:
			connect("C")
		case x < 31 && heldAcc == 0:
			connect("T")
		case x < 38 && heldAcc != 0:
			enrol()
		case x < 46:
			if l := cand(func(i int, c *gc) bool { return !c.held && !c.aborted }); len(l) > 0 {
				ops = append(ops, "R"+itoa(l[r.Intn(len(l))]))
			}
		case x < 60:
			if l := cand(func(i int, c *gc) bool { return c.served && !c.held && !c.aborted }); len(l) > 0 {
				i := l[r.Intn(len(l))]
				cs[i].held = true
				ops = append(ops, "H"+itoa(i))
			}
		case x < 74:
			// abort: preferably a client whose session is inside a handler
			l := cand(func(i int, c *gc) bool { return c.held && !c.aborted })
			if len(l) == 0 || r.Intn(4) == 0 {
				l = cand(func(i int, c *gc) bool { return !c.aborted })
			}
			if len(l) > 0 {
				i := l[r.Intn(len(l))]
				c := cs[i]
				c.aborted = true
				gone(i)
				ops = append(ops, "A"+itoa(i))
				switch {
				case c.held:
					stale[c.addr]++
				case c.served:
					list--
					rm(i)
				default:
					rm(i)
				}
			}
		case x < 80 && heldEnd == 0:
			if l := cand(func(i int, c *gc) bool { return c.served && !c.held && !c.aborted }); len(l) > 0 {
				i := l[r.Intn(len(l))]
				cs[i].aborted = true
				gone(i)
				stale[cs[i].addr]++
				heldEnd = i
				ops = append(ops, "X"+itoa(i))
			}
		case x < 86 && heldEnd != 0:
			removed()
		case x < 94:
			if l := cand(func(i int, c *gc) bool { return c.held }); len(l) > 0 {
				i := l[r.Intn(len(l))]
				c := cs[i]
				switch {
				case !c.aborted:
					c.held = false
					ops = append(ops, "U"+itoa(i))
				case heldEnd == 0 && r.Intn(3) == 0:
					c.held = false
					heldEnd = i
					ops = append(ops, "Y"+itoa(i))
				default:
					c.held = false
					stale[c.addr]--
					list--
					rm(i)
					ops = append(ops, "U"+itoa(i))
				}
			}
		default:
			if l := cand(func(i int, c *gc) bool { return !c.held && !c.aborted }); len(l) > 0 {
				i := l[r.Intn(len(l))]
				c := cs[i]
				gone(i)
				if c.served {
					list--
				}
				rm(i)
				ops = append(ops, "B"+itoa(i))
			}
		}
	}
	// release what is held ...
	if heldAcc != 0 {
		enrol()
	}
	if heldEnd != 0 {
		removed()
	}
	for _, i := range append([]int(nil), order...) {
		if c := cs[i]; c.held {
			c.held = false
			ops = append(ops, "U"+itoa(i))
			if c.aborted {
				list--
				rm(i)
			}
		}
	}
	// ... fill the server, go one beyond the limit ...
	for stop := false; !stop; {
		stop = list >= maxc
		connect("C")
	}
	// ... and every connection that is still open: served, or closed unserved
	for _, i := range order {
		ops = append(ops, "R"+itoa(i))
	}
	return ops
}

func scnSlotsAddr(o *Out, r *Rng, thorough bool) {
	fixed := []string{
		// the client aborts while its session is inside a handler and dials again
		// from the same source address; the old session ends later
		"2 C1@1 H1 A1 C2@1 R2 U1 C3@0 C4@0 R2 R3 R4",
		"1 C1@1 H1 A1 C2@1 R2 U1 A2 C3@1 R3 C4@0 R4 R3",
		"3 C1@1 C2@2 H1 H2 A1 A2 C3@1 C4@2 R3 R4 U2 U1 C5@0 C6@0 C7@0 R3 R5 R6 R7",
		// the old session waits before its removal critical section
		"2 C1@1 X1 C2@1 R2 M C3@0 C4@0 R2 R3 R4",
		"2 C1@1 H1 A1 Y1 C2@1 R2 M R2 C3@0 C4@0 R2 R3 R4",
		// the new connection is between Accept and its admission when the old one goes
		"2 C1@1 H1 A1 T2@1 U1 E R2 C3@0 C4@0 R2 R3 R4",
		"2 C1@1 X1 T2@1 M E R2 C3@0 C4@0 R2 R3 R4",
		// several generations from one address
		"3 C1@1 H1 A1 C2@1 H2 A2 C3@1 R3 U1 R3 U2 R3 C4@0 C5@0 C6@0 R3 R4 R5 R6",
		"4 C1@1 H1 A1 C2@1 H2 A2 C3@1 H3 A3 C4@1 C5@0 R4 R5 U2 U3 U1 R4 C6@0 C7@0 C8@0 R4 R5 R6 R7 R8",
		// the same with clients that never reuse an address, and a handler that is
		// released while its client is still there
		"2 C1@0 H1 C2@0 R2 U1 R1 A1 C3@0 C4@0 R2 R3 R4",
	}
	for _, f := range fixed {
		o.Run("slotsaddr", f)
	}
	n := 60
	if thorough {
		n = 1500
	}
	for k := 0; k < n; k++ {
		maxc := 1 + r.Intn(4)
		naddr := 1 + r.Intn(3)
		o.Run("slotsaddr", itoa(maxc)+" "+strings.Join(genAddrTrace(o, r, maxc, 6+r.Intn(24), naddr), " "))
		o.Stat("slotsaddr:maxc:" + itoa(maxc))
	}
}
